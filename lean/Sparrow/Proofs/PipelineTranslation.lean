import Sparrow.Model.Pipeline
import Sparrow.Proofs.Tiling
import Sparrow.Proofs.PointPatchLemmas
import Sparrow.Proofs.StokesLemmas
import Sparrow.Proofs.VisibilityLemmas
import Sparrow.Proofs.FrameLemmas
import Sparrow.Proofs.RealInst
import Sparrow.Proofs.NusseltLemmas

namespace Sparrow
open Vec3

/-! ### generic helpers -/

theorem foldl_range_congr {β : Type} (n : Nat) (f g : β → Nat → β) (z : β)
    (h : ∀ acc i, i < n → f acc i = g acc i) :
    (List.range n).foldl f z = (List.range n).foldl g z :=
  List.foldl_ext f g z (fun a b hb => h a b (List.mem_range.mp hb))

theorem all_range_congr (n : Nat) (p q : Nat → Bool) (h : ∀ i, i < n → p i = q i) :
    (List.range n).all p = (List.range n).all q := by
  rw [Bool.eq_iff_iff]
  simp only [List.all_eq_true, List.mem_range]
  constructor <;> intro H i hi
  · rw [← h i hi]; exact H i hi
  · rw [h i hi]; exact H i hi

theorem any_range_congr (n : Nat) (p q : Nat → Bool) (h : ∀ i, i < n → p i = q i) :
    (List.range n).any p = (List.range n).any q := by
  rw [Bool.eq_iff_iff]
  simp only [List.any_eq_true, List.mem_range]
  constructor <;> rintro ⟨i, hi, H⟩
  · exact ⟨i, hi, by rw [← h i hi]; exact H⟩
  · exact ⟨i, hi, by rw [h i hi]; exact H⟩

theorem tabulate2_congr {β : Type} (P S : Nat) (f g : Nat → Nat → β)
    (h : ∀ i, i < P → ∀ j, j < S → f i j = g i j) : tabulate2 P S f = tabulate2 P S g := by
  unfold tabulate2
  congr 1; funext i
  simp only
  congr 1; funext j
  exact h i i.isLt j j.isLt

theorem tabulate3_congr {β : Type} (P D S : Nat) (f g : Nat → Nat → Nat → β)
    (h : ∀ i, i < P → ∀ j, j < D → ∀ k, k < S → f i j k = g i j k) :
    tabulate3 P D S f = tabulate3 P D S g := by
  unfold tabulate3
  congr 1; funext i
  simp only
  congr 1; funext j
  congr 1; funext k
  exact h i i.isLt j j.isLt k k.isLt

theorem ofFn_congr {β : Type} (n : Nat) (f g : Fin n → β) (h : ∀ k, f k = g k) :
    Array.ofFn f = Array.ofFn g := by
  rw [funext h]

/-! ### centre and area -/

theorem polygonCenter_tr (f f' : Nat → Vec3 ℝ) (t : Vec3 ℝ) (h : ∀ v, v < 4 → f' v = add (f v) t) :
    polygonCenter f' 4 = add (polygonCenter f 4) t := by
  unfold polygonCenter
  simp only [List.range_succ, List.range_zero, List.nil_append, List.cons_append, List.foldl_cons,
    List.foldl_nil, h 0 (by norm_num), h 1 (by norm_num), h 2 (by norm_num), h 3 (by norm_num)]
  refine Vec3.ext' ?_ ?_ ?_ <;> simp only [add, sdiv] <;> push_cast <;> ring

theorem polygonArea_tr (f f' : Nat → Vec3 ℝ) (t : Vec3 ℝ) (h : ∀ v, v < 4 → f' v = add (f v) t) :
    polygonArea f' 4 = polygonArea f 4 := by
  unfold polygonArea
  simp only [Nat.reduceSub, List.range_succ, List.range_zero, List.nil_append, List.cons_append,
    List.foldl_cons, List.foldl_nil, Nat.reduceAdd, h 0 (by norm_num), h 1 (by norm_num),
    h 2 (by norm_num), h 3 (by norm_num), sub_add_add]

/-! ### point-to-patch factors -/

theorem interiorAngle_tr (thr : ℝ) (x t : Vec3 ℝ) (f f' : Nat → Vec3 ℝ) (n i : Nat) (hi : i < n)
    (h : ∀ v, v < n → f' v = add (f v) t) :
    interiorAngle thr (add x t) f' n i = interiorAngle thr x f n i := by
  have hn : 0 < n := by omega
  have hs : ∀ v, v < n → onSphere (add x t) f' v = onSphere x f v := by
    intro v hv
    unfold onSphere
    rw [h v hv, sub_add_add]
  unfold interiorAngle
  simp only [hs i hi, hs _ (Nat.mod_lt (i + n - 1) hn), hs _ (Nat.mod_lt (i + 1) hn)]

theorem sphericalExcess_tr (thr : ℝ) (x t : Vec3 ℝ) (f f' : Nat → Vec3 ℝ) (n : Nat)
    (h : ∀ v, v < n → f' v = add (f v) t) :
    sphericalExcess thr (add x t) f' n = sphericalExcess thr x f n := by
  unfold sphericalExcess
  congr 1
  apply foldl_range_congr
  intro acc i hi
  rw [interiorAngle_tr thr x t f f' n i hi h]

theorem ptSource_tr (thr : ℝ) (x t : Vec3 ℝ) (f f' : Nat → Vec3 ℝ) (n : Nat)
    (h : ∀ v, v < n → f' v = add (f v) t) :
    ptSource thr (add x t) f' n = ptSource thr x f n := by
  unfold ptSource
  rw [sphericalExcess_tr thr x t f f' n h]

theorem ptReceiver_tr (thr : ℝ) (x t : Vec3 ℝ) (f f' : Nat → Vec3 ℝ)
    (h : ∀ v, v < 4 → f' v = add (f v) t) :
    ptReceiver thr (add x t) f' 4 = ptReceiver thr x f 4 := by
  unfold ptReceiver
  rw [sphericalExcess_tr thr x t f f' 4 h, polygonArea_tr f f' t h]

/-! ### visibility -/

theorem Vec2.ext' {a b : Vec2 ℝ} (hx : a.x = b.x) (hy : a.y = b.y) : a = b := by
  cases a; cases b; simp_all

theorem Vec2.sub_add_add (p q t : Vec2 ℝ) : Vec2.sub (Vec2.add p t) (Vec2.add q t) = Vec2.sub p q := by
  refine Vec2.ext' ?_ ?_ <;> simp [Vec2.add, Vec2.sub]

theorem projectToLine2_translation (eps : ℝ) (a b p0 n t : Vec2 ℝ) :
    projectToLine2 eps (Vec2.add a t) (Vec2.add b t) (Vec2.add p0 t) n =
      (projectToLine2 eps a b p0 n).map (fun p => Vec2.add p t) := by
  unfold projectToLine2
  simp only [Vec2.sub_add_add]
  by_cases hc : Cmp.lt eps (Cmp.abs (Vec2.dot (Vec2.sub b a) n)) = true
  · rw [if_pos hc, if_pos hc]
    simp only [Option.map_some]
    congr 1
    unfold Vec2.add Vec2.sub Vec2.smul
    refine Vec2.ext' ?_ ?_ <;> simp only <;> ring
  · rw [if_neg hc, if_neg hc]
    rfl

theorem windingSide_translation (eta : ℝ) (pt a0 a1 τ : Vec2 ℝ) :
    windingSide eta (Vec2.add pt τ) (Vec2.add a0 τ) (Vec2.add a1 τ) = windingSide eta pt a0 a1 := by
  have hcomm : Vec2.add (Vec2.add pt τ) ⟨1, 0⟩ = Vec2.add (Vec2.add pt ⟨1, 0⟩) τ := by
    refine Vec2.ext' ?_ ?_ <;> simp only [Vec2.add] <;> ring
  unfold windingSide
  simp only [Vec2.sub_add_add, hcomm, projectToLine2_translation]
  cases projectToLine2 eta pt (Vec2.add pt ⟨1, 0⟩) a1
      ⟨-(Vec2.sub a1 a0).y / Vec2.norm (Vec2.sub a1 a0), (Vec2.sub a1 a0).x / Vec2.norm (Vec2.sub a1 a0)⟩ with
  | none => rfl
  | some b =>
    simp only [Option.map_some, Vec2.sub_add_add]
    have hx : Cmp.lt (Vec2.add pt τ).x (Vec2.add b τ).x = Cmp.lt pt.x b.x := by
      simp only [Vec2.add, cmp_lt_real, add_lt_add_iff_right]
    rw [hx]

theorem pointInPolygon_tr (eta : ℝ) (p t nrm : Vec3 ℝ) (poly poly' : Nat → Vec3 ℝ) (n : Nat) (hn : 0 < n)
    (h : ∀ v, v < n → poly' v = add (poly v) t) :
    pointInPolygon eta (add p t) poly' n nrm = pointInPolygon eta p poly n nrm := by
  have hlin : ∀ q : Vec3 ℝ,
      (⟨((rotationToZ nrm).mulVec (add q t)).x, ((rotationToZ nrm).mulVec (add q t)).y⟩ : Vec2 ℝ) =
        Vec2.add ⟨((rotationToZ nrm).mulVec q).x, ((rotationToZ nrm).mulVec q).y⟩
          ⟨((rotationToZ nrm).mulVec t).x, ((rotationToZ nrm).mulVec t).y⟩ := by
    intro q
    refine Vec2.ext' ?_ ?_ <;> simp only [Vec2.add, Mat3.mulVec, dot, add] <;> ring
  unfold pointInPolygon
  rw [h 0 hn, sub_add_add]
  by_cases hc : Cmp.lt eta (Cmp.abs (dot (sub p (poly 0)) nrm)) = true
  · rw [if_pos hc, if_pos hc]
  · rw [if_neg hc, if_neg hc]
    simp only
    congr 1
    apply foldl_range_congr
    intro acc i hi
    rw [h i hi, h _ (Nat.mod_lt (i + 1) hn)]
    simp only [hlin, windingSide_translation]

theorem basicVisibilityWith_tr (eta : ℝ) (inS inS' : Vec3 ℝ → Bool) (a b p0 n t : Vec3 ℝ)
    (hS : ∀ q, inS' (add q t) = inS q) :
    basicVisibilityWith eta inS' (add a t) (add b t) (add p0 t) n = basicVisibilityWith eta inS a b p0 n := by
  unfold basicVisibilityWith
  simp only [hS, projectToPlane_translation, sub_add_add]
  cases projectToPlane eta a b p0 n with
  | none => rfl
  | some pt => simp only [Option.map_some, hS, sub_add_add]

theorem basicVisibility_tr (eta : ℝ) (a b t nrm : Vec3 ℝ) (poly poly' : Nat → Vec3 ℝ) (n : Nat) (hn : 0 < n)
    (h : ∀ v, v < n → poly' v = add (poly v) t) :
    basicVisibility eta (add a t) (add b t) poly' n nrm = basicVisibility eta a b poly n nrm := by
  unfold basicVisibility
  rw [h 0 hn]
  apply basicVisibilityWith_tr
  intro q
  exact pointInPolygon_tr eta q t nrm poly poly' n hn h

theorem visibleThroughAll_tr (eta : ℝ) (a b t : Vec3 ℝ) (nS : Nat) (surf surf' : Nat → Nat → Vec3 ℝ) (n : Nat)
    (nrm nrm' : Nat → Vec3 ℝ) (hn : 0 < n)
    (h : ∀ s, s < nS → ∀ v, v < n → surf' s v = add (surf s v) t)
    (hnrm : ∀ s, s < nS → nrm' s = nrm s) :
    visibleThroughAll eta (add a t) (add b t) nS surf' n nrm' = visibleThroughAll eta a b nS surf n nrm := by
  unfold visibleThroughAll
  apply all_range_congr
  intro s hs
  rw [hnrm s hs]
  exact basicVisibility_tr eta a b t (nrm s) (surf s) (surf' s) n hn (h s hs)

/-! ### form factors: dependence on the vertices `0 … n-1` only -/

theorem coincide_congr (thr : ℝ) (pi pi' pj pj' : Nat → Vec3 ℝ) (ni nj : Nat)
    (hi : ∀ v, v < ni → pi' v = pi v) (hj : ∀ v, v < nj → pj' v = pj v) :
    coincide thr pi' pj' ni nj = coincide thr pi pj ni nj := by
  unfold coincide
  apply any_range_congr; intro i hi'
  apply any_range_congr; intro j hj'
  rw [hi i hi', hj j hj']

theorem bpoint_congr (el el' : Nat → Vec3 ℝ) (n k : Nat) (hk : k < 4 * n)
    (h : ∀ v, v < n → el' v = el v) : bpoint el' n k = bpoint el n k := by
  have hn : 0 < n := by omega
  have h1 : k / 4 < n := by omega
  unfold bpoint
  simp only [h _ h1, h _ (Nat.mod_lt _ hn)]

theorem conn_lt (n a k : Nat) (hn : 0 < n) : conn n a k < 4 * n := by
  unfold conn
  exact Nat.mod_lt _ (by omega)

theorem G_congr (cut : ℝ) (el el' : Nat → Vec3 ℝ) (n a dim : Nat) (hn : 0 < n)
    (h : ∀ v, v < n → el' v = el v) : G cut el' n a dim = G cut el n a dim := by
  unfold G bcoord
  simp only [bpoint_congr el el' n _ (conn_lt n a _ hn) h]

theorem WW_congr (pi pi' pj pj' : Nat → Vec3 ℝ) (ni nj a b : Nat) (hni : 0 < ni) (hnj : 0 < nj)
    (hi : ∀ v, v < ni → pi' v = pi v) (hj : ∀ v, v < nj → pj' v = pj v) :
    WW pi' pj' ni nj a b = WW pi pj ni nj a b := by
  unfold WW formEntry
  simp only [bpoint_congr pi pi' ni _ (conn_lt ni a _ hni) hi,
    bpoint_congr pj pj' nj _ (conn_lt nj b _ hnj) hj]

theorem stokesFF_congr (cut : ℝ) (pi pi' pj pj' : Nat → Vec3 ℝ) (ni nj : Nat) (areaI : ℝ)
    (hi : ∀ v, v < ni → pi' v = pi v) (hj : ∀ v, v < nj → pj' v = pj v) :
    stokesFF cut pi' pj' ni nj areaI = stokesFF cut pi pj ni nj areaI := by
  unfold stokesFF
  rw [stokesOuter_eq, stokesOuter_eq]
  have : (∑ dim ∈ Finset.range 3, ∑ a ∈ Finset.range ni, ∑ b ∈ Finset.range nj,
        G cut pi' ni a dim * G cut pj' nj b dim * WW pi' pj' ni nj a b) =
      ∑ dim ∈ Finset.range 3, ∑ a ∈ Finset.range ni, ∑ b ∈ Finset.range nj,
        G cut pi ni a dim * G cut pj nj b dim * WW pi pj ni nj a b := by
    refine Finset.sum_congr rfl fun dim _ => Finset.sum_congr rfl fun a ha =>
      Finset.sum_congr rfl fun b hb => ?_
    have hni : 0 < ni := by have := Finset.mem_range.mp ha; omega
    have hnj : 0 < nj := by have := Finset.mem_range.mp hb; omega
    rw [G_congr cut pi pi' ni a dim hni hi, G_congr cut pj pj' nj b dim hnj hj,
      WW_congr pi pi' pj pj' ni nj a b hni hnj hi hj]
  rw [this]

theorem polygonArea_congr (g g' : Nat → Vec3 ℝ) (n : Nat) (h : ∀ v, v < n → g' v = g v) :
    polygonArea g' n = polygonArea g n := by
  unfold polygonArea
  apply foldl_range_congr
  intro acc i hi
  rw [h (i + 1) (by omega), h (i + 2) (by omega), h 0 (by omega)]

theorem bpoint2_congr (el el' : Nat → Vec3 ℝ) (n k : Nat) (hk : k < 2 * n)
    (h : ∀ v, v < n → el' v = el v) : bpoint2 el' n k = bpoint2 el n k := by
  have hn : 0 < n := by omega
  have h1 : k / 2 < n := by omega
  unfold bpoint2
  simp only [h _ h1, h _ (Nat.mod_lt _ hn)]

theorem nusseltAnalog_congr_bdd (o sn pn : Vec3 ℝ) (pts pts' : Nat → Vec3 ℝ) (n : Nat) (hn : 3 ≤ n)
    (h : ∀ v, v < n → pts' v = pts v) :
    nusseltAnalog o sn pts' n pn = nusseltAnalog o sn pts n pn := by
  have hsph : ∀ k, k < 2 * n → normalize (sub (bpoint2 pts' n k) o) = normalize (sub (bpoint2 pts n k) o) := by
    intro k hk
    rw [bpoint2_congr pts pts' n k hk h]
  unfold nusseltAnalog
  simp only [h 0 (by omega), h 1 (by omega), h 2 (by omega)]
  congr 1
  · apply polygonArea_congr
    intro v hv
    simp only [hsph (2 * v) (by omega)]
  · congr 1
    apply foldl_range_congr
    intro acc j hj
    have he : (2 * j + 2) % (2 * n) < 2 * n := Nat.mod_lt _ (by omega)
    simp only [hsph (2 * j) (by omega), hsph (2 * j + 1) (by omega), hsph _ he]

theorem surfSamples_congr (el el' : Nat → Vec3 ℝ) (nv npoints : Nat) (hnv : 2 ≤ nv)
    (h : ∀ v, v < nv → el' v = el v) : surfSamples el' nv npoints = surfSamples el nv npoints := by
  unfold surfSamples
  simp only [h 0 (by omega), h 1 (by omega), h (nv - 1) (by omega)]

theorem nusseltFF_congr (pi pi' pj pj' : Nat → Vec3 ℝ) (ni nj : Nat) (nrmI nrmJ : Vec3 ℝ) (ns : Nat)
    (hni : 2 ≤ ni) (hnj : 3 ≤ nj)
    (hi : ∀ v, v < ni → pi' v = pi v) (hj : ∀ v, v < nj → pj' v = pj v) :
    nusseltFF pi' ni nrmI pj' nj nrmJ ns = nusseltFF pi ni nrmI pj nj nrmJ ns := by
  have hf : (fun acc p0 => acc + nusseltAnalog p0 nrmI pj' nj nrmJ) =
      (fun acc p0 => acc + nusseltAnalog p0 nrmI pj nj nrmJ) := by
    funext acc p0
    rw [nusseltAnalog_congr_bdd p0 nrmI nrmJ pj pj' nj hnj hj]
  unfold nusseltFF
  simp only [surfSamples_congr pi pi' ni ns hni hi, hf]

theorem universalFF_congr (pi pi' pj pj' : Nat → Vec3 ℝ) (ni nj : Nat) (nrmI nrmJ : Vec3 ℝ) (areaI : ℝ)
    (hni : 3 ≤ ni) (hnj : 3 ≤ nj)
    (hi : ∀ v, v < ni → pi' v = pi v) (hj : ∀ v, v < nj → pj' v = pj v) :
    universalFF pi' ni nrmI areaI pj' nj nrmJ = universalFF pi ni nrmI areaI pj nj nrmJ := by
  unfold universalFF chooseIntegrator
  simp only [coincide_congr _ pi pi' pj pj' ni nj hi hj,
    nusseltFF_congr pi pi' pj pj' ni nj nrmI nrmJ 64 (by omega) hnj hi hj,
    stokesFF_congr _ pi pi' pj pj' ni nj areaI hi hj]

theorem universalFF_tr (f f' g g' : Nat → Vec3 ℝ) (ni nj : Nat) (nrmI nrmJ t : Vec3 ℝ) (areaI : ℝ)
    (hni : 3 ≤ ni) (hnj : 3 ≤ nj)
    (hi : ∀ v, v < ni → f' v = add (f v) t) (hj : ∀ v, v < nj → g' v = add (g v) t) :
    universalFF f' ni nrmI areaI g' nj nrmJ = universalFF f ni nrmI areaI g nj nrmJ := by
  rw [universalFF_congr (fun k => add (f k) t) f' (fun k => add (g k) t) g' ni nj nrmI nrmJ areaI hni hnj hi hj]
  exact universalFF_translation f g ni nj nrmI nrmJ t areaI


/-- the same room moved by the vector `t` (normals and up vectors are directions: unchanged) -/
def Room.translate (r : Room ℝ) (t : Vec3 ℝ) : Room ℝ :=
  { r with wallPts := fun w v => add (r.wallPts w v) t }

/-- what a user observes of a run -/
def RunResult.observed (r : RunResult ℝ) :=
  (r.P, r.D, r.pairs, r.F, r.fft, r.outIdx, r.e0, r.dist0, r.etc, r.mono)

/-! ### the patches of the translated room -/

/-- a patch moved by `t` -/
def trP (t : Vec3 ℝ) (p : PatchRec ℝ) : PatchRec ℝ :=
  { wall := p.wall, pts := p.pts.map (fun q => add q t) }

theorem grid_translate (w : Quad ℝ) (t : Nat → ℝ) (p : ℝ) :
    grid (fun v a => w v a + t a) p =
      (grid w p).map (fun g => { g with xMin := g.xMin + t g.xIdx, yMin := g.yMin + t g.yIdx }) := by
  unfold grid
  simp only [patchNum_add, extent_add]
  rcases hpa : planeAxes (patchNum w p 0) (patchNum w p 1) (patchNum w p 2) with _ | ⟨xi, yi⟩
  · rfl
  · simp only [Option.map_some, minOver_add (fun v => w v xi), minOver_add (fun v => w v yi)]

theorem patchOf_translate (w : Quad ℝ) (t : Nat → ℝ) (g : Grid ℝ) (k v a : Nat) :
    patchOf (fun v a => w v a + t a) { g with xMin := g.xMin + t g.xIdx, yMin := g.yMin + t g.yIdx } k v a
      = patchOf w g k v a + t a := by
  unfold patchOf patchCoord
  simp only
  by_cases hax : a = g.xIdx
  · subst hax; simp only [if_true]; ring
  · by_cases hay : a = g.yIdx
    · subst hay; simp only [if_neg hax, if_true]; ring
    · simp only [if_neg hax, if_neg hay]

theorem foldl_push_map {β γ : Type} (f : β → γ) (mk : Nat → β) (mk' : Nat → γ) (l : List Nat)
    (h : ∀ k, mk' k = f (mk k)) (arr : Array β) :
    l.foldl (fun ar k => ar.push (mk' k)) (arr.map f) =
      (l.foldl (fun ar k => ar.push (mk k)) arr).map f := by
  induction l generalizing arr with
  | nil => rfl
  | cons a l ih =>
    simp only [List.foldl_cons]
    rw [h a, ← Array.map_push, ih]

theorem foldl_map_comm {α β γ : Type} (φ : α → β) (f : α → γ → α) (g : β → γ → β) (l : List γ) (a : α) (b : β)
    (hinit : b = φ a) (h : ∀ a c, g (φ a) c = φ (f a c)) : l.foldl g b = φ (l.foldl f a) := by
  subst hinit
  induction l generalizing a with
  | nil => rfl
  | cons c l ih => simp only [List.foldl_cons, h, ih]

theorem makePatches_translate (room : Room ℝ) (t : Vec3 ℝ) :
    makePatches (room.translate t) = (makePatches room).map (fun arr => arr.map (trP t)) := by
  unfold makePatches
  refine foldl_map_comm (Option.map (fun (arr : Array (PatchRec ℝ)) => arr.map (trP t))) _ _ _ _ _ (by simp) ?_
  intro acc w
  cases acc with
  | none => rfl
  | some arr =>
    have hq : (fun v a => ((room.translate t).wallPts w v).get a) =
        fun v a => (fun v a => (room.wallPts w v).get a) v a + t.get a := by
      funext v a
      exact get_add _ _ _
    simp only [Option.map_some]
    rw [hq, grid_translate]
    have hps : (room.translate t).patchSize = room.patchSize := rfl
    rw [hps]
    cases grid (fun v a => (room.wallPts w v).get a) room.patchSize with
    | none => rfl
    | some g =>
      simp only [Option.map_some]
      congr 1
      apply foldl_push_map
      intro k
      simp only [patchOf_translate, trP]
      have h0 : t.get 0 = t.x := rfl
      have h1 : t.get 1 = t.y := rfl
      have h2 : t.get 2 = t.z := rfl
      simp [h0, h1, h2, add]

theorem foldl_inv {α β : Type} (Q : α → Prop) (f : α → β → α) (l : List β) (a : α) (h0 : Q a)
    (hs : ∀ a b, Q a → Q (f a b)) : Q (l.foldl f a) := by
  induction l generalizing a with
  | nil => exact h0
  | cons b l ih => exact ih _ (hs a b h0)

theorem makePatches_size4 (room : Room ℝ) :
    ∀ arr, makePatches room = some arr → ∀ p ∈ arr, p.pts.size = 4 := by
  unfold makePatches
  apply foldl_inv (fun (o : Option (Array (PatchRec ℝ))) => ∀ arr, o = some arr → ∀ p ∈ arr, p.pts.size = 4)
  · intro arr h p hp
    simp only [Option.some.injEq] at h
    subst h
    simp at hp
  · intro acc w hacc arr h
    cases acc with
    | none => simp at h
    | some a0 =>
      simp only at h
      split at h
      · simp at h
      · simp only [Option.some.injEq] at h
        subst h
        apply foldl_inv (fun (ar : Array (PatchRec ℝ)) => ∀ p ∈ ar, p.pts.size = 4)
        · exact hacc a0 rfl
        · intro ar k har p hp
          rcases Array.mem_push.mp hp with hp | hp
          · exact har p hp
          · subst hp; rfl


/-! ### `bake_geometry` as a function of the patch list -/

theorem getD_ofFn {β : Type} (n : Nat) (f : Fin n → β) (k : Nat) (h : k < n) (d : β) :
    (Array.ofFn f).getD k d = f ⟨k, h⟩ := by
  simp [Array.getD_eq_getD_getElem?, h]

theorem getD_map_trP (ps : Array (PatchRec ℝ)) (t : Vec3 ℝ) (k : Nat) :
    (ps.map (trP t)).getD k { wall := 0, pts := #[] } = trP t (ps.getD k { wall := 0, pts := #[] }) := by
  simp only [Array.getD_eq_getD_getElem?, Array.getElem?_map]
  cases ps[k]? with
  | none => simp [trP]
  | some p => rfl

theorem trP_pt (t : Vec3 ℝ) (p : PatchRec ℝ) (hp : p.pts.size = 4) (v : Nat) (hv : v < 4) :
    (trP t p).pt v = add (p.pt v) t := by
  have hv' : v < p.pts.size := by omega
  simp [PatchRec.pt, trP, Array.getD_eq_getD_getElem?, Array.getElem?_map, Array.getElem?_eq_getElem hv']

section Bake
variable (eta : ℝ) (room : Room ℝ) (mat : Materials ℝ) (P : Nat) (ps : Array (PatchRec ℝ))

def bPP (k : Nat) : PatchRec ℝ := ps.getD k { wall := 0, pts := #[] }

noncomputable def bCenters : Array (Vec3 ℝ) :=
  Array.ofFn (n := P) fun k => polygonCenter (fun v => (bPP ps k.val).pt v) 4

noncomputable def bAreas : Array ℝ :=
  Array.ofFn (n := P) fun k => polygonArea (fun v => (bPP ps k.val).pt v) 4

noncomputable def bCen (k : Nat) : Vec3 ℝ := (bCenters P ps).getD k ⟨0, 0, 0⟩

def bNrm (k : Nat) : Vec3 ℝ := room.wallNormal (bPP ps k).wall

noncomputable def bVis : Tab2 ℝ :=
  tabulate2 P P fun i j =>
    if i < j then
      (if visibleThroughAll eta (bCen P ps i) (bCen P ps j) P (fun s v => (bPP ps s).pt v) 4 (bNrm room ps)
        then (1 : ℝ) else 0)
    else 0

noncomputable def bVisB (i j : Nat) : Bool := Cmp.lt 0 (lookup2 (bVis eta room P ps) i j)

noncomputable def bPairs : List (Nat × Nat) :=
  (List.range P).flatMap fun i => ((List.range P).filter fun j => bVisB eta room P ps i j).map fun j => (i, j)

noncomputable def bF : Tab2 ℝ :=
  tabulate2 P P fun i j =>
    if bVisB eta room P ps i j then
      universalFF (fun v => (bPP ps i).pt v) 4 (bNrm room ps i) ((bAreas P ps).getD i 0)
        (fun v => (bPP ps j).pt v) 4 (bNrm room ps j)
    else 0

noncomputable def bScene : BakeScene ℝ :=
  { P := P, D := mat.nOut, nIn := mat.nIn, center := bCen P ps, area := fun k => (bAreas P ps).getD k 0
    F := fun i j => lookup2 (bF eta room P ps) i j, vis := bVisB eta room P ps
    wall := fun k => (bPP ps k).wall, tableIdx := mat.tableIdx
    inDirs := fun w k =>
      ⟨lookup2 (tabulate2 room.W mat.nIn fun w k => (rotateToWall (room.wallNormal w) (room.wallUp w) (mat.refIn k)).x) w k,
       lookup2 (tabulate2 room.W mat.nIn fun w k => (rotateToWall (room.wallNormal w) (room.wallUp w) (mat.refIn k)).y) w k,
       lookup2 (tabulate2 room.W mat.nIn fun w k => (rotateToWall (room.wallNormal w) (room.wallUp w) (mat.refIn k)).z) w k⟩
    outDirs := fun w k =>
      ⟨lookup2 (tabulate2 room.W mat.nOut fun w k => (rotateToWall (room.wallNormal w) (room.wallUp w) (mat.refOut k)).x) w k,
       lookup2 (tabulate2 room.W mat.nOut fun w k => (rotateToWall (room.wallNormal w) (room.wallUp w) (mat.refOut k)).y) w k,
       lookup2 (tabulate2 room.W mat.nOut fun w k => (rotateToWall (room.wallNormal w) (room.wallUp w) (mat.refOut k)).z) w k⟩
    table := mat.table, hasTable := true, att := mat.att }

noncomputable def bakeP : Baked ℝ :=
  { P := P, patches := ps, centers := bCenters P ps, areas := bAreas P ps, pairs := bPairs eta room P ps
    F := bF eta room P ps, scene := bScene eta room mat P ps }

end Bake

theorem bakeRoom_eq (eta : ℝ) (room : Room ℝ) (mat : Materials ℝ) :
    bakeRoom eta room mat = (makePatches room).map (fun ps => bakeP eta room mat ps.size ps) := by
  unfold bakeRoom
  cases makePatches room <;> rfl

/-! ### the baked scene of the translated room -/

/-- `ps'` are the patches `ps` moved by `t` (first `P` patches, four vertices each) -/
structure PatchesTr (t : Vec3 ℝ) (P : Nat) (ps ps' : Array (PatchRec ℝ)) : Prop where
  wall : ∀ k, (bPP ps' k).wall = (bPP ps k).wall
  pt : ∀ k, k < P → ∀ v, v < 4 → (bPP ps' k).pt v = add ((bPP ps k).pt v) t

theorem patchesTr_map (t : Vec3 ℝ) (ps : Array (PatchRec ℝ)) (h4 : ∀ p ∈ ps, p.pts.size = 4) :
    PatchesTr t ps.size ps (ps.map (trP t)) := by
  constructor
  · intro k
    unfold bPP
    rw [getD_map_trP]
    rfl
  · intro k hk v hv
    unfold bPP
    rw [getD_map_trP]
    apply trP_pt _ _ _ v hv
    apply h4
    simp [Array.getD_eq_getD_getElem?, Array.getElem?_eq_getElem hk]

section BakeTr
variable (eta : ℝ) (room : Room ℝ) (mat : Materials ℝ) (P : Nat) (ps ps' : Array (PatchRec ℝ)) (t : Vec3 ℝ)
  (H : PatchesTr t P ps ps')
include H

theorem bCen_tr (k : Nat) (hk : k < P) : bCen P ps' k = add (bCen P ps k) t := by
  unfold bCen bCenters
  rw [getD_ofFn _ _ k hk, getD_ofFn _ _ k hk]
  exact polygonCenter_tr _ _ t (H.pt k hk)

theorem bAreas_tr : bAreas P ps' = bAreas P ps := by
  unfold bAreas
  apply ofFn_congr
  intro k
  exact polygonArea_tr _ _ t (H.pt k k.isLt)

theorem bNrm_tr : bNrm (room.translate t) ps' = bNrm room ps := by
  funext k
  unfold bNrm
  rw [H.wall k]
  rfl

theorem bVis_tr : bVis eta (room.translate t) P ps' = bVis eta room P ps := by
  unfold bVis
  apply tabulate2_congr
  intro i hi j hj
  rw [bCen_tr P ps ps' t H i hi, bCen_tr P ps ps' t H j hj, bNrm_tr room P ps ps' t H]
  rw [visibleThroughAll_tr eta (bCen P ps i) (bCen P ps j) t P (fun s v => (bPP ps s).pt v)
    (fun s v => (bPP ps' s).pt v) 4 (bNrm room ps) (bNrm room ps) (by norm_num)
    (fun s hs v hv => H.pt s hs v hv) (fun _ _ => rfl)]

theorem bVisB_tr : bVisB eta (room.translate t) P ps' = bVisB eta room P ps := by
  funext i j
  unfold bVisB
  rw [bVis_tr eta room P ps ps' t H]

theorem bPairs_tr : bPairs eta (room.translate t) P ps' = bPairs eta room P ps := by
  unfold bPairs
  rw [bVisB_tr eta room P ps ps' t H]

theorem bF_tr : bF eta (room.translate t) P ps' = bF eta room P ps := by
  unfold bF
  rw [bVisB_tr eta room P ps ps' t H, bAreas_tr P ps ps' t H, bNrm_tr room P ps ps' t H]
  apply tabulate2_congr
  intro i hi j hj
  rw [universalFF_tr (fun v => (bPP ps i).pt v) (fun v => (bPP ps' i).pt v) (fun v => (bPP ps j).pt v)
    (fun v => (bPP ps' j).pt v) 4 4 _ _ t _ (by norm_num) (by norm_num) (H.pt i hi) (H.pt j hj)]

theorem bScene_tr : bScene eta (room.translate t) mat P ps' =
    { bScene eta room mat P ps with center := bCen P ps' } := by
  have hw : (fun k => (bPP ps' k).wall) = fun k => (bPP ps k).wall := funext H.wall
  unfold bScene
  rw [bVisB_tr eta room P ps ps' t H, bAreas_tr P ps ps' t H, bF_tr eta room P ps ps' t H, hw]
  rfl

end BakeTr

theorem mem_bPairs (eta : ℝ) (room : Room ℝ) (P : Nat) (ps : Array (PatchRec ℝ)) (a : Nat × Nat)
    (h : a ∈ bPairs eta room P ps) : a.1 < P ∧ a.2 < P := by
  unfold bPairs at h
  simp only [List.mem_flatMap, List.mem_map, List.mem_filter, List.mem_range] at h
  obtain ⟨i, hi, j, ⟨hj, _⟩, rfl⟩ := h
  exact ⟨hi, hj⟩


/-! ### the run as a function of the baked scene -/

section Run
variable (eta thr : ℝ) (room : Room ℝ) (mat : Materials ℝ) (par : RunPar ℝ) (src recv : Vec3 ℝ)
  (P : Nat) (sc : BakeScene ℝ) (ps : Array (PatchRec ℝ)) (pairs : List (Nat × Nat))

noncomputable def rFft : Tab3 ℝ := tabulate3 P P mat.nOut fun i j d => sc.fft i j d

noncomputable def rOutIdx : Array Nat :=
  Array.ofFn (n := P * P) fun k => sc.outIdx (k.val / P) (k.val % P)

noncomputable def rSrcVis : Array Bool :=
  Array.ofFn (n := P) fun k =>
    visibleThroughAll eta src (sc.center k.val) room.W room.wallPts 4 room.wallNormal

noncomputable def rDist0 (srcVis : Array Bool) : Array ℝ :=
  Array.ofFn (n := P) fun k =>
    sourceDistance (srcVis.getD k.val false) (Vec3.norm (Vec3.sub src (sc.center k.val)))

noncomputable def rEnergy0 (srcVis : Array Bool) : Array ℝ :=
  Array.ofFn (n := P) fun k =>
    sourceEnergy (srcVis.getD k.val false) (Vec3.norm (Vec3.sub src (sc.center k.val))) mat.att
      (ptSource thr src (fun v => (bPP ps k.val).pt v) 4)

noncomputable def rE0 (energy0 : Array ℝ) : Tab2 ℝ :=
  tabulate2 P mat.nOut fun j d => sc.addDirectional src (fun k => energy0.getD k 0) j d

noncomputable def rEx (dist0 : Array ℝ) (e0 : Tab2 ℝ) (fft : Tab3 ℝ) (outIdx : Array Nat) : ExScene ℝ :=
  { P := P, D := mat.nOut, S := par.S, pairs := pairs
    bin0 := fun j => binFloor (dist0.getD j 0) par.c par.dt
    bin := fun i j => binFloor (Vec3.norm (Vec3.sub (sc.center i) (sc.center j))) par.c par.dt
    e0 := fun j d => lookup2 e0 j d
    fft := fun i j d => lookup3 fft i j d
    dir := fun i j => outIdx.getD (i * P + j) 0 }

noncomputable def rEtc (ex : ExScene ℝ) : Tab3 ℝ :=
  if par.K = 0 then orderTab ex 0 else etcTab ex par.K

noncomputable def rG : Array ℝ :=
  Array.ofFn (n := P) fun k =>
    if visibleThroughAll eta recv (sc.center k.val) room.W room.wallPts 4 room.wallNormal then
      ptReceiver thr recv (fun v => (bPP ps k.val).pt v) 4
    else 0

noncomputable def rRidx : Array Nat := Array.ofFn (n := P) fun k => sc.receiverIdx recv k.val

noncomputable def rDistR : Array ℝ :=
  Array.ofFn (n := P) fun k => Vec3.norm (Vec3.sub (sc.center k.val) recv)

noncomputable def rMono (etcT : Tab3 ℝ) (ridx : Array Nat) (g distR : Array ℝ) : Array ℝ :=
  let m := match mat.att with
    | some a => a
    | none => 0
  let pw := patchwiseCodeF par.S (lookup3 etcT) (fun j => ridx.getD j 0) (fun j => g.getD j 0)
    (fun j => binCeil (distR.getD j 0) par.c par.dt) (fun j => receiverWeight m (distR.getD j 0))
  let pwT := tabulate2 P par.S pw
  Array.ofFn (n := par.S) fun t => monoF P (lookup2 pwT) t.val

noncomputable def runOf (b : Baked ℝ) : RunResult ℝ :=
  let fft := rFft mat b.P b.scene
  let outIdx := rOutIdx b.P b.scene
  let srcVis := rSrcVis eta room src b.P b.scene
  let dist0 := rDist0 src b.P b.scene srcVis
  let energy0 := rEnergy0 thr mat src b.P b.scene b.patches srcVis
  let e0 := rE0 mat src b.P b.scene energy0
  let ex := rEx mat par b.P b.scene b.pairs dist0 e0 fft outIdx
  let etcT := rEtc par ex
  { P := b.P, D := mat.nOut, pairs := b.pairs, F := b.F, fft := fft, outIdx := outIdx, e0 := e0,
    dist0 := dist0, etc := etcT
    mono := rMono mat par b.P etcT (rRidx recv b.P b.scene) (rG eta thr room recv b.P b.scene b.patches)
      (rDistR recv b.P b.scene) }

end Run

theorem runPipeline_eq (eta thr : ℝ) (room : Room ℝ) (mat : Materials ℝ) (par : RunPar ℝ) (src recv : Vec3 ℝ) :
    runPipeline eta thr room mat par src recv =
      (bakeRoom eta room mat).map (runOf eta thr room mat par src recv) := by
  unfold runPipeline
  obtain ⟨nIn, nOut, refIn, refOut, tableIdx, table, att⟩ := mat
  cases att <;> cases bakeRoom eta room _ <;> rfl

/-! ### exchange: the bins matter on the listed arcs only -/

theorem stepF_bin_congr (ex : ExScene ℝ) (bin' : Nat → Nat → Nat)
    (h : ∀ a ∈ ex.arcs, bin' a.1 a.2 = ex.bin a.1 a.2) (Hh : Nat → Nat → Nat → ℝ) :
    stepF { ex with bin := bin' } Hh = stepF ex Hh := by
  funext j
  unfold stepF
  simp only
  funext d t
  apply List.foldl_ext
  intro acc a ha
  have ha' : a ∈ ex.arcs := (List.mem_filter.mp ha).1
  unfold contrib
  simp only [h a ha']

theorem orderTab_bin_congr (ex : ExScene ℝ) (bin' : Nat → Nat → Nat)
    (h : ∀ a ∈ ex.arcs, bin' a.1 a.2 = ex.bin a.1 a.2) (k : Nat) :
    orderTab { ex with bin := bin' } k = orderTab ex k := by
  induction k with
  | zero => rfl
  | succ k ih =>
    unfold orderTab
    rw [ih, stepF_bin_congr ex bin' h]

theorem etcLoop_bin_congr (ex : ExScene ℝ) (bin' : Nat → Nat → Nat)
    (h : ∀ a ∈ ex.arcs, bin' a.1 a.2 = ex.bin a.1 a.2) (k : Nat) :
    etcLoop { ex with bin := bin' } k = etcLoop ex k := by
  induction k with
  | zero => rfl
  | succ k ih =>
    unfold etcLoop
    rw [ih]
    simp only [stepF_bin_congr ex bin' h]

theorem mem_arcsOf_lt (pairs : List (Nat × Nat)) (P : Nat) (hp : ∀ a ∈ pairs, a.1 < P ∧ a.2 < P)
    (a : Nat × Nat) (ha : a ∈ arcsOf pairs) : a.1 < P ∧ a.2 < P := by
  unfold arcsOf at ha
  simp only [List.mem_flatMap, List.mem_cons, List.not_mem_nil, or_false] at ha
  obtain ⟨p, hp', rfl | rfl⟩ := ha
  · exact hp p hp'
  · exact ⟨(hp p hp').2, (hp p hp').1⟩

theorem rEtc_bin_congr (par : RunPar ℝ) (ex : ExScene ℝ) (bin' : Nat → Nat → Nat)
    (h : ∀ a ∈ ex.arcs, bin' a.1 a.2 = ex.bin a.1 a.2) :
    rEtc par { ex with bin := bin' } = rEtc par ex := by
  unfold rEtc etcTab
  rw [orderTab_bin_congr ex bin' h, etcLoop_bin_congr ex bin' h]

/-! ### the pieces of the run under translation -/

section SceneTr
variable (eta thr : ℝ) (room : Room ℝ) (mat : Materials ℝ) (par : RunPar ℝ) (src recv : Vec3 ℝ)
  (P : Nat) (sc : BakeScene ℝ) (c' : Nat → Vec3 ℝ) (t : Vec3 ℝ)
  (hc : ∀ k, k < P → c' k = add (sc.center k) t)
include hc

theorem fft_tr (i j d : Nat) (hi : i < P) (hj : j < P) :
    ({ sc with center := c' } : BakeScene ℝ).fft i j d = sc.fft i j d := by
  unfold BakeScene.fft BakeScene.visSym BakeScene.ffPrime BakeScene.inIdx
  simp only [hc i hi, hc j hj, sub_add_add]

theorem rFft_tr : rFft mat P { sc with center := c' } = rFft mat P sc := by
  unfold rFft
  apply tabulate3_congr
  intro i hi j hj d _
  exact fft_tr P sc c' t hc i j d hi hj

theorem rOutIdx_tr : rOutIdx P { sc with center := c' } = rOutIdx P sc := by
  unfold rOutIdx
  apply ofFn_congr
  intro k
  have hP : 0 < P := by
    have h0 : 0 < P * P := by have := k.isLt; omega
    exact Nat.pos_of_ne_zero (fun h => by simp [h] at h0)
  have h1 : k.val / P < P := Nat.div_lt_of_lt_mul k.isLt
  have h2 : k.val % P < P := Nat.mod_lt _ hP
  unfold BakeScene.outIdx BakeScene.visSym
  simp only [hc _ h1, hc _ h2, sub_add_add]

theorem rSrcVis_tr : rSrcVis eta (room.translate t) (add src t) P { sc with center := c' } =
    rSrcVis eta room src P sc := by
  unfold rSrcVis
  apply ofFn_congr
  intro k
  simp only [hc _ k.isLt]
  exact visibleThroughAll_tr eta src (sc.center k.val) t room.W room.wallPts (room.translate t).wallPts 4
    room.wallNormal room.wallNormal (by norm_num) (fun _ _ _ _ => rfl) (fun _ _ => rfl)

theorem rDist0_tr (sv : Array Bool) : rDist0 (add src t) P { sc with center := c' } sv = rDist0 src P sc sv := by
  unfold rDist0
  apply ofFn_congr
  intro k
  simp only [hc _ k.isLt, sub_add_add]

theorem rEnergy0_tr (ps ps' : Array (PatchRec ℝ)) (H : PatchesTr t P ps ps') (sv : Array Bool) :
    rEnergy0 thr mat (add src t) P { sc with center := c' } ps' sv = rEnergy0 thr mat src P sc ps sv := by
  unfold rEnergy0
  apply ofFn_congr
  intro k
  simp only [hc _ k.isLt, sub_add_add]
  rw [ptSource_tr thr src t (fun v => (bPP ps k.val).pt v) (fun v => (bPP ps' k.val).pt v) 4 (H.pt k.val k.isLt)]

theorem rE0_tr (en : Array ℝ) : rE0 mat (add src t) P { sc with center := c' } en = rE0 mat src P sc en := by
  unfold rE0
  apply tabulate2_congr
  intro j hj d _
  unfold BakeScene.addDirectional BakeScene.towards
  simp only [hc j hj, sub_add_add]

theorem rG_tr (ps ps' : Array (PatchRec ℝ)) (H : PatchesTr t P ps ps') :
    rG eta thr (room.translate t) (add recv t) P { sc with center := c' } ps' = rG eta thr room recv P sc ps := by
  unfold rG
  apply ofFn_congr
  intro k
  simp only [hc _ k.isLt]
  have hv : visibleThroughAll eta (add recv t) (add (sc.center k.val) t) (room.translate t).W
      (room.translate t).wallPts 4 (room.translate t).wallNormal =
      visibleThroughAll eta recv (sc.center k.val) room.W room.wallPts 4 room.wallNormal :=
    visibleThroughAll_tr eta recv (sc.center k.val) t room.W room.wallPts (room.translate t).wallPts 4
      room.wallNormal room.wallNormal (by norm_num) (fun _ _ _ _ => rfl) (fun _ _ => rfl)
  rw [ptReceiver_tr thr recv t (fun v => (bPP ps k.val).pt v) (fun v => (bPP ps' k.val).pt v) (H.pt k.val k.isLt), hv]

theorem rRidx_tr : rRidx (add recv t) P { sc with center := c' } = rRidx recv P sc := by
  unfold rRidx
  apply ofFn_congr
  intro k
  unfold BakeScene.receiverIdx BakeScene.towards
  simp only [hc _ k.isLt, sub_add_add]

theorem rDistR_tr : rDistR (add recv t) P { sc with center := c' } = rDistR recv P sc := by
  unfold rDistR
  apply ofFn_congr
  intro k
  simp only [hc _ k.isLt, sub_add_add]

theorem rEx_tr (pairs : List (Nat × Nat)) (hp : ∀ a ∈ pairs, a.1 < P ∧ a.2 < P)
    (dist0 : Array ℝ) (e0 : Tab2 ℝ) (fft : Tab3 ℝ) (outIdx : Array Nat) :
    rEtc par (rEx mat par P { sc with center := c' } pairs dist0 e0 fft outIdx) =
      rEtc par (rEx mat par P sc pairs dist0 e0 fft outIdx) := by
  have := rEtc_bin_congr par (rEx mat par P sc pairs dist0 e0 fft outIdx)
    (fun i j => binFloor (Vec3.norm (Vec3.sub (c' i) (c' j))) par.c par.dt) (by
      intro a ha
      obtain ⟨h1, h2⟩ := mem_arcsOf_lt pairs P hp a ha
      simp only [rEx, hc _ h1, hc _ h2, sub_add_add])
  exact this

end SceneTr

theorem runOf_tr (eta thr : ℝ) (room : Room ℝ) (mat : Materials ℝ) (par : RunPar ℝ) (src recv t : Vec3 ℝ)
    (P : Nat) (ps ps' : Array (PatchRec ℝ)) (pairs : List (Nat × Nat)) (F : Tab2 ℝ) (sc : BakeScene ℝ)
    (c' : Nat → Vec3 ℝ) (cs cs' : Array (Vec3 ℝ)) (ar ar' : Array ℝ)
    (H : PatchesTr t P ps ps') (hc : ∀ k, k < P → c' k = add (sc.center k) t)
    (hp : ∀ a ∈ pairs, a.1 < P ∧ a.2 < P) :
    (runOf eta thr (room.translate t) mat par (add src t) (add recv t)
      { P := P, patches := ps', centers := cs', areas := ar', pairs := pairs, F := F,
        scene := { sc with center := c' } }).observed =
    (runOf eta thr room mat par src recv
      { P := P, patches := ps, centers := cs, areas := ar, pairs := pairs, F := F, scene := sc }).observed := by
  unfold runOf RunResult.observed
  simp only [rFft_tr mat P sc c' t hc, rOutIdx_tr P sc c' t hc, rSrcVis_tr eta room src P sc c' t hc,
    rDist0_tr src P sc c' t hc, rEnergy0_tr thr mat src P sc c' t hc ps ps' H, rE0_tr mat src P sc c' t hc,
    rEx_tr mat par P sc c' t hc pairs hp, rG_tr eta thr room recv P sc c' t hc ps ps' H,
    rRidx_tr recv P sc c' t hc, rDistR_tr recv P sc c' t hc]


/-- **Translating the whole scene — room, source and receiver — changes nothing**: the same
    patches are created (translated), the same pairs are visible, and form factors, baked
    factors, index maps, initial energies, source distances, patch histograms and the receiver
    curve are identical.  For every room of axis-aligned rectangular walls, patch size,
    materials, attenuation, run parameters, source, receiver and translation vector. -/
theorem runPipeline_translation (eta thr : ℝ) (room : Room ℝ) (mat : Materials ℝ) (par : RunPar ℝ)
    (src recv t : Vec3 ℝ) :
    (runPipeline eta thr (room.translate t) mat par (add src t) (add recv t)).map RunResult.observed =
      (runPipeline eta thr room mat par src recv).map RunResult.observed := by
  rw [runPipeline_eq, runPipeline_eq, bakeRoom_eq, bakeRoom_eq, makePatches_translate]
  cases hm : makePatches room with
  | none => simp only [Option.map_none]
  | some ps =>
    have h4 := makePatches_size4 room ps hm
    have H := patchesTr_map t ps h4
    simp only [Option.map_some, Array.size_map]
    refine congrArg some ?_
    unfold bakeP
    rw [bPairs_tr eta room ps.size ps _ t H, bF_tr eta room ps.size ps _ t H,
      bScene_tr eta room mat ps.size ps _ t H]
    exact runOf_tr eta thr room mat par src recv t ps.size ps _ _ _ _ _ _ _ _ _ H
      (fun k hk => bCen_tr ps.size ps _ t H k hk) (mem_bPairs eta room ps.size ps)

end Sparrow
