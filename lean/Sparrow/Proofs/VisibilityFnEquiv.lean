import Sparrow.Generated.VisibilityFn
import Sparrow.Model.Visibility
import Sparrow.Model.Kang
import Sparrow.Proofs.RealInst
/-
  The line-of-sight test, TRANSLATED by rule from the Python source on every run (`Generated/VisibilityFn.lean`:
  `_project_to_plane`, `_basic_visibility`; the two scans recognised), is the hand-written model
  (`Model/Visibility.lean`: `projectToPlane`, `basicVisibilityWith`, `visibleThroughAll`) with the membership test
  `_point_in_polygon` left opaque: a point and a patch see each other iff NO surface of the scene hides them, surface
  by surface the decision table of `_basic_visibility`.
-/
namespace Sparrow
open Sparrow.Generated.VisibilityFn

theorem projectToPlaneT_eq (thr eps : ℝ) (o p pp n : Nat → ℝ) :
    (projectToPlaneT thr o p pp n eps).map Vec3.ofFn =
      projectToPlane eps (Vec3.ofFn o) (Vec3.ofFn p) (Vec3.ofFn pp) (Vec3.ofFn n) := by
  unfold projectToPlaneT projectToPlane Vec3.ofFn
  simp only [Vec3.dot, Vec3.sub]
  by_cases h : eps < |(p 0 - o 0) * n 0 + (p 1 - o 1) * n 1 + (p 2 - o 2) * n 2|
  · simp [h, Vec3.add, Vec3.smul]
  · simp [h]

/-- **`_basic_visibility` as translated = the model's decision table**, for a membership test that reads the three
    coordinates of its point -/
theorem basicVisibilityT_eq (thr eta : ℝ) (pip : (Nat → ℝ) → Bool) (a b : Nat → ℝ) (sp : Nat → Nat → ℝ) (nsp : Nat)
    (normal : Nat → ℝ) (hpip : ∀ f g : Nat → ℝ, f 0 = g 0 → f 1 = g 1 → f 2 = g 2 → pip f = pip g) :
    basicVisibilityT thr pip a b sp nsp normal eta eta =
      basicVisibilityWith eta (fun v => pip (fun q => Vec3.get v q)) (Vec3.ofFn a) (Vec3.ofFn b)
        (Vec3.ofFn (fun q => sp 0 q)) (Vec3.ofFn normal) := by
  have hget : ∀ f : Nat → ℝ, pip (fun q => Vec3.get (⟨f 0, f 1, f 2⟩ : Vec3 ℝ) q) = pip f := by
    intro f
    apply hpip <;> simp [Vec3.get]
  have hproj := projectToPlaneT_eq thr eta a b (fun q => sp 0 q) normal
  unfold basicVisibilityT basicVisibilityWith
  rw [← hproj]
  unfold Vec3.ofFn
  simp only [hget]
  have h0 : ((0 : Nat) : ℝ) = 0 := by norm_num
  have ha : (fun q_ => a q_) = a := rfl
  have hb : (fun q_ => b q_) = b := rfl
  cases hp : projectToPlaneT thr a b (fun q => sp 0 q) normal eta with
  | none =>
    simp [ha, hb, Vec3.dot, Vec3.sub]
  | some pt =>
    have hpt : (fun q_ => pt q_) = pt := rfl
    simp [ha, hb, Vec3.dot, Vec3.sub, hget, hpt]

/-- **the point-to-patches scan** (`_check_point2patch_visibility`, recognised, over the translated `_basic_visibility`):
    patch `i` is visible from the point iff no surface of the scene hides it — the model's conjunction over all surfaces -/
theorem checkPoint2PatchVisibility_eq (thr eta : ℝ) (pip : Nat → (Nat → ℝ) → Bool) (x : Nat → ℝ) (pc : Nat → Nat → ℝ)
    (sp : Nat → Nat → Nat → ℝ) (nsp : Nat) (normals : Nat → Nat → ℝ) (nS i : Nat)
    (hpip : ∀ s (f g : Nat → ℝ), f 0 = g 0 → f 1 = g 1 → f 2 = g 2 → pip s f = pip s g) :
    checkPoint2PatchVisibility (fun a b s => basicVisibilityT thr (pip s) a b (fun k q => sp s k q) nsp (fun q => normals s q) eta eta)
        x pc nS i =
      (List.range nS).all fun s =>
        basicVisibilityWith eta (fun v => pip s (fun q => Vec3.get v q)) (Vec3.ofFn x) (Vec3.ofFn (fun q => pc i q))
          (Vec3.ofFn (fun q => sp s 0 q)) (Vec3.ofFn (fun q => normals s q)) := by
  unfold checkPoint2PatchVisibility
  congr 1
  funext s
  exact basicVisibilityT_eq thr eta (pip s) x (fun q => pc i q) (fun k q => sp s k q) nsp (fun q => normals s q) (hpip s)

/-- **the patch-to-patch scan** (`_check_patch2patch_visibility`): the upper triangle of the matrix, same conjunction -/
theorem checkPatch2PatchVisibility_eq (thr eta : ℝ) (pip : Nat → (Nat → ℝ) → Bool) (pc : Nat → Nat → ℝ)
    (sp : Nat → Nat → Nat → ℝ) (nsp : Nat) (normals : Nat → Nat → ℝ) (nS i j : Nat)
    (hpip : ∀ s (f g : Nat → ℝ), f 0 = g 0 → f 1 = g 1 → f 2 = g 2 → pip s f = pip s g) :
    checkPatch2PatchVisibility (fun a b s => basicVisibilityT thr (pip s) a b (fun k q => sp s k q) nsp (fun q => normals s q) eta eta)
        pc nS i j =
      (decide (i < j) && (List.range nS).all fun s =>
        basicVisibilityWith eta (fun v => pip s (fun q => Vec3.get v q)) (Vec3.ofFn (fun q => pc i q)) (Vec3.ofFn (fun q => pc j q))
          (Vec3.ofFn (fun q => sp s 0 q)) (Vec3.ofFn (fun q => normals s q))) := by
  unfold checkPatch2PatchVisibility
  by_cases h : i < j
  · simp only [h, if_true, decide_true, Bool.true_and]
    congr 1
    funext s
    exact basicVisibilityT_eq thr eta (pip s) (fun q => pc i q) (fun q => pc j q) (fun k q => sp s k q) nsp (fun q => normals s q) (hpip s)
  · simp [h]

end Sparrow
