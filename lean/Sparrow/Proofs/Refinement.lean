import Sparrow.Spec.Poly
import Sparrow.Proofs.HistLemmas
import Mathlib.Tactic.Ring
import Mathlib.Tactic.Linarith

namespace Sparrow
open Polynomial

/-- Propositional form of `ExScene.wf`. -/
def ExScene.WF {α : Type} (sc : ExScene α) : Prop :=
  ∀ a ∈ sc.arcs, a.1 < sc.P ∧ a.2 < sc.P ∧ sc.dir a.1 a.2 < sc.D

theorem ExScene.wf_iff {α : Type} (sc : ExScene α) : sc.wf = true ↔ sc.WF := by
  unfold ExScene.wf ExScene.WF
  simp [List.all_eq_true, and_assoc]

/-- The per-arc term seen from cell `(d, t)`. -/
noncomputable def term (sc : ExScene ℝ) (H : Nat → Nat → Nat → ℝ) (d t : Nat) (a : Nat × Nat) : ℝ :=
  if sc.bin a.1 a.2 ≤ t then
    sc.fft a.1 a.2 d * H a.1 (sc.dir a.1 a.2) (t - sc.bin a.1 a.2) else 0

theorem foldl_contrib (sc : ExScene ℝ) (H : Nat → Nat → Nat → ℝ) (d t : Nat)
    (l : List (Nat × Nat)) (acc : ℝ) :
    l.foldl (contrib sc H d t) acc = acc + (l.map (term sc H d t)).sum := by
  induction l generalizing acc with
  | nil => simp
  | cons a l ih =>
    simp only [List.foldl_cons, List.map_cons, List.sum_cons, ih]
    unfold contrib term
    split <;> ring

theorem stepF_eq_sum (sc : ExScene ℝ) (H : Nat → Nat → Nat → ℝ) (j d t : Nat) :
    stepF sc H j d t = ((sc.arcs.filter fun a => a.2 == j).map (term sc H d t)).sum := by
  unfold stepF
  simp [foldl_contrib]

theorem orderH_zero (sc : ExScene ℝ) (j d t : Nat) :
    orderH sc 0 j d t = if j < sc.P ∧ d < sc.D ∧ t < sc.S then initF sc j d t else 0 := by
  simp [orderH, orderTab, lookup3_tabulate3]

theorem orderH_succ (sc : ExScene ℝ) (k j d t : Nat) :
    orderH sc (k + 1) j d t =
      if j < sc.P ∧ d < sc.D ∧ t < sc.S then stepF sc (orderH sc k) j d t else 0 := by
  simp [orderH, orderTab, lookup3_tabulate3]

theorem coeff_specInit (sc : ExScene ℝ) (j d t : Nat) :
    (specInit sc j d).coeff t = initF sc j d t := by
  unfold specInit initF
  rw [coeff_C_mul, coeff_X_pow]
  split <;> simp

/-- **Core refinement theorem (R).**  Inside the table, bin `t` of the order-`k` histogram
    computed by the executable model is the coefficient of `X^t` of the polynomial
    recursion — for every scene, arc list, delay assignment, transfer table, histogram
    length and order. -/
theorem orderH_eq_coeff (sc : ExScene ℝ) (hwf : sc.WF) (k : Nat) :
    ∀ j d t, j < sc.P → d < sc.D → t < sc.S →
      orderH sc k j d t = (specOrder sc k j d).coeff t := by
  induction k with
  | zero =>
    intro j d t hj hd ht
    rw [orderH_zero, specOrder, coeff_specInit]
    simp [hj, hd, ht]
  | succ k ih =>
    intro j d t hj hd ht
    rw [orderH_succ, if_pos ⟨hj, hd, ht⟩, stepF_eq_sum, specOrder, specStep,
      coeff_list_sum_map]
    congr 1
    apply List.map_congr_left
    intro a ha
    have ha' : a ∈ sc.arcs := (List.mem_filter.mp ha).1
    obtain ⟨h1, _, h3⟩ := hwf a ha'
    unfold term
    rw [coeff_C_mul, coeff_X_pow_mul']
    split
    · next hle =>
      rw [ih _ _ _ h1 h3 (by omega)]
    · simp

end Sparrow

namespace Sparrow
open Polynomial

theorem etcLoop_snd (sc : ExScene ℝ) (K : Nat) : (etcLoop sc K).2 = orderTab sc K := by
  induction K with
  | zero => simp [etcLoop, orderTab]
  | succ K ih => simp [etcLoop, orderTab, ih]

theorem orderH_out (sc : ExScene ℝ) (k j d t : Nat) (h : ¬ (j < sc.P ∧ d < sc.D ∧ t < sc.S)) :
    orderH sc k j d t = 0 := by
  cases k with
  | zero => rw [orderH_zero, if_neg h]
  | succ k => rw [orderH_succ, if_neg h]

theorem etc_zero (sc : ExScene ℝ) (j d t : Nat) : etc sc 0 j d t = orderH sc 0 j d t := by
  simp [etc, etcTab, etcLoop, orderH, orderTab]

theorem etc_succ (sc : ExScene ℝ) (K j d t : Nat) :
    etc sc (K + 1) j d t =
      if j < sc.P ∧ d < sc.D ∧ t < sc.S then etc sc K j d t + orderH sc (K + 1) j d t else 0 := by
  have h2 := etcLoop_snd sc K
  simp only [etc, etcTab, etcLoop, orderH, orderTab, lookup3_tabulate3]
  rw [h2]

/-- `ETC_K` is the sum of the order histograms `H_0 … H_K`. -/
theorem etc_eq_sum (sc : ExScene ℝ) (K j d t : Nat) :
    etc sc K j d t = ((List.range (K + 1)).map fun k => orderH sc k j d t).sum := by
  induction K with
  | zero => simp [etc_zero]
  | succ K ih =>
    rw [etc_succ, List.range_succ, List.map_append, List.sum_append, ← ih]
    by_cases h : j < sc.P ∧ d < sc.D ∧ t < sc.S
    · simp [h]
    · rw [if_neg h]
      have h0 := orderH_out sc (K + 1) j d t h
      have : etc sc K j d t = 0 := by
        rw [ih]
        apply List.sum_eq_zero
        intro x hx
        obtain ⟨k, _, rfl⟩ := List.mem_map.mp hx
        exact orderH_out sc k j d t h
      simp [this, h0]

/-- Accumulated histogram = coefficients of the spec's sum over orders. -/
theorem etc_eq_coeff (sc : ExScene ℝ) (hwf : sc.WF) (K j d t : Nat)
    (hj : j < sc.P) (hd : d < sc.D) (ht : t < sc.S) :
    etc sc K j d t = (specEtc sc K j d).coeff t := by
  rw [etc_eq_sum, specEtc, coeff_list_sum_map]
  congr 1
  apply List.map_congr_left
  intro k _
  exact orderH_eq_coeff sc hwf k j d t hj hd ht

/-- The spec never looks at the histogram length. -/
theorem specOrder_congr_S (sc : ExScene ℝ) (S' : Nat) (k : Nat) :
    specOrder { sc with S := S' } k = specOrder sc k := by
  induction k with
  | zero => rfl
  | succ k ih =>
    funext j d
    simp only [specOrder, specStep, ih]
    rfl

end Sparrow
