import Sparrow.Model.Vec
import Mathlib.Analysis.SpecialFunctions.Exp
import Mathlib.Analysis.SpecialFunctions.Log.Basic
import Mathlib.Analysis.SpecialFunctions.Trigonometric.Inverse
import Mathlib.Analysis.SpecialFunctions.Trigonometric.Arctan
import Mathlib.Analysis.SpecialFunctions.Complex.Arg
import Mathlib.Analysis.SpecialFunctions.Sqrt
import Mathlib.Algebra.Order.Floor.Semiring
/-
  The real-number instances of the model's scalar classes (proof files only).
  `+ - * /` of `ℝ` are Mathlib's own, so unfolded model terms are ordinary real expressions.
-/
namespace Sparrow

noncomputable instance : Transc ℝ where
  exp := Real.exp
  log := Real.log
  sqrt := Real.sqrt
  acos := Real.arccos
  asin := Real.arcsin
  atan := Real.arctan
  atan2 := fun y x => Complex.arg ⟨x, y⟩
  pi := Real.pi

noncomputable instance : ToBin ℝ where
  floorNat x := ⌊x⌋₊
  ceilNat x := ⌈x⌉₊

noncomputable instance : Cmp ℝ where
  lt a b := decide (a < b)
  le a b := decide (a ≤ b)
  abs a := |a|

@[simp] theorem transc_exp_real (x : ℝ) : Transc.exp x = Real.exp x := rfl
@[simp] theorem transc_sqrt_real (x : ℝ) : Transc.sqrt x = Real.sqrt x := rfl
@[simp] theorem transc_pi_real : (Transc.pi : ℝ) = Real.pi := rfl
@[simp] theorem cmp_lt_real (a b : ℝ) : Cmp.lt a b = decide (a < b) := rfl
@[simp] theorem cmp_le_real (a b : ℝ) : Cmp.le a b = decide (a ≤ b) := rfl
@[simp] theorem cmp_abs_real (a : ℝ) : Cmp.abs a = |a| := rfl

end Sparrow
