import Sparrow.Proofs.Refinement
import Mathlib.Algebra.BigOperators.Intervals
import Mathlib.Algebra.Order.BigOperators.Group.Finset
import Mathlib.Algebra.Order.BigOperators.Group.List

namespace Sparrow
open Finset

/-- Energy of order `k` on patch `j`, slot `d`: the histogram summed over its `S` bins. -/
noncomputable def energyOf (sc : ExScene ℝ) (k j d : Nat) : ℝ :=
  ∑ t ∈ range sc.S, orderH sc k j d t

theorem sum_list_map_comm' {β : Type} (s : Finset Nat) (l : List β) (f : Nat → β → ℝ) :
    ∑ t ∈ s, (l.map (f t)).sum = (l.map fun a => ∑ t ∈ s, f t a).sum := by
  induction l with
  | nil => simp
  | cons a l ih => simp [Finset.sum_add_distrib, ih]

theorem sum_shift (S n : Nat) (c : ℝ) (H : Nat → ℝ) :
    ∑ t ∈ range S, (if n ≤ t then c * H (t - n) else 0) = c * ∑ u ∈ range (S - n), H u := by
  by_cases hn : n ≤ S
  · rw [Finset.range_eq_Ico, ← Finset.sum_Ico_consecutive _ (Nat.zero_le n) hn]
    have h1 : ∑ t ∈ Ico 0 n, (if n ≤ t then c * H (t - n) else 0) = 0 := by
      apply Finset.sum_eq_zero
      intro t ht
      have : ¬ n ≤ t := by have := (Finset.mem_Ico.mp ht).2; omega
      rw [if_neg this]
    rw [h1, zero_add, Finset.sum_Ico_eq_sum_range, Finset.mul_sum]
    apply Finset.sum_congr rfl
    intro u _
    simp
  · have h0 : S - n = 0 := by omega
    rw [h0, Finset.range_zero, Finset.sum_empty, mul_zero]
    apply Finset.sum_eq_zero
    intro t ht
    have : ¬ n ≤ t := by have := Finset.mem_range.mp ht; omega
    rw [if_neg this]

theorem sum_filter_key {β : Type} (l : List β) (g : β → Nat) (f : β → ℝ) (P : Nat)
    (h : ∀ a ∈ l, g a < P) :
    ∑ j ∈ range P, ((l.filter fun a => g a == j).map f).sum = (l.map f).sum := by
  induction l with
  | nil => simp
  | cons a l ih =>
    have ha : g a < P := h a (by simp)
    have ih' := ih (fun b hb => h b (by simp [hb]))
    have : ∀ j, (((a :: l).filter fun b => g b == j).map f).sum =
        (if g a = j then f a else 0) + ((l.filter fun b => g b == j).map f).sum := by
      intro j
      by_cases hj : g a = j <;> simp [hj]
    simp only [this, Finset.sum_add_distrib, ih', List.map_cons, List.sum_cons]
    congr 1
    rw [Finset.sum_ite_eq]
    simp [ha]

/-- The arcs that end in `j`, in code order. -/
def arcsTo {α : Type} (sc : ExScene α) (j : Nat) : List (Nat × Nat) :=
  sc.arcs.filter fun a => a.2 == j

/-- **Energy step, exact, no hypothesis on the histogram length.**  The order-(k+1) energy of
    patch `j` is, arc by arc, the transfer factor times the part of the sender's order-`k`
    histogram that still fits after the delay. -/
theorem energy_step (sc : ExScene ℝ) (k j d : Nat) (hj : j < sc.P) (hd : d < sc.D) :
    energyOf sc (k + 1) j d =
      ((arcsTo sc j).map fun a =>
        sc.fft a.1 a.2 d *
          ∑ u ∈ range (sc.S - sc.bin a.1 a.2), orderH sc k a.1 (sc.dir a.1 a.2) u).sum := by
  unfold energyOf
  have h : ∀ t ∈ range sc.S, orderH sc (k + 1) j d t =
      ((arcsTo sc j).map (fun a => term sc (orderH sc k) d t a)).sum := by
    intro t ht
    rw [orderH_succ, if_pos ⟨hj, hd, Finset.mem_range.mp ht⟩, stepF_eq_sum]
    rfl
  rw [Finset.sum_congr rfl h, sum_list_map_comm']
  congr 1
  apply List.map_congr_left
  intro a _
  unfold term
  exact sum_shift sc.S (sc.bin a.1 a.2) (sc.fft a.1 a.2 d)
    (fun u => orderH sc k a.1 (sc.dir a.1 a.2) u)

/-- With a histogram long enough to hold every arrival of order `k+1`, the partial sums are
    the full order-`k` energies. -/
theorem energy_step_long (sc : ExScene ℝ) (k j d : Nat) (hj : j < sc.P) (hd : d < sc.D)
    (hlong : ∀ a ∈ arcsTo sc j, ∀ u, sc.S - sc.bin a.1 a.2 ≤ u →
      orderH sc k a.1 (sc.dir a.1 a.2) u = 0) :
    energyOf sc (k + 1) j d =
      ((arcsTo sc j).map fun a =>
        sc.fft a.1 a.2 d * energyOf sc k a.1 (sc.dir a.1 a.2)).sum := by
  rw [energy_step sc k j d hj hd]
  congr 1
  apply List.map_congr_left
  intro a ha
  unfold energyOf
  congr 1
  apply Finset.sum_subset
  · intro u hu
    have := Finset.mem_range.mp hu
    exact Finset.mem_range.mpr (by omega)
  · intro u _ hu
    apply hlong a ha u
    have : ¬ u < sc.S - sc.bin a.1 a.2 := fun h => hu (Finset.mem_range.mpr h)
    omega

/-- Histograms are non-negative when the inputs are. -/
theorem orderH_nonneg (sc : ExScene ℝ) (he : ∀ j d, 0 ≤ sc.e0 j d)
    (hf : ∀ i j d, 0 ≤ sc.fft i j d) (k j d t : Nat) : 0 ≤ orderH sc k j d t := by
  induction k generalizing j d t with
  | zero =>
    rw [orderH_zero]
    split
    · unfold initF
      split
      · exact he j d
      · exact le_rfl
    · exact le_rfl
  | succ k ih =>
    rw [orderH_succ]
    split
    · rw [stepF_eq_sum]
      apply List.sum_nonneg
      intro x hx
      obtain ⟨a, _, rfl⟩ := List.mem_map.mp hx
      unfold term
      split
      · exact mul_nonneg (hf _ _ _) (ih _ _ _)
      · exact le_rfl
    · exact le_rfl

/-- **Energy is never created** (single direction slot): if every patch hands on at most
    `1 + ε` of what it has (`Σ_j fft i j ≤ 1 + ε` over the arcs leaving `i`), the total energy of
    order `k+1` is at most `(1 + ε)` times the total energy of order `k` — for every histogram
    length, including lengths that truncate. -/
theorem energy_not_created (sc : ExScene ℝ) (hwf : sc.WF) (hD : sc.D = 1)
    (he : ∀ j d, 0 ≤ sc.e0 j d) (hf : ∀ i j d, 0 ≤ sc.fft i j d) (ε : ℝ)
    (hrow : ∀ i, ((sc.arcs.filter fun a => a.1 == i).map fun a => sc.fft a.1 a.2 0).sum ≤ 1 + ε)
    (k : Nat) :
    ∑ j ∈ range sc.P, energyOf sc (k + 1) j 0 ≤ (1 + ε) * ∑ i ∈ range sc.P, energyOf sc k i 0 := by
  have hnn : ∀ k j d t, 0 ≤ orderH sc k j d t := orderH_nonneg sc he hf
  have hE : ∀ i, 0 ≤ energyOf sc k i 0 := fun i => Finset.sum_nonneg fun t _ => hnn k i 0 t
  have hD0 : 0 < sc.D := by omega
  -- step 1: bound each patch
  have h1 : ∀ j ∈ range sc.P, energyOf sc (k + 1) j 0 ≤
      ((sc.arcs.filter fun a => a.2 == j).map fun a =>
        sc.fft a.1 a.2 0 * energyOf sc k a.1 0).sum := by
    intro j hj
    rw [energy_step sc k j 0 (Finset.mem_range.mp hj) hD0]
    unfold arcsTo
    apply List.sum_le_sum
    intro a ha
    have ha' : a ∈ sc.arcs := (List.mem_filter.mp ha).1
    obtain ⟨_, _, h3⟩ := hwf a ha'
    have hdir : sc.dir a.1 a.2 = 0 := by omega
    rw [hdir]
    apply mul_le_mul_of_nonneg_left _ (hf _ _ _)
    unfold energyOf
    apply Finset.sum_le_sum_of_subset_of_nonneg
    · intro u hu
      have := Finset.mem_range.mp hu
      exact Finset.mem_range.mpr (by omega)
    · intro u _ _
      exact hnn k a.1 0 u
  refine le_trans (Finset.sum_le_sum h1) ?_
  rw [sum_filter_key sc.arcs (fun a => a.2) (fun a => sc.fft a.1 a.2 0 * energyOf sc k a.1 0)
    sc.P (fun a ha => (hwf a ha).2.1)]
  rw [← sum_filter_key sc.arcs (fun a => a.1) (fun a => sc.fft a.1 a.2 0 * energyOf sc k a.1 0)
    sc.P (fun a ha => (hwf a ha).1)]
  rw [Finset.mul_sum]
  apply Finset.sum_le_sum
  intro i _
  have h2 : ((sc.arcs.filter fun a => a.1 == i).map fun a =>
        sc.fft a.1 a.2 0 * energyOf sc k a.1 0).sum =
      ((sc.arcs.filter fun a => a.1 == i).map fun a => sc.fft a.1 a.2 0).sum *
        energyOf sc k i 0 := by
    rw [← List.sum_map_mul_right]
    congr 1
    apply List.map_congr_left
    intro a ha
    have : a.1 = i := by simpa using (List.mem_filter.mp ha).2
    rw [this]
  rw [h2]
  exact mul_le_mul_of_nonneg_right (hrow i) (hE i)

end Sparrow
