import Sparrow.Model.Brdf
import Sparrow.Proofs.RealInst
import Mathlib.Algebra.BigOperators.Group.Finset.Basic
import Mathlib.Tactic.Ring
import Mathlib.Tactic.FieldSimp
import Mathlib.Tactic.Linarith

namespace Sparrow
open Finset

/-- A Gauss-type, mirror-closed hemisphere sampling: positive cosines and weights, the rescaled
    weights integrate the cosine exactly (`Σ cosθ·wn = π`), and the mirror operation is an
    involution of the index set that preserves colatitude and weight. All decidable on a
    concrete sampling. -/
structure GaussSampling (n : Nat) (cosT w : Nat → ℝ) (mir : Nat → Nat) : Prop where
  cos_pos : ∀ k, k < n → 0 < cosT k
  w_pos : ∀ k, k < n → 0 < w k
  n_pos : 0 < n
  mir_lt : ∀ k, k < n → mir k < n
  cosine_exact : sumTo n (fun k => cosT k * normWeight n w 2 k) = Real.pi
  mirror_cos : ∀ k, k < n → cosT (mir k) = cosT k
  mirror_w : ∀ k, k < n → w (mir k) = w k
  mir_invol : ∀ k, k < n → mir (mir k) = k

theorem sumTo_eq_sum (n : Nat) (f : Nat → ℝ) : sumTo n f = ∑ k ∈ range n, f k := by
  unfold sumTo
  induction n with
  | zero => simp
  | succ n ih =>
    rw [List.range_succ, List.foldl_append, ih, Finset.sum_range_succ]
    simp

/-! ### Helper lemmas -/

theorem sumTo_pos (n : Nat) (w : Nat → ℝ) (hw : ∀ k, k < n → 0 < w k) (hn : 0 < n) :
    0 < sumTo n w := by
  rw [sumTo_eq_sum]
  apply Finset.sum_pos
  · intro k hk
    exact hw k (Finset.mem_range.mp hk)
  · exact ⟨0, Finset.mem_range.mpr hn⟩

theorem normWeight_pos (n : Nat) (w : Nat → ℝ) (hw : ∀ k, k < n → 0 < w k) (hn : 0 < n)
    (k : Nat) (hk : k < n) : 0 < normWeight n w 2 k := by
  unfold normWeight
  simp only [transc_pi_real]
  exact mul_pos (hw k hk) (div_pos (mul_pos two_pos Real.pi_pos) (sumTo_pos n w hw hn))

theorem normWeight_mirror (n : Nat) (cosT w : Nat → ℝ) (mir : Nat → Nat)
    (g : GaussSampling n cosT w mir) (i : Nat) (hi : i < n) :
    normWeight n w 2 (mir i) = normWeight n w 2 i := by
  unfold normWeight
  rw [g.mirror_w i hi]

/-- Non-negativity. -/
theorem scattering_nonneg (n : Nat) (cosT w : Nat → ℝ) (mir : Nat → Nat) (s a : ℝ)
    (hs : 0 ≤ s ∧ s ≤ 1) (ha : 0 ≤ a ∧ a ≤ 1) (hc : ∀ k, k < n → 0 < cosT k) (hw : ∀ k, k < n → 0 < w k)
    (hm : ∀ k, k < n → mir k < n) (i o : Nat) (hi : i < n) (ho : o < n) :
    0 ≤ brdfScattering n cosT w mir s a i o := by
  have hn : 0 < n := lt_of_le_of_lt (Nat.zero_le _) hi
  have hwn := normWeight_pos n w hw hn i hi
  have hcm := hc _ (hm i hi)
  unfold brdfScattering
  simp only [transc_pi_real, one_add_one_eq_two]
  apply mul_nonneg
  · apply add_nonneg
    · exact div_nonneg hs.1 Real.pi_pos.le
    · split_ifs
      · exact div_nonneg (by linarith [hs.2]) (mul_pos hcm hwn).le
      · exact le_rfl
  · linarith [ha.2]

theorem scattering_diffuse_aux (n : Nat) (cosT w : Nat → ℝ) (mir : Nat → Nat) (s a : ℝ)
    (g : GaussSampling n cosT w mir) :
    sumTo n (fun o => (s / Real.pi * (1 - a)) * cosT o * normWeight n w 2 o) = s * (1 - a) := by
  have h := g.cosine_exact
  rw [sumTo_eq_sum] at h ⊢
  have e : ∀ o, (s / Real.pi * (1 - a)) * cosT o * normWeight n w 2 o
      = (s / Real.pi * (1 - a)) * (cosT o * normWeight n w 2 o) := by
    intro o; ring
  simp_rw [e]
  rw [← Finset.mul_sum, h]
  have := Real.pi_pos.ne'
  field_simp

theorem scattering_mirror_aux (n : Nat) (cosT w : Nat → ℝ) (mir : Nat → Nat) (s a : ℝ)
    (g : GaussSampling n cosT w mir) (i : Nat) (hi : i < n) :
    ((1 - s) / (cosT (mir i) * normWeight n w 2 i) * (1 - a)) * cosT (mir i) * normWeight n w 2 (mir i)
      = (1 - s) * (1 - a) := by
  have hwn := (normWeight_pos n w g.w_pos g.n_pos i hi).ne'
  have hcm := (g.cos_pos _ (g.mir_lt i hi)).ne'
  rw [normWeight_mirror n cosT w mir g i hi]
  field_simp

/-- **Energy conservation**: for every incident direction the BRDF reflects exactly `1 - a`
    (`Σ_o brdf·cosθ_o·w_o`). -/
theorem scattering_energy (n : Nat) (cosT w : Nat → ℝ) (mir : Nat → Nat) (s a : ℝ)
    (g : GaussSampling n cosT w mir) (i : Nat) (hi : i < n) :
    reflected n cosT w (brdfScattering n cosT w mir s a) i = 1 - a := by
  unfold reflected
  simp only [one_add_one_eq_two]
  rw [sumTo_eq_sum]
  have hsplit : ∀ o, brdfScattering n cosT w mir s a i o * cosT o * normWeight n w 2 o
      = (s / Real.pi * (1 - a)) * cosT o * normWeight n w 2 o
        + (if o = mir i then
            ((1 - s) / (cosT (mir i) * normWeight n w 2 i) * (1 - a)) * cosT (mir i)
              * normWeight n w 2 (mir i)
          else 0) := by
    intro o
    unfold brdfScattering
    simp only [transc_pi_real, one_add_one_eq_two]
    split_ifs with h
    · subst h; ring
    · ring
  simp_rw [hsplit]
  rw [Finset.sum_add_distrib, ← sumTo_eq_sum, scattering_diffuse_aux n cosT w mir s a g,
    Finset.sum_ite_eq', if_pos (Finset.mem_range.mpr (g.mir_lt i hi)),
    scattering_mirror_aux n cosT w mir s a g i hi]
  ring

/-- … split into `s(1-a)` diffuse (the constant term) … -/
theorem scattering_diffuse_part (n : Nat) (cosT w : Nat → ℝ) (mir : Nat → Nat) (s a : ℝ)
    (g : GaussSampling n cosT w mir) :
    sumTo n (fun o => (s / Real.pi * (1 - a)) * cosT o * normWeight n w 2 o) = s * (1 - a) :=
  scattering_diffuse_aux n cosT w mir s a g

/-- … and `(1-s)(1-a)` into the mirror direction. -/
theorem scattering_mirror_part (n : Nat) (cosT w : Nat → ℝ) (mir : Nat → Nat) (s a : ℝ)
    (g : GaussSampling n cosT w mir) (i : Nat) (hi : i < n) :
    ((1 - s) / (cosT (mir i) * normWeight n w 2 i) * (1 - a)) * cosT (mir i) * normWeight n w 2 (mir i)
      = (1 - s) * (1 - a) :=
  scattering_mirror_aux n cosT w mir s a g i hi

/-- Reciprocity on mirror-closed samplings. -/
theorem scattering_reciprocal (n : Nat) (cosT w : Nat → ℝ) (mir : Nat → Nat) (s a : ℝ)
    (g : GaussSampling n cosT w mir) (i o : Nat) (hi : i < n) (ho : o < n) :
    brdfScattering n cosT w mir s a i o = brdfScattering n cosT w mir s a o i := by
  unfold brdfScattering
  simp only [one_add_one_eq_two]
  by_cases h : o = mir i
  · have h' : i = mir o := by rw [h, g.mir_invol i hi]
    have e1 : cosT (mir o) = cosT (mir i) := by rw [g.mirror_cos o ho, h]
    have e2 : normWeight n w 2 o = normWeight n w 2 i := by
      rw [h]; exact normWeight_mirror n cosT w mir g i hi
    rw [if_pos h, if_pos h', e1, e2]
  · have h' : ¬ i = mir o := by
      intro hh; apply h; rw [hh, g.mir_invol o ho]
    rw [if_neg h, if_neg h']

/-- The scale of the weights does not matter. -/
theorem weights_scale_free (n : Nat) (w : Nat → ℝ) (c : ℝ) (hc : c ≠ 0) (hsum : sumTo n w ≠ 0) (k : Nat) :
    normWeight n (fun j => c * w j) 2 k = normWeight n w 2 k := by
  have e : sumTo n (fun j => c * w j) = c * sumTo n w := by
    rw [sumTo_eq_sum, sumTo_eq_sum, Finset.mul_sum]
  unfold normWeight
  rw [e]
  field_simp

/-- Directional scattering coefficients that sum to 1 reflect `1 - a`. -/
theorem directional_energy (n : Nat) (cosT w : Nat → ℝ) (sd : Nat → Nat → ℝ) (a : ℝ)
    (hc : ∀ k, k < n → 0 < cosT k) (hw : ∀ k, k < n → 0 < w k) (hn : 0 < n)
    (i : Nat) (hsum : sumTo n (fun o => sd i o) = 1) :
    reflected n cosT w (brdfDirectional n cosT w sd a) i = 1 - a := by
  unfold reflected
  simp only [one_add_one_eq_two]
  rw [sumTo_eq_sum]
  rw [sumTo_eq_sum] at hsum
  have e : ∀ o ∈ range n,
      brdfDirectional n cosT w sd a i o * cosT o * normWeight n w 2 o = sd i o * (1 - a) := by
    intro o ho
    have ho := Finset.mem_range.mp ho
    have h1 := (normWeight_pos n w hw hn o ho).ne'
    have h2 := (hc o ho).ne'
    unfold brdfDirectional
    simp only [one_add_one_eq_two]
    field_simp
  rw [Finset.sum_congr rfl e, ← Finset.sum_mul, hsum, one_mul]

end Sparrow
