import Sparrow.Proofs.KangLemmas
/-
  The array versions of Kang's formulas (`sparrowpy/form_factor/kang.py`) and the methods of
  `PatchesKang` are the same functions where both apply, and share the placement invariance.
-/
namespace Sparrow
open Vec3

theorem ka_normalAxis_cases (n : Vec3 ℝ) (thr : ℝ) :
    normalAxis n thr = 0 ∨ normalAxis n thr = 1 ∨ normalAxis n thr = 2 := by
  unfold normalAxis; split_ifs <;> simp

theorem ka_get_add (v t : Vec3 ℝ) (i : Nat) : (add v t).get i = v.get i + t.get i :=
  Vec3.get_tr v t i

/-- Orthogonal walls (normals along different axes), source patch with in-plane sizes `dd × dd`:
    the array version is the method version. -/
theorem kangFFArrOrth_eq (sc rc ns nr size : Vec3 ℝ) (dd thr5 thr12 : ℝ)
    (hne : normalAxis ns thr5 ≠ normalAxis nr thr5)
    (hsz : kangSizesOrth (normalAxis ns thr5) size = (dd, dd)) :
    kangFFArrOrth sc rc ns nr size thr5 thr12 = kangFFOrth sc rc ns nr dd thr5 thr12 := by
  unfold kangFFArrOrth kangFFOrth
  rcases ka_normalAxis_cases ns thr5 with a | a | a <;>
    rcases ka_normalAxis_cases nr thr5 with b | b | b <;>
    first
    | (exfalso; rw [a, b] at hne; exact hne rfl)
    | (rw [a] at hsz; rw [a, b]; dsimp only; rw [hsz]; simp [thirdAxis])

/-- Translating both patches changes no entry of `patch2patch_ff_kang`. -/
theorem kangFFArr_translation (sc rc ns nr size t : Vec3 ℝ) (thr5 thr12 : ℝ) :
    kangFFArr (add sc t) (add rc t) ns nr size thr5 thr12 = kangFFArr sc rc ns nr size thr5 thr12 := by
  have h1 : ∀ a, (add sc t).get a - (add rc t).get a = sc.get a - rc.get a := by
    intro a; rw [ka_get_add, ka_get_add]; ring
  have h1' : ∀ a, (add rc t).get a - (add sc t).get a = rc.get a - sc.get a := by
    intro a; rw [ka_get_add, ka_get_add]; ring
  have h2 : ∀ a c, (add sc t).get a - c - (add rc t).get a = sc.get a - c - rc.get a := by
    intro a c; rw [ka_get_add, ka_get_add]; ring
  have h3 : ∀ a c, (add sc t).get a + c - (add rc t).get a = sc.get a + c - rc.get a := by
    intro a c; rw [ka_get_add, ka_get_add]; ring
  unfold kangFFArr kangFFArrOrth kangFFArrPar
  simp only [h1, h1', h2, h3]

/-- The parallel entry is `dd_l · dd_n · (Δm)² / (π d⁴)` with `d` the centre distance: it depends on
    the centres only through their difference and is symmetric in the two patches of equal size. -/
theorem kangFFArrPar_symm (sc rc nr size : Vec3 ℝ) (thr5 : ℝ) :
    kangFFArrPar sc rc nr size thr5 = kangFFArrPar rc sc nr size thr5 := by
  have hs : ∀ a b : ℝ, (a - b) * (a - b) = (b - a) * (b - a) := by intro a b; ring
  unfold kangFFArrPar
  simp only [hs (rc.get _) (sc.get _)]

end Sparrow
