import Sparrow.Proofs.BakeGlueEquiv
import Sparrow.Proofs.PolygonFnEquiv
/-
  `bake_geometry` (Generated/BakeGlue.lean) with its opaque visibility parameter instantiated by the regenerated line-of-sight scan
  (Generated/VisibilityFn.lean + Generated/PolygonFn.lean): the stored `_visibility_matrix` is the model's line of sight.
-/
namespace Sparrow
open Sparrow.Generated.BakeGlue Sparrow.Generated.BakeKernels Sparrow.Generated.VisibilityFn Sparrow.Generated.PolygonFn

/-- the regenerated scan in the shape `bakeGeometry` expects for `_check_patch2patch_visibility` (all patches have `nv` vertices; the
    surfaces tested as blockers are the patches themselves, `P` of them) -/
noncomputable def vis2T (thr eta : ℝ) (P nv : Nat) :
    (Nat → Nat → ℝ) → (Nat → Nat → ℝ) → (Nat → Nat → Nat → ℝ) → Nat → Nat → Bool :=
  fun pc pn pp i j => checkPatch2PatchVisibility (fun a b s => basicVisibilityT thr (fun x => pointInPolygonT thr x (fun k q => pp s k q) nv
      (fun q => pn s q) eta eta) a b (fun k q => pp s k q) nv (fun q => pn s q) eta eta) pc P i j

/-- **the stored visibility matrix of the composed text is the model's line of sight**: entry `(i, j)` holds iff `i < j` and no patch
    of the scene hides the two centroids from each other (`visibleThroughAll`) -/
theorem bakeGeometry_visibility_composed
    (ffu : (Nat → Nat → Nat → ℝ) → (Nat → Nat → ℝ) → (Nat → ℝ) → Nat → (Nat → Nat → Nat) → Nat → Nat → ℝ)
    (thr eta : ℝ) (nv : Nat)
    (P : Nat) (pc pn : Nat → Nat → ℝ) (pp : Nat → Nat → Nat → ℝ) (pa : Nat → ℝ) (ptw : Nat → Nat)
    (hasM : Bool) (W nIn D T : Nat) (dIn dOut : Nat → Nat → Nat → ℝ) (bidx : Nat → Nat) (brdf : Nat → Nat → Nat → Nat → ℝ)
    (fnone : Bool) (B : Nat) (att : Option (Nat → ℝ)) (junk : Nat → Nat → Nat) (i j : Nat) :
    (bakeGeometry (vis2T thr eta P nv) ffu P pc pn pp pa ptw hasM W nIn D T dIn dOut bidx brdf fnone B att junk).1 i j =
      (decide (i < j) && visibleThroughAll eta (Vec3.ofFn (fun q => pc i q)) (Vec3.ofFn (fun q => pc j q)) P
        (fun s => ptsOf (fun k q => pp s k q)) nv (fun s => Vec3.ofFn (fun q => pn s q))) := by
  rw [bakeGeometry_visibility]
  unfold vis2T
  exact checkPatch2PatchVisibility_full_eq thr eta pc pp nv pn P i j

end Sparrow
