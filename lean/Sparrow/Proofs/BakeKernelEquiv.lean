import Sparrow.Generated.BakeKernels
import Sparrow.Proofs.BakeLemmas
import Sparrow.Proofs.RealInst
/-
  The kernels that put the materials into the run, TRANSLATED from the Python source
  (`Generated/BakeKernels.lean`, rewritten on every run: `get_scattering_data_source`,
  `_form_factors_with_directivity_dim`, `_add_directional`), compute what the hand-written model
  `BakeScene.fft` / `BakeScene.addDirectional` says — for every room, table, direction sets, band,
  with or without attenuation, with or without materials.
-/
namespace Sparrow
open Sparrow.Generated.BakeKernels

/-- the bake scene of band `b` described by the arguments of `_form_factors_with_directivity_dim` -/
noncomputable def bakeSceneOfArgs (P D nIn : Nat) (vis : Nat → Nat → Bool) (F : Nat → Nat → ℝ)
    (pc : Nat → Nat → ℝ) (area : Nat → ℝ) (att : Option (Nat → ℝ)) (wall : Nat → Nat)
    (scat : Option (Nat → Nat → Nat → Nat → ℝ)) (sidx : Nat → Nat)
    (sources receivers : Nat → Nat → Nat → ℝ) (b : Nat) : BakeScene ℝ :=
  { P := P, D := D, nIn := nIn
    center := fun k => ⟨pc k 0, pc k 1, pc k 2⟩
    area := area, F := F, vis := vis, wall := wall, tableIdx := sidx
    inDirs := fun w k => ⟨sources w k 0, sources w k 1, sources w k 2⟩
    outDirs := fun w k => ⟨receivers w k 0, receivers w k 1, receivers w k 2⟩
    table := fun tIdx a d => (scat.getD fun _ _ _ _ => 0) tIdx a d b
    hasTable := scat.isSome
    att := att.map fun a => a b }

/-- the numpy sum of three squares, written out -/
theorem be_sum3 (v : Nat → ℝ) :
    (List.range 3).foldl (fun acc q => acc + v q * v q) 0 = v 0 * v 0 + v 1 * v 1 + v 2 * v 2 := by
  simp [List.range_succ]

/-- `get_scattering_data_source` as translated = the table of wall `w` at the incoming sample
    nearest to the normalised direction `ph - pi`. -/
theorem be_getScatteringDataSource (ph pi : Nat → ℝ) (W nIn T D B s w : Nat)
    (sources : Nat → Nat → Nat → ℝ) (scat : Nat → Nat → Nat → Nat → ℝ) (sidx : Nat → Nat) :
    getScatteringDataSource 3 ph 3 pi W nIn 3 sources w T nIn D B scat s sidx =
      fun d b => scat (sidx w)
        (nearest (fun k => ⟨sources w k 0, sources w k 1, sources w k 2⟩) nIn
          (Vec3.normalize (Vec3.sub ⟨ph 0, ph 1, ph 2⟩ ⟨pi 0, pi 1, pi 2⟩))) d b := by
  unfold getScatteringDataSource
  simp only [be_sum3]
  rfl

/-- a fold whose iterations other than `k` do not change what `r` reads -/
theorem be_foldl_one {S V : Type} (step : S → Nat → S) (r : S → V) (init : S) (n k : Nat) (hk : k < n)
    (h : ∀ ii, ii < n → ii ≠ k → ∀ st, r (step st ii) = r st) :
    r ((List.range n).foldl step init) = r (step ((List.range k).foldl step init) k) := by
  induction n with
  | zero => omega
  | succ n ih =>
    rw [List.range_succ, List.foldl_append]
    simp only [List.foldl_cons, List.foldl_nil]
    by_cases hkn : k = n
    · subst hkn; rfl
    · rw [h n (by omega) (fun e => hkn e.symm)]
      exact ih (by omega) (fun ii hii hne st => h ii (by omega) hne st)

theorem be_foldl_skip {S V : Type} (step : S → Nat → S) (r : S → V) (init : S) (n : Nat)
    (h : ∀ ii, ii < n → ∀ st, r (step st ii) = r st) :
    r ((List.range n).foldl step init) = r init := by
  induction n with
  | zero => rfl
  | succ n ih =>
    rw [List.range_succ, List.foldl_append]
    simp only [List.foldl_cons, List.foldl_nil]
    rw [h n (by omega)]
    exact ih (fun ii hii st => h ii (by omega) st)

/-- the cell read by `r` after the whole fold is what iteration `k` writes, starting from a state
    in which that cell still has its initial value -/
theorem be_foldl_cell {S V : Type} (step : S → Nat → S) (r : S → V) (init : S) (n k : Nat) (hk : k < n)
    (h : ∀ ii, ii < n → ii ≠ k → ∀ st, r (step st ii) = r st) (rhs : V)
    (hw : ∀ st, r st = r init → r (step st k) = rhs) :
    r ((List.range n).foldl step init) = rhs := by
  rw [be_foldl_one step r init n k hk h]
  exact hw _ (be_foldl_skip step r init k (fun ii hii st => h ii (by omega) (by omega) st))

theorem be_idx_mod (P i j : Nat) (hi : i < P) : (j * P + i) % P = i := by
  rw [Nat.add_comm, Nat.add_mul_mod_self_right, Nat.mod_eq_of_lt hi]

theorem be_idx_div (P i j : Nat) (hi : i < P) (hj : j < P) : (j * P + i) / P % P = j := by
  have hP : 0 < P := by omega
  rw [Nat.add_comm, Nat.add_mul_div_right _ _ hP, Nat.div_eq_of_lt hi, Nat.zero_add,
    Nat.mod_eq_of_lt hj]

theorem be_idx_unique (P i j ii : Nat) (hii : ii < P * P) (h1 : i = ii % P) (h2 : j = ii / P % P) :
    ii = j * P + i := by
  have hd : ii / P < P := Nat.div_lt_of_lt_mul hii
  rw [Nat.mod_eq_of_lt hd] at h2
  have := Nat.div_add_mod ii P
  subst h1 h2
  rw [Nat.mul_comm]; exact this.symm

/-- `_form_factors_with_directivity_dim` as translated = `BakeScene.fft` of the scene read off its
    arguments: form factor from the upper triangle by reciprocity, `exp(-m·d)` over the centre
    distance taken BEFORE normalising, and the table of the RECEIVING patch's wall at the incoming
    sample nearest to the direction towards the sender. -/
theorem formFactorsWithDirectivityDim_eq (P D nIn B W T : Nat) (vis : Nat → Nat → Bool) (F : Nat → Nat → ℝ)
    (pc : Nat → Nat → ℝ) (area : Nat → ℝ) (att : Option (Nat → ℝ)) (wall : Nat → Nat)
    (scat : Option (Nat → Nat → Nat → Nat → ℝ)) (sidx : Nat → Nat)
    (sources receivers : Nat → Nat → Nat → ℝ) (recvOpt : Option (Nat → Nat → Nat → ℝ))
    (s0 s1 s2 s3 s4 s5 s6 s7 s8 s9 : Nat)
    (i j d b : Nat) (hi : i < P) (hj : j < P) :
    formFactorsWithDirectivityDim s0 s1 vis s2 s3 F B P 3 pc s4 area s5 att s6 wall T nIn D B scat s7 sidx
        W nIn 3 sources s8 D s9 recvOpt i j d b =
      (bakeSceneOfArgs P D nIn vis F pc area att wall scat sidx sources receivers b).fft i j d := by
  have hk : j * P + i < P * P := by
    calc j * P + i < j * P + P := by omega
      _ = (j + 1) * P := by ring
      _ ≤ P * P := Nat.mul_le_mul_right P hj
  simp only [formFactorsWithDirectivityDim]
  refine be_foldl_cell _ (fun (st : Nat → Nat → Nat → Nat → ℝ) => st i j d b) _ (P * P) (j * P + i) hk
    ?_ _ ?_
  · intro ii hii hne st
    have hnot : ¬ (i = ii % P ∧ j = ii / P % P) := fun ⟨h1, h2⟩ =>
      hne (be_idx_unique P i j ii hii h1 h2)
    cases att <;> cases scat <;> simp only [] <;> split_ifs <;> simp [hnot]
  · intro st hst
    simp only [be_idx_mod P i j hi, be_idx_div P i j hi hj] at hst ⊢
    unfold BakeScene.fft BakeScene.visSym BakeScene.ffPrime BakeScene.inIdx bakeSceneOfArgs
    by_cases hv : (if i < j then vis i j else vis j i) = true
    · cases att <;> cases scat <;>
        simp [hv, be_sum3, be_getScatteringDataSource, Vec3.norm, Vec3.dot, Vec3.sub]
    · simp [hv, hst]

/-- `_add_directional` as translated = `BakeScene.addDirectional`: the initial energy of patch `i`
    times the table of ITS wall at the incoming sample nearest to the direction towards the source. -/
theorem addDirectional_eq (P D nIn B W T : Nat) (energy_0 : Nat → Nat → ℝ) (src : Nat → ℝ)
    (pc : Nat → Nat → ℝ) (wall : Nat → Nat) (sources receivers : Nat → Nat → Nat → ℝ)
    (scat : Nat → Nat → Nat → Nat → ℝ) (sidx : Nat → Nat)
    (vis : Nat → Nat → Bool) (F : Nat → Nat → ℝ) (area : Nat → ℝ) (att : Option (Nat → ℝ))
    (s0 s1 s2 s3 s4 s5 : Nat)
    (i d b : Nat) (hi : i < P) :
    addDirectional s0 s1 energy_0 3 src P 3 pc B s2 wall W nIn 3 sources s3 D s4 receivers T nIn D B scat s5 sidx i d b =
      (bakeSceneOfArgs P D nIn vis F pc area att wall (some scat) sidx sources receivers b).addDirectional
        ⟨src 0, src 1, src 2⟩ (fun k => energy_0 k b) i d := by
  simp only [addDirectional]
  refine be_foldl_cell _ (fun (st : Nat → Nat → Nat → ℝ) => st i d b) _ P i hi ?_ _ ?_
  · intro ii hii hne st
    simp [Ne.symm hne]
  · intro st hst
    unfold BakeScene.addDirectional BakeScene.towards bakeSceneOfArgs
    simp [be_getScatteringDataSource]

end Sparrow

namespace Sparrow
open Sparrow.Generated.BakeKernels

/-- `get_scattering_data_receiver_index` as translated: for every patch `i` the outgoing sample of
    ITS wall nearest to the direction from its centre to the point `pt` (used for the
    patch-to-patch slot in `bake_geometry` and for the slot towards a receiver). -/
theorem getScatteringDataReceiverIndex_eq (P W D : Nat) (pc : Nat → Nat → ℝ) (pt : Nat → ℝ)
    (receivers : Nat → Nat → Nat → ℝ) (wall : Nat → Nat) (s0 : Nat) (i : Nat) (hi : i < P) :
    getScatteringDataReceiverIndex P 3 pc 3 pt W D 3 receivers s0 wall i =
      nearest (fun k => ⟨receivers (wall i) k 0, receivers (wall i) k 1, receivers (wall i) k 2⟩) D
        (Vec3.normalize (Vec3.sub ⟨pt 0, pt 1, pt 2⟩ ⟨pc i 0, pc i 1, pc i 2⟩)) := by
  simp only [getScatteringDataReceiverIndex]
  refine be_foldl_cell _ (fun (st : Nat → Nat) => st i) _ _ i (by simpa using hi) ?_ _ ?_
  · intro ii hii hne st
    simp [Ne.symm hne]
  · intro st hst
    simp only [be_sum3]
    simp [nearest, Vec3.sqDist, Vec3.normalize, Vec3.norm, Vec3.dot, Vec3.sub, Vec3.sdiv]

end Sparrow
