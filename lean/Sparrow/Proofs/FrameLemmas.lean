import Sparrow.Model.Frame
import Sparrow.Model.Bake
import Sparrow.Proofs.RealInst
import Mathlib.Tactic.Ring
import Mathlib.Tactic.Linarith
import Mathlib.Tactic.FieldSimp

namespace Sparrow
open Vec3

/-- `(n, u)` orthonormal. -/
structure Orthonormal (n u : Vec3 ℝ) : Prop where
  nn : dot n n = 1
  uu : dot u u = 1
  nu : dot n u = 0


theorem Vec3.ext' {a b : Vec3 ℝ} (hx : a.x = b.x) (hy : a.y = b.y) (hz : a.z = b.z) : a = b := by
  cases a; cases b; simp_all

theorem dot_self_nonneg (w : Vec3 ℝ) : 0 ≤ dot w w := by
  unfold dot
  nlinarith [mul_self_nonneg w.x, mul_self_nonneg w.y, mul_self_nonneg w.z]

theorem norm_nonneg' (w : Vec3 ℝ) : 0 ≤ norm w := by
  unfold Vec3.norm
  simp only [transc_sqrt_real]
  exact Real.sqrt_nonneg _

theorem normalize_of_unit (n : Vec3 ℝ) (h : dot n n = 1) : normalize n = n := by
  unfold Vec3.normalize sdiv Vec3.norm
  rw [h]
  simp

theorem wallFrame_eq (n u v : Vec3 ℝ) (h : Orthonormal n u) :
    wallFrame n u v = add (add (smul v.x u) (smul v.y (cross n u))) (smul v.z n) := by
  unfold wallFrame
  rw [normalize_of_unit n h.nn, normalize_of_unit u h.uu]

theorem norm_smul' (n : Vec3 ℝ) (a : ℝ) (ha : 0 < a) : norm (smul a n) = a * norm n := by
  unfold Vec3.norm
  simp only [transc_sqrt_real]
  have : dot (smul a n) (smul a n) = a ^ 2 * dot n n := by
    unfold dot smul; ring
  rw [this, Real.sqrt_mul (sq_nonneg a), Real.sqrt_sq ha.le]

theorem normalize_smul (n : Vec3 ℝ) (a : ℝ) (ha : 0 < a) : normalize (smul a n) = normalize n := by
  unfold Vec3.normalize
  rw [norm_smul' n a ha]
  unfold sdiv smul
  simp only
  refine Vec3.ext' ?_ ?_ ?_ <;> simp only <;> exact mul_div_mul_left _ _ ha.ne'

theorem dot_normalize_left (w n : Vec3 ℝ) : dot (normalize w) n = dot w n / norm w := by
  unfold Vec3.normalize sdiv dot
  simp only
  ring

theorem dot_normalize (w : Vec3 ℝ) (hw : dot w w ≠ 0) : dot (normalize w) (normalize w) = 1 := by
  have h0 : 0 ≤ dot w w := dot_self_nonneg w
  have hN : norm w * norm w = dot w w := by
    unfold Vec3.norm
    simp only [transc_sqrt_real]
    exact Real.mul_self_sqrt h0
  have hN0 : norm w ≠ 0 := by
    intro h
    rw [h] at hN
    exact hw (by linarith)
  have : dot (normalize w) (normalize w) = dot w w / (norm w * norm w) := by
    unfold Vec3.normalize sdiv
    simp only [dot]
    field_simp
  rw [this, hN]
  exact div_self hw

theorem sqDist_unit (s u : Vec3 ℝ) (hs : dot s s = 1) (hu : dot u u = 1) :
    sqDist s u = 2 - 2 * dot s u := by
  unfold sqDist sub
  unfold dot at *
  simp only
  linear_combination hs + hu

theorem argminFirst_spec_aux (f : Nat → ℝ) (m : Nat) :
    argminFirst (m + 1) f < m + 1 ∧ (∀ j, j < m + 1 → f (argminFirst (m + 1) f) ≤ f j) ∧
      (∀ j, j < argminFirst (m + 1) f → f (argminFirst (m + 1) f) < f j) := by
  induction m with
  | zero =>
    simp [argminFirst]
  | succ m ih =>
    have hstep : argminFirst (m + 1 + 1) f =
        if f (m + 1) < f (argminFirst (m + 1) f) then m + 1 else argminFirst (m + 1) f := by
      unfold argminFirst
      rw [List.range_succ (n := m + 1), List.foldl_append]
      simp
    obtain ⟨h1, h2, h3⟩ := ih
    rw [hstep]
    split_ifs with hlt
    · refine ⟨by omega, ?_, ?_⟩
      · intro j hj
        rcases Nat.lt_succ_iff_lt_or_eq.mp hj with hj' | rfl
        · exact le_of_lt (lt_of_lt_of_le hlt (h2 j hj'))
        · exact le_refl _
      · intro j hj
        exact lt_of_lt_of_le hlt (h2 j hj)
    · refine ⟨by omega, ?_, h3⟩
      intro j hj
      rcases Nat.lt_succ_iff_lt_or_eq.mp hj with hj' | rfl
      · exact h2 j hj'
      · exact not_lt.mp hlt

/-- The wall frame maps `+z` to the wall normal … -/
theorem wallFrame_ez (n u : Vec3 ℝ) (h : Orthonormal n u) : wallFrame n u ⟨0, 0, 1⟩ = n := by
  rw [wallFrame_eq n u _ h]
  obtain ⟨nx, ny, nz⟩ := n
  obtain ⟨ux, uy, uz⟩ := u
  simp [add, smul, cross]

/-- … and `+x` to the wall's up vector. -/
theorem wallFrame_ex (n u : Vec3 ℝ) (h : Orthonormal n u) : wallFrame n u ⟨1, 0, 0⟩ = u := by
  rw [wallFrame_eq n u _ h]
  obtain ⟨nx, ny, nz⟩ := n
  obtain ⟨ux, uy, uz⟩ := u
  simp [add, smul, cross]

/-- It is a rigid rotation: inner products (hence lengths and angles) are preserved. -/
theorem wallFrame_isometry (n u v v' : Vec3 ℝ) (h : Orthonormal n u) :
    dot (wallFrame n u v) (wallFrame n u v') = dot v v' := by
  rw [wallFrame_eq n u _ h, wallFrame_eq n u _ h]
  obtain ⟨hnn, huu, hnu⟩ := h
  obtain ⟨nx, ny, nz⟩ := n
  obtain ⟨ux, uy, uz⟩ := u
  obtain ⟨vx, vy, vz⟩ := v
  obtain ⟨wx, wy, wz⟩ := v'
  simp only [dot, add, smul, cross] at *
  have hcc : (ny * uz - nz * uy) * (ny * uz - nz * uy) + (nz * ux - nx * uz) * (nz * ux - nx * uz)
      + (nx * uy - ny * ux) * (nx * uy - ny * ux) = 1 := by
    linear_combination (ux * ux + uy * uy + uz * uz) * hnn + huu
      - (nx * ux + ny * uy + nz * uz) * hnu
  linear_combination (vx * wx) * huu + (vz * wz) * hnn + (vx * wz + vz * wx) * hnu
    + (vy * wy) * hcc

/-- The component along the wall normal is the reference `z` component: directions with
    `z ≥ 0` stay in the wall's outer half space. -/
theorem wallFrame_normal_component (n u v : Vec3 ℝ) (h : Orthonormal n u) :
    dot (wallFrame n u v) n = v.z := by
  rw [wallFrame_eq n u _ h]
  obtain ⟨hnn, huu, hnu⟩ := h
  obtain ⟨nx, ny, nz⟩ := n
  obtain ⟨ux, uy, uz⟩ := u
  obtain ⟨vx, vy, vz⟩ := v
  simp only [dot, add, smul, cross] at *
  linear_combination vz * hnn + vx * hnu

/-- Orientation is preserved (a rotation, not a reflection): `R e_x × R e_y = R e_z`. -/
theorem wallFrame_orientation (n u : Vec3 ℝ) (h : Orthonormal n u) :
    cross (wallFrame n u ⟨1, 0, 0⟩) (wallFrame n u ⟨0, 1, 0⟩) = wallFrame n u ⟨0, 0, 1⟩ := by
  rw [wallFrame_eq n u _ h, wallFrame_eq n u _ h, wallFrame_eq n u _ h]
  obtain ⟨hnn, huu, hnu⟩ := h
  obtain ⟨nx, ny, nz⟩ := n
  obtain ⟨ux, uy, uz⟩ := u
  simp only [dot, add, smul, cross] at *
  refine Vec3.ext' ?_ ?_ ?_ <;> simp only
  · linear_combination nx * huu - ux * hnu
  · linear_combination ny * huu - uy * hnu
  · linear_combination nz * huu - uz * hnu

/-- Positive rescaling of the wall normal or up vector changes nothing. -/
theorem wallFrame_scale_free (n u v : Vec3 ℝ) (a b : ℝ) (ha : 0 < a) (hb : 0 < b) :
    wallFrame (smul a n) (smul b u) v = wallFrame n u v := by
  unfold wallFrame
  rw [normalize_smul n a ha, normalize_smul u b hb]

/-- Rotated directions are unit vectors in the outer half space. -/
theorem rotateToWall_unit (n u v : Vec3 ℝ) (h : Orthonormal n u) (hv : dot v v ≠ 0) :
    dot (rotateToWall n u v) (rotateToWall n u v) = 1 := by
  unfold rotateToWall
  have hw : dot (wallFrame n u v) (wallFrame n u v) = dot v v := wallFrame_isometry n u v v h
  exact dot_normalize _ (by rw [hw]; exact hv)

theorem rotateToWall_halfspace (n u v : Vec3 ℝ) (h : Orthonormal n u) (hz : 0 ≤ v.z) :
    0 ≤ dot (rotateToWall n u v) n := by
  unfold rotateToWall
  rw [dot_normalize_left, wallFrame_normal_component n u v h]
  exact div_nonneg hz (norm_nonneg' _)

/-- `argminFirst` returns an index in range at which `f` is minimal, and the first such. -/
theorem argminFirst_spec (n : Nat) (f : Nat → ℝ) (hn : 0 < n) :
    argminFirst n f < n ∧ (∀ j, j < n → f (argminFirst n f) ≤ f j) ∧
      (∀ j, j < argminFirst n f → f (argminFirst n f) < f j) := by
  obtain ⟨m, rfl⟩ : ∃ m, n = m + 1 := ⟨n - 1, by omega⟩
  exact argminFirst_spec_aux f m

/-- **Nearest sample = smallest angle.** For unit sample vectors and a unit direction `u` the
    sample chosen by `argmin |s_k - u|²` is the first one of maximal cosine `⟨s_k, u⟩`. -/
theorem nearest_is_argmax_cos (samples : Nat → Vec3 ℝ) (n : Nat) (u : Vec3 ℝ) (hn : 0 < n)
    (hs : ∀ k, k < n → dot (samples k) (samples k) = 1) (hu : dot u u = 1) :
    nearest samples n u < n ∧ (∀ j, j < n → dot (samples j) u ≤ dot (samples (nearest samples n u)) u) ∧
      (∀ j, j < nearest samples n u → dot (samples j) u < dot (samples (nearest samples n u)) u) := by
  unfold nearest
  obtain ⟨h1, h2, h3⟩ := argminFirst_spec n (fun k => sqDist (samples k) u) hn
  set r := argminFirst n (fun k => sqDist (samples k) u) with hr
  have hrr := sqDist_unit _ _ (hs r h1) hu
  refine ⟨h1, ?_, ?_⟩
  · intro j hj
    have := h2 j hj
    rw [sqDist_unit _ _ (hs j hj) hu, hrr] at this
    linarith
  · intro j hj
    have := h3 j hj
    rw [sqDist_unit _ _ (hs j (lt_trans hj h1)) hu, hrr] at this
    linarith

/-- The four lookups of the fast engine, as the model has them (each is `nearest` applied to the
    normalised geometric direction, in the direction set of the wall of the patch looked up). -/
theorem lookup_pair_out (sc : BakeScene ℝ) (i j : Nat) (ht : sc.hasTable = true)
    (hv : sc.visSym i j = true) (hij : i ≠ j) :
    sc.outIdx i j =
      nearest (sc.outDirs (sc.wall i)) sc.D (normalize (sub (sc.center j) (sc.center i))) := by
  simp [BakeScene.outIdx, ht, hv, hij]

theorem lookup_pair_in (sc : BakeScene ℝ) (i j : Nat) :
    sc.inIdx i j =
      nearest (sc.inDirs (sc.wall j)) sc.nIn (normalize (sub (sc.center i) (sc.center j))) := by
  rfl

theorem lookup_source (sc : BakeScene ℝ) (src : Vec3 ℝ) (e0 : Nat → ℝ) (i d : Nat) :
    sc.addDirectional src e0 i d =
      e0 i * sc.table (sc.tableIdx (sc.wall i))
        (nearest (sc.inDirs (sc.wall i)) sc.nIn (normalize (sub src (sc.center i)))) d := by
  rfl

theorem lookup_receiver (sc : BakeScene ℝ) (r : Vec3 ℝ) (j : Nat) :
    sc.receiverIdx r j =
      nearest (sc.outDirs (sc.wall j)) sc.D (normalize (sub r (sc.center j))) := by
  rfl

end Sparrow
