import Sparrow.Generated.Constants
/-
  The integrator constants regenerated from `/repo` equal the ones the model uses.  Kept apart
  from `StokesLemmas.lean` so that only the properties about the integrators (C05, C06) depend on
  the generated file.
-/
namespace Sparrow

/-- the weights in the source, regenerated on every run -/
theorem boole_weights_as_modelled :
    Generated.booleWeights = [7, 32, 12, 32, 7] ∧ Generated.booleNum = 2 ∧ Generated.booleDen = 45 ∧
    Generated.booleWeights.sum = 90 ∧ Generated.stokesNPoints = 5 ∧ Generated.stokesCutoff = (1, 1000) ∧
    Generated.nusseltSamples = 64 ∧ Generated.coincidenceThreshold = (1, 1000000) := by
  decide

end Sparrow
