import Sparrow.Model.KangPipeline
import Sparrow.Proofs.KangLemmas
import Sparrow.Proofs.PipelineTranslation
/-
  Theorems about the whole modelled Kang run (`runKang`: RadiosityKang.__init__ → run →
  energy_at_receiver), C19 at pipeline level: placement (translation) invariance, the order
  recursion, the direct-sound law, monotonicity in the maximum order.
-/
namespace Sparrow
open Vec3 Finset

def KRoom.translate (r : KRoom ℝ) (t : Vec3 ℝ) : KRoom ℝ :=
  { r with wallPts := fun w v => add (r.wallPts w v) t }

/-! ### the run split into named pieces (functions of the baked data) -/

section Pieces
variable (thr5 thr12 thr99 thr11 : ℝ) (room : KRoom ℝ) (par : KPar ℝ) (src recv : Vec3 ℝ)
  (P : Nat) (wall : Nat → Nat) (cen siz wc : Nat → Vec3 ℝ)

def kp_nrm (k : Nat) : Vec3 ℝ := room.wallNormal (wall k)

noncomputable def kp_ffO (i j : Nat) : Option ℝ :=
  if wall i = wall j then (some 0 : Option ℝ)
  else
    if feq (Vec3.dot (kp_nrm room wall j) (kp_nrm room wall i)) 0 then
      some (kangFFOrth (cen i) (cen j) (kp_nrm room wall i) (kp_nrm room wall j) room.patchSize thr5 thr12)
    else
      kangFFPar (cen i) (cen j)
        ⟨Cmp.abs (Vec3.sub (wc (wall j)) (wc (wall i))).x, Cmp.abs (Vec3.sub (wc (wall j)) (wc (wall i))).y,
          Cmp.abs (Vec3.sub (wc (wall j)) (wc (wall i))).z⟩ room.patchSize thr5

noncomputable def kp_ffBad : Bool :=
  (List.range P).any fun i => (List.range P).any fun j => (kp_ffO thr5 thr12 room wall cen wc i j).isNone

noncomputable def kp_bin0 : Array Nat :=
  Array.ofFn (n := P) fun j => binKang (Vec3.norm (Vec3.sub (cen j.val) src)) par.c par.fs

noncomputable def kp_e0 : Array ℝ :=
  Array.ofFn (n := P) fun j =>
    kangInitPatch (kp_nrm room wall j.val) (cen j.val) (siz j.val) src par.power
      (room.absorption (wall j.val)) (room.att (wall j.val)) thr99 thr11

noncomputable def kp_dist (i j : Nat) : ℝ := Vec3.norm (Vec3.sub (cen j) (cen i))

noncomputable def kp_binT : Tab2 Nat :=
  tabulate2 P P fun i j => binKang (kp_dist cen i j) par.c par.fs

noncomputable def kp_ff : Tab2 ℝ :=
  tabulate2 P P fun i j => (kp_ffO thr5 thr12 room wall cen wc i j).getD 0

noncomputable def kp_ksA (bin0 : Array Nat) (binT : Tab2 Nat) (e0 : Array ℝ) (ff : Tab2 ℝ)
    (dist : Nat → Nat → ℝ) : KangScene ℝ :=
  { P := P, S := par.S, wall := wall
    bin0 := fun j => bin0.getD j 0
    bin := fun i j => lookup2 binT i j
    e0 := fun j => e0.getD j 0
    ff := fun i j => lookup2 ff i j
    refl := fun j => room.scattering (wall j) * (1 - room.absorption (wall j))
    attw := fun i j => Transc.exp (-(room.att (wall j)) * dist i j) }

noncomputable def kp_ks : KangScene ℝ :=
  kp_ksA room par P wall (kp_bin0 par src P cen) (kp_binT par P cen)
    (kp_e0 thr99 thr11 room par src P wall cen siz) (kp_ff thr5 thr12 room P wall cen wc) (kp_dist cen)

def kp_initBad (bin0 : Array Nat) : Bool :=
  (List.range P).any fun j => decide (par.S ≤ bin0.getD j 0)

def kp_exBad (binT : Tab2 Nat) : Bool :=
  decide (1 < room.W ∧ 1 ≤ par.K) &&
    ((List.range P).any fun i => (List.range P).any fun j =>
      wall i != wall j && decide (par.S < lookup2 binT i j))

noncomputable def kp_binR : Array Nat :=
  Array.ofFn (n := P) fun j => binKang (Vec3.norm (Vec3.sub (cen j.val) recv)) par.c par.fs

def kp_recvBad (binR : Array Nat) : Bool :=
  (List.range P).any fun j => decide (par.S < binR.getD j 0)

noncomputable def kp_normBad : Bool :=
  (List.range room.W).any fun w =>
    !(Cmp.lt thr99 (Cmp.abs (room.wallNormal w).z) || Cmp.lt thr99 (Cmp.abs (room.wallNormal w).y) ||
      Cmp.lt thr99 (Cmp.abs (room.wallNormal w).x))

noncomputable def kp_orders (sc : ExScene ℝ) : Array (Tab3 ℝ) :=
  Array.ofFn (n := par.K + 1) fun k =>
    if k.val ≤ (if 1 < room.W then par.K else 0) then orderTab sc k.val
    else tabulate3 P 1 par.S fun _ _ _ => 0

noncomputable def kp_H (orders : Array (Tab3 ℝ)) (k j t : Nat) : ℝ :=
  lookup3 (orders.getD k (tabulate3 0 0 0 fun _ _ _ => 0)) j 0 t

noncomputable def kp_factor (j : Nat) : ℝ :=
  kangRecvFactor (kp_nrm room wall j) (cen j) recv (room.att (wall j))

noncomputable def kp_resp (orders : Array (Tab3 ℝ)) (binR : Array Nat) : Nat → ℝ :=
  kangReceiverOf P par.K (kp_H orders) (fun j => binR.getD j 0) (kp_factor room recv wall cen)

noncomputable def kp_response (orders : Array (Tab3 ℝ)) (binR : Array Nat) : Array ℝ :=
  Array.ofFn (n := par.S) fun t => kp_resp room par recv P wall cen orders binR t.val

noncomputable def kp_r : ℝ := Vec3.norm (Vec3.sub recv src)

noncomputable def kp_dBin : Nat := binKang (kp_r src recv) par.c par.fs

noncomputable def kp_dVal : ℝ := directSound (kp_r src recv) (room.att 0)

noncomputable def kp_full (response : Array ℝ) : Option (Array ℝ) :=
  if kp_dBin par src recv < par.S then
    some (Array.ofFn (n := par.S) fun t =>
      if t.val = kp_dBin par src recv then response.getD t.val 0 + kp_dVal room src recv
      else response.getD t.val 0)
  else none

noncomputable def kp_bad : Bool :=
  kp_ffBad thr5 thr12 room P wall cen wc || kp_initBad par P (kp_bin0 par src P cen) ||
    kp_exBad room par P wall (kp_binT par P cen) || kp_recvBad par P (kp_binR par recv P cen) ||
    kp_normBad thr99 room

noncomputable def kp_res : KRun ℝ :=
  let orders := kp_orders room par P (kp_ks thr5 thr12 thr99 thr11 room par src P wall cen siz wc).toEx
  let response := kp_response room par recv P wall cen orders (kp_binR par recv P cen)
  { P := P, ff := kp_ff thr5 thr12 room P wall cen wc
    e0 := kp_e0 thr99 thr11 room par src P wall cen siz
    bin0 := kp_bin0 par src P cen, orders := orders, response := response
    directBin := kp_dBin par src recv, directVal := kp_dVal room src recv
    full := kp_full room par src recv response }

noncomputable def kp_run : Option (KRun ℝ) :=
  if kp_bad thr5 thr12 thr99 room par src recv P wall cen wc then none
  else some (kp_res thr5 thr12 thr99 thr11 room par src recv P wall cen siz wc)

end Pieces

def kp_bwall (b : KBaked ℝ) (k : Nat) : Nat := (b.patches.getD k { wall := 0, pts := #[] }).wall
def kp_bcen (b : KBaked ℝ) (k : Nat) : Vec3 ℝ := b.centers.getD k ⟨0, 0, 0⟩
def kp_bsiz (b : KBaked ℝ) (k : Nat) : Vec3 ℝ := b.sizes.getD k ⟨0, 0, 0⟩
def kp_bwc (b : KBaked ℝ) (w : Nat) : Vec3 ℝ := b.wallCenters.getD w ⟨0, 0, 0⟩

noncomputable def kp_runOf (thr5 thr12 thr99 thr11 : ℝ) (room : KRoom ℝ) (par : KPar ℝ)
    (src recv : Vec3 ℝ) (b : KBaked ℝ) : Option (KRun ℝ) :=
  kp_run thr5 thr12 thr99 thr11 room par src recv b.P (kp_bwall b) (kp_bcen b) (kp_bsiz b) (kp_bwc b)

theorem kp_runKang_eq (thr5 thr12 thr99 thr11 : ℝ) (room : KRoom ℝ) (par : KPar ℝ)
    (src recv : Vec3 ℝ) :
    runKang thr5 thr12 thr99 thr11 room par src recv =
      (kangBake room).bind (kp_runOf thr5 thr12 thr99 thr11 room par src recv) := by
  unfold runKang
  cases kangBake room <;> rfl

theorem kp_run_some {thr5 thr12 thr99 thr11 : ℝ} {room : KRoom ℝ} {par : KPar ℝ} {src recv : Vec3 ℝ}
    {P : Nat} {wall : Nat → Nat} {cen siz wc : Nat → Vec3 ℝ} {r : KRun ℝ}
    (h : kp_run thr5 thr12 thr99 thr11 room par src recv P wall cen siz wc = some r) :
    kp_bad thr5 thr12 thr99 room par src recv P wall cen wc = false ∧
      r = kp_res thr5 thr12 thr99 thr11 room par src recv P wall cen siz wc := by
  unfold kp_run at h
  split at h
  · cases h
  · rename_i hb
    exact ⟨by simpa using hb, (Option.some.inj h).symm⟩

theorem kp_runKang_some {thr5 thr12 thr99 thr11 : ℝ} {room : KRoom ℝ} {par : KPar ℝ} {src recv : Vec3 ℝ}
    {r : KRun ℝ} (h : runKang thr5 thr12 thr99 thr11 room par src recv = some r) :
    ∃ b, kangBake room = some b ∧
      kp_bad thr5 thr12 thr99 room par src recv b.P (kp_bwall b) (kp_bcen b) (kp_bwc b) = false ∧
      r = kp_res thr5 thr12 thr99 thr11 room par src recv b.P (kp_bwall b) (kp_bcen b) (kp_bsiz b) (kp_bwc b) := by
  rw [kp_runKang_eq] at h
  cases hb : kangBake room with
  | none => rw [hb] at h; cases h
  | some b =>
    rw [hb] at h
    exact ⟨b, rfl, kp_run_some h⟩

theorem kp_direct (r m : ℝ) : directSound r m = Real.exp (-m * r) / (4 * Real.pi * r ^ 2) := by
  unfold directSound
  simp only [transc_exp_real, transc_pi_real]
  ring

theorem kp_H_orders (room : KRoom ℝ) (par : KPar ℝ) (P : Nat) (sc : ExScene ℝ) (k j t : Nat)
    (hk : k ≤ par.K) :
    kp_H (kp_orders room par P sc) k j t =
      if k ≤ (if 1 < room.W then par.K else 0) then orderH sc k j 0 t else 0 := by
  unfold kp_H kp_orders
  rw [getD_ofFn _ _ k (by omega)]
  simp only
  by_cases h : k ≤ (if 1 < room.W then par.K else 0)
  · rw [if_pos h, if_pos h]; rfl
  · rw [if_neg h, if_neg h, lookup3_tabulate3]; split <;> rfl

/-! ### translation of the pieces -/

theorem kp_stepF_fft_congr (ex : ExScene ℝ) (fft' : Nat → Nat → Nat → ℝ)
    (h : ∀ a ∈ ex.arcs, ∀ d, fft' a.1 a.2 d = ex.fft a.1 a.2 d) (Hh : Nat → Nat → Nat → ℝ) :
    stepF { ex with fft := fft' } Hh = stepF ex Hh := by
  funext j
  unfold stepF
  simp only
  funext d t
  apply List.foldl_ext
  intro acc a ha
  have ha' : a ∈ ex.arcs := (List.mem_filter.mp ha).1
  unfold contrib
  simp only [h a ha']

theorem kp_orderTab_fft_congr (ex : ExScene ℝ) (fft' : Nat → Nat → Nat → ℝ)
    (h : ∀ a ∈ ex.arcs, ∀ d, fft' a.1 a.2 d = ex.fft a.1 a.2 d) (k : Nat) :
    orderTab { ex with fft := fft' } k = orderTab ex k := by
  induction k with
  | zero => rfl
  | succ k ih =>
    unfold orderTab
    rw [ih, kp_stepF_fft_congr ex fft' h]

theorem kp_polySize_tr (f f' : Nat → Vec3 ℝ) (t : Vec3 ℝ) (h : ∀ v, v < 4 → f' v = add (f v) t) :
    polySize f' = polySize f := by
  unfold polySize
  simp only [h 0 (by norm_num), h 1 (by norm_num), h 2 (by norm_num), sub_add_add]

theorem kp_recvFactor_tr (n c recv t : Vec3 ℝ) (m : ℝ) :
    kangRecvFactor n (add c t) (add recv t) m = kangRecvFactor n c recv m := by
  unfold kangRecvFactor
  simp only [sub_add_add]
  simp only [add, add_sub_add_right_eq_sub]

structure KpTr (room : KRoom ℝ) (t : Vec3 ℝ) (P : Nat) (wall : Nat → Nat)
    (cen cen' siz siz' wc wc' : Nat → Vec3 ℝ) : Prop where
  cen : ∀ k, k < P → cen' k = add (cen k) t
  siz : ∀ k, k < P → siz' k = siz k
  wc : ∀ w, w < room.W → wc' w = add (wc w) t
  wl : ∀ k, k < P → wall k < room.W

section Tr
variable (thr5 thr12 thr99 thr11 : ℝ) (room : KRoom ℝ) (par : KPar ℝ) (src recv t : Vec3 ℝ)
  (P : Nat) (wall : Nat → Nat) (cen cen' siz siz' wc wc' : Nat → Vec3 ℝ)
  (H : KpTr room t P wall cen cen' siz siz' wc wc')
include H

theorem kp_ffO_tr (i j : Nat) (hi : i < P) (hj : j < P) :
    kp_ffO thr5 thr12 (room.translate t) wall cen' wc' i j = kp_ffO thr5 thr12 room wall cen wc i j := by
  have hn : kp_nrm (room.translate t) wall = kp_nrm room wall := rfl
  have hp : (room.translate t).patchSize = room.patchSize := rfl
  have h1 := kangFFOrth_translation (cen i) (cen j) (kp_nrm room wall i) (kp_nrm room wall j) t
    room.patchSize thr5 thr12
  have h2 := fun wd => kangFFPar_translation (cen i) (cen j) wd t room.patchSize thr5
  unfold Vec3.tr at h1 h2
  unfold kp_ffO
  rw [H.cen i hi, H.cen j hj, H.wc _ (H.wl i hi), H.wc _ (H.wl j hj), sub_add_add, hn, hp, h1, h2]

theorem kp_ffBad_tr :
    kp_ffBad thr5 thr12 (room.translate t) P wall cen' wc' = kp_ffBad thr5 thr12 room P wall cen wc := by
  unfold kp_ffBad
  apply any_range_congr
  intro i hi
  apply any_range_congr
  intro j hj
  rw [kp_ffO_tr thr5 thr12 room t P wall cen cen' siz siz' wc wc' H i j hi hj]

theorem kp_ff_tr :
    kp_ff thr5 thr12 (room.translate t) P wall cen' wc' = kp_ff thr5 thr12 room P wall cen wc := by
  unfold kp_ff
  apply tabulate2_congr
  intro i hi j hj
  rw [kp_ffO_tr thr5 thr12 room t P wall cen cen' siz siz' wc wc' H i j hi hj]

theorem kp_bin0_tr : kp_bin0 par (add src t) P cen' = kp_bin0 par src P cen := by
  unfold kp_bin0
  apply ofFn_congr
  intro j
  rw [H.cen j j.isLt, sub_add_add]

theorem kp_binR_tr : kp_binR par (add recv t) P cen' = kp_binR par recv P cen := by
  unfold kp_binR
  apply ofFn_congr
  intro j
  rw [H.cen j j.isLt, sub_add_add]

theorem kp_e0_tr :
    kp_e0 thr99 thr11 (room.translate t) par (add src t) P wall cen' siz' =
      kp_e0 thr99 thr11 room par src P wall cen siz := by
  unfold kp_e0
  apply ofFn_congr
  intro j
  rw [H.cen j j.isLt, H.siz j j.isLt]
  exact kangInitPatch_translation _ _ _ _ _ _ _ _ _ _

theorem kp_dist_tr (i j : Nat) (hi : i < P) (hj : j < P) : kp_dist cen' i j = kp_dist cen i j := by
  unfold kp_dist
  rw [H.cen i hi, H.cen j hj, sub_add_add]

theorem kp_binT_tr : kp_binT par P cen' = kp_binT par P cen := by
  unfold kp_binT
  apply tabulate2_congr
  intro i hi j hj
  rw [kp_dist_tr room t P wall cen cen' siz siz' wc wc' H i j hi hj]

theorem kp_orderTab_tr (bin0 : Array Nat) (binT : Tab2 Nat) (e0 : Array ℝ) (ff : Tab2 ℝ) (k : Nat) :
    orderTab (kp_ksA (room.translate t) par P wall bin0 binT e0 ff (kp_dist cen')).toEx k =
      orderTab (kp_ksA room par P wall bin0 binT e0 ff (kp_dist cen)).toEx k := by
  apply kp_orderTab_fft_congr (kp_ksA room par P wall bin0 binT e0 ff (kp_dist cen)).toEx
  intro a ha d
  obtain ⟨h1, h2, -⟩ := (kang_arcs_char _ a.1 a.2).mp ha
  show _ * _ * Transc.exp (-(room.att (wall a.2)) * kp_dist cen' a.1 a.2) =
    _ * _ * Transc.exp (-(room.att (wall a.2)) * kp_dist cen a.1 a.2)
  rw [kp_dist_tr room t P wall cen cen' siz siz' wc wc' H a.1 a.2 h1 h2]
  rfl

theorem kp_orders_tr :
    kp_orders (room.translate t) par P
        (kp_ks thr5 thr12 thr99 thr11 (room.translate t) par (add src t) P wall cen' siz' wc').toEx =
      kp_orders room par P (kp_ks thr5 thr12 thr99 thr11 room par src P wall cen siz wc).toEx := by
  unfold kp_orders kp_ks
  rw [kp_bin0_tr room par src t P wall cen cen' siz siz' wc wc' H,
    kp_binT_tr room par t P wall cen cen' siz siz' wc wc' H,
    kp_e0_tr thr99 thr11 room par src t P wall cen cen' siz siz' wc wc' H,
    kp_ff_tr thr5 thr12 room t P wall cen cen' siz siz' wc wc' H]
  apply ofFn_congr
  intro k
  rw [kp_orderTab_tr room par t P wall cen cen' siz siz' wc wc' H]
  rfl

theorem kp_factor_tr (j : Nat) (hj : j < P) :
    kp_factor (room.translate t) (add recv t) wall cen' j = kp_factor room recv wall cen j := by
  unfold kp_factor
  rw [H.cen j hj, kp_recvFactor_tr]
  rfl

theorem kp_response_tr (orders : Array (Tab3 ℝ)) (binR : Array Nat) :
    kp_response (room.translate t) par (add recv t) P wall cen' orders binR =
      kp_response room par recv P wall cen orders binR := by
  unfold kp_response
  apply ofFn_congr
  intro u
  unfold kp_resp kangReceiverOf monoF
  apply foldl_range_congr
  intro acc j hj
  unfold collectF
  rw [kp_factor_tr room recv t P wall cen cen' siz siz' wc wc' H j hj]

theorem kp_bad_tr :
    kp_bad thr5 thr12 thr99 (room.translate t) par (add src t) (add recv t) P wall cen' wc' =
      kp_bad thr5 thr12 thr99 room par src recv P wall cen wc := by
  unfold kp_bad
  rw [kp_ffBad_tr thr5 thr12 room t P wall cen cen' siz siz' wc wc' H,
    kp_bin0_tr room par src t P wall cen cen' siz siz' wc wc' H,
    kp_binT_tr room par t P wall cen cen' siz siz' wc wc' H,
    kp_binR_tr room par recv t P wall cen cen' siz siz' wc wc' H]
  rfl

theorem kp_res_tr :
    kp_res thr5 thr12 thr99 thr11 (room.translate t) par (add src t) (add recv t) P wall cen' siz' wc' =
      kp_res thr5 thr12 thr99 thr11 room par src recv P wall cen siz wc := by
  have hr : kp_r (add src t) (add recv t) = kp_r src recv := by
    unfold kp_r
    rw [sub_add_add]
  unfold kp_res
  simp only [kp_orders_tr thr5 thr12 thr99 thr11 room par src t P wall cen cen' siz siz' wc wc' H,
    kp_bin0_tr room par src t P wall cen cen' siz siz' wc wc' H,
    kp_e0_tr thr99 thr11 room par src t P wall cen cen' siz siz' wc wc' H,
    kp_ff_tr thr5 thr12 room t P wall cen cen' siz siz' wc wc' H,
    kp_binR_tr room par recv t P wall cen cen' siz siz' wc wc' H,
    kp_response_tr room par recv t P wall cen cen' siz siz' wc wc' H]
  unfold kp_full kp_dBin kp_dVal
  rw [hr]
  rfl

theorem kp_run_tr :
    kp_run thr5 thr12 thr99 thr11 (room.translate t) par (add src t) (add recv t) P wall cen' siz' wc' =
      kp_run thr5 thr12 thr99 thr11 room par src recv P wall cen siz wc := by
  unfold kp_run
  rw [kp_bad_tr thr5 thr12 thr99 room par src recv t P wall cen cen' siz siz' wc wc' H,
    kp_res_tr thr5 thr12 thr99 thr11 room par src recv t P wall cen cen' siz siz' wc wc' H]

end Tr

/-! ### the baked data of the translated room -/

def kp_toRoom (room : KRoom ℝ) : Room ℝ :=
  { W := room.W, wallPts := room.wallPts, wallNormal := room.wallNormal,
    wallUp := fun _ => ⟨0, 0, 0⟩, patchSize := room.patchSize }

noncomputable def kp_bakeP (room : KRoom ℝ) (ps : Array (PatchRec ℝ)) : KBaked ℝ :=
  { P := ps.size, patches := ps
    centers := Array.ofFn (n := ps.size) fun k =>
      polygonCenter (fun v => (ps.getD k.val { wall := 0, pts := #[] }).pt v) 4
    sizes := Array.ofFn (n := ps.size) fun k =>
      polySize (fun v => (ps.getD k.val { wall := 0, pts := #[] }).pt v)
    wallCenters := Array.ofFn (n := room.W) fun w => polygonCenter (room.wallPts w.val) 4 }

theorem kp_kangBake_eq (room : KRoom ℝ) :
    kangBake room = (makePatches (kp_toRoom room)).map (kp_bakeP room) := by
  unfold kangBake kp_toRoom
  dsimp only
  split
  · rename_i h; rw [h]; rfl
  · rename_i ps h; rw [h]; rfl

theorem kp_foldl_inv_mem {α β : Type} (Q : α → Prop) (f : α → β → α) (l : List β) (a : α) (h0 : Q a)
    (hs : ∀ a b, b ∈ l → Q a → Q (f a b)) : Q (l.foldl f a) := by
  induction l generalizing a with
  | nil => exact h0
  | cons b l ih =>
    exact ih _ (hs a b (by simp) h0) (fun a c hc => hs a c (by simp [hc]))

theorem kp_makePatches_wall_lt (room : Room ℝ) :
    ∀ arr, makePatches room = some arr → ∀ p ∈ arr, p.wall < room.W := by
  unfold makePatches
  apply kp_foldl_inv_mem
    (fun (o : Option (Array (PatchRec ℝ))) => ∀ arr, o = some arr → ∀ p ∈ arr, p.wall < room.W)
  · intro arr h p hp
    simp only [Option.some.injEq] at h
    subst h
    simp at hp
  · intro acc w hw hacc arr h
    have hw' := List.mem_range.mp hw
    cases acc with
    | none => simp at h
    | some a0 =>
      simp only at h
      split at h
      · simp at h
      · simp only [Option.some.injEq] at h
        subst h
        apply foldl_inv (fun (ar : Array (PatchRec ℝ)) => ∀ p ∈ ar, p.wall < room.W)
        · exact hacc a0 rfl
        · intro ar k har p hp
          rcases Array.mem_push.mp hp with hp | hp
          · exact har p hp
          · subst hp; exact hw'

/-- **Translating the whole scene — walls, source and receiver — changes nothing**: same patches
    (translated), same form factors, first-order energies and bins, order histograms, receiver
    response and direct sound; and the run is refused for the translated scene iff it is for the
    original.  For every room, patch size, absorptions, attenuations, parameters and vector. -/
theorem runKang_translation (thr5 thr12 thr99 thr11 : ℝ) (room : KRoom ℝ) (par : KPar ℝ)
    (src recv t : Vec3 ℝ) :
    runKang thr5 thr12 thr99 thr11 (room.translate t) par (add src t) (add recv t) =
      runKang thr5 thr12 thr99 thr11 room par src recv := by
  rw [kp_runKang_eq, kp_runKang_eq, kp_kangBake_eq, kp_kangBake_eq]
  have htr : kp_toRoom (room.translate t) = (kp_toRoom room).translate t := rfl
  rw [htr, makePatches_translate]
  cases hm : makePatches (kp_toRoom room) with
  | none => rfl
  | some ps =>
    have h4 := makePatches_size4 _ ps hm
    have hwl := kp_makePatches_wall_lt _ ps hm
    have HP := patchesTr_map t ps h4
    simp only [Option.map_some, Option.bind_some]
    unfold kp_runOf
    have hP : (kp_bakeP (room.translate t) (ps.map (trP t))).P = (kp_bakeP room ps).P :=
      Array.size_map ..
    have hwall : kp_bwall (kp_bakeP (room.translate t) (ps.map (trP t))) = kp_bwall (kp_bakeP room ps) := by
      funext k
      exact HP.wall k
    rw [hP, hwall]
    apply kp_run_tr
    constructor
    · intro k hk
      show bCen (ps.map (trP t)).size (ps.map (trP t)) k = add (bCen ps.size ps k) t
      rw [Array.size_map]
      exact bCen_tr ps.size ps _ t HP k hk
    · intro k hk
      have hk' : k < ps.size := hk
      unfold kp_bsiz kp_bakeP
      simp only
      rw [getD_ofFn _ _ k (by rw [Array.size_map]; exact hk'), getD_ofFn _ _ k hk']
      exact kp_polySize_tr _ _ t (HP.pt k hk')
    · intro w hw
      unfold kp_bwc kp_bakeP
      simp only
      have hw' : w < (room.translate t).W := hw
      rw [getD_ofFn _ _ w hw, getD_ofFn _ _ w hw']
      exact polygonCenter_tr _ _ t (fun v _ => rfl)
    · intro k hk
      have hk' : k < ps.size := hk
      apply hwl
      show ps.getD k _ ∈ ps
      simp [Array.getD_eq_getD_getElem?, Array.getElem?_eq_getElem hk']

/-- wall of patch `k`, its centre -/
def KBaked.wall (b : KBaked ℝ) (k : Nat) : Nat := (b.patches.getD k { wall := 0, pts := #[] }).wall
def KBaked.cen (b : KBaked ℝ) (k : Nat) : Vec3 ℝ := b.centers.getD k ⟨0, 0, 0⟩
/-- histogram of order `k` of the run -/
noncomputable def KRun.order (r : KRun ℝ) (k j t : Nat) : ℝ :=
  lookup3 (r.orders.getD k (tabulate3 0 0 0 fun _ _ _ => 0)) j 0 t

theorem kp_order_eq (thr5 thr12 thr99 thr11 : ℝ) (room : KRoom ℝ) (par : KPar ℝ) (src recv : Vec3 ℝ)
    (P : Nat) (wall : Nat → Nat) (cen siz wc : Nat → Vec3 ℝ) (hW : 1 < room.W) (k i t : Nat)
    (hk : k ≤ par.K) :
    (kp_res thr5 thr12 thr99 thr11 room par src recv P wall cen siz wc).order k i t =
      orderH (kp_ks thr5 thr12 thr99 thr11 room par src P wall cen siz wc).toEx k i 0 t := by
  have := kp_H_orders room par P (kp_ks thr5 thr12 thr99 thr11 room par src P wall cen siz wc).toEx k i t hk
  rw [if_pos hW, if_pos hk] at this
  exact this

/-- **Order recursion of the run** (rooms with at least two walls): order `k+1` on patch `j` is the
    sum over the patches `i` of all other walls of their order-`k` histogram delayed by the
    centre-to-centre bins (what falls off the end is dropped), scaled by the form factor, by
    scattering·(1-absorption) of the RECEIVING wall and by `exp(-m d)` with the receiving wall's `m`. -/
theorem runKang_order_recursion (thr5 thr12 thr99 thr11 : ℝ) (room : KRoom ℝ) (par : KPar ℝ)
    (src recv : Vec3 ℝ) (b : KBaked ℝ) (r : KRun ℝ)
    (hb : kangBake room = some b)
    (hr : runKang thr5 thr12 thr99 thr11 room par src recv = some r)
    (hW : 1 < room.W) (k j t : Nat) (hk : k < par.K) (hj : j < b.P) (ht : t < par.S) :
    r.order (k + 1) j t =
      ∑ i ∈ range b.P,
        if b.wall i ≠ b.wall j ∧
            binKang (Vec3.norm (Vec3.sub (b.cen j) (b.cen i))) par.c par.fs ≤ t then
          lookup2 r.ff i j * (room.scattering (b.wall j) * (1 - room.absorption (b.wall j))) *
            Real.exp (-(room.att (b.wall j)) * Vec3.norm (Vec3.sub (b.cen j) (b.cen i))) *
            r.order k i (t - binKang (Vec3.norm (Vec3.sub (b.cen j) (b.cen i))) par.c par.fs)
        else 0 := by
  obtain ⟨b', hb', -, rfl⟩ := kp_runKang_some hr
  rw [hb] at hb'
  cases hb'
  rw [kp_order_eq _ _ _ _ _ _ _ _ _ _ _ _ _ hW (k + 1) j t (by omega),
    kang_order_recursion _ k j t hj ht]
  apply Finset.sum_congr rfl
  intro i hi
  have hi' := Finset.mem_range.mp hi
  have hbin : (kp_ks thr5 thr12 thr99 thr11 room par src b.P (kp_bwall b) (kp_bcen b) (kp_bsiz b)
      (kp_bwc b)).bin i j = binKang (Vec3.norm (Vec3.sub (b.cen j) (b.cen i))) par.c par.fs := by
    show lookup2 (kp_binT par b.P (kp_bcen b)) i j = _
    unfold kp_binT
    rw [lookup2_tabulate2, if_pos ⟨hi', hj⟩]
    rfl
  rw [hbin, kp_order_eq _ _ _ _ _ _ _ _ _ _ _ _ _ hW k i _ (by omega)]
  rfl

/-- **Direct-sound law of the run**: with the direct sound, bin `int(r/c·fs)` of the response is
    increased by exactly `exp(-m r)/(4π r²)` (`m` of the first wall), every other bin is unchanged. -/
theorem runKang_direct (thr5 thr12 thr99 thr11 : ℝ) (room : KRoom ℝ) (par : KPar ℝ)
    (src recv : Vec3 ℝ) (r : KRun ℝ) (f : Array ℝ)
    (hr : runKang thr5 thr12 thr99 thr11 room par src recv = some r) (hf : r.full = some f)
    (t : Nat) (ht : t < par.S) :
    f.getD t 0 = r.response.getD t 0 +
      (if t = binKang (Vec3.norm (Vec3.sub recv src)) par.c par.fs then
        Real.exp (-(room.att 0) * Vec3.norm (Vec3.sub recv src)) /
          (4 * Real.pi * Vec3.norm (Vec3.sub recv src) ^ 2)
       else 0) := by
  obtain ⟨b, -, -, rfl⟩ := kp_runKang_some hr
  change kp_full room par src recv _ = some f at hf
  unfold kp_full at hf
  split at hf
  · have hf' := (Option.some.inj hf).symm
    subst hf'
    rw [getD_ofFn _ _ t ht]
    simp only [kp_dBin, kp_dVal, kp_r, kp_direct]
    split
    · rfl
    · rw [add_zero]; rfl
  · cases hf

theorem kp_ite_nonneg {c : Prop} [Decidable c] {x : ℝ} (h : 0 ≤ x) : 0 ≤ if c then x else 0 := by
  split
  · exact h
  · exact le_rfl

theorem kp_recvFactor_nonneg (n c recv : Vec3 ℝ) (m : ℝ) : 0 ≤ kangRecvFactor n c recv m := by
  unfold kangRecvFactor Vec3.norm
  simp only [transc_exp_real, transc_pi_real, transc_sqrt_real, cmp_abs_real]
  positivity

theorem kp_recv_mono (P K : Nat) (H H' : Nat → Nat → Nat → ℝ) (binR : Nat → Nat) (factor : Nat → ℝ)
    (hH : ∀ k j t, k ≤ K → H' k j t = H k j t) (hnn : ∀ j t, 0 ≤ H' (K + 1) j t)
    (hfac : ∀ j, 0 ≤ factor j) (t : Nat) :
    kangReceiverOf P K H binR factor t ≤ kangReceiverOf P (K + 1) H' binR factor t := by
  unfold kangReceiverOf monoF
  rw [foldl_add_eq_sum, foldl_add_eq_sum, zero_add, zero_add]
  apply List.sum_le_sum
  intro j _
  unfold collectF
  split
  · apply mul_le_mul_of_nonneg_right _ (hfac j)
    dsimp only
    rw [foldl_add_eq_sum, foldl_add_eq_sum, List.range_succ (n := K + 1), List.map_append,
      List.sum_append]
    have := hnn j (t - binR j)
    have he : (List.range (K + 1)).map (fun k => H' k j (t - binR j)) =
        (List.range (K + 1)).map (fun k => H k j (t - binR j)) := by
      apply List.map_congr_left
      intro k hk
      exact hH k j _ (by have := List.mem_range.mp hk; omega)
    rw [he]
    simp only [List.map_cons, List.map_nil, List.sum_cons, List.sum_nil]
    linarith
  · exact le_rfl

/-- **Monotone in the maximum order**: with non-negative first-order energies and form factors,
    scattering ≥ 0 and absorption ≤ 1, raising the maximum order from `K` to `K+1` does not decrease
    any bin of the receiver response. -/
theorem runKang_monotone (thr5 thr12 thr99 thr11 : ℝ) (room : KRoom ℝ) (par : KPar ℝ)
    (src recv : Vec3 ℝ) (r r' : KRun ℝ)
    (hr : runKang thr5 thr12 thr99 thr11 room par src recv = some r)
    (hr' : runKang thr5 thr12 thr99 thr11 room { par with K := par.K + 1 } src recv = some r')
    (he : ∀ j, 0 ≤ r.e0.getD j 0) (hff : ∀ i j, 0 ≤ lookup2 r.ff i j)
    (hs : ∀ w, 0 ≤ room.scattering w) (ha : ∀ w, room.absorption w ≤ 1)
    (t : Nat) :
    r.response.getD t 0 ≤ r'.response.getD t 0 := by
  obtain ⟨b, hb, -, rfl⟩ := kp_runKang_some hr
  obtain ⟨b', hb', -, rfl⟩ := kp_runKang_some hr'
  rw [hb] at hb'
  cases hb'
  by_cases ht : t < par.S
  · change (Array.ofFn (n := par.S) _).getD t 0 ≤ (Array.ofFn (n := par.S) _).getD t 0
    rw [getD_ofFn _ _ t ht, getD_ofFn _ _ t ht]
    apply kp_recv_mono
    · intro k j u hk
      rw [kp_H_orders _ _ _ _ _ _ _ hk, kp_H_orders _ _ _ _ _ _ _ (show k ≤ par.K + 1 by omega)]
      by_cases hW : 1 < room.W
      · simp only [hW, if_true, hk, show k ≤ par.K + 1 by omega]
        rfl
      · simp only [hW, if_false]
        rfl
    · intro j u
      rw [kp_H_orders _ _ _ _ _ _ _ (le_refl _)]
      apply kp_ite_nonneg
      apply orderH_nonneg
      · intro j _
        exact he j
      · intro i j _
        apply mul_nonneg (mul_nonneg (hff i j) (mul_nonneg (hs _) (sub_nonneg.mpr (ha _))))
        exact (Real.exp_pos _).le
    · intro j
      exact kp_recvFactor_nonneg _ _ _ _
  · have h1 : ∀ (f : Fin par.S → ℝ), (Array.ofFn f).getD t 0 = 0 := by
      intro f
      simp [Array.getD_eq_getD_getElem?, ht]
    change (Array.ofFn (n := par.S) _).getD t 0 ≤ (Array.ofFn (n := par.S) _).getD t 0
    rw [h1, h1]

end Sparrow
