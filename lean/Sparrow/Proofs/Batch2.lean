import Sparrow.Proofs.Energy
import Sparrow.Proofs.Mono
import Sparrow.Proofs.BakeLemmas
import Sparrow.Proofs.CollectLemmas
import Sparrow.Proofs.Reciprocity
import Sparrow.Model.Source

namespace Sparrow
open Finset

theorem BakeScene.dist_nonneg (sc : BakeScene ℝ) (i j : Nat) : 0 ≤ sc.dist i j := by
  unfold BakeScene.dist Vec3.norm
  rw [transc_sqrt_real]
  exact Real.sqrt_nonneg _

theorem BakeScene.fft_none_nonneg (sc : BakeScene ℝ) (hF : ∀ i j, 0 ≤ sc.F i j)
    (hA : ∀ i, 0 < sc.area i) (hT : ∀ a b c, 0 ≤ sc.table a b c) (i j d : Nat) :
    0 ≤ (sc.withAtt none).fft i j d := by
  have hb : 0 ≤ (if i < j then sc.F i j else sc.F j i * sc.area j / sc.area i) := by
    split
    · exact hF _ _
    · exact div_nonneg (mul_nonneg (hF _ _) (hA _).le) (hA _).le
  unfold BakeScene.fft BakeScene.withAtt BakeScene.ffPrime
  dsimp only
  split
  · split
    · exact mul_nonneg hb (hT _ _ _)
    · exact hb
  · exact le_rfl

/-- More attenuation, smaller (still non-negative) transfer factors. -/
theorem BakeScene.fft_antitone (sc : BakeScene ℝ) (hF : ∀ i j, 0 ≤ sc.F i j)
    (hA : ∀ i, 0 < sc.area i) (hT : ∀ a b c, 0 ≤ sc.table a b c)
    (m m' : ℝ) (h0 : 0 ≤ m) (hm : m ≤ m') (i j d : Nat) :
    0 ≤ (sc.withAtt (some m')).fft i j d ∧
      (sc.withAtt (some m')).fft i j d ≤ (sc.withAtt (some m)).fft i j d := by
  have _ := h0
  have hb := BakeScene.fft_none_nonneg sc hF hA hT i j d
  have hd := BakeScene.dist_nonneg sc i j
  rw [BakeScene.fft_att sc i j d m', BakeScene.fft_att sc i j d m]
  by_cases hv : sc.visSym i j = true
  · simp only [hv, if_true]
    refine ⟨mul_nonneg hb (Real.exp_pos _).le, ?_⟩
    apply mul_le_mul_of_nonneg_left _ hb
    apply Real.exp_le_exp.mpr
    have := mul_le_mul_of_nonneg_right hm hd
    linarith
  · simp only [hv]
    simp [hb]

/-- Results are non-increasing in the attenuation coefficient: with `0 ≤ m ≤ m'`, non-negative
    form factors, tables and initial energies, and initial energies that do not grow
    (`e0' ≤ e0`, as the source leg guarantees), every bin of the accumulated histogram for `m'`
    is at most the bin for `m`. -/
theorem att_antitone_etc (sc : BakeScene ℝ) (hF : ∀ i j, 0 ≤ sc.F i j)
    (hA : ∀ i, 0 < sc.area i) (hT : ∀ a b c, 0 ≤ sc.table a b c)
    (m m' : ℝ) (h0 : 0 ≤ m) (hm : m ≤ m')
    (S : Nat) (pairs : List (Nat × Nat)) (bin0 : Nat → Nat) (bin : Nat → Nat → Nat)
    (e0 e0' : Nat → Nat → ℝ) (he0 : ∀ j d, 0 ≤ e0' j d) (he : ∀ j d, e0' j d ≤ e0 j d)
    (K j d t : Nat) :
    etc ((sc.withAtt (some m')).toEx S pairs bin0 bin e0') K j d t ≤
      etc ((sc.withAtt (some m)).toEx S pairs bin0 bin e0) K j d t := by
  apply etc_mono ((sc.withAtt (some m')).toEx S pairs bin0 bin e0')
    ((sc.withAtt (some m)).toEx S pairs bin0 bin e0)
  · rfl
  · rfl
  · rfl
  · rfl
  · rfl
  · rfl
  · rfl
  · exact he0
  · intro i j d
    exact (BakeScene.fft_antitone sc hF hA hT m m' h0 hm i j d).1
  · exact he
  · intro i j d
    exact (BakeScene.fft_antitone sc hF hA hT m m' h0 hm i j d).2

/-- Uniform walls: if every transfer factor is `ρ · g i j` with `0 ≤ ρ`, `0 ≤ g`, the rows of
    `g` sum to within `ε` of 1, inputs are non-negative and the histogram is long enough for
    every order-(k+1) arrival, then the total order-(k+1) energy is `ρ` times the total
    order-`k` energy up to the closure error. -/
theorem energy_uniform (sc : ExScene ℝ) (hwf : sc.WF) (hD : sc.D = 1)
    (he : ∀ j d, 0 ≤ sc.e0 j d) (ρ : ℝ) (hρ : 0 ≤ ρ) (g : Nat → Nat → ℝ) (hg : ∀ i j, 0 ≤ g i j)
    (hf : ∀ i j d, sc.fft i j d = ρ * g i j) (ε : ℝ)
    (hrow : ∀ i, i < sc.P →
      |((sc.arcs.filter fun a => a.1 == i).map fun a => g a.1 a.2).sum - 1| ≤ ε)
    (k : Nat)
    (hlong : ∀ a ∈ sc.arcs, ∀ u, sc.S - sc.bin a.1 a.2 ≤ u → orderH sc k a.1 0 u = 0) :
    |∑ j ∈ range sc.P, energyOf sc (k + 1) j 0 - ρ * ∑ i ∈ range sc.P, energyOf sc k i 0|
      ≤ ρ * ε * ∑ i ∈ range sc.P, energyOf sc k i 0 := by
  have hfnn : ∀ i j d, 0 ≤ sc.fft i j d := fun i j d => by
    rw [hf]; exact mul_nonneg hρ (hg i j)
  have hnn : ∀ k j d t, 0 ≤ orderH sc k j d t := orderH_nonneg sc he hfnn
  have hE : ∀ i, 0 ≤ energyOf sc k i 0 := fun i => Finset.sum_nonneg fun t _ => hnn k i 0 t
  have hD0 : 0 < sc.D := by omega
  have hdir : ∀ a ∈ sc.arcs, sc.dir a.1 a.2 = 0 := by
    intro a ha
    obtain ⟨_, _, h3⟩ := hwf a ha
    omega
  have h1 : ∀ j ∈ range sc.P, energyOf sc (k + 1) j 0 =
      ((sc.arcs.filter fun a => a.2 == j).map fun a =>
        ρ * g a.1 a.2 * energyOf sc k a.1 0).sum := by
    intro j hj
    rw [energy_step_long sc k j 0 (Finset.mem_range.mp hj) hD0]
    · unfold arcsTo
      congr 1
      apply List.map_congr_left
      intro a ha
      have ha' : a ∈ sc.arcs := (List.mem_filter.mp ha).1
      rw [hdir a ha', hf]
    · intro a ha u hu
      have ha' : a ∈ sc.arcs := (List.mem_filter.mp ha).1
      rw [hdir a ha']
      exact hlong a ha' u hu
  have h2 : ∀ i, ((sc.arcs.filter fun a => a.1 == i).map fun a =>
        ρ * g a.1 a.2 * energyOf sc k a.1 0).sum =
      ρ * (energyOf sc k i 0 *
        ((sc.arcs.filter fun a => a.1 == i).map fun a => g a.1 a.2).sum) := by
    intro i
    rw [← List.sum_map_mul_left, ← List.sum_map_mul_left]
    congr 1
    apply List.map_congr_left
    intro a ha
    have : a.1 = i := by simpa using (List.mem_filter.mp ha).2
    rw [this]
    ring
  rw [Finset.sum_congr rfl h1,
    sum_filter_key sc.arcs (fun a => a.2) (fun a => ρ * g a.1 a.2 * energyOf sc k a.1 0)
      sc.P (fun a ha => (hwf a ha).2.1),
    ← sum_filter_key sc.arcs (fun a => a.1) (fun a => ρ * g a.1 a.2 * energyOf sc k a.1 0)
      sc.P (fun a ha => (hwf a ha).1),
    Finset.sum_congr rfl (fun i _ => h2 i), ← Finset.mul_sum, ← mul_sub, ← Finset.sum_sub_distrib,
    abs_mul, abs_of_nonneg hρ, mul_assoc]
  apply mul_le_mul_of_nonneg_left _ hρ
  refine le_trans (Finset.abs_sum_le_sum_abs _ _) ?_
  rw [Finset.mul_sum]
  apply Finset.sum_le_sum
  intro i hi
  have : energyOf sc k i 0 *
        ((sc.arcs.filter fun a => a.1 == i).map fun a => g a.1 a.2).sum - energyOf sc k i 0 =
      energyOf sc k i 0 *
        (((sc.arcs.filter fun a => a.1 == i).map fun a => g a.1 a.2).sum - 1) := by ring
  rw [this, abs_mul, abs_of_nonneg (hE i), mul_comm ε]
  exact mul_le_mul_of_nonneg_left (hrow i (Finset.mem_range.mp hi)) (hE i)

theorem monoF_congr (P : Nat) (f f' : Nat → Nat → ℝ) (t : Nat) (h : ∀ j, f j t = f' j t) :
    monoF P f t = monoF P f' t := by
  unfold monoF
  rw [foldl_add_eq (fun j => f j t), foldl_add_eq (fun j => f' j t)]
  congr 2
  apply List.map_congr_left
  intro j _
  exact h j

/-- Mono receiver curve **as the code computes it** (`np.roll` in the receiver kernel). -/
noncomputable def monoCurveCode (sc : ExScene ℝ) (K : Nat) (g w : Nat → ℝ) (binR : Nat → Nat) :
    Nat → ℝ :=
  monoF sc.P (patchwiseCodeF sc.S (etc sc K) (fun _ => 0) g binR w)

/-- With histograms long enough that the receiver kernel wraps nothing, the code's curve is
    the truncating curve … -/
theorem monoCurveCode_eq_monoCurve (sc : ExScene ℝ) (K : Nat) (g w : Nat → ℝ) (binR : Nat → Nat)
    (t : Nat) (ht : t < sc.S)
    (hfit : ∀ j u, sc.S - binR j ≤ u → u < sc.S → etc sc K j 0 u * g j = 0) :
    monoCurveCode sc K g w binR t = monoCurve sc K g w binR t := by
  unfold monoCurveCode monoCurve patchwiseCodeF patchwiseF
  apply monoF_congr
  intro j
  exact collectRollF_eq_collectF_of_fits sc.S binR w (fun j t => etc sc K j 0 t * g j) j t ht
    (hfit j)

/-- … hence source/receiver reciprocity holds for the code's model whenever the histogram holds
    every arrival (same hypotheses as `reciprocity`, plus the two no-wrap conditions). -/
theorem reciprocity_code
    (scA scB : ExScene ℝ)
    (hP : scB.P = scA.P) (hS : scB.S = scA.S) (hDA : scA.D = 1) (hDB : scB.D = 1)
    (hpairs : scB.pairs = scA.pairs) (hbin : scB.bin = scA.bin) (hfft : scB.fft = scA.fft)
    (hdirA : ∀ i j, scA.dir i j = 0) (hdirB : ∀ i j, scB.dir i j = 0)
    (hnodup : scA.pairs.Nodup) (hlt : ∀ p ∈ scA.pairs, p.1 < p.2 ∧ p.2 < scA.P)
    (hbinsym : ∀ i j, scA.bin i j = scA.bin j i)
    (κ : Nat → Nat → ℝ) (area ρ : Nat → ℝ) (hκ : ∀ i j, κ i j = κ j i) (harea : ∀ i, area i ≠ 0)
    (hform : ∀ i j, scA.fft i j 0 = κ i j / area i * ρ j)
    (uA uB : Nat → ℝ) (c₁ c₂ : ℝ)
    (he0A : ∀ j, scA.e0 j 0 = c₁ * uA j * ρ j) (he0B : ∀ j, scB.e0 j 0 = c₁ * uB j * ρ j)
    (gA wA gB wB : Nat → ℝ)
    (hrA : ∀ j, gA j * wA j = c₂ * uA j / area j) (hrB : ∀ j, gB j * wB j = c₂ * uB j / area j)
    (binRA binRB : Nat → Nat)
    (hbins : ∀ i j, scA.bin0 i + binRB j = scB.bin0 j + binRA i)
    (K t : Nat) (ht : t < scA.S)
    (hfitA : ∀ j u, scA.S - binRB j ≤ u → u < scA.S → etc scA K j 0 u * gB j = 0)
    (hfitB : ∀ j u, scB.S - binRA j ≤ u → u < scB.S → etc scB K j 0 u * gA j = 0) :
    monoCurveCode scA K gB wB binRB t = monoCurveCode scB K gA wA binRA t := by
  rw [monoCurveCode_eq_monoCurve scA K gB wB binRB t ht hfitA,
    monoCurveCode_eq_monoCurve scB K gA wA binRA t (hS ▸ ht) hfitB]
  exact reciprocity scA scB hP hS hDA hDB hpairs hbin hfft hdirA hdirB hnodup hlt hbinsym
    κ area ρ hκ harea hform uA uB c₁ c₂ he0A he0B gA wA gB wB hrA hrB binRA binRB hbins K t ht

end Sparrow
