import Sparrow.Generated.SetterGlue
import Sparrow.Proofs.RealInst
import Mathlib.Tactic.Linarith
/-
  The setters, recognised statement by statement on every run (`Generated/SetterGlue.lean`).  The *material in force* on
  wall `w` is the table its index points to.  `set_wall_brdf` puts the given table (times π) in force on exactly the
  listed walls; on every other wall the material in force stays what it was (tables are only appended, indices of other
  walls are not touched); a frequency vector that does not match refuses the call and changes nothing.
-/
namespace Sparrow
open Sparrow.Generated.SetterGlue

variable {C : Type}

/-- the table in force on wall `w` -/
noncomputable def tableOf (st : MatState ℝ C) (w : Nat) : Option (Nat → Nat → Nat → ℝ) :=
  match st.brdf, st.index with
  | some (len, tabs), some idx => if 0 ≤ idx w ∧ idx w < (len : Int) then some (tabs (idx w).toNat) else none
  | _, _ => none

/-- indices point into the list (or are the sentinel -1) -/
def matWF (st : MatState ℝ C) : Prop :=
  match st.brdf, st.index with
  | some (len, _), some idx => ∀ w, idx w < (len : Int)
  | _, _ => True

/-- what a successful `set_wall_brdf` returns, field by field -/
theorem setWallBrdf_some (rotate : (Nat → ℝ) → (Nat → ℝ) → C → C → C × C) (n : Nat) (wn wu : Nat → Nat → ℝ)
    (st st' : MatState ℝ C) (ws : List Nat) (fq : Nat × (Nat → ℝ)) (T : Nat → Nat → Nat → ℝ) (inc out : C)
    (ok1 ok2 : Bool) (e : Nat → Nat → Nat → Nat → ℝ)
    (h : setWallBrdf rotate n wn wu st ws fq T inc out ok1 ok2 e = some st') :
    ∃ len tabs idx,
      (if st.dirsIn.isNone = true then (some (0, e), some (fun _ => (-1 : Int))) else (st.brdf, st.index)) =
        (some (len, tabs), some idx) ∧
      st'.brdf = some (len + 1, fun k a b c => if k = len then T a b c * Real.pi else tabs k a b c) ∧
      st'.index = some (fun w => if w ∈ ws then ((len + 1 : Nat) : Int) - 1 else idx w) ∧
      checkSetFrequency st.frequencies fq = some st'.frequencies ∧ st'.att = st.att := by
  unfold setWallBrdf at h
  split at h
  · exact absurd h (by simp)
  split at h
  · exact absurd h (by simp)
  split at h
  · exact absurd h (by simp)
  rename_i f hf
  simp only at h
  by_cases hn : st.dirsIn.isNone = true
  · simp only [hn, if_true] at h ⊢
    simp only [Option.some.injEq] at h
    refine ⟨0, e, fun _ => -1, rfl, ?_⟩
    subst h
    simp [hf]
  · simp only [hn] at h ⊢
    simp only [Bool.false_eq_true, if_false] at h ⊢
    split at h
    · rename_i dI dO hI hO
      split at h
      · rename_i len tabs idx hb hi
        simp only [Option.some.injEq] at h
        refine ⟨len, tabs, idx, by rw [hb, hi], ?_⟩
        subst h
        simp [hf]
      · exact absurd h (by simp)
    · exact absurd h (by simp)

/-- **in force on the listed walls**: after a successful call, every wall in `wall_indexes` carries the given table × π -/
theorem setWallBrdf_in_force (rotate : (Nat → ℝ) → (Nat → ℝ) → C → C → C × C) (n : Nat) (wn wu : Nat → Nat → ℝ)
    (st st' : MatState ℝ C) (ws : List Nat) (fq : Nat × (Nat → ℝ)) (T : Nat → Nat → Nat → ℝ) (inc out : C)
    (ok1 ok2 : Bool) (e : Nat → Nat → Nat → Nat → ℝ)
    (h : setWallBrdf rotate n wn wu st ws fq T inc out ok1 ok2 e = some st') (w : Nat) (hw : w ∈ ws) :
    tableOf st' w = some (fun a b c => T a b c * Real.pi) := by
  obtain ⟨len, tabs, idx, _, hb, hi, _, _⟩ := setWallBrdf_some rotate n wn wu st st' ws fq T inc out ok1 ok2 e h
  unfold tableOf
  rw [hb, hi]
  simp only [hw, if_true]
  have h1 : (0 : Int) ≤ ((len + 1 : Nat) : Int) - 1 ∧ ((len + 1 : Nat) : Int) - 1 < ((len + 1 : Nat) : Int) := by
    constructor <;> push_cast <;> linarith [Int.natCast_nonneg len]
  rw [if_pos h1]
  have h2 : (((len + 1 : Nat) : Int) - 1).toNat = len := by push_cast; simp
  rw [h2]
  simp

/-- **every other wall keeps the material in force** (tables are appended, never overwritten; other indices untouched),
    for an object whose direction arrays exist already and whose indices point into the list -/
theorem setWallBrdf_others_keep (rotate : (Nat → ℝ) → (Nat → ℝ) → C → C → C × C) (n : Nat) (wn wu : Nat → Nat → ℝ)
    (st st' : MatState ℝ C) (ws : List Nat) (fq : Nat × (Nat → ℝ)) (T : Nat → Nat → Nat → ℝ) (inc out : C)
    (ok1 ok2 : Bool) (e : Nat → Nat → Nat → Nat → ℝ)
    (h : setWallBrdf rotate n wn wu st ws fq T inc out ok1 ok2 e = some st')
    (hinit : st.dirsIn.isNone = false) (hwf : matWF st) (w : Nat) (hw : w ∉ ws) :
    tableOf st' w = tableOf st w := by
  obtain ⟨len, tabs, idx, h0, hb, hi, _, _⟩ := setWallBrdf_some rotate n wn wu st st' ws fq T inc out ok1 ok2 e h
  simp only [hinit, Bool.false_eq_true, if_false, Prod.mk.injEq] at h0
  have hbr : st.brdf = some (len, tabs) := h0.1
  have hix : st.index = some idx := h0.2
  unfold matWF at hwf
  rw [hbr, hix] at hwf
  simp only at hwf
  unfold tableOf
  rw [hb, hi, hbr, hix]
  simp only [hw, if_false]
  have hlt := hwf w
  by_cases hr : 0 ≤ idx w ∧ idx w < (len : Int)
  · have hr' : 0 ≤ idx w ∧ idx w < ((len + 1 : Nat) : Int) := ⟨hr.1, by push_cast; linarith [hr.2]⟩
    rw [if_pos hr, if_pos hr']
    have hne : (idx w).toNat ≠ len := by
      intro he
      have : ((idx w).toNat : Int) = idx w := Int.toNat_of_nonneg hr.1
      rw [he] at this
      linarith [hr.2]
    simp [hne]
  · have hr' : ¬ (0 ≤ idx w ∧ idx w < ((len + 1 : Nat) : Int)) := by
      intro hh
      apply hr
      exact ⟨hh.1, hlt⟩
    rw [if_neg hr, if_neg hr']

/-- a frequency vector that does not match the object's refuses the call (nothing is returned, nothing changes) -/
theorem setWallBrdf_refuses_mismatch (rotate : (Nat → ℝ) → (Nat → ℝ) → C → C → C × C) (n : Nat) (wn wu : Nat → Nat → ℝ)
    (st : MatState ℝ C) (ws : List Nat) (fq f0 : Nat × (Nat → ℝ)) (T : Nat → Nat → Nat → ℝ) (inc out : C)
    (ok1 ok2 : Bool) (e : Nat → Nat → Nat → Nat → ℝ) (hf : st.frequencies = some f0)
    (hne : f0.1 ≠ fq.1 ∨ ∃ k, k < f0.1 ∧ f0.2 k ≠ fq.2 k) :
    setWallBrdf rotate n wn wu st ws fq T inc out ok1 ok2 e = none := by
  have hc : checkSetFrequency st.frequencies fq = none := by
    unfold checkSetFrequency
    rw [hf]
    simp only
    rcases hne with h | ⟨k, hk, hv⟩
    · rw [if_neg h]
    · by_cases h1 : f0.1 = fq.1
      · rw [if_pos h1, if_neg]
        intro hall
        exact hv (hall k hk)
      · rw [if_neg h1]
  unfold setWallBrdf
  split
  · rfl
  split
  · rfl
  rw [hc]

/-- `set_air_attenuation` touches the attenuation (and fixes the frequencies on first use), nothing else -/
theorem setAirAttenuation_some (st st' : MatState ℝ C) (fq : Nat × (Nat → ℝ)) (a : Nat → ℝ)
    (h : setAirAttenuation st fq a = some st') :
    st'.att = some a ∧ st'.brdf = st.brdf ∧ st'.index = st.index ∧ st'.dirsIn = st.dirsIn ∧ st'.dirsOut = st.dirsOut ∧
      checkSetFrequency st.frequencies fq = some st'.frequencies := by
  unfold setAirAttenuation at h
  split at h
  · exact absurd h (by simp)
  · rename_i f hf
    simp only [Option.some.injEq] at h
    subst h
    simp [hf]

/-- the well-formedness the previous theorem asks for is established by the first call and kept by every later one -/
theorem setWallBrdf_wf (rotate : (Nat → ℝ) → (Nat → ℝ) → C → C → C × C) (n : Nat) (wn wu : Nat → Nat → ℝ)
    (st st' : MatState ℝ C) (ws : List Nat) (fq : Nat × (Nat → ℝ)) (T : Nat → Nat → Nat → ℝ) (inc out : C)
    (ok1 ok2 : Bool) (e : Nat → Nat → Nat → Nat → ℝ)
    (h : setWallBrdf rotate n wn wu st ws fq T inc out ok1 ok2 e = some st')
    (hwf : st.dirsIn.isNone = true ∨ matWF st) : matWF st' := by
  obtain ⟨len, tabs, idx, h0, hb, hi, _, _⟩ := setWallBrdf_some rotate n wn wu st st' ws fq T inc out ok1 ok2 e h
  have hidx : ∀ w, idx w < (len : Int) := by
    by_cases hn : st.dirsIn.isNone = true
    · simp only [hn, if_true, Prod.mk.injEq, Option.some.injEq] at h0
      obtain ⟨⟨hl, _⟩, hi0⟩ := h0
      intro w
      rw [← hi0, ← hl]
      simp
    · rcases hwf with hh | hh
      · exact absurd hh hn
      · simp only [hn, Bool.false_eq_true, if_false, Prod.mk.injEq] at h0
        unfold matWF at hh
        rw [h0.1, h0.2] at hh
        exact hh
  unfold matWF
  rw [hb, hi]
  intro w
  by_cases hw : w ∈ ws
  · simp only [hw, if_true]; push_cast; linarith
  · simp only [hw, if_false]; push_cast; linarith [hidx w]

end Sparrow
