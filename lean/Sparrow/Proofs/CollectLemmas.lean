import Sparrow.Model.Collect
import Sparrow.Proofs.HistLemmas
import Mathlib.Data.Real.Basic
import Mathlib.Tactic.Ring

namespace Sparrow

/-- `np.roll` agrees with the truncating delay on every bin as long as nothing is pushed past
    the end: if the input histogram of patch `i` is zero from bin `S - binR i` on, the wrapped
    and the truncated results coincide. -/
theorem collectRollF_eq_collectF_of_fits (S : Nat) (binR : Nat → Nat) (w : Nat → ℝ)
    (E : Nat → Nat → ℝ) (i t : Nat) (ht : t < S)
    (hfit : ∀ u, S - binR i ≤ u → u < S → E i u = 0) :
    collectRollF S binR w E i t = collectF binR w E i t := by
  unfold collectRollF collectF
  by_cases hb : binR i < S
  · rw [Nat.mod_eq_of_lt hb]
    by_cases hle : binR i ≤ t
    · have : (t + S - binR i) % S = t - binR i := by
        have e : t + S - binR i = (t - binR i) + S := by omega
        rw [e, Nat.add_mod_right, Nat.mod_eq_of_lt (by omega)]
      simp [hle, this]
    · have hlt : t + S - binR i < S := by omega
      rw [Nat.mod_eq_of_lt hlt, if_neg hle, hfit _ (by omega) hlt]
      ring
  · have hz : E i ((t + S - binR i % S) % S) = 0 :=
      hfit _ (by omega) (Nat.mod_lt _ (by omega))
    rw [hz, if_neg (by omega)]
    ring

/-- The wrap-around of `np.roll`, on a concrete two-bin histogram: energy in the last bin,
    delayed by one bin, re-appears in bin 0 (the truncating delay gives 0 there). -/
theorem collectRollF_wraps :
    collectRollF 2 (fun _ => 1) (fun _ => (1 : ℝ)) (fun _ t => if t = 1 then 1 else 0) 0 0 = 1 ∧
    collectF (fun _ => 1) (fun _ => (1 : ℝ)) (fun _ t => if t = 1 then 1 else 0) 0 0 = 0 := by
  constructor <;> simp [collectRollF, collectF]

end Sparrow
