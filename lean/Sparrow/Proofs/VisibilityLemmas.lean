import Sparrow.Model.Visibility
import Sparrow.Proofs.FrameLemmas
import Sparrow.Proofs.RealInst
import Mathlib.Tactic.Ring
import Mathlib.Tactic.Linarith
import Mathlib.Tactic.FieldSimp

namespace Sparrow
open Vec3

theorem proj_pt_dot (b p0 n v : Vec3 ℝ) (f : ℝ) :
    dot (sub (add (add (sub b p0) p0) (smul f v)) p0) n = dot n (sub b p0) + f * dot v n := by
  unfold dot sub add smul
  simp only
  ring

theorem proj_pt_symm (a b p0 : Vec3 ℝ) (D Ea Eb : ℝ) (hD : D ≠ 0) (h : Eb - Ea = D) :
    add (add (sub b p0) p0) (smul (-(Eb / D)) (sub b a)) =
      add (add (sub a p0) p0) (smul (-(Ea / -D)) (sub a b)) := by
  have hEb : Eb = D + Ea := by linarith
  subst hEb
  unfold sub add smul
  refine Vec3.ext' ?_ ?_ ?_ <;> simp only <;> field_simp <;> ring

/-- The point where the line through `a` and `b` meets the plane is the same whichever end one
    starts from. -/
theorem projectToPlane_symm (eps : ℝ) (heps : 0 ≤ eps) (a b p0 n : Vec3 ℝ) :
    projectToPlane eps a b p0 n = projectToPlane eps b a p0 n := by
  have hdp : dot (sub a b) n = -(dot (sub b a) n) := by
    unfold dot sub; ring
  have hrel : dot n (sub b p0) - dot n (sub a p0) = dot (sub b a) n := by
    unfold dot sub; ring
  unfold projectToPlane
  simp only [cmp_lt_real, cmp_abs_real, hdp, abs_neg, decide_eq_true_eq]
  by_cases hc : eps < |dot (sub b a) n|
  · have hne : dot (sub b a) n ≠ 0 := by
      intro h0
      rw [h0, abs_zero] at hc
      linarith
    rw [if_pos hc, if_pos hc]
    exact congrArg some (proj_pt_symm a b p0 _ _ _ hne hrel)
  · rw [if_neg hc, if_neg hc]

/-- … it lies on the line and in the plane. -/
theorem projectToPlane_spec (eps : ℝ) (heps : 0 ≤ eps) (a b p0 n pt : Vec3 ℝ)
    (h : projectToPlane eps a b p0 n = some pt) :
    dot (sub pt p0) n = 0 ∧ ∃ t : ℝ, pt = add b (smul t (sub b a)) := by
  unfold projectToPlane at h
  simp only [cmp_lt_real, cmp_abs_real, decide_eq_true_eq] at h
  by_cases hc : eps < |dot (sub b a) n|
  · have hne : dot (sub b a) n ≠ 0 := by
      intro h0
      rw [h0, abs_zero] at hc
      linarith
    rw [if_pos hc] at h
    simp only [Option.some.injEq] at h
    subst h
    refine ⟨?_, -(dot n (sub b p0) / dot (sub b a) n), ?_⟩
    · rw [proj_pt_dot]
      field_simp
      ring
    · unfold add sub smul
      refine Vec3.ext' ?_ ?_ ?_ <;> simp only <;> ring
  · rw [if_neg hc] at h
    exact absurd h (by simp)

/-- **Case analysis of `_basic_visibility`** over an arbitrary membership test: the surface hides
    the two points from each other exactly when
    * neither lies in the surface and the connecting line meets the plane (not parallel) in a point
      of the surface lying strictly between them (`(pt-a)·(pt-b) < 0`), or
    * exactly one lies in the surface and the other is strictly behind it, or
    * one lies in the surface and both lie in its plane (coplanar). -/
theorem basic_visibility_cases (eta : ℝ) (inSurf : Vec3 ℝ → Bool) (a b p0 n : Vec3 ℝ) :
    basicVisibilityWith eta inSurf a b p0 n = false ↔
      (inSurf a = false ∧ inSurf b = false ∧
        ∃ pt, projectToPlane eta a b p0 n = some pt ∧ inSurf pt = true ∧ dot (sub pt a) (sub pt b) < 0) ∨
      (inSurf a = true ∧ inSurf b = false ∧ dot n (sub b a) < 0) ∨
      (inSurf a = false ∧ inSurf b = true ∧ dot n (sub a b) < 0) ∨
      ((inSurf a = true ∨ inSurf b = true) ∧ ¬ (inSurf a = false ∧ inSurf b = false) ∧
        ¬ (inSurf a = true ∧ inSurf b = false ∧ dot n (sub b a) < 0) ∧
        ¬ (inSurf a = false ∧ inSurf b = true ∧ dot n (sub a b) < 0) ∧
        |dot (sub a p0) n| < eta ∧ |dot (sub b p0) n| < eta) := by
  unfold basicVisibilityWith
  cases ha : inSurf a <;> cases hb : inSurf b
  · cases hp : projectToPlane eta a b p0 n with
    | none => simp
    | some pt =>
      cases hi : inSurf pt
      · simp [hi]
      · by_cases hs : dot (sub pt a) (sub pt b) < 0
        · simp [hi, hs]
        · simp [hi, hs]
  · by_cases h1 : dot n (sub a b) < 0
    · simp [h1]
    · simp [h1]
  · by_cases h1 : dot n (sub b a) < 0
    · simp [h1]
    · simp [h1]
  · simp

/-- **Symmetry**: the relation does not depend on which of the two points is the viewer. -/
theorem basic_visibility_symm (eta : ℝ) (heta : 0 ≤ eta) (inSurf : Vec3 ℝ → Bool) (a b p0 n : Vec3 ℝ) :
    basicVisibilityWith eta inSurf a b p0 n = basicVisibilityWith eta inSurf b a p0 n := by
  have hcomm : ∀ pt : Vec3 ℝ, dot (sub pt b) (sub pt a) = dot (sub pt a) (sub pt b) := by
    intro pt; unfold dot sub; ring
  unfold basicVisibilityWith
  rw [← projectToPlane_symm eta heta a b p0 n]
  cases ha : inSurf a <;> cases hb : inSurf b
  · cases hp : projectToPlane eta a b p0 n with
    | none => simp
    | some pt => simp [hcomm]
  · simp [Bool.or_comm]
  · simp [Bool.or_comm]
  · simp [and_comm]

theorem basicVisibility_symm (eta : ℝ) (heta : 0 ≤ eta) (a b : Vec3 ℝ) (poly : Nat → Vec3 ℝ) (m : Nat) (n : Vec3 ℝ) :
    basicVisibility eta a b poly m n = basicVisibility eta b a poly m n := by
  unfold basicVisibility
  exact basic_visibility_symm eta heta _ a b (poly 0) n

/-- The scans report a pair visible exactly when no surface of the scene hides it, and the
    result is symmetric in the two points. -/
theorem scan_all_surfaces (eta : ℝ) (a b : Vec3 ℝ) (nSurf : Nat) (surf : Nat → Nat → Vec3 ℝ) (nPts : Nat)
    (normals : Nat → Vec3 ℝ) :
    visibleThroughAll eta a b nSurf surf nPts normals = true ↔
      ∀ s, s < nSurf → basicVisibility eta a b (surf s) nPts (normals s) = true := by
  unfold visibleThroughAll
  simp [List.all_eq_true, List.mem_range]

theorem scan_symm (eta : ℝ) (heta : 0 ≤ eta) (a b : Vec3 ℝ) (nSurf : Nat) (surf : Nat → Nat → Vec3 ℝ) (nPts : Nat)
    (normals : Nat → Vec3 ℝ) :
    visibleThroughAll eta a b nSurf surf nPts normals = visibleThroughAll eta b a nSurf surf nPts normals := by
  unfold visibleThroughAll
  congr 1
  funext s
  exact basicVisibility_symm eta heta a b (surf s) nPts (normals s)

/-- Translation invariance of the plane part: translating both points and the plane point by `t`
    translates the projection point. -/
theorem projectToPlane_translation (eps : ℝ) (a b p0 n t : Vec3 ℝ) :
    projectToPlane eps (add a t) (add b t) (add p0 t) n = (projectToPlane eps a b p0 n).map (fun p => add p t) := by
  have h1 : sub (add b t) (add a t) = sub b a := by
    unfold sub add; refine Vec3.ext' ?_ ?_ ?_ <;> simp only <;> ring
  have h2 : sub (add b t) (add p0 t) = sub b p0 := by
    unfold sub add; refine Vec3.ext' ?_ ?_ ?_ <;> simp only <;> ring
  unfold projectToPlane
  simp only [h1, h2]
  by_cases hc : Cmp.lt eps (Cmp.abs (dot (sub b a) n)) = true
  · rw [if_pos hc, if_pos hc]
    simp only [Option.map_some]
    congr 1
    unfold add sub smul
    refine Vec3.ext' ?_ ?_ ?_ <;> simp only <;> ring
  · rw [if_neg hc, if_neg hc]
    rfl

/-! ### The rotation towards `+z` -/

theorem feq_iff (x y : ℝ) : feq x y = true ↔ x = y := by
  unfold feq
  simp only [cmp_lt_real, Bool.and_eq_true, Bool.not_eq_true', decide_eq_false_iff_not, not_lt]
  constructor
  · rintro ⟨h1, h2⟩
    exact le_antisymm h2 h1
  · rintro rfl
    exact ⟨le_refl _, le_refl _⟩

/-- the `else` part of `rotationToZ` as a function of `c = a·b`, `v = a × b`, `s = |v|` -/
noncomputable def rotCore (c : ℝ) (v : Vec3 ℝ) (s : ℝ) : Mat3 ℝ :=
  if feq s 0 && Cmp.lt 0 c then Mat3.id
  else if !feq c (-1) then
    let f := (1 - c) / (s * s)
    let k00 : ℝ := 0;      let k01 := -v.z;  let k02 := v.y
    let k10 := v.z;        let k11 : ℝ := 0; let k12 := -v.x
    let k20 := -v.y;       let k21 := v.x;   let k22 : ℝ := 0
    let kk := fun (a0 a1 a2 b0 b1 b2 : ℝ) => a0 * b0 + a1 * b1 + a2 * b2
    ⟨⟨1 + k00 + kk k00 k01 k02 k00 k10 k20 * f, 0 + k01 + kk k00 k01 k02 k01 k11 k21 * f, 0 + k02 + kk k00 k01 k02 k02 k12 k22 * f⟩,
     ⟨0 + k10 + kk k10 k11 k12 k00 k10 k20 * f, 1 + k11 + kk k10 k11 k12 k01 k11 k21 * f, 0 + k12 + kk k10 k11 k12 k02 k12 k22 * f⟩,
     ⟨0 + k20 + kk k20 k21 k22 k00 k10 k20 * f, 0 + k21 + kk k20 k21 k22 k01 k11 k21 * f, 1 + k22 + kk k20 k21 k22 k02 k12 k22 * f⟩⟩
  else ⟨⟨-1, 0, 0⟩, ⟨0, 1, 0⟩, ⟨0, 0, -1⟩⟩

theorem rotationToZ_eq (n : Vec3 ℝ) :
    rotationToZ n = if n.x = 0 ∧ n.y = 0 ∧ n.z = 1 then Mat3.id
      else rotCore (dot (normalize n) ⟨0, 0, 1⟩) (cross (normalize n) ⟨0, 0, 1⟩)
        (norm (cross (normalize n) ⟨0, 0, 1⟩)) := by
  have hcond : (feq n.x 0 && feq n.y 0 && feq n.z 1) = true ↔ (n.x = 0 ∧ n.y = 0 ∧ n.z = 1) := by
    simp only [Bool.and_eq_true, feq_iff, and_assoc]
  unfold rotationToZ
  by_cases h : n.x = 0 ∧ n.y = 0 ∧ n.z = 1
  · rw [if_pos h, if_pos (hcond.mpr h)]
  · rw [if_neg h, if_neg (mt hcond.mp h)]
    rfl

/-- Rodrigues' matrix for the unit vector `(p, q, r)` and target `+z`, with `f = (1-r)/(p²+q²)` -/
noncomputable def rodF (p q f : ℝ) : Mat3 ℝ :=
  ⟨⟨1 - p * p * f, -(p * q * f), -p⟩, ⟨-(p * q * f), 1 - q * q * f, -q⟩,
   ⟨p, q, 1 - (p * p + q * q) * f⟩⟩

theorem rotCore_rod (p q r s : ℝ) (h1 : ¬ (s = 0 ∧ 0 < r)) (h2 : r ≠ -1) :
    rotCore r ⟨q, -p, 0⟩ s = rodF p q ((1 - r) / (s * s)) := by
  have c1 : ¬ ((feq s 0 && Cmp.lt 0 r) = true) := by
    simp only [Bool.and_eq_true, feq_iff, cmp_lt_real, decide_eq_true_eq]
    exact h1
  have c2 : (!feq r (-1)) = true := by
    simp only [Bool.not_eq_true']
    cases h : feq r (-1)
    · rfl
    · exact absurd ((feq_iff _ _).mp h) h2
  unfold rotCore rodF
  rw [if_neg c1, if_pos c2]
  simp only
  congr 1 <;> (refine Vec3.ext' ?_ ?_ ?_ <;> simp only <;> ring)

theorem rodF_maps (p q r f : ℝ) (hf1 : (p * p + q * q) * f = 1 - r)
    (hunit : p * p + q * q + r * r = 1) :
    (rodF p q f).mulVec ⟨p, q, r⟩ = ⟨0, 0, 1⟩ := by
  unfold rodF Mat3.mulVec dot
  refine Vec3.ext' ?_ ?_ ?_ <;> simp only
  · linear_combination (-p) * hf1
  · linear_combination (-q) * hf1
  · linear_combination hunit - r * hf1

theorem rodF_orth (p q r f : ℝ) (hf1 : (p * p + q * q) * f = 1 - r) (hf2 : f * (1 + r) = 1)
    (hunit : p * p + q * q + r * r = 1) (v w : Vec3 ℝ) :
    dot ((rodF p q f).mulVec v) ((rodF p q f).mulVec w) = dot v w := by
  obtain ⟨vx, vy, vz⟩ := v
  obtain ⟨wx, wy, wz⟩ := w
  unfold rodF Mat3.mulVec dot
  simp only
  linear_combination (vx * wx) * (p * p * f * hf1 - p * p * hf2)
    + (vy * wy) * (q * q * f * hf1 - q * q * hf2)
    + (vz * wz) * (hunit - (1 - (p * p + q * q) * f + r) * hf1)
    + (vx * wy + vy * wx) * (p * q * f * hf1 - p * q * hf2)

/-- The three outcomes of the `else` part for a unit vector `a`. -/
theorem rotCore_cases (a : Vec3 ℝ) (hua : dot a a = 1) :
    (rotCore (dot a ⟨0, 0, 1⟩) (cross a ⟨0, 0, 1⟩) (norm (cross a ⟨0, 0, 1⟩)) = Mat3.id ∧
        a = ⟨0, 0, 1⟩) ∨
    (rotCore (dot a ⟨0, 0, 1⟩) (cross a ⟨0, 0, 1⟩) (norm (cross a ⟨0, 0, 1⟩)) =
        ⟨⟨-1, 0, 0⟩, ⟨0, 1, 0⟩, ⟨0, 0, -1⟩⟩ ∧ a = ⟨0, 0, -1⟩) ∨
    (∃ f : ℝ, rotCore (dot a ⟨0, 0, 1⟩) (cross a ⟨0, 0, 1⟩) (norm (cross a ⟨0, 0, 1⟩)) =
        rodF a.x a.y f ∧ (a.x * a.x + a.y * a.y) * f = 1 - a.z ∧ f * (1 + a.z) = 1) := by
  obtain ⟨p, q, r⟩ := a
  have hunit : p * p + q * q + r * r = 1 := by simpa [dot] using hua
  have hc : dot (⟨p, q, r⟩ : Vec3 ℝ) ⟨0, 0, 1⟩ = r := by simp [dot]
  have hv : cross (⟨p, q, r⟩ : Vec3 ℝ) ⟨0, 0, 1⟩ = ⟨q, -p, 0⟩ := by simp [cross]
  rw [hc, hv]
  have hσ0 : 0 ≤ p * p + q * q := by nlinarith [mul_self_nonneg p, mul_self_nonneg q]
  have hs : norm (⟨q, -p, 0⟩ : Vec3 ℝ) * norm (⟨q, -p, 0⟩ : Vec3 ℝ) = p * p + q * q := by
    unfold Vec3.norm
    simp only [transc_sqrt_real]
    have : dot (⟨q, -p, 0⟩ : Vec3 ℝ) ⟨q, -p, 0⟩ = p * p + q * q := by
      simp only [dot]; ring
    rw [this]
    exact Real.mul_self_sqrt hσ0
  generalize norm (⟨q, -p, 0⟩ : Vec3 ℝ) = s at hs
  have hpq : p * p + q * q = 0 → p = 0 ∧ q = 0 := by
    intro h
    constructor <;> nlinarith [mul_self_nonneg p, mul_self_nonneg q]
  by_cases h1 : s = 0 ∧ 0 < r
  · left
    obtain ⟨hs0, hr⟩ := h1
    constructor
    · unfold rotCore
      rw [if_pos]
      simp only [Bool.and_eq_true, feq_iff, cmp_lt_real, decide_eq_true_eq]
      exact ⟨hs0, hr⟩
    · rw [hs0] at hs
      obtain ⟨hp, hq⟩ := hpq (by linarith)
      subst hp hq
      have : r = 1 := by nlinarith
      rw [this]
  · by_cases h2 : r = -1
    · right; left
      subst h2
      constructor
      · unfold rotCore
        rw [if_neg, if_neg]
        · simp only [Bool.not_eq_true', Bool.not_eq_false]
          exact (feq_iff _ _).mpr rfl
        · simp only [Bool.and_eq_true, feq_iff, cmp_lt_real, decide_eq_true_eq]
          rintro ⟨_, h⟩
          linarith
      · obtain ⟨hp, hq⟩ := hpq (by linarith)
        rw [hp, hq]
    · right; right
      have hσ : p * p + q * q ≠ 0 := by
        intro h
        obtain ⟨hp, hq⟩ := hpq h
        have hs0 : s = 0 := by
          have : s * s = 0 := by rw [hs, h]
          exact mul_self_eq_zero.mp this
        have hr2 : (r - 1) * (r + 1) = 0 := by linear_combination hunit - h
        rcases mul_eq_zero.mp hr2 with hr | hr
        · exact h1 ⟨hs0, by linarith⟩
        · exact h2 (by linarith)
      refine ⟨(1 - r) / (s * s), rotCore_rod p q r s h1 h2, ?_, ?_⟩
      · simp only
        rw [hs]
        exact mul_div_cancel₀ _ hσ
      · simp only
        rw [hs]
        have : (1 - r) * (1 + r) = p * p + q * q := by linear_combination -hunit
        rw [div_mul_eq_mul_div, this, div_self hσ]

theorem id_mulVec (v : Vec3 ℝ) : (Mat3.id : Mat3 ℝ).mulVec v = v := by
  obtain ⟨x, y, z⟩ := v
  simp [Mat3.mulVec, Mat3.id, dot]

/-- `_rotation_matrix` is orthogonal and takes the (normalised) input to `+z`, for every input
    that is not anti-parallel to `+z` and not the zero vector. -/
theorem rotationToZ_maps (n : Vec3 ℝ) (hn : dot n n ≠ 0) (hanti : ¬ (n.x = 0 ∧ n.y = 0 ∧ n.z < 0)) :
    (rotationToZ n).mulVec (normalize n) = ⟨0, 0, 1⟩ := by
  rw [rotationToZ_eq]
  by_cases h0 : n.x = 0 ∧ n.y = 0 ∧ n.z = 1
  · rw [if_pos h0, id_mulVec]
    obtain ⟨nx, ny, nz⟩ := n
    obtain ⟨hx, hy, hz⟩ := h0
    simp only at hx hy hz
    subst hx hy hz
    exact normalize_of_unit _ (by simp [dot])
  · rw [if_neg h0]
    have hua := dot_normalize n hn
    rcases rotCore_cases (normalize n) hua with ⟨hR, ha⟩ | ⟨_, ha⟩ | ⟨f, hR, hf1, _⟩
    · rw [hR, id_mulVec, ha]
    · exfalso
      have h0' : 0 ≤ dot n n := dot_self_nonneg n
      have hNpos : 0 < norm n := by
        unfold Vec3.norm
        simp only [transc_sqrt_real]
        exact Real.sqrt_pos.mpr (lt_of_le_of_ne h0' (Ne.symm hn))
      have hx : n.x / norm n = 0 := by
        have := congrArg Vec3.x ha
        simpa [Vec3.normalize, sdiv] using this
      have hy : n.y / norm n = 0 := by
        have := congrArg Vec3.y ha
        simpa [Vec3.normalize, sdiv] using this
      have hz : n.z / norm n = -1 := by
        have := congrArg Vec3.z ha
        simpa [Vec3.normalize, sdiv] using this
      apply hanti
      refine ⟨?_, ?_, ?_⟩
      · rcases div_eq_zero_iff.mp hx with h | h
        · exact h
        · exact absurd h hNpos.ne'
      · rcases div_eq_zero_iff.mp hy with h | h
        · exact h
        · exact absurd h hNpos.ne'
      · rw [div_eq_iff hNpos.ne'] at hz
        linarith
    · rw [hR]
      have hunit : (normalize n).x * (normalize n).x + (normalize n).y * (normalize n).y
          + (normalize n).z * (normalize n).z = 1 := by simpa [dot] using hua
      exact rodF_maps _ _ _ f hf1 hunit

theorem rotationToZ_orthogonal (n : Vec3 ℝ) (hn : dot n n ≠ 0) (v w : Vec3 ℝ) :
    dot ((rotationToZ n).mulVec v) ((rotationToZ n).mulVec w) = dot v w := by
  rw [rotationToZ_eq]
  by_cases h0 : n.x = 0 ∧ n.y = 0 ∧ n.z = 1
  · rw [if_pos h0, id_mulVec, id_mulVec]
  · rw [if_neg h0]
    have hua := dot_normalize n hn
    rcases rotCore_cases (normalize n) hua with ⟨hR, _⟩ | ⟨hR, _⟩ | ⟨f, hR, hf1, hf2⟩
    · rw [hR, id_mulVec, id_mulVec]
    · rw [hR]
      obtain ⟨vx, vy, vz⟩ := v
      obtain ⟨wx, wy, wz⟩ := w
      simp only [Mat3.mulVec, dot]
      ring
    · rw [hR]
      have hunit : (normalize n).x * (normalize n).x + (normalize n).y * (normalize n).y
          + (normalize n).z * (normalize n).z = 1 := by simpa [dot] using hua
      exact rodF_orth _ _ _ f hf1 hf2 hunit v w

end Sparrow
