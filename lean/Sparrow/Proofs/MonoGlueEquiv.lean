import Sparrow.Generated.MonoGlue
import Sparrow.Model.Source
import Sparrow.Proofs.BakeKernelEquiv
import Mathlib.Algebra.BigOperators.Group.Finset.Basic
import Mathlib.Tactic.Ring
import Mathlib.Tactic.Linarith
/-
  `calculate_direct_sound` and `collect_energy_receiver_mono`, TRANSLATED from the Python source on every run
  (`Generated/MonoGlue.lean`): the direct sound at receiver `k`, band `b` is `1/(4π r_k²)·exp(-m_b r_k)` times the
  source's directivity towards the receiver, it belongs to bin `floor(r_k/c/dt)`; the mono curve is the sum of the
  patch-wise curves over the patches, plus — only when asked for and only when that bin exists — the direct sound in
  exactly that bin.
-/
namespace Sparrow
open Sparrow.Generated.MonoGlue

theorem mg_colFold (B : Nat) (f : Nat → Nat → ℝ) (A0 : Nat → Nat → ℝ) (k b : Nat) (hb : b < B) :
    ((List.range B).foldl (fun (st_ : Nat → Nat → ℝ) i => fun p0 p1 =>
      if p1 = i then st_ p0 p1 * f i p0 else st_ p0 p1) A0) k b = A0 k b * f b k := by
  refine be_foldl_cell _ (fun (st : Nat → Nat → ℝ) => st k b) _ B b hb ?_ _ ?_
  · intro ii _ hne st; simp [Ne.symm hne]
  · intro st hst
    simp [hst]

theorem mg_sumFold (P : Nat) (f : Nat → ℝ) :
    (List.range P).foldl (fun acc k => acc + f k) 0 = ∑ k ∈ Finset.range P, f k := by
  induction P with
  | zero => simp
  | succ n ih => rw [List.range_succ, List.foldl_append, ih, Finset.sum_range_succ]; simp

/-- the directivity factor of the direct sound -/
noncomputable def mgDir (g : Option ((Nat → Nat → ℝ) → ℝ → Nat → ℝ)) (rc : Nat → Nat → ℝ) (freq : Nat → ℝ) (k b : Nat) : ℝ :=
  match g with | some g => g rc (freq b) k | none => 1

/-- **`calculate_direct_sound` as translated**: value and bin -/
theorem calculateDirectSound_eq (r : Nat → ℝ) (rc : Nat → Nat → ℝ) (B : Nat) (att : Option (Nat → ℝ))
    (g : Option ((Nat → Nat → ℝ) → ℝ → Nat → ℝ)) (freq : Nat → ℝ) (c dt : ℝ) (k b : Nat) (hb : b < B) :
    (calculateDirectSound r rc B att g freq c dt).1 k b =
        (match att with
          | some m => directSound (r k) (m b)
          | none => 1 / (4 * Real.pi * (r k * r k))) * mgDir g rc freq k b ∧
    (calculateDirectSound r rc B att g freq c dt).2 k = ToBin.floorNat (r k / c / dt) := by
  refine ⟨?_, rfl⟩
  simp only [calculateDirectSound]
  have h4 : ((4 : Nat) : ℝ) = 4 := by norm_num
  have h1 : ((1 : Nat) : ℝ) = 1 := by norm_num
  have hfour : ((1 : ℝ) + 1 + (1 + 1)) = 4 := by norm_num
  cases att with
  | none =>
    cases g with
    | none => simp [mgDir, h1]
    | some g =>
      simp only [mgDir]
      rw [mg_colFold B (fun i p0 => g rc (freq i) p0) _ k b hb]
      simp [h1]
  | some m =>
    cases g with
    | none =>
      simp only [mgDir, mul_one]
      rw [mg_colFold B (fun i p0 => Transc.exp (-(m i) * r p0)) _ k b hb]
      unfold directSound
      simp [h1, hfour]
    | some g =>
      simp only [mgDir]
      rw [mg_colFold B (fun i p0 => g rc (freq i) p0) _ k b hb,
        mg_colFold B (fun i p0 => Transc.exp (-(m i) * r p0)) _ k b hb]
      unfold directSound
      simp [h1, hfour]

/-- **`collect_energy_receiver_mono` as translated**: the sum over the patches; the direct sound, when asked for, is
    added in bin `floor(r_k/c/dt)` and nowhere else, and not at all when that bin is beyond the histogram. -/
theorem collectEnergyReceiverMono_eq (pw : Nat → Nat → Nat → Nat → ℝ) (R P Bn S : Nat) (ds : Bool)
    (r : Nat → ℝ) (rc : Nat → Nat → ℝ) (B : Nat) (att : Option (Nat → ℝ))
    (g : Option ((Nat → Nat → ℝ) → ℝ → Nat → ℝ)) (freq : Nat → ℝ) (c dt : ℝ) (k b t : Nat) :
    collectEnergyReceiverMono pw R P Bn S ds r rc B att g freq c dt k b t =
      (∑ p ∈ Finset.range P, pw k p b t) +
        (if ds = true ∧ ToBin.floorNat (r k / c / dt) < S ∧ t = ToBin.floorNat (r k / c / dt)
          then (calculateDirectSound r rc B att g freq c dt).1 k b else 0) := by
  simp only [collectEnergyReceiverMono]
  cases ds
  · simp [mg_sumFold P (fun p => pw k p b t)]
  · have hd : (calculateDirectSound r rc B att g freq c dt).2 k = ToBin.floorNat (r k / c / dt) := rfl
    simp only [if_true, true_and, hd, decide_eq_true_eq, mg_sumFold P (fun p => pw k p b t)]
    by_cases h : ToBin.floorNat (r k / c / dt) < S ∧ t = ToBin.floorNat (r k / c / dt)
    · rw [if_pos h, if_pos h]
    · rw [if_neg h, if_neg h]; simp

/-- additivity (C11): without the direct sound the mono curve IS the sum of the patch-wise curves -/
theorem collectEnergyReceiverMono_additive (pw : Nat → Nat → Nat → Nat → ℝ) (R P Bn S : Nat)
    (r : Nat → ℝ) (rc : Nat → Nat → ℝ) (B : Nat) (att : Option (Nat → ℝ))
    (g : Option ((Nat → Nat → ℝ) → ℝ → Nat → ℝ)) (freq : Nat → ℝ) (c dt : ℝ) (k b t : Nat) :
    collectEnergyReceiverMono pw R P Bn S false r rc B att g freq c dt k b t = ∑ p ∈ Finset.range P, pw k p b t := by
  rw [collectEnergyReceiverMono_eq]; simp

/-- the direct sound never lands before or after its time of flight, and is dropped beyond the end (C02) -/
theorem collectEnergyReceiverMono_direct_only_at_tof (pw : Nat → Nat → Nat → Nat → ℝ) (R P Bn S : Nat)
    (r : Nat → ℝ) (rc : Nat → Nat → ℝ) (B : Nat) (att : Option (Nat → ℝ))
    (g : Option ((Nat → Nat → ℝ) → ℝ → Nat → ℝ)) (freq : Nat → ℝ) (c dt : ℝ) (k b t : Nat)
    (ht : t ≠ ToBin.floorNat (r k / c / dt) ∨ S ≤ ToBin.floorNat (r k / c / dt)) :
    collectEnergyReceiverMono pw R P Bn S true r rc B att g freq c dt k b t =
      collectEnergyReceiverMono pw R P Bn S false r rc B att g freq c dt k b t := by
  rw [collectEnergyReceiverMono_eq, collectEnergyReceiverMono_eq]
  have : ¬ (true = true ∧ ToBin.floorNat (r k / c / dt) < S ∧ t = ToBin.floorNat (r k / c / dt)) := by
    rintro ⟨_, h1, h2⟩
    rcases ht with h | h
    · exact h h2
    · omega
  rw [if_neg this]; simp

end Sparrow
