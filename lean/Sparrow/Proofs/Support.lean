import Sparrow.Proofs.Refinement

namespace Sparrow

/-- `Reach sc k j t`: bin `t` is the sum of the per-leg travel-time bins along some chain
    source → i₀ → i₁ → … → i_k = j of visible arcs. -/
inductive Reach {α : Type} (sc : ExScene α) : Nat → Nat → Nat → Prop
  | init (j : Nat) : Reach sc 0 j (sc.bin0 j)
  | step {k i j t : Nat} : Reach sc k i t → (i, j) ∈ sc.arcs → Reach sc (k + 1) j (t + sc.bin i j)

theorem exists_ne_zero_of_sum_ne_zero {ι : Type} (l : List ι) (f : ι → ℝ)
    (h : (l.map f).sum ≠ 0) : ∃ a ∈ l, f a ≠ 0 := by
  by_contra hc
  push Not at hc
  apply h
  apply List.sum_eq_zero
  intro x hx
  obtain ⟨a, ha, rfl⟩ := List.mem_map.mp hx
  exact hc a ha

/-- Every non-zero bin of the order-`k` histogram lies inside the table and is the sum of
    per-leg bins along a chain of `k` visible arcs. -/
theorem orderH_ne_zero_reach (sc : ExScene ℝ) (k : Nat) :
    ∀ j d t, orderH sc k j d t ≠ 0 → Reach sc k j t ∧ t < sc.S := by
  induction k with
  | zero =>
    intro j d t h
    rw [orderH_zero] at h
    split at h
    · next hr =>
      unfold initF at h
      split at h
      · next ht => exact ⟨ht ▸ Reach.init j, hr.2.2⟩
      · exact absurd rfl h
    · exact absurd rfl h
  | succ k ih =>
    intro j d t h
    rw [orderH_succ] at h
    split at h
    · next hr =>
      rw [stepF_eq_sum] at h
      obtain ⟨a, ha, hne⟩ := exists_ne_zero_of_sum_ne_zero _ _ h
      obtain ⟨hmem, hj⟩ := List.mem_filter.mp ha
      have hj' : a.2 = j := by simpa using hj
      unfold term at hne
      split at hne
      · next hle =>
        have hH : orderH sc k a.1 (sc.dir a.1 a.2) (t - sc.bin a.1 a.2) ≠ 0 := by
          intro h0; apply hne; rw [h0]; ring
        obtain ⟨hreach, _⟩ := ih _ _ _ hH
        have hmem' : (a.1, j) ∈ sc.arcs := by rw [← hj']; exact hmem
        have := Reach.step hreach hmem'
        rw [← hj'] at this ⊢
        have e : t - sc.bin a.1 a.2 + sc.bin a.1 a.2 = t := by omega
        rw [e] at this
        exact ⟨this, hr.2.2⟩
      · exact absurd rfl hne
    · exact absurd rfl h

/-- A reachable bin is never earlier than the earliest first arrival. -/
theorem Reach.first_arrival_le {α : Type} {sc : ExScene α} {k j t : Nat} (h : Reach sc k j t) :
    ∃ i, sc.bin0 i ≤ t := by
  induction h with
  | init j => exact ⟨j, Nat.le_refl _⟩
  | step _ _ ih => obtain ⟨i, hi⟩ := ih; exact ⟨i, by omega⟩

end Sparrow
