import Sparrow.Proofs.PipelineTranslation
import Sparrow.Proofs.Batch2
import Sparrow.Proofs.Energy
import Sparrow.Proofs.Support
/-
  Energy statements about the whole modelled run (`runPipeline`): C01 (absorbing wall stays dark),
  C02 (a shorter histogram is a prefix of the longer one), C03 (nothing negative is produced),
  C10 (more air attenuation never increases any bin) — each lifted from the kernel-level theorem to
  the composition from_polygon → … → collect_energy_receiver_mono.
-/
namespace Sparrow
open Vec3

/-- patch `k` of the baked room -/
def Baked.patch (b : Baked ℝ) (k : Nat) : PatchRec ℝ := b.patches.getD k { wall := 0, pts := #[] }


/-! ### set-up: a successful run is `runOf` of the baked room, which is `bakeP` of the patches -/

theorem pe_bake (eta : ℝ) (room : Room ℝ) (mat : Materials ℝ) (bk : Baked ℝ)
    (hb : bakeRoom eta room mat = some bk) :
    ∃ ps, makePatches room = some ps ∧ bk = bakeP eta room mat ps.size ps := by
  rw [bakeRoom_eq] at hb
  cases h : makePatches room with
  | none => rw [h] at hb; simp at hb
  | some ps =>
    rw [h] at hb
    simp only [Option.map_some, Option.some.injEq] at hb
    exact ⟨ps, rfl, hb.symm⟩

theorem pe_run (eta thr : ℝ) (room : Room ℝ) (mat : Materials ℝ) (par : RunPar ℝ) (src recv : Vec3 ℝ)
    (bk : Baked ℝ) (r : RunResult ℝ) (hb : bakeRoom eta room mat = some bk)
    (hr : runPipeline eta thr room mat par src recv = some r) :
    r = runOf eta thr room mat par src recv bk := by
  rw [runPipeline_eq, hb] at hr
  simp only [Option.map_some, Option.some.injEq] at hr
  exact hr.symm

/-- the exchange scene of the run on the baked room `b` -/
noncomputable def pe_ex (eta thr : ℝ) (room : Room ℝ) (mat : Materials ℝ) (par : RunPar ℝ) (src : Vec3 ℝ)
    (b : Baked ℝ) : ExScene ℝ :=
  rEx mat par b.P b.scene b.pairs (rDist0 src b.P b.scene (rSrcVis eta room src b.P b.scene))
    (rE0 mat src b.P b.scene (rEnergy0 thr mat src b.P b.scene b.patches (rSrcVis eta room src b.P b.scene)))
    (rFft mat b.P b.scene) (rOutIdx b.P b.scene)

theorem pe_runOf_etc (eta thr : ℝ) (room : Room ℝ) (mat : Materials ℝ) (par : RunPar ℝ) (src recv : Vec3 ℝ)
    (b : Baked ℝ) :
    (runOf eta thr room mat par src recv b).etc = rEtc par (pe_ex eta thr room mat par src b) := rfl

theorem pe_runOf_mono (eta thr : ℝ) (room : Room ℝ) (mat : Materials ℝ) (par : RunPar ℝ) (src recv : Vec3 ℝ)
    (b : Baked ℝ) :
    (runOf eta thr room mat par src recv b).mono =
      rMono mat par b.P (rEtc par (pe_ex eta thr room mat par src b)) (rRidx recv b.P b.scene)
        (rG eta thr room recv b.P b.scene b.patches) (rDistR recv b.P b.scene) := rfl

/-- the table the run returns holds `ETC_K` (also for `K = 0`, where the code takes the order-0 table) -/
theorem pe_lookup_rEtc (par : RunPar ℝ) (ex : ExScene ℝ) (j d t : Nat) :
    lookup3 (rEtc par ex) j d t = etc ex par.K j d t := by
  unfold rEtc
  by_cases hK : par.K = 0
  · rw [if_pos hK, hK, etc_zero]; rfl
  · rw [if_neg hK]; rfl

theorem pe_ex_e0 (eta thr : ℝ) (room : Room ℝ) (mat : Materials ℝ) (par : RunPar ℝ) (src : Vec3 ℝ)
    (b : Baked ℝ) (j d : Nat) :
    (pe_ex eta thr room mat par src b).e0 j d =
      if j < b.P ∧ d < mat.nOut then
        (rEnergy0 thr mat src b.P b.scene b.patches (rSrcVis eta room src b.P b.scene)).getD j 0 *
          b.scene.table (b.scene.tableIdx (b.scene.wall j)) (b.scene.towards b.scene.inDirs b.scene.nIn src j) d
      else 0 := by
  show lookup2 (tabulate2 _ _ _) j d = _
  rw [lookup2_tabulate2]
  rfl

theorem pe_ex_fft (eta thr : ℝ) (room : Room ℝ) (mat : Materials ℝ) (par : RunPar ℝ) (src : Vec3 ℝ)
    (b : Baked ℝ) (i j d : Nat) :
    (pe_ex eta thr room mat par src b).fft i j d =
      if i < b.P ∧ j < b.P ∧ d < mat.nOut then b.scene.fft i j d else 0 := by
  show lookup3 (tabulate3 _ _ _ _) i j d = _
  rw [lookup3_tabulate3]

/-- kernel fact behind C01 (`Props.C01.absorbing_wall_dark`, restated here to keep the import graph acyclic) -/
theorem pe_orderH_dark (sc : ExScene ℝ) (j : Nat)
    (h0 : ∀ d, sc.e0 j d = 0) (hf : ∀ i d, sc.fft i j d = 0) (k d t : Nat) :
    orderH sc k j d t = 0 := by
  cases k with
  | zero =>
    rw [orderH_zero]; split
    · unfold initF; split
      · exact h0 d
      · rfl
    · rfl
  | succ k =>
    rw [orderH_succ]; split
    · rw [stepF_eq_sum]
      apply List.sum_eq_zero
      intro x hx
      obtain ⟨a, ha, rfl⟩ := List.mem_map.mp hx
      have hj : a.2 = j := by simpa using (List.mem_filter.mp ha).2
      unfold term
      split
      · rw [hj, hf]; ring
      · rfl
    · rfl

/-- C01: if the BRDF table of wall `w` is identically zero (fully absorbing), no patch of wall
    `w` carries energy in any direction or bin, whatever the order, the room, the source. -/
theorem runPipeline_absorbing_wall_dark
    (eta thr : ℝ) (room : Room ℝ) (mat : Materials ℝ) (par : RunPar ℝ) (src recv : Vec3 ℝ)
    (bk : Baked ℝ) (r : RunResult ℝ)
    (hb : bakeRoom eta room mat = some bk)
    (hr : runPipeline eta thr room mat par src recv = some r)
    (w : Nat) (hz : ∀ i o, mat.table (mat.tableIdx w) i o = 0)
    (k : Nat) (hk : (bk.patch k).wall = w) (d t : Nat) :
    lookup3 r.etc k d t = 0 := by
  have hrun := pe_run eta thr room mat par src recv bk r hb hr
  obtain ⟨ps, _, rfl⟩ := pe_bake eta room mat bk hb
  subst hrun
  rw [pe_runOf_etc, pe_lookup_rEtc, etc_eq_sum]
  have hw : (bakeP eta room mat ps.size ps).scene.wall k = w := hk
  apply List.sum_eq_zero
  intro x hx
  obtain ⟨n, _, rfl⟩ := List.mem_map.mp hx
  apply pe_orderH_dark
  · intro d'
    rw [pe_ex_e0]
    split
    · show _ * mat.table (mat.tableIdx ((bakeP eta room mat ps.size ps).scene.wall k)) _ d' = 0
      rw [hw, hz, mul_zero]
    · rfl
  · intro i d'
    rw [pe_ex_fft]
    split
    · unfold BakeScene.fft
      have hz' : ∀ a, (bakeP eta room mat ps.size ps).scene.table
          ((bakeP eta room mat ps.size ps).scene.tableIdx ((bakeP eta room mat ps.size ps).scene.wall k)) a d' = 0 := by
        intro a
        rw [hw]
        exact hz a d'
      have ht : (bakeP eta room mat ps.size ps).scene.hasTable = true := rfl
      simp [ht, hz']
    · rfl

/-- kernel fact behind C02 (`Props.C02.truncation_removes`) -/
theorem pe_truncation_removes (sc : ExScene ℝ) (hwf : sc.WF) (S' : Nat) (_hS : S' ≤ sc.S)
    (K j d t : Nat) (hj : j < sc.P) (hd : d < sc.D) (ht : t < S') :
    etc { sc with S := S' } K j d t = etc sc K j d t := by
  have hwf' : ExScene.WF { sc with S := S' } := hwf
  rw [etc_eq_coeff _ hwf' K j d t hj hd ht, etc_eq_coeff sc hwf K j d t hj hd (by omega)]
  unfold specEtc
  simp only [specOrder_congr_S]

/-- listed pairs are strictly upper-triangular, in range and visible -/
theorem pe_mem_bPairs (eta : ℝ) (room : Room ℝ) (P : Nat) (ps : Array (PatchRec ℝ)) (a : Nat × Nat)
    (h : a ∈ bPairs eta room P ps) : a.1 < a.2 ∧ a.2 < P ∧ bVisB eta room P ps a.1 a.2 = true := by
  unfold bPairs at h
  simp only [List.mem_flatMap, List.mem_map, List.mem_filter, List.mem_range] at h
  obtain ⟨i, hi, j, ⟨hj, hv⟩, rfl⟩ := h
  refine ⟨?_, hj, hv⟩
  by_contra hlt
  unfold bVisB bVis at hv
  rw [lookup2_tabulate2] at hv
  simp [hi, hj, hlt] at hv

theorem pe_nearest_lt (samples : Nat → Vec3 ℝ) (n : Nat) (u : Vec3 ℝ) (hn : 0 < n) :
    nearest samples n u < n := by
  unfold nearest
  exact (argminFirst_spec n _ hn).1

theorem pe_outIdx_lt (sc : BakeScene ℝ) (i j : Nat) (ht : sc.hasTable = true) (hD : 0 < sc.D)
    (hv : sc.visSym i j = true) (hne : i ≠ j) : sc.outIdx i j < sc.D := by
  unfold BakeScene.outIdx
  simp only [ht, hv, if_true, Bool.true_and, bne_iff_ne, ne_eq, hne, not_false_eq_true]
  exact pe_nearest_lt _ _ _ hD

theorem pe_rOutIdx_getD (P : Nat) (sc : BakeScene ℝ) (i j : Nat) (hi : i < P) (hj : j < P) :
    (rOutIdx P sc).getD (i * P + j) 0 = sc.outIdx i j := by
  have hP : 0 < P := by omega
  have hlt : i * P + j < P * P := by
    have : (i + 1) * P ≤ P * P := Nat.mul_le_mul_right P hi
    rw [Nat.add_mul, Nat.one_mul] at this
    omega
  unfold rOutIdx
  rw [getD_ofFn _ _ _ hlt]
  have h1 : (i * P + j) / P = i := by
    rw [Nat.add_comm, Nat.add_mul_div_right _ _ hP, Nat.div_eq_of_lt hj, Nat.zero_add]
  have h2 : (i * P + j) % P = j := by
    rw [Nat.add_comm, Nat.add_mul_mod_self_right, Nat.mod_eq_of_lt hj]
  simp only [h1, h2]

/-- the exchange scene built from a baked room is index-well-formed as soon as there is at least
    one outgoing sample -/
theorem pe_ex_wf (eta thr : ℝ) (room : Room ℝ) (mat : Materials ℝ) (par : RunPar ℝ) (src : Vec3 ℝ)
    (P : Nat) (ps : Array (PatchRec ℝ)) (hD : 0 < mat.nOut) :
    (pe_ex eta thr room mat par src (bakeP eta room mat P ps)).WF := by
  intro a ha
  have ha' : a ∈ arcsOf (bPairs eta room P ps) := ha
  unfold arcsOf at ha'
  simp only [List.mem_flatMap, List.mem_cons, List.not_mem_nil, or_false] at ha'
  obtain ⟨p, hp, hcase⟩ := ha'
  obtain ⟨h12, h2, hv⟩ := pe_mem_bPairs eta room P ps p hp
  have h1 : p.1 < P := by omega
  have hvis : (bScene eta room mat P ps).vis p.1 p.2 = true := hv
  have hne : p.1 ≠ p.2 := by omega
  rcases hcase with rfl | rfl
  · refine ⟨h1, h2, ?_⟩
    show (rOutIdx P (bScene eta room mat P ps)).getD (p.1 * P + p.2) 0 < mat.nOut
    rw [pe_rOutIdx_getD _ _ _ _ h1 h2]
    apply pe_outIdx_lt (bScene eta room mat P ps) p.1 p.2 rfl hD _ hne
    unfold BakeScene.visSym
    rw [if_pos h12, hvis]
  · refine ⟨h2, h1, ?_⟩
    show (rOutIdx P (bScene eta room mat P ps)).getD (p.2 * P + p.1) 0 < mat.nOut
    rw [pe_rOutIdx_getD _ _ _ _ h2 h1]
    apply pe_outIdx_lt (bScene eta room mat P ps) p.2 p.1 rfl hD _ (Ne.symm hne)
    unfold BakeScene.visSym
    rw [if_neg (by omega), hvis]

/-- C02: running with a shorter histogram `S' ≤ S` gives exactly the first `S'` bins of every
    patch histogram of the longer run (nothing is folded back). -/
theorem runPipeline_prefix
    (eta thr : ℝ) (room : Room ℝ) (mat : Materials ℝ) (par : RunPar ℝ) (src recv : Vec3 ℝ)
    (S' : Nat) (hS : S' ≤ par.S) (hD : 0 < mat.nOut)
    (r r' : RunResult ℝ)
    (hr : runPipeline eta thr room mat par src recv = some r)
    (hr' : runPipeline eta thr room mat { par with S := S' } src recv = some r')
    (j d t : Nat) (hj : j < r.P) (hd : d < mat.nOut) (ht : t < S') :
    lookup3 r'.etc j d t = lookup3 r.etc j d t := by
  obtain ⟨bk, hb⟩ : ∃ bk, bakeRoom eta room mat = some bk := by
    rw [runPipeline_eq] at hr
    cases h : bakeRoom eta room mat with
    | none => rw [h] at hr; simp at hr
    | some bk => exact ⟨bk, rfl⟩
  have hrun := pe_run eta thr room mat par src recv bk r hb hr
  have hrun' := pe_run eta thr room mat { par with S := S' } src recv bk r' hb hr'
  obtain ⟨ps, _, rfl⟩ := pe_bake eta room mat bk hb
  subst hrun hrun'
  rw [pe_runOf_etc, pe_runOf_etc, pe_lookup_rEtc, pe_lookup_rEtc]
  have hwf := pe_ex_wf eta thr room mat par src ps.size ps hD
  exact pe_truncation_removes (pe_ex eta thr room mat par src (bakeP eta room mat ps.size ps)) hwf S' hS
    par.K j d t hj hd ht

/-! ### signs and monotonicity of the pieces of a run -/

theorem pe_norm_nonneg (a : Vec3 ℝ) : 0 ≤ Vec3.norm a := by
  unfold Vec3.norm
  rw [transc_sqrt_real]
  exact Real.sqrt_nonneg _

theorem pe_sourceEnergy_nonneg (vis : Bool) (d : ℝ) (att : Option ℝ) (pt : ℝ) (hpt : 0 ≤ pt) :
    0 ≤ sourceEnergy vis d att pt := by
  unfold sourceEnergy
  split
  · cases att with
    | none => exact hpt
    | some m => exact mul_nonneg (Real.exp_pos _).le hpt
  · exact le_rfl

theorem pe_sourceEnergy_antitone (vis : Bool) (d m m' pt : ℝ) (hd : 0 ≤ d) (hm : m ≤ m') (hpt : 0 ≤ pt) :
    sourceEnergy vis d (some m') pt ≤ sourceEnergy vis d (some m) pt := by
  unfold sourceEnergy
  split
  · apply mul_le_mul_of_nonneg_right _ hpt
    apply Real.exp_le_exp.mpr
    have := mul_le_mul_of_nonneg_right hm hd
    linarith
  · exact le_rfl

theorem pe_energy0_getD (thr : ℝ) (mat : Materials ℝ) (src : Vec3 ℝ) (P : Nat) (sc : BakeScene ℝ)
    (ps : Array (PatchRec ℝ)) (sv : Array Bool) (k : Nat) :
    (rEnergy0 thr mat src P sc ps sv).getD k 0 =
      if k < P then
        sourceEnergy (sv.getD k false) (Vec3.norm (Vec3.sub src (sc.center k))) mat.att
          (ptSource thr src (fun v => (bPP ps k).pt v) 4)
      else 0 := by
  unfold rEnergy0
  by_cases hk : k < P
  · rw [getD_ofFn _ _ k hk, if_pos hk]
  · rw [if_neg hk]
    simp [Array.getD_eq_getD_getElem?, hk]

theorem pe_energy0_nonneg (thr : ℝ) (mat : Materials ℝ) (src : Vec3 ℝ) (P : Nat) (sc : BakeScene ℝ)
    (ps : Array (PatchRec ℝ)) (sv : Array Bool)
    (hsrc : ∀ k, k < P → 0 ≤ ptSource thr src (fun v => (bPP ps k).pt v) 4) (k : Nat) :
    0 ≤ (rEnergy0 thr mat src P sc ps sv).getD k 0 := by
  rw [pe_energy0_getD]
  split
  · next hk => exact pe_sourceEnergy_nonneg _ _ _ _ (hsrc k hk)
  · exact le_rfl

theorem pe_fft_nonneg (sc : BakeScene ℝ) (i j d : Nat) (hFij : 0 ≤ sc.F i j) (hFji : 0 ≤ sc.F j i)
    (hAi : 0 < sc.area i) (hAj : 0 < sc.area j) (hT : ∀ a b c, 0 ≤ sc.table a b c) :
    0 ≤ sc.fft i j d := by
  have hb : 0 ≤ sc.ffPrime i j := by
    unfold BakeScene.ffPrime
    split
    · exact hFij
    · exact div_nonneg (mul_nonneg hFji hAj.le) hAi.le
  have he : ∀ m : ℝ, 0 ≤ sc.ffPrime i j * Transc.exp (-m * Vec3.norm (Vec3.sub (sc.center i) (sc.center j))) :=
    fun m => mul_nonneg hb (Real.exp_pos _).le
  unfold BakeScene.fft
  dsimp only
  split
  · cases sc.att with
    | none =>
      dsimp only
      split
      · exact mul_nonneg hb (hT _ _ _)
      · exact hb
    | some m =>
      dsimp only
      split
      · exact mul_nonneg (he m) (hT _ _ _)
      · exact he m
  · exact le_rfl

theorem pe_fft_none_nonneg (sc : BakeScene ℝ) (i j d : Nat) (hFij : 0 ≤ sc.F i j) (hFji : 0 ≤ sc.F j i)
    (hAi : 0 < sc.area i) (hAj : 0 < sc.area j) (hT : ∀ a b c, 0 ≤ sc.table a b c) :
    0 ≤ (sc.withAtt none).fft i j d :=
  pe_fft_nonneg (sc.withAtt none) i j d hFij hFji hAi hAj hT

/-- `BakeScene.fft_antitone` with the hypotheses at the two patches involved only -/
theorem pe_fft_antitone (sc : BakeScene ℝ) (i j d : Nat) (hFij : 0 ≤ sc.F i j) (hFji : 0 ≤ sc.F j i)
    (hAi : 0 < sc.area i) (hAj : 0 < sc.area j) (hT : ∀ a b c, 0 ≤ sc.table a b c)
    (m m' : ℝ) (hm : m ≤ m') :
    (sc.withAtt (some m')).fft i j d ≤ (sc.withAtt (some m)).fft i j d := by
  have hb := pe_fft_none_nonneg sc i j d hFij hFji hAi hAj hT
  have hd := BakeScene.dist_nonneg sc i j
  rw [BakeScene.fft_att sc i j d m', BakeScene.fft_att sc i j d m]
  by_cases hv : sc.visSym i j = true
  · simp only [hv, if_true]
    apply mul_le_mul_of_nonneg_left _ hb
    apply Real.exp_le_exp.mpr
    have := mul_le_mul_of_nonneg_right hm hd
    linarith
  · simp only [hv]
    exact le_rfl

/-- the mono curve, bin by bin, as a sum over the patches -/
noncomputable def pe_pw (mat : Materials ℝ) (par : RunPar ℝ) (etcT : Tab3 ℝ) (ridx : Array Nat)
    (g distR : Array ℝ) (j t : Nat) : ℝ :=
  lookup3 etcT j (ridx.getD j 0)
      ((t + par.S - binCeil (distR.getD j 0) par.c par.dt % par.S) % par.S) * g.getD j 0 *
    receiverWeight (match mat.att with | some a => a | none => 0) (distR.getD j 0)

theorem pe_rMono_getD (mat : Materials ℝ) (par : RunPar ℝ) (P : Nat) (etcT : Tab3 ℝ) (ridx : Array Nat)
    (g distR : Array ℝ) (t : Nat) :
    (rMono mat par P etcT ridx g distR).getD t 0 =
      if t < par.S then ((List.range P).map fun j => pe_pw mat par etcT ridx g distR j t).sum else 0 := by
  unfold rMono
  by_cases ht : t < par.S
  · rw [if_pos ht]
    dsimp only
    rw [getD_ofFn _ _ t ht]
    unfold monoF
    rw [foldl_add_eq (fun j => lookup2 _ j t), zero_add]
    congr 1
    apply List.map_congr_left
    intro j hj
    rw [lookup2_tabulate2, if_pos ⟨List.mem_range.mp hj, ht⟩]
    rfl
  · rw [if_neg ht]
    simp [Array.getD_eq_getD_getElem?, ht]

theorem pe_rG_nonneg (eta thr : ℝ) (room : Room ℝ) (recv : Vec3 ℝ) (P : Nat) (sc : BakeScene ℝ)
    (ps : Array (PatchRec ℝ))
    (hrcv : ∀ k, k < P → 0 ≤ ptReceiver thr recv (fun v => (bPP ps k).pt v) 4) (k : Nat) :
    0 ≤ (rG eta thr room recv P sc ps).getD k 0 := by
  unfold rG
  by_cases hk : k < P
  · rw [getD_ofFn _ _ k hk]
    dsimp only
    split
    · exact hrcv k hk
    · exact le_rfl
  · simp [Array.getD_eq_getD_getElem?, hk]

theorem pe_rDistR_nonneg (recv : Vec3 ℝ) (P : Nat) (sc : BakeScene ℝ) (k : Nat) :
    0 ≤ (rDistR recv P sc).getD k 0 := by
  unfold rDistR
  by_cases hk : k < P
  · rw [getD_ofFn _ _ k hk]
    exact pe_norm_nonneg _
  · simp [Array.getD_eq_getD_getElem?, hk]

/-- non-negativity of the exchange inputs of a run on `bakeP` -/
theorem pe_ex_inputs_nonneg (eta thr : ℝ) (room : Room ℝ) (mat : Materials ℝ) (par : RunPar ℝ) (src : Vec3 ℝ)
    (P : Nat) (ps : Array (PatchRec ℝ))
    (hT : ∀ a i o, 0 ≤ mat.table a i o)
    (hF : ∀ i j, 0 ≤ lookup2 (bF eta room P ps) i j)
    (hA : ∀ k, k < P → 0 < (bAreas P ps).getD k 0)
    (hsrc : ∀ k, k < P → 0 ≤ ptSource thr src (fun v => (bPP ps k).pt v) 4) :
    (∀ j d, 0 ≤ (pe_ex eta thr room mat par src (bakeP eta room mat P ps)).e0 j d) ∧
    (∀ i j d, 0 ≤ (pe_ex eta thr room mat par src (bakeP eta room mat P ps)).fft i j d) := by
  constructor
  · intro j d
    rw [pe_ex_e0]
    split
    · exact mul_nonneg (pe_energy0_nonneg thr mat src P _ ps _ hsrc j) (hT _ _ _)
    · exact le_rfl
  · intro i j d
    rw [pe_ex_fft]
    split
    · next h =>
      exact pe_fft_nonneg (bScene eta room mat P ps) i j d (hF i j) (hF j i) (hA i h.1) (hA j h.2.1) hT
    · exact le_rfl

/-- C03: with non-negative tables, form factors and point-to-patch factors, every bin of every
    patch histogram and of the mono curve is non-negative. -/
theorem runPipeline_nonneg
    (eta thr : ℝ) (room : Room ℝ) (mat : Materials ℝ) (par : RunPar ℝ) (src recv : Vec3 ℝ)
    (bk : Baked ℝ) (r : RunResult ℝ)
    (hb : bakeRoom eta room mat = some bk)
    (hr : runPipeline eta thr room mat par src recv = some r)
    (hT : ∀ a i o, 0 ≤ mat.table a i o)
    (hF : ∀ i j, 0 ≤ lookup2 bk.F i j)
    (hA : ∀ k, k < bk.P → 0 < bk.scene.area k)
    (hsrc : ∀ k, k < bk.P → 0 ≤ ptSource thr src (fun v => (bk.patch k).pt v) 4)
    (hrcv : ∀ k, k < bk.P → 0 ≤ ptReceiver thr recv (fun v => (bk.patch k).pt v) 4) :
    (∀ j d t, 0 ≤ lookup3 r.etc j d t) ∧ (∀ t, 0 ≤ r.mono.getD t 0) := by
  have hrun := pe_run eta thr room mat par src recv bk r hb hr
  obtain ⟨ps, _, rfl⟩ := pe_bake eta room mat bk hb
  subst hrun
  obtain ⟨he, hf⟩ := pe_ex_inputs_nonneg eta thr room mat par src ps.size ps hT hF hA hsrc
  have hetc : ∀ j d t, 0 ≤ lookup3 (rEtc par (pe_ex eta thr room mat par src (bakeP eta room mat ps.size ps))) j d t := by
    intro j d t
    rw [pe_lookup_rEtc]
    exact etc_nonneg _ he hf par.K j d t
  refine ⟨hetc, ?_⟩
  intro t
  rw [pe_runOf_mono, pe_rMono_getD]
  split
  · apply List.sum_nonneg
    intro x hx
    obtain ⟨j, hj, rfl⟩ := List.mem_map.mp hx
    unfold pe_pw receiverWeight
    exact mul_nonneg (mul_nonneg (hetc _ _ _)
      (pe_rG_nonneg eta thr room recv ps.size _ ps hrcv j)) (Real.exp_pos _).le
  · exact le_rfl

/-- exchange part of C10 on `bakeP` -/
theorem pe_ex_att_antitone (eta thr : ℝ) (room : Room ℝ) (mat : Materials ℝ) (par : RunPar ℝ) (src : Vec3 ℝ)
    (m m' : ℝ) (hm : m ≤ m') (P : Nat) (ps : Array (PatchRec ℝ))
    (hT : ∀ a i o, 0 ≤ mat.table a i o)
    (hF : ∀ i j, 0 ≤ lookup2 (bF eta room P ps) i j)
    (hA : ∀ k, k < P → 0 < (bAreas P ps).getD k 0)
    (hsrc : ∀ k, k < P → 0 ≤ ptSource thr src (fun v => (bPP ps k).pt v) 4) (K j d t : Nat) :
    etc (pe_ex eta thr room { mat with att := some m' } par src
          (bakeP eta room { mat with att := some m' } P ps)) K j d t ≤
      etc (pe_ex eta thr room { mat with att := some m } par src
          (bakeP eta room { mat with att := some m } P ps)) K j d t := by
  obtain ⟨he0, hf0⟩ := pe_ex_inputs_nonneg eta thr room { mat with att := some m' } par src P ps hT hF hA hsrc
  refine etc_mono
    (pe_ex eta thr room { mat with att := some m' } par src (bakeP eta room { mat with att := some m' } P ps))
    (pe_ex eta thr room { mat with att := some m } par src (bakeP eta room { mat with att := some m } P ps))
    rfl rfl rfl rfl rfl rfl rfl he0 hf0 ?_ ?_ K j d t
  · intro j d
    rw [pe_ex_e0, pe_ex_e0]
    show (if j < P ∧ d < mat.nOut then _ else (0 : ℝ)) ≤ (if j < P ∧ d < mat.nOut then _ else (0 : ℝ))
    split
    · next h =>
      apply mul_le_mul_of_nonneg_right _ (hT _ _ _)
      rw [pe_energy0_getD, pe_energy0_getD]
      show (if j < P then _ else (0 : ℝ)) ≤ (if j < P then _ else (0 : ℝ))
      rw [if_pos h.1, if_pos h.1]
      exact pe_sourceEnergy_antitone _ _ m m' _ (pe_norm_nonneg _) hm (hsrc j h.1)
    · exact le_rfl
  · intro i j d
    rw [pe_ex_fft, pe_ex_fft]
    show (if i < P ∧ j < P ∧ d < mat.nOut then _ else (0 : ℝ)) ≤
      (if i < P ∧ j < P ∧ d < mat.nOut then _ else (0 : ℝ))
    split
    · next h =>
      exact pe_fft_antitone (bScene eta room mat P ps) i j d (hF i j) (hF j i) (hA i h.1) (hA j h.2.1)
        hT m m' hm
    · exact le_rfl

/-- C10 on `bakeP` -/
theorem pe_runOf_att_antitone (eta thr : ℝ) (room : Room ℝ) (mat : Materials ℝ) (par : RunPar ℝ)
    (src recv : Vec3 ℝ) (m m' : ℝ) (h0 : 0 ≤ m) (hm : m ≤ m') (P : Nat) (ps : Array (PatchRec ℝ))
    (hT : ∀ a i o, 0 ≤ mat.table a i o)
    (hF : ∀ i j, 0 ≤ lookup2 (bF eta room P ps) i j)
    (hA : ∀ k, k < P → 0 < (bAreas P ps).getD k 0)
    (hsrc : ∀ k, k < P → 0 ≤ ptSource thr src (fun v => (bPP ps k).pt v) 4)
    (hrcv : ∀ k, k < P → 0 ≤ ptReceiver thr recv (fun v => (bPP ps k).pt v) 4) :
    (∀ j d t,
      lookup3 (runOf eta thr room { mat with att := some m' } par src recv
          (bakeP eta room { mat with att := some m' } P ps)).etc j d t ≤
        lookup3 (runOf eta thr room { mat with att := some m } par src recv
          (bakeP eta room { mat with att := some m } P ps)).etc j d t) ∧
    (∀ t,
      (runOf eta thr room { mat with att := some m' } par src recv
          (bakeP eta room { mat with att := some m' } P ps)).mono.getD t 0 ≤
        (runOf eta thr room { mat with att := some m } par src recv
          (bakeP eta room { mat with att := some m } P ps)).mono.getD t 0) := by
  have _ := h0
  have hetc : ∀ j d t,
      lookup3 (rEtc par (pe_ex eta thr room { mat with att := some m' } par src
          (bakeP eta room { mat with att := some m' } P ps))) j d t ≤
        lookup3 (rEtc par (pe_ex eta thr room { mat with att := some m } par src
          (bakeP eta room { mat with att := some m } P ps))) j d t := by
    intro j d t
    rw [pe_lookup_rEtc, pe_lookup_rEtc]
    exact pe_ex_att_antitone eta thr room mat par src m m' hm P ps hT hF hA hsrc par.K j d t
  have hetc0 : ∀ j d t,
      0 ≤ lookup3 (rEtc par (pe_ex eta thr room { mat with att := some m' } par src
          (bakeP eta room { mat with att := some m' } P ps))) j d t := by
    intro j d t
    obtain ⟨he0, hf0⟩ := pe_ex_inputs_nonneg eta thr room { mat with att := some m' } par src P ps hT hF hA hsrc
    rw [pe_lookup_rEtc]
    exact etc_nonneg _ he0 hf0 par.K j d t
  refine ⟨hetc, ?_⟩
  intro t
  rw [pe_runOf_mono, pe_runOf_mono, pe_rMono_getD, pe_rMono_getD]
  show (if t < par.S then _ else (0 : ℝ)) ≤ (if t < par.S then _ else (0 : ℝ))
  split
  · apply List.sum_le_sum
    intro j _
    have hg := pe_rG_nonneg eta thr room recv P (bScene eta room mat P ps) ps hrcv j
    have hdR := pe_rDistR_nonneg recv P (bScene eta room mat P ps) j
    have hw : Real.exp (-m' * (rDistR recv P (bScene eta room mat P ps)).getD j 0) ≤
        Real.exp (-m * (rDistR recv P (bScene eta room mat P ps)).getD j 0) := by
      apply Real.exp_le_exp.mpr
      have := mul_le_mul_of_nonneg_right hm hdR
      linarith
    exact mul_le_mul (mul_le_mul_of_nonneg_right (hetc _ _ _) hg) hw (Real.exp_pos _).le
      (mul_nonneg (le_trans (hetc0 _ _ _) (hetc _ _ _)) hg)
  · exact le_rfl

/-- C10: raising the attenuation coefficient from `m` to `m' ≥ m ≥ 0` does not increase any bin of
    any patch histogram nor of the mono curve, for every room, order and histogram length. -/
theorem runPipeline_att_antitone
    (eta thr : ℝ) (room : Room ℝ) (mat : Materials ℝ) (par : RunPar ℝ) (src recv : Vec3 ℝ)
    (m m' : ℝ) (h0 : 0 ≤ m) (hm : m ≤ m')
    (bk : Baked ℝ) (r r' : RunResult ℝ)
    (hb : bakeRoom eta room { mat with att := some m } = some bk)
    (hr : runPipeline eta thr room { mat with att := some m } par src recv = some r)
    (hr' : runPipeline eta thr room { mat with att := some m' } par src recv = some r')
    (hT : ∀ a i o, 0 ≤ mat.table a i o)
    (hF : ∀ i j, 0 ≤ lookup2 bk.F i j)
    (hA : ∀ k, k < bk.P → 0 < bk.scene.area k)
    (hsrc : ∀ k, k < bk.P → 0 ≤ ptSource thr src (fun v => (bk.patch k).pt v) 4)
    (hrcv : ∀ k, k < bk.P → 0 ≤ ptReceiver thr recv (fun v => (bk.patch k).pt v) 4) :
    (∀ j d t, lookup3 r'.etc j d t ≤ lookup3 r.etc j d t) ∧
      (∀ t, r'.mono.getD t 0 ≤ r.mono.getD t 0) := by
  have hrun := pe_run eta thr room _ par src recv bk r hb hr
  obtain ⟨ps, hps, rfl⟩ := pe_bake eta room _ bk hb
  have hb' : bakeRoom eta room { mat with att := some m' } =
      some (bakeP eta room { mat with att := some m' } ps.size ps) := by
    rw [bakeRoom_eq, hps]; rfl
  have hrun' := pe_run eta thr room _ par src recv _ r' hb' hr'
  subst hrun hrun'
  exact pe_runOf_att_antitone eta thr room mat par src recv m m' h0 hm ps.size ps hT hF hA hsrc hrcv

end Sparrow
