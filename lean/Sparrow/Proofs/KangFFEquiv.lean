import Sparrow.Generated.KangFF
import Sparrow.Model.Kang
import Sparrow.Proofs.RealInst
import Sparrow.Proofs.KangLemmas
import Mathlib.Tactic.Ring
import Mathlib.Tactic.NormNum
/-
  The analytic form factors of the Kang engine as REGENERATED from `/repo` on every run (`Generated/KangFF.lean`: the innermost body
  of `PatchesKang.calculate_form_factor`, its column bookkeeping and the reader `get_form_factor`, recognised) compute the
  hand-written model (`Model/Kang.lean`: `kangFFOrth`, `kangFFPar`), and the reader finds exactly the column the writer filled.
-/
namespace Sparrow
open Sparrow.Generated.KangFF

/-- orthogonal walls (`dot_product == 0`, both normals axis-aligned along DIFFERENT axes): the regenerated text is Kang's eq. 11–15 -/
theorem kangFormFactorPair_orth (thr5 thr12 : ℝ) (wcR wcS nr rc ns sc : Nat → ℝ) (dd : ℝ)
    (hdot : nr 0 * ns 0 + nr 1 * ns 1 + nr 2 * ns 2 = 0)
    (hs : AxisAligned (Vec3.ofFn ns) thr5) (hr : AxisAligned (Vec3.ofFn nr) thr5)
    (hdiff : normalAxis (Vec3.ofFn ns) thr5 ≠ normalAxis (Vec3.ofFn nr) thr5) :
    kangFormFactorPair thr5 thr12 wcR wcS nr rc ns sc dd =
      some (kangFFOrth (Vec3.ofFn sc) (Vec3.ofFn rc) (Vec3.ofFn ns) (Vec3.ofFn nr) dd thr5 thr12) := by
  have h1 : ((1 : Nat) : ℝ) = 1 := by norm_num
  have h2 : ((2 : Nat) : ℝ) = 1 + 1 := by norm_num
  unfold AxisAligned Vec3.ofFn at hs hr
  dsimp only at hs hr
  rcases hs with ⟨s0, s1, s2⟩ | ⟨s0, s1, s2⟩ | ⟨s0, s1, s2⟩ <;>
    rcases hr with ⟨r0, r1, r2⟩ | ⟨r0, r1, r2⟩ | ⟨r0, r1, r2⟩ <;>
    first
    | (exfalso; apply hdiff; simp [normalAxis, Vec3.ofFn, *]; done)
    | (unfold kangFormFactorPair idxOther kangFFOrth normalAxis thirdAxis
       simp only [cmp_lt_real, cmp_abs_real, hdot, Vec3.ofFn, s0, s1, s2, r0, r1, r2, lt_irrefl, decide_true, decide_false,
         Bool.not_false, Bool.and_self, if_true, Bool.false_eq_true, if_false, h1, h2]
       simp [Vec3.get])

/-- parallel walls (`dot_product != 0`): eq. 16 with the separating axis read off the wall centres; `none` (AssertionError) exactly
    when the wall centres coincide within `1e-5` on every axis -/
theorem kangFormFactorPair_par (thr5 thr12 : ℝ) (wcR wcS nr rc ns sc : Nat → ℝ) (dd : ℝ)
    (hdot : nr 0 * ns 0 + nr 1 * ns 1 + nr 2 * ns 2 ≠ 0) :
    kangFormFactorPair thr5 thr12 wcR wcS nr rc ns sc dd =
      kangFFPar (Vec3.ofFn sc) (Vec3.ofFn rc) (Vec3.ofFn (fun q => |wcR q - wcS q|)) dd thr5 := by
  have hne : (!decide (nr 0 * ns 0 + nr 1 * ns 1 + nr 2 * ns 2 < 0) && !decide (0 < nr 0 * ns 0 + nr 1 * ns 1 + nr 2 * ns 2)) = false := by
    rcases lt_or_gt_of_ne hdot with h | h <;> simp [h]
  unfold kangFormFactorPair kangFFPar
  simp only [cmp_lt_real, cmp_abs_real, hne, Bool.false_eq_true, if_false, Vec3.ofFn]
  by_cases h0 : thr5 < |wcR 0 - wcS 0|
  · simp [h0, Vec3.get]
  · by_cases h1 : thr5 < |wcR 1 - wcS 1|
    · simp [h0, h1, Vec3.get]
    · by_cases h2 : thr5 < |wcR 2 - wcS 2|
      · simp [h0, h1, h2, Vec3.get]
      · simp [h0, h1, h2]

/-- a source normal without any component above the threshold is refused (orthogonal branch), not given a form factor -/
theorem kangFormFactorPair_unbound (thr5 thr12 : ℝ) (wcR wcS nr rc ns sc : Nat → ℝ) (dd : ℝ)
    (hdot : nr 0 * ns 0 + nr 1 * ns 1 + nr 2 * ns 2 = 0)
    (h0 : ¬ thr5 < |ns 0|) (h1 : ¬ thr5 < |ns 1|) (h2 : ¬ thr5 < |ns 2|) :
    kangFormFactorPair thr5 thr12 wcR wcS nr rc ns sc dd = none := by
  unfold kangFormFactorPair idxOther
  simp [hdot, h0, h1, h2]


/-- the running offset of the writer -/
private def offS (lens : List Nat) (j : Nat) : Nat :=
  (List.range j).foldl (fun off_ j_ => off_ + lens.getD j_ 0) 0

private theorem offS_succ (lens : List Nat) (j : Nat) : offS lens (j + 1) = offS lens j + lens.getD j 0 := by
  unfold offS
  rw [List.range_succ, List.foldl_append, List.foldl_cons, List.foldl_nil]

private theorem offS_mono (lens : List Nat) (a b : Nat) (h : a ≤ b) : offS lens a ≤ offS lens b := by
  induction b with
  | zero =>
    have : a = 0 := by omega
    subst this; exact Nat.le_refl _
  | succ b ih =>
    by_cases hab : a = b + 1
    · subst hab; exact Nat.le_refl _
    · have := ih (by omega)
      rw [offS_succ]; omega

private theorem writerColumn_offS (lens : List Nat) (j i : Nat) : writerColumn lens j i = i + offS lens j := rfl

private theorem offS_eq_take (lens : List Nat) (j : Nat) (hj : j ≤ lens.length) : offS lens j = (lens.take j).sum := by
  induction j with
  | zero => simp [offS]
  | succ j ih =>
    rw [offS_succ, ih (by omega), List.take_succ_eq_append_getElem (by omega : j < lens.length), List.sum_append]
    simp [List.getD_eq_getElem?_getD, (by omega : j < lens.length)]

/-- step function of the reader's scan -/
private def rdStep (other lens : List Nat) (w i : Nat) (st_ : Nat × Option Nat × Bool) (j_ : Nat) : Nat × Option Nat × Bool :=
  if st_.2.2 = true then st_
  else if other.getD j_ 0 = w then (st_.1, some i, true)
  else (st_.1 + lens.getD j_ 0, st_.2.1, false)

private theorem readerColumn_rdStep (other lens : List Nat) (w i : Nat) :
    readerColumn other lens w i =
      ((List.range other.length).foldl (rdStep other lens w i) (0, none, false)).2.1.map
        (fun k => k + ((List.range other.length).foldl (rdStep other lens w i) (0, none, false)).1) := rfl

private theorem rd_before (other lens : List Nat) (w i n : Nat) (h : ∀ j', j' < n → other.getD j' 0 ≠ w) :
    (List.range n).foldl (rdStep other lens w i) (0, none, false) = (offS lens n, none, false) := by
  induction n with
  | zero => simp [offS]
  | succ n ih =>
    rw [List.range_succ, List.foldl_append, List.foldl_cons, List.foldl_nil, ih (fun j' hj' => h j' (by omega)),
      offS_succ]
    have := h n (by omega)
    unfold rdStep
    rw [if_neg (by simp), if_neg this]

private theorem rd_after (other lens : List Nat) (w i j n : Nat) (hj : j < n) (hw : other.getD j 0 = w)
    (h : ∀ j', j' < j → other.getD j' 0 ≠ w) :
    (List.range n).foldl (rdStep other lens w i) (0, none, false) = (offS lens j, some i, true) := by
  induction n with
  | zero => omega
  | succ n ih =>
    rw [List.range_succ, List.foldl_append, List.foldl_cons, List.foldl_nil]
    by_cases hjn : j = n
    · subst hjn
      rw [rd_before other lens w i j h]
      unfold rdStep
      rw [if_neg (by simp), if_pos hw]
    · rw [ih (by omega)]
      simp [rdStep]

/-- the writer's column is the patch index plus the patch counts of the other walls visited before -/
theorem writerColumn_eq (lens : List Nat) (j i : Nat) (hj : j ≤ lens.length) :
    writerColumn lens j i = i + (lens.take j).sum := by
  rw [writerColumn_offS, offS_eq_take lens j hj]

/-- **the reader finds the column the writer filled**: for the `j`-th of the other walls (ids without repetition) and any patch of it,
    `get_form_factor` reads exactly the column `calculate_form_factor` wrote -/
theorem readerColumn_eq_writerColumn (other lens : List Nat) (j i : Nat) (hlen : lens.length = other.length)
    (hj : j < other.length) (hnd : other.Nodup) :
    readerColumn other lens (other.getD j 0) i = some (writerColumn lens j i) := by
  have _ := hlen  -- not needed: the reader's offset uses the same `lens.getD` as the writer's
  have h : ∀ j', j' < j → other.getD j' 0 ≠ other.getD j 0 := by
    intro j' hj' heq
    have h1 : other.getD j' 0 = other[j'] := by simp [List.getD_eq_getElem?_getD, (by omega : j' < other.length)]
    have h2 : other.getD j 0 = other[j] := by simp [List.getD_eq_getElem?_getD, hj]
    rw [h1, h2] at heq
    have := (List.Nodup.getElem_inj_iff hnd).mp heq
    omega
  rw [readerColumn_rdStep, rd_after other lens (other.getD j 0) i j other.length hj rfl h, writerColumn_offS]
  rfl

/-- a wall that is not among the other walls has no column -/
theorem readerColumn_none (other lens : List Nat) (w i : Nat) (hw : w ∉ other) :
    readerColumn other lens w i = none := by
  have h : ∀ j', j' < other.length → other.getD j' 0 ≠ w := by
    intro j' hj' heq
    have h1 : other.getD j' 0 = other[j'] := by simp [List.getD_eq_getElem?_getD, hj']
    rw [h1] at heq
    exact hw (heq ▸ List.getElem_mem hj')
  rw [readerColumn_rdStep, rd_before other lens w i other.length h]
  rfl

/-- distinct (wall, patch) pairs get distinct columns: no form factor is overwritten by another pair's -/
theorem writerColumn_injective (lens : List Nat) (j j' i i' : Nat) (hj : j < lens.length) (hj' : j' < lens.length)
    (hi : i < lens.getD j 0) (hi' : i' < lens.getD j' 0) (h : writerColumn lens j i = writerColumn lens j' i') :
    j = j' ∧ i = i' := by
  have _ := hj  -- the bounds on `j`, `j'` follow from `hi`, `hi'` (`getD` is 0 outside)
  have _ := hj'
  rw [writerColumn_offS, writerColumn_offS] at h
  have hjj : j = j' := by
    rcases Nat.lt_trichotomy j j' with hlt | heq | hgt
    · exfalso
      have h1 := offS_mono lens (j + 1) j' (by omega)
      rw [offS_succ] at h1
      omega
    · exact heq
    · exfalso
      have h1 := offS_mono lens (j' + 1) j (by omega)
      rw [offS_succ] at h1
      omega
  subst hjj
  exact ⟨rfl, by omega⟩

end Sparrow
