import Sparrow.Proofs.KangRecvEquiv
import Mathlib.Analysis.SpecialFunctions.Exp
/-
  AIR ATTENUATION in the regenerated Kang text (the C10 statements for the Kang engine): every leg carries `exp(-m d)` over its own
  geometric length; `m = 0` reproduces the unattenuated value exactly; a larger `m` never gives more.
-/
namespace Sparrow
open Sparrow.Generated.KangFn

/-- direct sound: `m = 0` gives exactly `1 / (4 π r²)` -/
theorem directSoundKang_m0 (recv src : Nat → ℝ) (M : Nat → ℝ) (c fs : ℝ) (b : Nat) (h0 : M b = 0) :
    (directSoundKang recv src M c fs).2 b =
      1 / (4 * Real.pi * (Vec3.norm (Vec3.sub (Vec3.ofFn recv) (Vec3.ofFn src))) ^ 2) := by
  rw [directSoundKang_law, h0]
  simp

/-- direct sound: non-increasing in the attenuation coefficient -/
theorem directSoundKang_antitone (recv src : Nat → ℝ) (M M' : Nat → ℝ) (c fs : ℝ) (b : Nat) (h : M b ≤ M' b) :
    (directSoundKang recv src M' c fs).2 b ≤ (directSoundKang recv src M c fs).2 b := by
  rw [directSoundKang_law, directSoundKang_law]
  have hr : 0 ≤ Vec3.norm (Vec3.sub (Vec3.ofFn recv) (Vec3.ofFn src)) := by
    unfold Vec3.norm; simp only [transc_sqrt_real]; exact Real.sqrt_nonneg _
  apply div_le_div_of_nonneg_right
  · apply Real.exp_le_exp.mpr
    nlinarith
  · positivity

end Sparrow
