import Sparrow.Proofs.PatchKernelEquiv
import Sparrow.Proofs.Tiling
/-
  The tiling property stated directly on the TRANSLATED `_create_patches` / `_total_number_of_patches`
  (no hand-written model in the statement): for an axis-aligned rectangular wall and a patch size not
  larger than either side, the translated text returns ⌊sx/p⌋·⌊sy/p⌋ patches, patch number
  `ix·ny + iy` being the cell `[x0+ix·rx, x0+(ix+1)·rx] × [y0+iy·ry, y0+(iy+1)·ry]` in the wall's plane,
  whatever the `np.empty` buffers held.
-/
namespace Sparrow
open Sparrow.Generated.Patches

theorem createPatches_rect (w : Quad ℝ) (fl xa ya : Nat) (x0 y0 sx sy z p : ℝ)
    (h : RectWall w fl xa ya x0 y0 sx sy z) (hp : 0 < p) (hpx : p ≤ sx) (hpy : p ≤ sy)
    (junk1 : Nat → ℝ) (junk2 : Nat → Nat → Nat → ℝ) :
    ∃ A, createPatches w 4 3 p junk1 junk2 = some (⌊sx / p⌋₊ * ⌊sy / p⌋₊, A) ∧
      1 ≤ ⌊sx / p⌋₊ ∧ 1 ≤ ⌊sy / p⌋₊ ∧
      (∀ ix iy, ix < ⌊sx / p⌋₊ → iy < ⌊sy / p⌋₊ →
        let rx := sx / (⌊sx / p⌋₊ : ℝ)
        let ry := sy / (⌊sy / p⌋₊ : ℝ)
        let q := A (ix * ⌊sy / p⌋₊ + iy)
        (q 0 xa = x0 + ix * rx ∧ q 0 ya = y0 + iy * ry) ∧
        (q 1 xa = x0 + (ix + 1) * rx ∧ q 1 ya = y0 + iy * ry) ∧
        (q 2 xa = x0 + (ix + 1) * rx ∧ q 2 ya = y0 + (iy + 1) * ry) ∧
        (q 3 xa = x0 + ix * rx ∧ q 3 ya = y0 + (iy + 1) * ry) ∧
        (∀ v, v < 4 → q v fl = z)) ∧
      (∀ k, ⌊sx / p⌋₊ * ⌊sy / p⌋₊ ≤ k → A k = junk2 k) := by
  obtain ⟨g, hg, hnx, hny, h1x, h1y, hxi, hyi, hxm, hym, hrx, hry⟩ := grid_of_rect w fl xa ya x0 y0 sx sy z p h hp hpx hpy
  have heq := createPatches_eq w p junk1 junk2
  rw [hg] at heq
  unfold CreatePatchesAgree at heq
  cases hc : createPatches w 4 3 p junk1 junk2 with
  | none => rw [hc] at heq; exact heq.elim
  | some r =>
    obtain ⟨n, A⟩ := r
    rw [hc] at heq
    obtain ⟨hn, hA, hhi⟩ := heq
    unfold totalPatches at hn
    have hne : g.xIdx ≠ g.yIdx := by
      rw [hxi, hyi]; rcases h.perm with ⟨_, rfl, rfl⟩ | ⟨_, rfl, rfl⟩ | ⟨_, rfl, rfl⟩ <;> decide
    have hfx : fl ≠ g.xIdx := by
      rw [hxi]; rcases h.perm with ⟨rfl, rfl, _⟩ | ⟨rfl, rfl, _⟩ | ⟨rfl, rfl, _⟩ <;> decide
    have hfy : fl ≠ g.yIdx := by
      rw [hyi]; rcases h.perm with ⟨rfl, _, rfl⟩ | ⟨rfl, _, rfl⟩ | ⟨rfl, _, rfl⟩ <;> decide
    refine ⟨A, by rw [hn, hnx, hny], by omega, by omega, ?_, ?_⟩
    · intro ix iy hix hiy rx ry q
      have hk : ix * ⌊sy / p⌋₊ + iy < n := by
        rw [hn, hnx, hny]
        calc ix * ⌊sy / p⌋₊ + iy < ix * ⌊sy / p⌋₊ + ⌊sy / p⌋₊ := by omega
          _ = (ix + 1) * ⌊sy / p⌋₊ := by ring
          _ ≤ ⌊sx / p⌋₊ * ⌊sy / p⌋₊ := Nat.mul_le_mul_right _ hix
      have hpos : 0 < ⌊sy / p⌋₊ := by omega
      have hdiv : (ix * ⌊sy / p⌋₊ + iy) / g.ny = ix := by
        rw [hny, Nat.mul_comm, Nat.mul_add_div hpos, Nat.div_eq_of_lt hiy]; simp
      have hmod : (ix * ⌊sy / p⌋₊ + iy) % g.ny = iy := by
        rw [hny, Nat.mul_comm, Nat.mul_add_mod, Nat.mod_eq_of_lt hiy]
      have hq : ∀ v a, v < 4 → q v a = patchCoord w g ix iy v a := by
        intro v a hv
        show A (ix * ⌊sy / p⌋₊ + iy) v a = _
        rw [hA _ v a hk hv]
        unfold patchOf
        rw [hdiv, hmod]
      obtain ⟨⟨a0, b0⟩, ⟨a1, b1⟩, ⟨a2, b2⟩, ⟨a3, b3⟩, hz⟩ := patch_rect w g fl z ix iy hne hfx hfy h.flat
      have hrx' : g.rx = rx := by rw [hrx, hnx]
      have hry' : g.ry = ry := by rw [hry, hny]
      rw [hxi, hxm, hrx'] at a0 a1 a2 a3
      rw [hyi, hym, hry'] at b0 b1 b2 b3
      refine ⟨⟨?_, ?_⟩, ⟨?_, ?_⟩, ⟨?_, ?_⟩, ⟨?_, ?_⟩, ?_⟩
      · rw [hq 0 xa (by omega), ← hxi]; rw [hxi]; exact a0
      · rw [hq 0 ya (by omega)]; exact b0
      · rw [hq 1 xa (by omega)]; exact a1
      · rw [hq 1 ya (by omega)]; exact b1
      · rw [hq 2 xa (by omega)]; exact a2
      · rw [hq 2 ya (by omega)]; exact b2
      · rw [hq 3 xa (by omega)]; exact a3
      · rw [hq 3 ya (by omega)]; exact b3
      · intro v hv; rw [hq v fl hv]; exact hz v hv
    · intro k hk
      exact hhi k (by rw [hn, hnx, hny]; exact hk)

/-- and `_total_number_of_patches` (translated) returns that count -/
theorem totalNumberOfPatches_rect (w : Quad ℝ) (fl xa ya : Nat) (x0 y0 sx sy z p : ℝ)
    (h : RectWall w fl xa ya x0 y0 sx sy z) (hp : 0 < p) (hpx : p ≤ sx) (hpy : p ≤ sy) (junk : Nat → ℝ) :
    totalNumberOfPatches w 4 3 p junk = some (⌊sx / p⌋₊ * ⌊sy / p⌋₊) := by
  obtain ⟨g, hg, hnx, hny, _⟩ := grid_of_rect w fl xa ya x0 y0 sx sy z p h hp hpx hpy
  rw [totalNumberOfPatches_eq, hg]
  simp [totalPatches, hnx, hny]

end Sparrow
