import Sparrow.Generated.BrdfGlue
import Sparrow.Model.Brdf
import Sparrow.Proofs.RealInst
import Mathlib.Tactic.Ring
/-
  The two BRDF constructors, recognised statement by statement on every run (`Generated/BrdfGlue.lean`), compute the
  model's `brdfScattering` / `brdfDirectional` band by band — so the theorems of C13 (energy conservation,
  non-negativity, reciprocity of the constructed tables) are statements about this text.
-/
namespace Sparrow
open Sparrow.Generated.BrdfGlue

theorem createFromScattering_eq (n : Nat) (cosT w s a : Nat → ℝ) (mir : Nat → Nat) (i o b : Nat) :
    createFromScattering n n cosT w s a mir i o b = brdfScattering n cosT w mir (s b) (a b) i o := by
  unfold createFromScattering brdfScattering normWeight sumTo
  have h2 : (1 : ℝ) + 1 = 2 := by norm_num
  have h1 : ((1 : Nat) : ℝ) = 1 := by norm_num
  by_cases h : o = mir i
  · simp [h, h2, h1]
  · simp [h, h1]

theorem createFromDirectionalScattering_eq (n : Nat) (cosT w : Nat → ℝ) (sd : Nat → Nat → Nat → ℝ) (a : Nat → ℝ)
    (i o b : Nat) :
    createFromDirectionalScattering n n cosT w sd a i o b =
      brdfDirectional n cosT w (fun i o => sd i o b) (a b) i o := by
  unfold createFromDirectionalScattering brdfDirectional normWeight sumTo
  have h2 : (1 : ℝ) + 1 = 2 := by norm_num
  have h1 : ((1 : Nat) : ℝ) = 1 := by norm_num
  simp [h2, h1]

end Sparrow
