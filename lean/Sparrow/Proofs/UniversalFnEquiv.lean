import Sparrow.Generated.UniversalFn
import Sparrow.Model.Stokes
import Sparrow.Proofs.RealInst
import Sparrow.Proofs.StokesFnEquiv
import Sparrow.Proofs.PointFactorEquiv
import Mathlib.Tactic.Ring
import Mathlib.Tactic.NormNum
/-
  The form-factor dispatch as REGENERATED from `/repo` on every run (`Generated/UniversalFn.lean`: `_coincidence_check`,
  `universal_form_factor`, `patch2patch_ff_universal`, recognised) computes the hand-written model (`Model/Stokes.lean`:
  `coincide`, `chooseIntegrator`, `ffMatrix`, and `stokesFF` through `stokesIntegration_eq`).  It instantiates the opaque
  `patch2patch_ff_universal` of the regenerated `bake_geometry` (Generated/BakeGlue.lean).
-/
namespace Sparrow
open Sparrow.Generated.UniversalFn Sparrow.Generated.StokesFn

private theorem uf_inner_fold (c : Nat → Bool) (flag : Bool) (n : Nat) :
    (List.range n).foldl (fun (st : Bool × Bool) j =>
      if st.2 = true then st else if c j = true then (true, true) else st) (flag, false)
      = (flag || (List.range n).any c, (List.range n).any c) := by
  induction n with
  | zero => simp
  | succ n ih =>
    rw [List.range_succ, List.foldl_append, ih]
    cases h : (List.range n).any c <;> cases hc : c n <;> simp [h, hc]

private theorem uf_outer_fold (c : Nat → Nat → Bool) (f : Bool) (n0 n1 : Nat) :
    (List.range n0).foldl (fun (flag : Bool) i =>
      ((List.range n1).foldl (fun (st : Bool × Bool) j =>
        if st.2 = true then st else if c i j = true then (true, true) else st) (flag, false)).1) f
      = (f || (List.range n0).any fun i => (List.range n1).any fun j => c i j) := by
  induction n0 with
  | zero => simp
  | succ n ih =>
    rw [List.range_succ, List.foldl_append, ih]
    simp only [List.foldl_cons, List.foldl_nil, uf_inner_fold (c n), List.any_append, List.any_cons, List.any_nil,
      Bool.or_false, Bool.or_assoc]

private theorem uf_any_swap (c : Nat → Nat → Bool) (n0 n1 : Nat) :
    ((List.range n0).any fun i => (List.range n1).any fun j => c i j) =
      ((List.range n1).any fun j => (List.range n0).any fun i => c i j) := by
  rw [Bool.eq_iff_iff]
  simp only [List.any_eq_true, List.mem_range]
  constructor
  · rintro ⟨i, hi, j, hj, h⟩; exact ⟨j, hj, i, hi, h⟩
  · rintro ⟨j, hj, i, hi, h⟩; exact ⟨i, hi, j, hj, h⟩

private theorem uf_norm_sub_comm (p q : Vec3 ℝ) : Vec3.norm (Vec3.sub p q) = Vec3.norm (Vec3.sub q p) := by
  unfold Vec3.norm Vec3.dot Vec3.sub
  simp only [transc_sqrt_real]
  congr 1
  ring

open Classical in
private theorem uf_cell_fold {β : Type} (f g : Nat → Nat) (F : Nat → Nat → β) (init : Nat → Nat → β) (n a b : Nat) :
    (List.range n).foldl (fun (ff : Nat → Nat → β) v =>
        fun p q => if p = f v ∧ q = g v then F (f v) (g v) else ff p q) init a b
      = if (∃ v, v < n ∧ f v = a ∧ g v = b) then F a b else init a b := by
  induction n with
  | zero => simp
  | succ n ih =>
    rw [List.range_succ, List.foldl_append]
    simp only [List.foldl_cons, List.foldl_nil]
    rw [ih]
    by_cases h1 : a = f n ∧ b = g n
    · obtain ⟨rfl, rfl⟩ := h1
      have h2 : ∃ v, v < n + 1 ∧ f v = f n ∧ g v = g n := ⟨n, by omega, rfl, rfl⟩
      rw [if_pos ⟨rfl, rfl⟩, if_pos h2]
    · rw [if_neg h1]
      have h2 : (∃ v, v < n + 1 ∧ f v = a ∧ g v = b) ↔ (∃ v, v < n ∧ f v = a ∧ g v = b) := by
        constructor
        · rintro ⟨v, hv, h2, h3⟩
          have : v ≠ n := by rintro rfl; exact h1 ⟨h2.symm, h3.symm⟩
          exact ⟨v, by omega, h2, h3⟩
        · rintro ⟨v, hv, h⟩; exact ⟨v, by omega, h⟩
      simp only [h2]

private theorem uf_p2p (thres cut : ℝ)
    (nus : (Nat → Nat → ℝ) → (Nat → ℝ) → (Nat → Nat → ℝ) → (Nat → ℝ) → Nat → ℝ)
    (pts : Nat → Nat → Nat → ℝ) (nv : Nat) (nrm : Nat → Nat → ℝ) (areas : Nat → ℝ) (nvis : Nat) (vis : Nat → Nat → Nat)
    (jp1 jp2 : Nat → Nat → ℝ) (jc1 jc2 : Nat → Nat → Nat) (a b : Nat) :
    patch2patchFFUniversal thres cut nus pts nv nrm areas nvis vis jp1 jp2 jc1 jc2 a b =
      if (∃ v, v < nvis ∧ vis v 0 = a ∧ vis v 1 = b) then
        universalFormFactor thres cut nus (fun k q => pts a k q) nv (fun q => nrm a q) (areas a) (fun k q => pts b k q) nv
          (fun q => nrm b q) jp1 jp2 jc1 jc2
      else 0 := by
  unfold patch2patchFFUniversal
  exact uf_cell_fold (fun v => vis v 0) (fun v => vis v 1)
    (fun i j => universalFormFactor thres cut nus (fun k q => pts i k q) nv (fun q => nrm i q) (areas i) (fun k q => pts j k q) nv
          (fun q => nrm j q) jp1 jp2 jc1 jc2) (fun _ _ => 0) nvis a b

/-- `_coincidence_check(p0, p1)` (recognised, inner `break`) = "some vertex of one patch lies within `thres` of a vertex of the
    other" — the model's `coincide` with the roles as `universal_form_factor` passes them (`p0` = receiver, `p1` = source) -/
theorem coincidenceCheck_eq (thres : ℝ) (p0 p1 : Nat → Nat → ℝ) (n0 n1 : Nat) :
    coincidenceCheck thres p0 p1 n0 n1 = coincide thres (ptsOf p1) (ptsOf p0) n1 n0 := by
  unfold coincidenceCheck coincide
  rw [uf_outer_fold (fun i j => Cmp.lt (Transc.sqrt ((p0 i 0 - p1 j 0) * (p0 i 0 - p1 j 0) + (p0 i 1 - p1 j 1) * (p0 i 1 - p1 j 1) +
          (p0 i 2 - p1 j 2) * (p0 i 2 - p1 j 2))) thres) false n0 n1, Bool.false_or, uf_any_swap]
  rfl

/-- the test is symmetric in the two patches -/
theorem coincidenceCheck_symm (thres : ℝ) (p0 p1 : Nat → Nat → ℝ) (n0 n1 : Nat) :
    coincidenceCheck thres p0 p1 n0 n1 = coincidenceCheck thres p1 p0 n1 n0 := by
  rw [coincidenceCheck_eq, coincidenceCheck_eq]
  unfold coincide
  rw [uf_any_swap]
  simp only [uf_norm_sub_comm (ptsOf p0 _) (ptsOf p1 _)]

/-- **`universal_form_factor` (recognised) dispatches exactly as the model's `chooseIntegrator`**: patches with a common vertex go
    to the Nusselt integrator with 64 samples, all others to the contour integral, whose regenerated text equals `stokesFF` -/
theorem universalFormFactor_eq (thres cut : ℝ) (nus : (Nat → Nat → ℝ) → (Nat → ℝ) → (Nat → Nat → ℝ) → (Nat → ℝ) → Nat → ℝ)
    (sp : Nat → Nat → ℝ) (ns : Nat) (snrm : Nat → ℝ) (area : ℝ) (rp : Nat → Nat → ℝ) (nr : Nat) (rnrm : Nat → ℝ)
    (jp1 jp2 : Nat → Nat → ℝ) (jc1 jc2 : Nat → Nat → Nat) :
    universalFormFactor thres cut nus sp ns snrm area rp nr rnrm jp1 jp2 jc1 jc2 =
      match chooseIntegrator thres (ptsOf sp) (ptsOf rp) ns nr with
      | .nusselt => nus sp snrm rp rnrm 64
      | .stokes => stokesFF cut (ptsOf sp) (ptsOf rp) ns nr area := by
  unfold universalFormFactor chooseIntegrator
  rw [coincidenceCheck_eq, stokesIntegration_eq]
  cases coincide thres (ptsOf sp) (ptsOf rp) ns nr <;> simp

/-- the scratch arrays of `stokes_integration` (`np.empty`) never influence the result -/
theorem universalFormFactor_scratch (thres cut : ℝ) (nus : (Nat → Nat → ℝ) → (Nat → ℝ) → (Nat → Nat → ℝ) → (Nat → ℝ) → Nat → ℝ)
    (sp : Nat → Nat → ℝ) (ns : Nat) (snrm : Nat → ℝ) (area : ℝ) (rp : Nat → Nat → ℝ) (nr : Nat) (rnrm : Nat → ℝ)
    (jp1 jp2 jp1' jp2' : Nat → Nat → ℝ) (jc1 jc2 jc1' jc2' : Nat → Nat → Nat) :
    universalFormFactor thres cut nus sp ns snrm area rp nr rnrm jp1 jp2 jc1 jc2 =
      universalFormFactor thres cut nus sp ns snrm area rp nr rnrm jp1' jp2' jc1' jc2' := by
  rw [universalFormFactor_eq, universalFormFactor_eq]

/-- **`patch2patch_ff_universal` (recognised): a pair that is not listed as visible keeps exactly 0** -/
theorem patch2patchFFUniversal_unlisted (thres cut : ℝ)
    (nus : (Nat → Nat → ℝ) → (Nat → ℝ) → (Nat → Nat → ℝ) → (Nat → ℝ) → Nat → ℝ)
    (pts : Nat → Nat → Nat → ℝ) (nv : Nat) (nrm : Nat → Nat → ℝ) (areas : Nat → ℝ) (nvis : Nat) (vis : Nat → Nat → Nat)
    (jp1 jp2 : Nat → Nat → ℝ) (jc1 jc2 : Nat → Nat → Nat) (a b : Nat)
    (h : ∀ v, v < nvis → ¬ (vis v 0 = a ∧ vis v 1 = b)) :
    patch2patchFFUniversal thres cut nus pts nv nrm areas nvis vis jp1 jp2 jc1 jc2 a b = 0 := by
  rw [uf_p2p, if_neg]
  rintro ⟨v, hv, h1⟩
  exact h v hv h1

/-- **a listed pair holds the dispatched form factor of that pair** (whatever else the list contains, duplicates included) -/
theorem patch2patchFFUniversal_listed (thres cut : ℝ)
    (nus : (Nat → Nat → ℝ) → (Nat → ℝ) → (Nat → Nat → ℝ) → (Nat → ℝ) → Nat → ℝ)
    (pts : Nat → Nat → Nat → ℝ) (nv : Nat) (nrm : Nat → Nat → ℝ) (areas : Nat → ℝ) (nvis : Nat) (vis : Nat → Nat → Nat)
    (jp1 jp2 : Nat → Nat → ℝ) (jc1 jc2 : Nat → Nat → Nat) (a b v : Nat) (hv : v < nvis) (ha : vis v 0 = a) (hb : vis v 1 = b) :
    patch2patchFFUniversal thres cut nus pts nv nrm areas nvis vis jp1 jp2 jc1 jc2 a b =
      universalFormFactor thres cut nus (fun k q => pts a k q) nv (fun q => nrm a q) (areas a) (fun k q => pts b k q) nv
        (fun q => nrm b q) jp1 jp2 jc1 jc2 := by
  rw [uf_p2p, if_pos ⟨v, hv, ha, hb⟩]

/-- the matrix written by the regenerated loop is the model's `ffMatrix` over the listed pairs -/
theorem patch2patchFFUniversal_eq_ffMatrix (thres cut : ℝ)
    (nus : (Nat → Nat → ℝ) → (Nat → ℝ) → (Nat → Nat → ℝ) → (Nat → ℝ) → Nat → ℝ)
    (pts : Nat → Nat → Nat → ℝ) (nv : Nat) (nrm : Nat → Nat → ℝ) (areas : Nat → ℝ) (nvis : Nat) (vis : Nat → Nat → Nat)
    (jp1 jp2 : Nat → Nat → ℝ) (jc1 jc2 : Nat → Nat → Nat) (a b : Nat) :
    patch2patchFFUniversal thres cut nus pts nv nrm areas nvis vis jp1 jp2 jc1 jc2 a b =
      ffMatrix ((List.range nvis).map fun v => (vis v 0, vis v 1))
        (fun i j => universalFormFactor thres cut nus (fun k q => pts i k q) nv (fun q => nrm i q) (areas i) (fun k q => pts j k q) nv
          (fun q => nrm j q) jp1 jp2 jc1 jc2) a b := by
  rw [uf_p2p]
  unfold ffMatrix
  have h : (∃ v, v < nvis ∧ vis v 0 = a ∧ vis v 1 = b) ↔
      ((List.range nvis).map fun v => (vis v 0, vis v 1)).contains (a, b) = true := by
    simp only [List.contains_iff_mem, List.mem_map, List.mem_range, Prod.mk.injEq]
  simp only [h]

end Sparrow
