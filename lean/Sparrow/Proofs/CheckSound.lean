import Sparrow.Generated.Check

namespace Sparrow
open Sparrow.Generated

/-- Number of frequency bins a configuration implies (1 when no frequencies are set). -/
def nBins (c : Cfg) : Int :=
  if c.frequencies.isSome then shapeSize (c.frequencies.getD []) else 1

/-- Number of outgoing directions (1 when no direction sets are installed). -/
def nOut (c : Cfg) : Int :=
  if c.brdf_outgoing_directions.isSome then ((c.brdf_outgoing_directions.getD []).headD (true, 0)).2 else 1

/-- The documented shape/range constraints of the constructor docstring, written by hand. -/
structure Valid (c : Cfg) : Prop where
  walls : ∃ W n : Int, c.walls_points = [W, n, 3] ∧ c.walls_normal = [W, 3] ∧ c.walls_up_vector = [W, 3]
  patches : ∃ n : Int, c.patches_points = [c.n_patches, n, 3]
  ids_shape : c.patch_to_wall_ids_shape = [c.n_patches]
  ids_range : ∀ i ∈ c.patch_to_wall_ids, 0 ≤ i ∧ i < c.walls_points.getD 0 0
  freq : ∀ s, c.frequencies = some s → ∃ B : Int, s = [B]
  ff : ∀ s, c.form_factors = some s → s = [c.n_patches, c.n_patches]
  fft : ∀ s, c.form_factors_tilde = some s → s = [c.n_patches, c.n_patches, nOut c, nBins c]
  brdf_index : ∀ s, c.brdf_index = some s → s.getD 0 0 = c.walls_points.getD 0 0
  dirs_in : ∀ l, c.brdf_incoming_directions = some l → ∀ e ∈ l, e.1 = true
  dirs_out : ∀ l, c.brdf_outgoing_directions = some l → ∀ e ∈ l, e.1 = true
  att : ∀ s, c.air_attenuation = some s → s = [nBins c]
  speed : ∀ v, c.speed_of_sound = some v → 0 < v
  resolution : ∀ v, c.etc_time_resolution = some v → 0 < v
  duration : ∀ v, c.etc_duration = some v → 0 < v
  dist : ∀ s, c.distance_patches_to_source = some s → s = [c.n_patches]
  e_init : ∀ s, c.energy_init_source = some s → s = [c.n_patches, nOut c, nBins c]
  etc : ∀ s, c.energy_exchange_etc = some s → ∃ dur dt : Rat, c.etc_duration = some dur ∧
    c.etc_time_resolution = some dt ∧ s = [c.n_patches, nOut c, nBins c, truncDiv dur dt]

/-! ### Generic helpers -/

theorem checkGen_ok_iff (c : Cfg) :
    checkGen c = .ok () ↔ ∀ p ∈ rejectConds c, p.1 = false := by
  unfold checkGen
  cases h : (rejectConds c).find? (·.1) with
  | none =>
    simp only [true_iff]
    intro p hp
    have := List.find?_eq_none.1 h p hp
    simpa using this
  | some p =>
    obtain ⟨b, e⟩ := p
    simp only [reduceCtorEq, false_iff]
    intro hall
    have hm := List.mem_of_find?_eq_some h
    have hb := List.find?_some h
    have := hall _ hm
    simp_all

/-- An "optional field" condition `o is not None and P(o)` is false iff `P` fails on the value. -/
theorem opt_and_false {α : Type} (o : Option α) (d : α) (P : α → Bool) :
    (o.isSome && P (o.getD d)) = false ↔ ∀ s, o = some s → P s = false := by
  cases o <;> simp

theorem bne_false_iff {α : Type} [BEq α] [LawfulBEq α] (a b : α) : (a != b) = false ↔ a = b := by
  simp

theorem ofNat_eq_one (n : Nat) : Int.ofNat n = (1 : Int) ↔ n = 1 := by
  simp only [Int.ofNat_eq_natCast]; omega

theorem ofNat_eq_three (n : Nat) : Int.ofNat n = (3 : Int) ↔ n = 3 := by
  simp only [Int.ofNat_eq_natCast]; omega

theorem any_not_false {α : Type} (l : List α) (P : α → Bool) :
    (l.any fun i => !P i) = false ↔ ∀ i ∈ l, P i = true := by
  simp

theorem cond6_iff (ids : List Int) (W : Int) :
    (ids.any fun i => !(decide (0 ≤ i) && decide (i < W))) = false ↔ ∀ i ∈ ids, 0 ≤ i ∧ i < W := by
  simp only [any_not_false, Bool.and_eq_true, decide_eq_true_eq]

theorem cond7_iff (ids : List Int) (n : Nat) :
    ((List.range n).any fun i => !ids.contains (Int.ofNat i)) = false ↔
      ∀ w : Nat, w < n → (w : Int) ∈ ids := by
  simp only [any_not_false, List.mem_range, List.contains_iff_mem, Int.ofNat_eq_natCast]

theorem opt_and_false_of {α : Type} (o : Option α) (b : Bool)
    (h : ∀ s, o = some s → b = false) : (o.isSome && b) = false := by
  cases o with
  | none => rfl
  | some s => simpa using h s rfl

/-- Shapes of rank 3. -/
theorem rank3 (l : List Int) (h : l.length = 3) : ∃ a b d, l = [a, b, d] := by
  match l, h with
  | [a, b, d], _ => exact ⟨a, b, d, rfl⟩

theorem rank1 (l : List Int) (h : l.length = 1) : ∃ a, l = [a] := by
  match l, h with
  | [a], _ => exact ⟨a, rfl⟩

/-- The conditions of `check()`, one field per `raise`, in friendly propositional form. -/
structure Acc (c : Cfg) : Prop where
  a1 : c.walls_points.length = 3 ∧ c.walls_points.getD 2 0 = 3
  a2 : c.walls_up_vector = [c.walls_points.getD 0 0, 3]
  a3 : c.walls_normal = [c.walls_points.getD 0 0, 3]
  a4 : c.patches_points.length = 3 ∧ c.patches_points.getD 0 0 = c.n_patches ∧
        c.patches_points.getD 2 0 = 3
  a5 : c.patch_to_wall_ids_shape = [c.n_patches]
  a6 : ∀ i ∈ c.patch_to_wall_ids, 0 ≤ i ∧ i < c.walls_points.getD 0 0
  a7 : ∀ w : Nat, w < (c.walls_points.getD 0 0).toNat → (w : Int) ∈ c.patch_to_wall_ids
  a8 : ∀ s, c.frequencies = some s → s.length = 1
  a9 : ∀ s, c.form_factors = some s → s = [c.n_patches, c.n_patches]
  a10 : ∀ s, c.brdf_index = some s → s.getD 0 0 = c.walls_points.getD 0 0
  a11 : ∀ l, c.brdf_incoming_directions = some l → ∀ e ∈ l, e.1 = true
  a12 : ∀ l, c.brdf_outgoing_directions = some l → ∀ e ∈ l, e.1 = true
  a13 : ∀ s, c.form_factors_tilde = some s → s = [c.n_patches, c.n_patches, nOut c, nBins c]
  a14 : ∀ s, c.air_attenuation = some s → s.length = 1
  a15 : ∀ s, c.air_attenuation = some s → s.getD 0 0 = nBins c
  a16 : ∀ v, c.speed_of_sound = some v → 0 < v
  a17 : ∀ v, c.etc_time_resolution = some v → 0 < v
  a18 : ∀ v, c.etc_duration = some v → 0 < v
  a19 : ∀ s, c.distance_patches_to_source = some s → s = [c.n_patches]
  a20 : ∀ s, c.energy_init_source = some s → s = [c.n_patches, nOut c, nBins c]
  a21 : ∀ s, c.energy_exchange_etc = some s →
          c.etc_duration.isSome = true ∧ c.etc_time_resolution.isSome = true
  a22 : ∀ s, c.energy_exchange_etc = some s → s = [c.n_patches, nOut c, nBins c,
          truncDiv (c.etc_duration.getD 1) (c.etc_time_resolution.getD 1)]

/-- Discharge `∀ s, c.f = some s → …` from the Boolean condition `c.f.isSome && …`. -/
local macro "opt_field " h:ident : tactic =>
  `(tactic| (intro s hs; have h' := $h
             simp only [hs, Option.isSome_some, Option.getD_some, Bool.true_and, bne_false_iff,
               ofNat_eq_one, ofNat_eq_three, any_not_false, Bool.and_eq_false_imp, Bool.or_eq_false_iff,
               Option.isNone_eq_false_iff, decide_eq_false_iff_not, Rat.not_le] at h'
             exact h'))

/-- Converse of `opt_field`. -/
local macro "opt_back " a:term : tactic =>
  `(tactic| (refine opt_and_false_of _ _ (fun s hs => ?_)
             have h' := $a s hs
             simp only [hs, Option.isSome_some, Option.getD_some, Bool.true_and, bne_false_iff,
               ofNat_eq_one, ofNat_eq_three, any_not_false, Bool.and_eq_false_imp,
               Bool.or_eq_false_iff, Option.isNone_eq_false_iff, decide_eq_false_iff_not,
               Rat.not_le]
             exact h'))

theorem accepts_iff (c : Cfg) : checkGen c = .ok () ↔ Acc c := by
  rw [checkGen_ok_iff]
  simp only [rejectConds, List.forall_mem_cons]
  constructor
  · rintro ⟨h1, h2, h3, h4, h5, h6, h7, h8, h9, h10, h11, h12, h13, h14, h15, h16, h17, h18,
      h19, h20, h21, h22, -⟩
    simp only [Bool.or_eq_false_iff, bne_false_iff, ofNat_eq_three] at h1 h4
    refine
      { a1 := ⟨h1.1.1, h1.2⟩
        a2 := (bne_false_iff _ _).1 h2
        a3 := (bne_false_iff _ _).1 h3
        a4 := ⟨h4.1.1, h4.1.2, h4.2⟩
        a5 := (bne_false_iff _ _).1 h5
        a6 := ?_, a7 := ?_
        a8 := by opt_field h8
        a9 := by opt_field h9
        a10 := by opt_field h10
        a11 := by opt_field h11
        a12 := by opt_field h12
        a13 := by opt_field h13
        a14 := by opt_field h14
        a15 := by opt_field h15
        a16 := by opt_field h16
        a17 := by opt_field h17
        a18 := by opt_field h18
        a19 := by opt_field h19
        a20 := by opt_field h20
        a21 := by opt_field h21
        a22 := by opt_field h22 }
    · exact (cond6_iff _ _).1 h6
    · exact (cond7_iff _ _).1 h7
  · intro A
    refine ⟨?_, ?_, ?_, ?_, ?_, ?_, ?_, ?_, ?_, ?_, ?_, ?_, ?_, ?_, ?_, ?_, ?_, ?_, ?_, ?_, ?_, ?_,
      fun _ h => absurd h List.not_mem_nil⟩
    · simp only [Bool.or_eq_false_iff, bne_false_iff, ofNat_eq_three]
      exact ⟨⟨A.a1.1, by trivial⟩, A.a1.2⟩
    · exact (bne_false_iff _ _).2 A.a2
    · exact (bne_false_iff _ _).2 A.a3
    · simp only [Bool.or_eq_false_iff, bne_false_iff, ofNat_eq_three]
      exact ⟨⟨A.a4.1, A.a4.2.1⟩, A.a4.2.2⟩
    · exact (bne_false_iff _ _).2 A.a5
    · exact (cond6_iff _ _).2 A.a6
    · exact (cond7_iff _ _).2 A.a7
    · opt_back A.a8
    · opt_back A.a9
    · opt_back A.a10
    · opt_back A.a11
    · opt_back A.a12
    · opt_back A.a13
    · opt_back A.a14
    · opt_back A.a15
    · opt_back A.a16
    · opt_back A.a17
    · opt_back A.a18
    · opt_back A.a19
    · opt_back A.a20
    · opt_back A.a21
    · opt_back A.a22

theorem valid_of_acc (c : Cfg) (A : Acc c) : Valid c := by
  obtain ⟨W, n, d, hw⟩ := rank3 _ A.a1.1
  obtain ⟨p0, m, p2, hp⟩ := rank3 _ A.a4.1
  have hd : d = 3 := by have := A.a1.2; rw [hw] at this; simpa using this
  have hW : c.walls_points.getD 0 0 = W := by rw [hw]; rfl
  have hp0 : p0 = c.n_patches := by have := A.a4.2.1; rw [hp] at this; simpa using this
  have hp2 : p2 = 3 := by have := A.a4.2.2; rw [hp] at this; simpa using this
  refine
    { walls := ⟨W, n, by rw [hw, hd], by rw [A.a3, hW], by rw [A.a2, hW]⟩
      patches := ⟨m, by rw [hp, hp0, hp2]⟩
      ids_shape := A.a5
      ids_range := A.a6
      freq := fun s hs => rank1 s (A.a8 s hs)
      ff := A.a9
      fft := A.a13
      brdf_index := A.a10
      dirs_in := A.a11
      dirs_out := A.a12
      att := ?_
      speed := A.a16
      resolution := A.a17
      duration := A.a18
      dist := A.a19
      e_init := A.a20
      etc := ?_ }
  · intro s hs
    obtain ⟨x, hx⟩ := rank1 s (A.a14 s hs)
    have := A.a15 s hs
    rw [hx] at this
    rw [hx, ← this]; rfl
  · intro s hs
    obtain ⟨hdur, hdt⟩ := A.a21 s hs
    obtain ⟨dur, hdur⟩ := Option.isSome_iff_exists.1 hdur
    obtain ⟨dt, hdt⟩ := Option.isSome_iff_exists.1 hdt
    refine ⟨dur, dt, hdur, hdt, ?_⟩
    have := A.a22 s hs
    rw [hdur, hdt] at this
    exact this

theorem acc_of_valid (c : Cfg) (hv : Valid c)
    (hown : ∀ w : Nat, (w : Int) < c.walls_points.getD 0 0 → (w : Int) ∈ c.patch_to_wall_ids) :
    Acc c := by
  obtain ⟨W, n, hw, hn, hu⟩ := hv.walls
  obtain ⟨m, hp⟩ := hv.patches
  have hW : c.walls_points.getD 0 0 = W := by rw [hw]; rfl
  refine
    { a1 := by rw [hw]; exact ⟨rfl, rfl⟩
      a2 := by rw [hu, hW]
      a3 := by rw [hn, hW]
      a4 := by rw [hp]; exact ⟨rfl, rfl, rfl⟩
      a5 := hv.ids_shape
      a6 := hv.ids_range
      a7 := fun w hlt => hown w (by omega)
      a8 := ?_
      a9 := hv.ff
      a10 := hv.brdf_index
      a11 := hv.dirs_in
      a12 := hv.dirs_out
      a13 := hv.fft
      a14 := ?_
      a15 := ?_
      a16 := hv.speed
      a17 := hv.resolution
      a18 := hv.duration
      a19 := hv.dist
      a20 := hv.e_init
      a21 := ?_
      a22 := ?_ }
  · intro s hs
    obtain ⟨B, rfl⟩ := hv.freq s hs
    rfl
  · intro s hs
    rw [hv.att s hs]; rfl
  · intro s hs
    rw [hv.att s hs]; rfl
  · intro s hs
    obtain ⟨dur, dt, hdur, hdt, -⟩ := hv.etc s hs
    rw [hdur, hdt]; exact ⟨rfl, rfl⟩
  · intro s hs
    obtain ⟨dur, dt, hdur, hdt, h⟩ := hv.etc s hs
    rw [hdur, hdt]; exact h

/-- Every `raise` in `check()` is a `ValueError`. -/
theorem rejectConds_valueError (c : Cfg) : ∀ p ∈ rejectConds c, p.2 = .valueError := by
  simp only [rejectConds, List.forall_mem_cons, true_and]
  exact fun _ h => absurd h List.not_mem_nil

/-- **Soundness of `check()`** (as translated from the source on this run): whatever it
    accepts satisfies every documented constraint — for all ranks, lengths, ids and scalars. -/
theorem check_sound (c : Cfg) (h : checkGen c = .ok ()) : Valid c := by
  exact valid_of_acc c ((accepts_iff c).1 h)

/-- A rejection is always a `ValueError`. -/
theorem check_rejects_with_valueError (c : Cfg) (h : checkGen c ≠ .ok ()) :
    checkGen c = .error .valueError := by
  unfold checkGen at h ⊢
  cases hf : (rejectConds c).find? (·.1) with
  | none => rw [hf] at h; exact absurd rfl h
  | some p =>
    obtain ⟨b, e⟩ := p
    have := rejectConds_valueError c _ (List.mem_of_find?_eq_some hf)
    simp only at this
    simp only [this]

/-- Valid configurations in which every wall owns at least one patch are accepted. -/
theorem valid_accepted (c : Cfg) (hv : Valid c)
    (hown : ∀ w : Nat, (w : Int) < c.walls_points.getD 0 0 → (w : Int) ∈ c.patch_to_wall_ids) :
    checkGen c = .ok () := by
  exact (accepts_iff c).2 (acc_of_valid c hv hown)

end Sparrow
