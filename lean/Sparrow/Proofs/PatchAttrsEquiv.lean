import Sparrow.Generated.PatchAttrs
import Sparrow.Proofs.RealInst
import Mathlib.Tactic.Ring
import Mathlib.Tactic.NormNum
import Mathlib.Tactic.Linarith
import Mathlib.Tactic.IntervalCases
import Mathlib.Tactic.FieldSimp
/-
  The derived patch attributes as REGENERATED from `/repo` on every run (`Generated/PatchAttrs.lean`: `_calculate_center`,
  `_calculate_size`, `_calculate_area`, `_calculate_normals`, recognised): what they are for the rectangles a subdivision produces,
  and how they follow a translation of the scene (C08: congruent tiles carrying the wall's normal, areas; C17: placement).
-/
namespace Sparrow
open Sparrow.Generated.PatchAttrs Sparrow.Generated.PointFactor

/-- the parallelogram `p, p+u, p+u+v, p+v` as a vertex array -/
def paraPts (p u v : Nat → ℝ) : Nat → Nat → ℝ :=
  fun k q => if k = 0 then p q else if k = 1 then p q + u q else if k = 2 then p q + u q + v q else p q + v q

@[simp] theorem paraPts_zero (p u v : Nat → ℝ) (q : Nat) : paraPts p u v 0 q = p q := by simp [paraPts]
@[simp] theorem paraPts_one (p u v : Nat → ℝ) (q : Nat) : paraPts p u v 1 q = p q + u q := by simp [paraPts]
@[simp] theorem paraPts_two (p u v : Nat → ℝ) (q : Nat) : paraPts p u v 2 q = p q + u q + v q := by simp [paraPts]
@[simp] theorem paraPts_three (p u v : Nat → ℝ) (q : Nat) : paraPts p u v 3 q = p q + v q := by simp [paraPts]

/-- centre of a parallelogram patch = corner + half of both edges -/
theorem calculateCenter_para (p u v : Nat → ℝ) (q : Nat) :
    calculateCenter (paraPts p u v) 4 q = p q + (u q + v q) / 2 := by
  unfold calculateCenter
  simp [List.range_succ, List.foldl]
  ring

theorem pa_foldl_add_const (f : Nat → ℝ) (c : ℝ) (n : Nat) :
    (List.range n).foldl (fun acc k => acc + (f k + c)) 0 =
      (List.range n).foldl (fun acc k => acc + f k) 0 + n * c := by
  induction n with
  | zero => simp
  | succ n ih =>
    rw [List.range_succ, List.foldl_append, List.foldl_append, ih]
    simp only [List.foldl_cons, List.foldl_nil]
    push_cast
    ring

/-- the centre follows a translation of the vertices (any polygon with at least one vertex) -/
theorem calculateCenter_translate (pts : Nat → Nat → ℝ) (n : Nat) (hn : 0 < n) (t : Nat → ℝ) (q : Nat) :
    calculateCenter (fun k q => pts k q + t q) n q = calculateCenter pts n q + t q := by
  unfold calculateCenter
  have hn' : ((n : Nat) : ℝ) ≠ 0 := by exact_mod_cast (Nat.pos_iff_ne_zero.mp hn)
  rw [pa_foldl_add_const (fun k => pts k q) (t q) n]
  field_simp

/-- size, area and normal do not change under a translation -/
theorem calculateSize_translate (pts : Nat → Nat → ℝ) (t : Nat → ℝ) (q : Nat) :
    calculateSize (fun k q => pts k q + t q) q = calculateSize pts q := by
  unfold calculateSize
  simp only [add_sub_add_right_eq_sub]

theorem calculateNormals_translate (pts : Nat → Nat → ℝ) (t : Nat → ℝ) (q : Nat) :
    calculateNormals (fun k q => pts k q + t q) q = calculateNormals pts q := by
  unfold calculateNormals
  simp only [add_sub_add_right_eq_sub]

theorem calculateArea_translate (thr : ℝ) (pts : Nat → Nat → ℝ) (n : Nat) (t : Nat → ℝ) :
    calculateArea thr (fun k q => pts k q + t q) n = calculateArea thr pts n := by
  unfold calculateArea polygonAreaT
  simp only [add_sub_add_right_eq_sub]

/-- size of a parallelogram patch: `|v - u|` per axis; for edges along two different axes that is `|u| + |v|` per axis -/
theorem calculateSize_para (p u v : Nat → ℝ) (q : Nat) :
    calculateSize (paraPts p u v) q = |v q - u q| := by
  unfold calculateSize
  simp only [paraPts_zero, paraPts_one, paraPts_two, cmp_abs_real]
  congr 1
  ring

/-- **area of a parallelogram patch = |u × v|** (two triangles of half that area each) -/
theorem calculateArea_para (thr : ℝ) (p u v : Nat → ℝ) :
    calculateArea thr (paraPts p u v) 4 =
      Real.sqrt ((u 1 * v 2 - u 2 * v 1) ^ 2 + (u 2 * v 0 - u 0 * v 2) ^ 2 + (u 0 * v 1 - u 1 * v 0) ^ 2) := by
  unfold calculateArea polygonAreaT
  have h1 : ((1 : Nat) : ℝ) = 1 := by norm_num
  have h2 : ((2 : Nat) : ℝ) = 2 := by norm_num
  simp only [show 4 - 2 = 2 from rfl, List.range_succ, List.range_zero, List.nil_append, List.cons_append, List.foldl_cons,
    List.foldl_nil, Nat.zero_add, show 1 + 1 = 2 from rfl, show 1 + 2 = 3 from rfl, paraPts_zero, paraPts_one, paraPts_two,
    paraPts_three, transc_sqrt_real, h1, h2]
  set S := (u 1 * v 2 - u 2 * v 1) ^ 2 + (u 2 * v 0 - u 0 * v 2) ^ 2 + (u 0 * v 1 - u 1 * v 0) ^ 2 with hS
  have e1 : ((p 1 + u 1 - p 1) * (p 2 + u 2 + v 2 - p 2) - (p 2 + u 2 - p 2) * (p 1 + u 1 + v 1 - p 1)) *
        ((p 1 + u 1 - p 1) * (p 2 + u 2 + v 2 - p 2) - (p 2 + u 2 - p 2) * (p 1 + u 1 + v 1 - p 1)) +
      ((p 2 + u 2 - p 2) * (p 0 + u 0 + v 0 - p 0) - (p 0 + u 0 - p 0) * (p 2 + u 2 + v 2 - p 2)) *
        ((p 2 + u 2 - p 2) * (p 0 + u 0 + v 0 - p 0) - (p 0 + u 0 - p 0) * (p 2 + u 2 + v 2 - p 2)) +
      ((p 0 + u 0 - p 0) * (p 1 + u 1 + v 1 - p 1) - (p 1 + u 1 - p 1) * (p 0 + u 0 + v 0 - p 0)) *
        ((p 0 + u 0 - p 0) * (p 1 + u 1 + v 1 - p 1) - (p 1 + u 1 - p 1) * (p 0 + u 0 + v 0 - p 0)) = S := by
    rw [hS]; ring
  have e2 : ((p 1 + u 1 + v 1 - p 1) * (p 2 + v 2 - p 2) - (p 2 + u 2 + v 2 - p 2) * (p 1 + v 1 - p 1)) *
        ((p 1 + u 1 + v 1 - p 1) * (p 2 + v 2 - p 2) - (p 2 + u 2 + v 2 - p 2) * (p 1 + v 1 - p 1)) +
      ((p 2 + u 2 + v 2 - p 2) * (p 0 + v 0 - p 0) - (p 0 + u 0 + v 0 - p 0) * (p 2 + v 2 - p 2)) *
        ((p 2 + u 2 + v 2 - p 2) * (p 0 + v 0 - p 0) - (p 0 + u 0 + v 0 - p 0) * (p 2 + v 2 - p 2)) +
      ((p 0 + u 0 + v 0 - p 0) * (p 1 + v 1 - p 1) - (p 1 + u 1 + v 1 - p 1) * (p 0 + v 0 - p 0)) *
        ((p 0 + u 0 + v 0 - p 0) * (p 1 + v 1 - p 1) - (p 1 + u 1 + v 1 - p 1) * (p 0 + v 0 - p 0)) = S := by
    rw [hS]; ring
  rw [e1, e2]
  ring

/-- area of an axis-parallel rectangle with edges `a` along axis 0 and `b` along axis 1: `|a| · |b|`; tiles of equal edges have equal
    areas, and `n · m` tiles of edges `a/n`, `b/m` add up to the wall's area -/
theorem calculateArea_rect_xy (thr : ℝ) (p : Nat → ℝ) (a b : ℝ) :
    calculateArea thr (paraPts p (fun q => if q = 0 then a else 0) (fun q => if q = 1 then b else 0)) 4 = |a| * |b| := by
  rw [calculateArea_para]
  simp [Real.sqrt_sq_eq_abs, abs_mul]

theorem calculateArea_tiles_sum (thr : ℝ) (p : Nat → Nat → Nat → ℝ) (a b : ℝ) (n m : Nat) (hn : 0 < n) (hm : 0 < m) :
    ((List.range n).map fun i => ((List.range m).map fun j =>
        calculateArea thr (paraPts (p i j) (fun q => if q = 0 then a / n else 0) (fun q => if q = 1 then b / m else 0)) 4).sum).sum =
      |a| * |b| := by
  simp only [calculateArea_rect_xy]
  have hn' : (n : ℝ) ≠ 0 := by exact_mod_cast (Nat.pos_iff_ne_zero.mp hn)
  have hm' : (m : ℝ) ≠ 0 := by exact_mod_cast (Nat.pos_iff_ne_zero.mp hm)
  simp only [List.map_const', List.sum_replicate, List.length_range, nsmul_eq_mul, abs_div, Nat.abs_cast]
  field_simp

/-- the normal of a parallelogram patch is the unit vector along `u × v`: the same for every tile of a wall (same edge directions) -/
theorem calculateNormals_para (p u v : Nat → ℝ) (q : Nat) (hq : q < 3) :
    calculateNormals (paraPts p u v) q =
      (if q = 0 then u 1 * v 2 - u 2 * v 1 else if q = 1 then u 2 * v 0 - u 0 * v 2 else u 0 * v 1 - u 1 * v 0) /
        Real.sqrt ((u 1 * v 2 - u 2 * v 1) ^ 2 + (u 2 * v 0 - u 0 * v 2) ^ 2 + (u 0 * v 1 - u 1 * v 0) ^ 2) := by
  have _ := hq
  unfold calculateNormals
  simp only [paraPts_zero, paraPts_one, paraPts_two, transc_sqrt_real, if_pos, one_ne_zero, OfNat.ofNat_ne_zero,
    OfNat.ofNat_ne_one, if_false]
  have e0 : (p 1 + u 1 - p 1) * (p 2 + u 2 + v 2 - p 2) - (p 2 + u 2 - p 2) * (p 1 + u 1 + v 1 - p 1) = u 1 * v 2 - u 2 * v 1 := by ring
  have e1 : (p 2 + u 2 - p 2) * (p 0 + u 0 + v 0 - p 0) - (p 0 + u 0 - p 0) * (p 2 + u 2 + v 2 - p 2) = u 2 * v 0 - u 0 * v 2 := by ring
  have e2 : (p 0 + u 0 - p 0) * (p 1 + u 1 + v 1 - p 1) - (p 1 + u 1 - p 1) * (p 0 + u 0 + v 0 - p 0) = u 0 * v 1 - u 1 * v 0 := by ring
  simp only [e0, e1, e2, ← sq]

/-- scaling both edges by positive factors (a tile of the wall) keeps the normal -/
theorem calculateNormals_tile (p p' u v : Nat → ℝ) (s r : ℝ) (hs : 0 < s) (hr : 0 < r) (q : Nat) (hq : q < 3) :
    calculateNormals (paraPts p' (fun k => s * u k) (fun k => r * v k)) q = calculateNormals (paraPts p u v) q := by
  rw [calculateNormals_para _ _ _ _ hq, calculateNormals_para _ _ _ _ hq]
  have hsr : 0 < s * r := mul_pos hs hr
  set S := (u 1 * v 2 - u 2 * v 1) ^ 2 + (u 2 * v 0 - u 0 * v 2) ^ 2 + (u 0 * v 1 - u 1 * v 0) ^ 2 with hS
  have eS : (s * u 1 * (r * v 2) - s * u 2 * (r * v 1)) ^ 2 + (s * u 2 * (r * v 0) - s * u 0 * (r * v 2)) ^ 2 +
      (s * u 0 * (r * v 1) - s * u 1 * (r * v 0)) ^ 2 = (s * r) ^ 2 * S := by
    rw [hS]; ring
  have eN : (if q = 0 then s * u 1 * (r * v 2) - s * u 2 * (r * v 1) else if q = 1 then s * u 2 * (r * v 0) - s * u 0 * (r * v 2)
      else s * u 0 * (r * v 1) - s * u 1 * (r * v 0)) =
      (s * r) * (if q = 0 then u 1 * v 2 - u 2 * v 1 else if q = 1 then u 2 * v 0 - u 0 * v 2 else u 0 * v 1 - u 1 * v 0) := by
    split_ifs <;> ring
  rw [eS, eN, Real.sqrt_mul (sq_nonneg _), Real.sqrt_sq (le_of_lt hsr)]
  exact mul_div_mul_left _ _ (ne_of_gt hsr)

end Sparrow
