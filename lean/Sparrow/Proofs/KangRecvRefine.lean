import Sparrow.Proofs.KangRecvEquiv
import Sparrow.Proofs.KangRefine
import Mathlib.Tactic.Ring
/-
  REFINEMENT of the regenerated receiver loops of the Kang engine to the model's receiver response: the regenerated body of
  `PatchesKang.energy_at_receiver` (`receiverCell`, Generated/KangFn.lean), run over all patches of the room on the model's
  histograms, yields the model's `kangReceiver` — every patch, every order up to `K`, delayed by the patch-receiver bins with
  truncation, weighted by Kang's eq. 20 factor.
-/
namespace Sparrow
open Sparrow.Generated.KangFn

theorem kr_foldl_add_eq_sum {β : Type} (g : β → ℝ) (l : List β) (a : ℝ) :
    l.foldl (fun acc x => acc + g x) a = a + (l.map g).sum := by
  induction l generalizing a with
  | nil => simp
  | cons x xs ih => rw [List.foldl_cons, ih, List.map_cons, List.sum_cons, add_assoc]

/-- the patches handed to the receiver loops: (centre, normal, histograms by order) for patches `0 … P-1` -/
noncomputable def recvPatches (P : Nat) (center normal : Nat → Nat → ℝ) (H : Nat → Nat → Nat → ℝ) :
    List ((Nat → ℝ) × (Nat → ℝ) × (Nat → Nat → ℝ)) :=
  (List.range P).map fun j => (center j, normal j, fun k t => H k j t)

/-- **receiver refinement** for arbitrary order histograms `H k j t` -/
theorem receiverCell_refines_receiverOf (P K S : Nat) (center normal : Nat → Nat → ℝ) (H : Nat → Nat → Nat → ℝ)
    (recv : Nat → ℝ) (c fs : ℝ) (att : Nat → ℝ) (f t : Nat) (ht : t < S)
    (hbins : ∀ j, j < P → binKang (Vec3.norm (Vec3.sub (Vec3.ofFn (center j)) (Vec3.ofFn recv))) c fs ≤ S) :
    receiverCell recv c fs S K (recvPatches P center normal H) att f t =
      some (kangReceiverOf P K H
        (fun j => binKang (Vec3.norm (Vec3.sub (Vec3.ofFn (center j)) (Vec3.ofFn recv))) c fs)
        (fun j => kangRecvFactor (Vec3.ofFn (normal j)) (Vec3.ofFn (center j)) (Vec3.ofFn recv) (att f)) t) := by
  have hd : ∀ p ∈ recvPatches P center normal H,
      binKang (Vec3.norm (Vec3.sub (Vec3.ofFn p.1) (Vec3.ofFn recv))) c fs ≤ S := by
    intro p hp
    unfold recvPatches at hp
    obtain ⟨j, hj, rfl⟩ := List.mem_map.mp hp
    exact hbins j (List.mem_range.mp hj)
  rw [receiverCell_eq recv c fs S K _ att f t ht hd]
  congr 1
  unfold recvPatches kangReceiverOf monoF
  rw [List.map_map, kr_foldl_add_eq_sum, zero_add]
  congr 2
  funext j
  unfold collectF kangRecvTerm
  simp only [Function.comp]
  rw [kr_foldl_add_eq_sum, zero_add]

/-- **the whole chain for one band**: histograms produced by the model recursion of the scene read off the geometry (which the
    regenerated exchange loop nest refines, `exchangeCell_refines_order`), collected by the regenerated receiver loops, give the
    model's `kangReceiver` of that scene -/
theorem receiverCell_refines_kangReceiver (g : KangGeom) (normal : Nat → Nat → ℝ) (K : Nat) (recv : Nat → ℝ) (att : Nat → ℝ)
    (f t : Nat) (ht : t < g.S)
    (hbins : ∀ j, j < g.P → binKang (Vec3.norm (Vec3.sub (Vec3.ofFn (g.center j)) (Vec3.ofFn recv))) g.c g.fs ≤ g.S) :
    receiverCell recv g.c g.fs g.S K
        (recvPatches g.P g.center normal (fun k j t => orderH (g.scene f).toEx k j 0 t)) att f t =
      some (kangReceiver (g.scene f).toEx K
        (fun j => binKang (Vec3.norm (Vec3.sub (Vec3.ofFn (g.center j)) (Vec3.ofFn recv))) g.c g.fs)
        (fun j => kangRecvFactor (Vec3.ofFn (normal j)) (Vec3.ofFn (g.center j)) (Vec3.ofFn recv) (att f)) t) := by
  have h := receiverCell_refines_receiverOf g.P K g.S g.center normal
    (fun k j t => orderH (g.scene f).toEx k j 0 t) recv g.c g.fs att f t ht hbins
  rw [h]
  rfl

end Sparrow
