import Sparrow.Proofs.BakeComposed
import Sparrow.Proofs.StokesLemmas
/-
  Corollaries about the form factors stored by the composed regenerated `bake_geometry` (C05, lower bound and dispatch): a visible pair
  of patches WITHOUT a common vertex holds the contour integral `stokesFF` of the two patches, which is non-negative; an invisible pair
  holds 0.  So no stored form factor of a detached or invisible pair is negative — for every scene.
-/
namespace Sparrow
open Sparrow.Generated.BakeGlue Sparrow.Generated.BakeKernels Sparrow.Generated.UniversalFn

theorem bakeGeometry_ff_detached_eq_stokes
    (vis2 : (Nat → Nat → ℝ) → (Nat → Nat → ℝ) → (Nat → Nat → Nat → ℝ) → Nat → Nat → Bool)
    (thres cut : ℝ) (nus : (Nat → Nat → ℝ) → (Nat → ℝ) → (Nat → Nat → ℝ) → (Nat → ℝ) → Nat → ℝ) (nv : Nat)
    (jp1 jp2 : Nat → Nat → ℝ) (jc1 jc2 : Nat → Nat → Nat)
    (P : Nat) (pc pn : Nat → Nat → ℝ) (pp : Nat → Nat → Nat → ℝ) (pa : Nat → ℝ) (ptw : Nat → Nat)
    (hasM : Bool) (W nIn D T : Nat) (dIn dOut : Nat → Nat → Nat → ℝ) (bidx : Nat → Nat) (brdf : Nat → Nat → Nat → Nat → ℝ)
    (fnone : Bool) (B : Nat) (att : Option (Nat → ℝ)) (junk : Nat → Nat → Nat) (a b : Nat) (ha : a < P) (hb : b < P)
    (h : vis2 pc pn pp a b = true)
    (hdet : chooseIntegrator thres (ptsOf (fun k q => pp a k q)) (ptsOf (fun k q => pp b k q)) nv nv = Integrator.stokes) :
    (bakeGeometry vis2 (ffuT thres cut nus nv jp1 jp2 jc1 jc2) P pc pn pp pa ptw hasM W nIn D T dIn dOut bidx brdf fnone B att junk).2.2.1 a b
      = stokesFF cut (ptsOf (fun k q => pp a k q)) (ptsOf (fun k q => pp b k q)) nv nv (pa a) := by
  rw [bakeGeometry_ff_visible vis2 thres cut nus nv jp1 jp2 jc1 jc2 P pc pn pp pa ptw hasM W nIn D T dIn dOut bidx brdf fnone B att junk
    a b ha hb h, universalFormFactor_eq, hdet]

/-- **lower bound of C05 about the composed text**: the stored form factor of any pair that is invisible, or visible and detached, is
    non-negative -/
theorem bakeGeometry_ff_nonneg
    (vis2 : (Nat → Nat → ℝ) → (Nat → Nat → ℝ) → (Nat → Nat → Nat → ℝ) → Nat → Nat → Bool)
    (thres cut : ℝ) (nus : (Nat → Nat → ℝ) → (Nat → ℝ) → (Nat → Nat → ℝ) → (Nat → ℝ) → Nat → ℝ) (nv : Nat)
    (jp1 jp2 : Nat → Nat → ℝ) (jc1 jc2 : Nat → Nat → Nat)
    (P : Nat) (pc pn : Nat → Nat → ℝ) (pp : Nat → Nat → Nat → ℝ) (pa : Nat → ℝ) (ptw : Nat → Nat)
    (hasM : Bool) (W nIn D T : Nat) (dIn dOut : Nat → Nat → Nat → ℝ) (bidx : Nat → Nat) (brdf : Nat → Nat → Nat → Nat → ℝ)
    (fnone : Bool) (B : Nat) (att : Option (Nat → ℝ)) (junk : Nat → Nat → Nat) (a b : Nat) (ha : a < P) (hb : b < P)
    (hdet : vis2 pc pn pp a b = true →
      chooseIntegrator thres (ptsOf (fun k q => pp a k q)) (ptsOf (fun k q => pp b k q)) nv nv = Integrator.stokes) :
    0 ≤ (bakeGeometry vis2 (ffuT thres cut nus nv jp1 jp2 jc1 jc2) P pc pn pp pa ptw hasM W nIn D T dIn dOut bidx brdf fnone B att
      junk).2.2.1 a b := by
  cases h : vis2 pc pn pp a b with
  | false =>
    rw [bakeGeometry_ff_invisible_zero vis2 thres cut nus nv jp1 jp2 jc1 jc2 P pc pn pp pa ptw hasM W nIn D T dIn dOut bidx brdf fnone B att
      junk a b h]
  | true =>
    rw [bakeGeometry_ff_detached_eq_stokes vis2 thres cut nus nv jp1 jp2 jc1 jc2 P pc pn pp pa ptw hasM W nIn D T dIn dOut bidx brdf fnone B
      att junk a b ha hb h (hdet h)]
    exact stokes_nonneg _ _ _ _ _ _

end Sparrow
