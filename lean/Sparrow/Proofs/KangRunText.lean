import Sparrow.Proofs.KangInitRefine
/-
  THE WHOLE ORDER RECURSION OF A KANG RUN AS REGENERATED TEXT.  `kangText` iterates the regenerated pieces exactly as
  `RadiosityKang.run` schedules them (`runSchedule`): order 0 from the per-patch body of `init_energy_exchange`, order `k+1` from the
  loop nest of `calculate_energy_exchange` fed with the order-`k` rows it produced itself.  Theorem: for every order, patch and bin it is
  the model's `orderH` of the scene read off the geometry.  Hence every model-level theorem of C19 (recursion formula, truncation,
  monotonicity in the maximum order, …) is a statement about the output of the regenerated text of the whole recursion.
-/
namespace Sparrow
open Sparrow.Generated.KangFn

/-- per-patch data the first-order step reads -/
structure KangInitData where
  thr99 : ℝ
  thr11 : ℝ
  src : Nat → ℝ
  power : ℝ
  n_bins : Nat
  normal : Nat → Nat → ℝ
  size : Nat → Nat → ℝ

/-- rows produced by the regenerated text, order by order (`none` = the text raised).  Outside the histogram / patch range the row is 0
    (as `np.zeros` leaves it). -/
noncomputable def kangText (g : KangGeom) (d : KangInitData) (others : Nat → List Nat) (f : Nat) : Nat → Nat → Nat → Option ℝ
  | 0, j, t =>
    if j < g.P ∧ t < g.S then
      initCell (initEnergyExchangePatch d.thr99 d.thr11 d.src (g.center j) (d.normal j) (d.size j) d.power
        (fun b => g.absorption (g.wall j) b) (fun b => g.att (g.wall j) b) d.n_bins g.c g.fs) f t
    else some 0
  | k + 1, j, t =>
    if j < g.P ∧ t < g.S then
      exchangeCell 0 (g.center j) g.c g.fs g.S
        ((others j).map fun w => ((List.range g.P).filter fun i => g.wall i = w).map fun i =>
          (g.center i, (fun t' => (kangText g d others f k i t').getD 0), g.ff i j))
        (g.absorption (g.wall j)) (g.scattering (g.wall j)) (g.att (g.wall j)) f t
    else some 0

/-- **the regenerated recursion computes the model's order histograms, all orders** -/
theorem kangText_eq_orderH (g : KangGeom) (d : KangInitData) (others : Nat → List Nat) (f : Nat) (hf : f < d.n_bins)
    (hn : ∀ j, j < g.P → AxisAligned (Vec3.ofFn (d.normal j)) d.thr99)
    (he0 : ∀ j, j < g.P → g.e0 j = kangInitPatch (Vec3.ofFn (d.normal j)) (Vec3.ofFn (g.center j)) (Vec3.ofFn (d.size j))
      (Vec3.ofFn d.src) d.power (g.absorption (g.wall j) f) (g.att (g.wall j) f) d.thr99 d.thr11)
    (hb0 : ∀ j, j < g.P → g.bin0 j = binKang (Vec3.norm (Vec3.sub (Vec3.ofFn (g.center j)) (Vec3.ofFn d.src))) g.c g.fs)
    (hnd : ∀ j, j < g.P → (others j).Nodup)
    (hmem : ∀ j, j < g.P → ∀ w, w ∈ others j ↔ w < g.W ∧ w ≠ g.wall j)
    (hwall : ∀ i, i < g.P → g.wall i < g.W)
    (hbins : ∀ i j, i < g.P → j < g.P → g.wall i ≠ g.wall j → binKang (g.dist i j) g.c g.fs ≤ g.S)
    (k j t : Nat) :
    kangText g d others f k j t = some (orderH (g.scene f).toEx k j 0 t) := by
  revert j t
  induction k with
  | zero =>
    intro j t
    rw [kangText]
    by_cases h : j < g.P ∧ t < g.S
    · rw [if_pos h]
      exact initCell_refines_order0 g d.thr99 d.thr11 d.src (d.normal j) (d.size j) d.power d.n_bins f j t hf h.1 h.2
        (hn j h.1) (he0 j h.1) (hb0 j h.1)
    · rw [if_neg h, orderH_zero, if_neg]
      rintro ⟨h1, -, h3⟩
      exact h ⟨h1, h3⟩
  | succ k ih =>
    intro j t
    rw [kangText]
    by_cases h : j < g.P ∧ t < g.S
    · rw [if_pos h]
      simp only [ih, Option.getD_some]
      exact exchangeCell_refines_order g f k j t (others j) h.1 h.2 (hnd j h.1) (hmem j h.1) hwall
        (fun i hi hne => hbins i j hi h.1 hne)
    · rw [if_neg h, orderH_succ, if_neg]
      rintro ⟨h1, -, h3⟩
      exact h ⟨h1, h3⟩

end Sparrow
