import Sparrow.Proofs.KangRefine
import Sparrow.Proofs.Refinement
/-
  REFINEMENT of the regenerated first-order step of the Kang engine to the model's order-0 histogram: the regenerated per-patch body
  of `PatchesKang.init_energy_exchange` (`initEnergyExchangePatch`, Generated/KangFn.lean) adds, to a zero histogram, the model's
  `orderH … 0` of the scene whose first-order energies and bins are read off the geometry.
-/
namespace Sparrow
open Sparrow.Generated.KangFn

/-- the row `E_matrix[f, 0, i, :]` after `np.zeros` and the single `+=` of `init_energy_exchange` (`none` = AssertionError) -/
noncomputable def initCell (r : Option (Nat × (Nat → ℝ))) (f t : Nat) : Option ℝ :=
  r.map fun p => if t = p.1 then 0 + p.2 f else 0

/-- **first-order refinement** for band `f < n_bins`, patch `j`, bin `t` inside the histogram: with the scene's `e0 j` / `bin0 j`
    being the first-order energy and bin of the geometry, the regenerated text writes exactly the model's order-0 cell -/
theorem initCell_refines_order0 (g : KangGeom) (thr99 thr11 : ℝ) (src normal size : Nat → ℝ) (power : ℝ) (n_bins f j t : Nat)
    (hf : f < n_bins) (hj : j < g.P) (ht : t < g.S) (hn : AxisAligned (Vec3.ofFn normal) thr99)
    (he0 : g.e0 j = kangInitPatch (Vec3.ofFn normal) (Vec3.ofFn (g.center j)) (Vec3.ofFn size) (Vec3.ofFn src) power
      (g.absorption (g.wall j) f) (g.att (g.wall j) f) thr99 thr11)
    (hb0 : g.bin0 j = binKang (Vec3.norm (Vec3.sub (Vec3.ofFn (g.center j)) (Vec3.ofFn src))) g.c g.fs) :
    initCell (initEnergyExchangePatch thr99 thr11 src (g.center j) normal size power (fun b => g.absorption (g.wall j) b)
        (fun b => g.att (g.wall j) b) n_bins g.c g.fs) f t =
      some (orderH (g.scene f).toEx 0 j 0 t) := by
  obtain ⟨E, hE, hval⟩ := initEnergyExchangePatch_eq thr99 thr11 src (g.center j) normal size power
    (fun b => g.absorption (g.wall j) b) (fun b => g.att (g.wall j) b) n_bins g.c g.fs hn
  rw [hE]
  have hcond : j < (g.scene f).toEx.P ∧ 0 < (g.scene f).toEx.D ∧ t < (g.scene f).toEx.S := ⟨hj, Nat.one_pos, ht⟩
  rw [orderH_zero, if_pos hcond]
  simp only [initCell, Option.map_some, initF]
  have h1 : (g.scene f).toEx.bin0 j = g.bin0 j := rfl
  have h2 : (g.scene f).toEx.e0 j 0 = g.e0 j := rfl
  rw [h1, h2, hb0, he0, hval f hf, zero_add]

end Sparrow
