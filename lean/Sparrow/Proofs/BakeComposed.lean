import Sparrow.Proofs.BakeGlueEquiv
import Sparrow.Proofs.UniversalFnEquiv
import Sparrow.Proofs.BakeComposedVis
/-
  `bake_geometry` COMPOSED from regenerated text only: the method itself (Generated/BakeGlue.lean) with its two opaque parameters
  instantiated by the regenerated form-factor dispatch (Generated/UniversalFn.lean `patch2patchFFUniversal`) and the regenerated
  line-of-sight scan (Generated/VisibilityFn.lean + Generated/PolygonFn.lean).  What the stored `_form_factors` and
  `_visibility_matrix` are, for every scene, as theorems about that composed text.
-/
namespace Sparrow
open Sparrow.Generated.BakeGlue Sparrow.Generated.BakeKernels Sparrow.Generated.UniversalFn Sparrow.Generated.VisibilityFn
  Sparrow.Generated.PolygonFn

/-- the regenerated dispatch in the shape `bakeGeometry` expects for `patch2patch_ff_universal` -/
noncomputable def ffuT (thres cut : ℝ) (nus : (Nat → Nat → ℝ) → (Nat → ℝ) → (Nat → Nat → ℝ) → (Nat → ℝ) → Nat → ℝ) (nv : Nat)
    (jp1 jp2 : Nat → Nat → ℝ) (jc1 jc2 : Nat → Nat → Nat) :
    (Nat → Nat → Nat → ℝ) → (Nat → Nat → ℝ) → (Nat → ℝ) → Nat → (Nat → Nat → Nat) → Nat → Nat → ℝ :=
  fun pp pn pa n vis => patch2patchFFUniversal thres cut nus pp nv pn pa n vis jp1 jp2 jc1 jc2

/-- every listed pair satisfies the matrix -/
theorem visPairs_mem (P : Nat) (m : Nat → Nat → Bool) (p : Nat × Nat) :
    p ∈ visPairs P m ↔ p.1 < P ∧ p.2 < P ∧ m p.1 p.2 = true := by
  obtain ⟨a, b⟩ := p
  simp only [visPairs, rowMajor, List.mem_filter, List.mem_flatMap, List.mem_map, List.mem_range, Prod.mk.injEq]
  constructor
  · rintro ⟨⟨i, hi, j, hj, rfl, rfl⟩, hm⟩
    exact ⟨hi, hj, hm⟩
  · rintro ⟨ha, hb, hm⟩
    exact ⟨⟨a, ha, b, hb, rfl, rfl⟩, hm⟩

/-- **C05 "vanishes for pairs that cannot see each other", about the composed regenerated text**: a pair whose visibility entry is
    false has a stored form factor of exactly 0 — for every visibility test, every scene -/
theorem bakeGeometry_ff_invisible_zero
    (vis2 : (Nat → Nat → ℝ) → (Nat → Nat → ℝ) → (Nat → Nat → Nat → ℝ) → Nat → Nat → Bool)
    (thres cut : ℝ) (nus : (Nat → Nat → ℝ) → (Nat → ℝ) → (Nat → Nat → ℝ) → (Nat → ℝ) → Nat → ℝ) (nv : Nat)
    (jp1 jp2 : Nat → Nat → ℝ) (jc1 jc2 : Nat → Nat → Nat)
    (P : Nat) (pc pn : Nat → Nat → ℝ) (pp : Nat → Nat → Nat → ℝ) (pa : Nat → ℝ) (ptw : Nat → Nat)
    (hasM : Bool) (W nIn D T : Nat) (dIn dOut : Nat → Nat → Nat → ℝ) (bidx : Nat → Nat) (brdf : Nat → Nat → Nat → Nat → ℝ)
    (fnone : Bool) (B : Nat) (att : Option (Nat → ℝ)) (junk : Nat → Nat → Nat) (a b : Nat)
    (h : vis2 pc pn pp a b = false) :
    (bakeGeometry vis2 (ffuT thres cut nus nv jp1 jp2 jc1 jc2) P pc pn pp pa ptw hasM W nIn D T dIn dOut bidx brdf fnone B att junk).2.2.1 a b
      = 0 := by
  rw [bakeGeometry_form_factors]
  unfold ffuT
  apply patch2patchFFUniversal_unlisted
  intro v hv hab
  have hrow := (bakeGeometry_pairs vis2 (ffuT thres cut nus nv jp1 jp2 jc1 jc2) P pc pn pp pa ptw hasM W nIn D T dIn dOut bidx brdf
    fnone B att junk).2 v hv
  unfold ffuT at hrow
  rw [hab.1, hab.2] at hrow
  have hmem : (a, b) ∈ visPairs P (vis2 pc pn pp) := by
    rw [hrow]
    exact List.getElem_mem hv
  have := ((visPairs_mem P (vis2 pc pn pp) (a, b)).1 hmem).2.2
  simp only at this
  rw [h] at this
  exact Bool.false_ne_true this

/-- a visible pair holds the dispatched form factor of its two patches -/
theorem bakeGeometry_ff_visible
    (vis2 : (Nat → Nat → ℝ) → (Nat → Nat → ℝ) → (Nat → Nat → Nat → ℝ) → Nat → Nat → Bool)
    (thres cut : ℝ) (nus : (Nat → Nat → ℝ) → (Nat → ℝ) → (Nat → Nat → ℝ) → (Nat → ℝ) → Nat → ℝ) (nv : Nat)
    (jp1 jp2 : Nat → Nat → ℝ) (jc1 jc2 : Nat → Nat → Nat)
    (P : Nat) (pc pn : Nat → Nat → ℝ) (pp : Nat → Nat → Nat → ℝ) (pa : Nat → ℝ) (ptw : Nat → Nat)
    (hasM : Bool) (W nIn D T : Nat) (dIn dOut : Nat → Nat → Nat → ℝ) (bidx : Nat → Nat) (brdf : Nat → Nat → Nat → Nat → ℝ)
    (fnone : Bool) (B : Nat) (att : Option (Nat → ℝ)) (junk : Nat → Nat → Nat) (a b : Nat) (ha : a < P) (hb : b < P)
    (h : vis2 pc pn pp a b = true) :
    (bakeGeometry vis2 (ffuT thres cut nus nv jp1 jp2 jc1 jc2) P pc pn pp pa ptw hasM W nIn D T dIn dOut bidx brdf fnone B att junk).2.2.1 a b
      = universalFormFactor thres cut nus (fun k q => pp a k q) nv (fun q => pn a q) (pa a) (fun k q => pp b k q) nv (fun q => pn b q)
          jp1 jp2 jc1 jc2 := by
  have hmem : (a, b) ∈ visPairs P (vis2 pc pn pp) := (visPairs_mem P (vis2 pc pn pp) (a, b)).2 ⟨ha, hb, h⟩
  obtain ⟨v, hv, hget⟩ := List.getElem_of_mem hmem
  have hrow := (bakeGeometry_pairs vis2 (ffuT thres cut nus nv jp1 jp2 jc1 jc2) P pc pn pp pa ptw hasM W nIn D T dIn dOut bidx brdf
    fnone B att junk).2 v hv
  rw [hget, Prod.mk.injEq] at hrow
  unfold ffuT at hrow
  rw [bakeGeometry_form_factors]
  unfold ffuT
  exact patch2patchFFUniversal_listed thres cut nus pp nv pn pa _ _ jp1 jp2 jc1 jc2 a b v hv hrow.1 hrow.2

/-- consequently a pair on or below the diagonal is never listed and its stored form factor is 0 (only `i < j` is computed) -/
theorem bakeGeometry_ff_lower_zero
    (thr eta thres cut : ℝ) (nus : (Nat → Nat → ℝ) → (Nat → ℝ) → (Nat → Nat → ℝ) → (Nat → ℝ) → Nat → ℝ) (nv : Nat)
    (jp1 jp2 : Nat → Nat → ℝ) (jc1 jc2 : Nat → Nat → Nat)
    (P : Nat) (pc pn : Nat → Nat → ℝ) (pp : Nat → Nat → Nat → ℝ) (pa : Nat → ℝ) (ptw : Nat → Nat)
    (hasM : Bool) (W nIn D T : Nat) (dIn dOut : Nat → Nat → Nat → ℝ) (bidx : Nat → Nat) (brdf : Nat → Nat → Nat → Nat → ℝ)
    (fnone : Bool) (B : Nat) (att : Option (Nat → ℝ)) (junk : Nat → Nat → Nat) (a b : Nat) (h : b ≤ a) :
    (bakeGeometry (vis2T thr eta P nv) (ffuT thres cut nus nv jp1 jp2 jc1 jc2) P pc pn pp pa ptw hasM W nIn D T dIn dOut bidx brdf fnone B
      att junk).2.2.1 a b = 0 := by
  apply bakeGeometry_ff_invisible_zero
  have hv := bakeGeometry_visibility_composed (fun _ _ _ _ _ _ _ => 0) thr eta nv P pc pn pp pa ptw hasM W nIn D T dIn dOut bidx brdf
    fnone B att junk a b
  rw [bakeGeometry_visibility] at hv
  rw [hv]
  simp [Nat.not_lt.2 h]

end Sparrow
