import Sparrow.Generated.BakeGlue
import Sparrow.Proofs.BakeKernelEquiv
import Mathlib.Data.List.GetD
/-
  `DirectionalRadiosityFast.bake_geometry`, recognised statement by statement and rendered in Lean on every run
  (`Generated/BakeGlue.lean`).  What the method stores: the list of visible pairs is exactly the cells of the
  visibility matrix that hold, in row-major order, and fills its buffer exactly; the patch → outgoing-slot map is, for
  every pair visible in either direction, the slot of the first patch's wall nearest to the direction towards the
  second patch (the invalid slot `D` otherwise; `0` without materials); the baked factors are the model's `fft` of the
  scene read off the stored state.
-/
namespace Sparrow
open Sparrow.Generated.BakeGlue Sparrow.Generated.BakeKernels

/-- all cells of a `P × P` matrix in row-major order -/
def rowMajor (P : Nat) : List (Nat × Nat) := (List.range P).flatMap fun i => (List.range P).map fun j => (i, j)

/-- the cells where the matrix holds, in row-major order -/
def visPairs (P : Nat) (m : Nat → Nat → Bool) : List (Nat × Nat) := (rowMajor P).filter fun p => m p.1 p.2

/-- one step of the filling loop -/
def bgStep (m : Nat → Nat → Bool) (st : (Nat → Nat → Nat) × Nat) (p : Nat × Nat) : (Nat → Nat → Nat) × Nat :=
  if m p.1 p.2 = true then
    ((fun p0 p1 => if p0 = st.2 ∧ p1 = 1 then p.2 else (if p0 = st.2 ∧ p1 = 0 then p.1 else st.1 p0 p1)), st.2 + 1)
  else st

theorem bg_fill (m : Nat → Nat → Bool) (l : List (Nat × Nat)) (A0 : Nat → Nat → Nat) (c0 : Nat) :
    (l.foldl (bgStep m) (A0, c0)).2 = c0 + (l.filter fun p => m p.1 p.2).length ∧
    (∀ k, k < c0 → (l.foldl (bgStep m) (A0, c0)).1 k = A0 k) ∧
    (∀ k (h : k < (l.filter fun p => m p.1 p.2).length),
      ((l.foldl (bgStep m) (A0, c0)).1 (c0 + k) 0, (l.foldl (bgStep m) (A0, c0)).1 (c0 + k) 1) =
        (l.filter fun p => m p.1 p.2)[k]) := by
  induction l generalizing A0 c0 with
  | nil => simp
  | cons p l ih =>
    rw [List.foldl_cons]
    by_cases hm : m p.1 p.2 = true
    · have hstep : bgStep m (A0, c0) p =
          ((fun p0 p1 => if p0 = c0 ∧ p1 = 1 then p.2 else (if p0 = c0 ∧ p1 = 0 then p.1 else A0 p0 p1)), c0 + 1) := by
        simp [bgStep, hm]
      rw [hstep]
      obtain ⟨h2, hlo, hmid⟩ := ih (fun p0 p1 => if p0 = c0 ∧ p1 = 1 then p.2 else (if p0 = c0 ∧ p1 = 0 then p.1 else A0 p0 p1)) (c0 + 1)
      have hf : ((p :: l).filter fun p => m p.1 p.2) = p :: (l.filter fun p => m p.1 p.2) := by
        simp [hm]
      refine ⟨by rw [h2, hf]; simp; omega, ?_, ?_⟩
      · intro k hk
        rw [hlo k (by omega)]
        funext p1
        simp [show k ≠ c0 by omega]
      · intro k hk
        simp only [hf] at hk ⊢
        cases k with
        | zero =>
          show ((List.foldl (bgStep m) _ l).1 c0 0, (List.foldl (bgStep m) _ l).1 c0 1) = _
          rw [hlo c0 (by omega)]
          simp
        | succ k =>
          have := hmid k (by simpa using hk)
          rw [show c0 + (k + 1) = c0 + 1 + k by omega, this]
          simp
    · have hstep : bgStep m (A0, c0) p = (A0, c0) := by simp [bgStep, hm]
      rw [hstep]
      have hf : ((p :: l).filter fun p => m p.1 p.2) = (l.filter fun p => m p.1 p.2) := by
        simp [hm]
      simp only [hf]
      exact ih A0 c0

/-- the nested loops are one fold over the row-major list -/
theorem bg_nested {σ : Type} (P : Nat) (step : σ → Nat × Nat → σ) (s : σ) :
    (List.range P).foldl (fun st i => (List.range P).foldl (fun st j => step st (i, j)) st) s =
      (rowMajor P).foldl step s := by
  unfold rowMajor
  rw [List.foldl_flatMap]
  congr 1
  funext st i
  rw [List.foldl_map]

/-- `np.sum` of the Boolean matrix = number of visible pairs -/
theorem bg_count (P : Nat) (m : Nat → Nat → Bool) :
    (List.range P).foldl (fun acc i => (List.range P).foldl (fun acc j => if m i j = true then acc + 1 else acc) acc) 0 =
      (visPairs P m).length := by
  have h := bg_nested P (fun (acc : Nat) (p : Nat × Nat) => if m p.1 p.2 = true then acc + 1 else acc) 0
  simp only at h
  rw [h]
  unfold visPairs
  generalize rowMajor P = l
  have : ∀ c0, l.foldl (fun (acc : Nat) (p : Nat × Nat) => if m p.1 p.2 = true then acc + 1 else acc) c0 =
      c0 + (l.filter fun p => m p.1 p.2).length := by
    induction l with
    | nil => simp
    | cons p l ih =>
      intro c0
      rw [List.foldl_cons]
      by_cases hm : m p.1 p.2 = true
      · simp [hm, ih]; omega
      · simp [hm, ih]
  simpa using this 0

/-- the visibility matrix stored is the opaque test's result -/
theorem bakeGeometry_visibility
    (vis2 : (Nat → Nat → ℝ) → (Nat → Nat → ℝ) → (Nat → Nat → Nat → ℝ) → Nat → Nat → Bool)
    (ffu : (Nat → Nat → Nat → ℝ) → (Nat → Nat → ℝ) → (Nat → ℝ) → Nat → (Nat → Nat → Nat) → Nat → Nat → ℝ)
    (P : Nat) (pc pn : Nat → Nat → ℝ) (pp : Nat → Nat → Nat → ℝ) (pa : Nat → ℝ) (ptw : Nat → Nat)
    (hasM : Bool) (W nIn D T : Nat) (dIn dOut : Nat → Nat → Nat → ℝ) (bidx : Nat → Nat) (brdf : Nat → Nat → Nat → Nat → ℝ)
    (fnone : Bool) (B : Nat) (att : Option (Nat → ℝ)) (junk : Nat → Nat → Nat) :
    (bakeGeometry vis2 ffu P pc pn pp pa ptw hasM W nIn D T dIn dOut bidx brdf fnone B att junk).1 = vis2 pc pn pp := by
  rfl

/-- **the visible pairs**: as many rows as cells of the visibility matrix hold (the buffer is filled exactly), and row
    `k` is the `k`-th such cell in row-major order -/
theorem bakeGeometry_pairs
    (vis2 : (Nat → Nat → ℝ) → (Nat → Nat → ℝ) → (Nat → Nat → Nat → ℝ) → Nat → Nat → Bool)
    (ffu : (Nat → Nat → Nat → ℝ) → (Nat → Nat → ℝ) → (Nat → ℝ) → Nat → (Nat → Nat → Nat) → Nat → Nat → ℝ)
    (P : Nat) (pc pn : Nat → Nat → ℝ) (pp : Nat → Nat → Nat → ℝ) (pa : Nat → ℝ) (ptw : Nat → Nat)
    (hasM : Bool) (W nIn D T : Nat) (dIn dOut : Nat → Nat → Nat → ℝ) (bidx : Nat → Nat) (brdf : Nat → Nat → Nat → Nat → ℝ)
    (fnone : Bool) (B : Nat) (att : Option (Nat → ℝ)) (junk : Nat → Nat → Nat) :
    (bakeGeometry vis2 ffu P pc pn pp pa ptw hasM W nIn D T dIn dOut bidx brdf fnone B att junk).2.1.1 =
      (visPairs P (vis2 pc pn pp)).length ∧
    ∀ k (h : k < (visPairs P (vis2 pc pn pp)).length),
      ((bakeGeometry vis2 ffu P pc pn pp pa ptw hasM W nIn D T dIn dOut bidx brdf fnone B att junk).2.1.2 k 0,
       (bakeGeometry vis2 ffu P pc pn pp pa ptw hasM W nIn D T dIn dOut bidx brdf fnone B att junk).2.1.2 k 1) =
        (visPairs P (vis2 pc pn pp))[k] := by
  have hfold : (List.range P).foldl (fun (st_ : (Nat → Nat → Nat) × Nat) i_source =>
      (List.range P).foldl (fun (st_ : (Nat → Nat → Nat) × Nat) i_receiver =>
        bgStep (vis2 pc pn pp) st_ (i_source, i_receiver)) st_) (junk, 0) =
      (rowMajor P).foldl (bgStep (vis2 pc pn pp)) (junk, 0) := bg_nested P (bgStep (vis2 pc pn pp)) (junk, 0)
  obtain ⟨h2, _, hmid⟩ := bg_fill (vis2 pc pn pp) (rowMajor P) junk 0
  rw [← hfold] at h2 hmid
  simp only [Nat.zero_add] at h2 hmid
  exact ⟨h2, hmid⟩

/-- the form factors are the opaque integrator's result for exactly these pairs -/
theorem bakeGeometry_form_factors
    (vis2 : (Nat → Nat → ℝ) → (Nat → Nat → ℝ) → (Nat → Nat → Nat → ℝ) → Nat → Nat → Bool)
    (ffu : (Nat → Nat → Nat → ℝ) → (Nat → Nat → ℝ) → (Nat → ℝ) → Nat → (Nat → Nat → Nat) → Nat → Nat → ℝ)
    (P : Nat) (pc pn : Nat → Nat → ℝ) (pp : Nat → Nat → Nat → ℝ) (pa : Nat → ℝ) (ptw : Nat → Nat)
    (hasM : Bool) (W nIn D T : Nat) (dIn dOut : Nat → Nat → Nat → ℝ) (bidx : Nat → Nat) (brdf : Nat → Nat → Nat → Nat → ℝ)
    (fnone : Bool) (B : Nat) (att : Option (Nat → ℝ)) (junk : Nat → Nat → Nat) :
    (bakeGeometry vis2 ffu P pc pn pp pa ptw hasM W nIn D T dIn dOut bidx brdf fnone B att junk).2.2.1 =
      ffu pp pn pa (visPairs P (vis2 pc pn pp)).length
        (bakeGeometry vis2 ffu P pc pn pp pa ptw hasM W nIn D T dIn dOut bidx brdf fnone B att junk).2.1.2 := by
  have hc := bg_count P (vis2 pc pn pp)
  show ffu pp pn pa _ _ = _
  rw [hc]
  rfl

/-- **patch → outgoing slot**: for a pair visible in either direction, the slot of the FIRST patch's wall nearest to the
    direction from its centre to the second patch's centre; the invalid slot `D` for other pairs; `0` without materials -/
theorem bakeGeometry_out_index
    (vis2 : (Nat → Nat → ℝ) → (Nat → Nat → ℝ) → (Nat → Nat → Nat → ℝ) → Nat → Nat → Bool)
    (ffu : (Nat → Nat → Nat → ℝ) → (Nat → Nat → ℝ) → (Nat → ℝ) → Nat → (Nat → Nat → Nat) → Nat → Nat → ℝ)
    (P : Nat) (pc pn : Nat → Nat → ℝ) (pp : Nat → Nat → Nat → ℝ) (pa : Nat → ℝ) (ptw : Nat → Nat)
    (hasM : Bool) (W nIn D T : Nat) (dIn dOut : Nat → Nat → Nat → ℝ) (bidx : Nat → Nat) (brdf : Nat → Nat → Nat → Nat → ℝ)
    (fnone : Bool) (B : Nat) (att : Option (Nat → ℝ)) (junk : Nat → Nat → Nat)
    (i j : Nat) (hi : i < P) (hj : j < P) :
    (bakeGeometry vis2 ffu P pc pn pp pa ptw hasM W nIn D T dIn dOut bidx brdf fnone B att junk).2.2.2.1 i j =
      if hasM = true then
        (if (vis2 pc pn pp i j || vis2 pc pn pp j i) = true then
          nearest (fun q => ⟨dOut (ptw i) q 0, dOut (ptw i) q 1, dOut (ptw i) q 2⟩) D
            (Vec3.normalize (Vec3.sub ⟨pc j 0, pc j 1, pc j 2⟩ ⟨pc i 0, pc i 1, pc i 2⟩))
        else D)
      else 0 := by
  cases hasM
  · simp [bakeGeometry]
  · simp only [bakeGeometry, if_true]
    refine be_foldl_cell _ (fun (st : Nat → Nat → Nat) => st i j) _ P j hj ?_ _ ?_
    · intro jj _ hne st
      simp [Ne.symm hne]
    · intro st hst
      simp only [true_and]
      by_cases hv : (vis2 pc pn pp i j || vis2 pc pn pp j i) = true
      · have hmem : i ∈ (List.range P).filter (fun i_ => vis2 pc pn pp i_ j || vis2 pc pn pp j i_) :=
          List.mem_filter.2 ⟨List.mem_range.2 hi, hv⟩
        have hk := List.idxOf_lt_length_of_mem hmem
        rw [if_pos hmem, if_pos hv]
        rw [getScatteringDataReceiverIndex_eq _ W D _ (fun q_ => pc j q_) dOut _ _ _ hk]
        have hget : ((List.range P).filter (fun i_ => vis2 pc pn pp i_ j || vis2 pc pn pp j i_)).getD
            (((List.range P).filter (fun i_ => vis2 pc pn pp i_ j || vis2 pc pn pp j i_)).idxOf i) 0 = i := by
          rw [List.getD_eq_getElem _ _ hk]
          exact List.getElem_idxOf hk
        simp only [hget]
      · have hmem : i ∉ (List.range P).filter (fun i_ => vis2 pc pn pp i_ j || vis2 pc pn pp j i_) := by
          intro h
          exact hv (List.mem_filter.1 h).2
        rw [if_neg hmem, if_neg hv, hst]
        simp

/-- **the baked factors** are the model's `fft` of the scene read off the stored state: visibility matrix and form factors
    as stored by this very call, materials as installed (none: the Lambertian default), attenuation as set -/
theorem bakeGeometry_fft
    (vis2 : (Nat → Nat → ℝ) → (Nat → Nat → ℝ) → (Nat → Nat → Nat → ℝ) → Nat → Nat → Bool)
    (ffu : (Nat → Nat → Nat → ℝ) → (Nat → Nat → ℝ) → (Nat → ℝ) → Nat → (Nat → Nat → Nat) → Nat → Nat → ℝ)
    (P : Nat) (pc pn : Nat → Nat → ℝ) (pp : Nat → Nat → Nat → ℝ) (pa : Nat → ℝ) (ptw : Nat → Nat)
    (hasM : Bool) (W nIn D T : Nat) (dIn dOut : Nat → Nat → Nat → ℝ) (bidx : Nat → Nat) (brdf : Nat → Nat → Nat → Nat → ℝ)
    (fnone : Bool) (B : Nat) (att : Option (Nat → ℝ)) (junk : Nat → Nat → Nat)
    (i j d b : Nat) (hi : i < P) (hj : j < P) :
    (bakeGeometry vis2 ffu P pc pn pp pa ptw hasM W nIn D T dIn dOut bidx brdf fnone B att junk).2.2.2.2 i j d b =
      (bakeSceneOfArgs P D nIn (vis2 pc pn pp)
        (bakeGeometry vis2 ffu P pc pn pp pa ptw hasM W nIn D T dIn dOut bidx brdf fnone B att junk).2.2.1
        pc pa att ptw (if hasM = true then some brdf else none) bidx dIn dOut b).fft i j d :=
  formFactorsWithDirectivityDim_eq P D nIn (if fnone = true then 1 else B) W T (vis2 pc pn pp) _ pc pa att ptw
    (if hasM = true then some brdf else none) bidx dIn dOut (if hasM = true then some dOut else none)
    P P P P P (if fnone = true then 1 else B) P W W 3 i j d b hi hj

end Sparrow
