import Sparrow.Model.Nusselt
import Sparrow.Proofs.FrameLemmas
import Sparrow.Proofs.VisibilityLemmas
import Sparrow.Proofs.StokesLemmas
import Sparrow.Proofs.RealInst
import Mathlib.Tactic.Ring
import Mathlib.Tactic.Linarith
import Mathlib.Tactic.FieldSimp

namespace Sparrow
open Vec3


/-! ### helpers -/

theorem sgn_sq_mul (s x : ℝ) (hs : 0 < s) : sgn (s ^ 2 * x) = sgn x := by
  have h2 : 0 < s ^ 2 := by positivity
  unfold sgn
  have h3 : s ^ 2 * x < 0 ↔ x < 0 := by
    constructor
    · intro h
      by_contra hx
      exact absurd h (not_lt.mpr (mul_nonneg h2.le (not_lt.mp hx)))
    · intro h
      exact mul_neg_of_pos_of_neg h2 h
  simp only [cmp_lt_real, mul_pos_iff_of_pos_left h2, h3]

theorem bpoint2_translate (el : Nat → Vec3 ℝ) (t : Vec3 ℝ) (n k : Nat) :
    bpoint2 (fun k => add (el k) t) n k = add (bpoint2 el n k) t := by
  refine Vec3.ext' ?_ ?_ ?_ <;> simp [bpoint2, add, sub, smul, sdiv] <;> ring

theorem bpoint2_scale (el : Nat → Vec3 ℝ) (o : Vec3 ℝ) (s : ℝ) (n k : Nat) :
    sub (bpoint2 (fun k => add o (smul s (sub (el k) o))) n k) o = smul s (sub (bpoint2 el n k) o) := by
  refine Vec3.ext' ?_ ?_ ?_ <;> simp [bpoint2, add, sub, smul, sdiv] <;> ring

theorem ite_none_map {β γ : Type} (c : Bool) (f : β → γ) (y : β) :
    (if c = true then none else some (f y)) = Option.map f (if c = true then none else some y) := by
  cases c <;> rfl

/-- the analogue depends on the patch and the evaluation point only through the handedness
    sign and the unit directions to the boundary samples -/
theorem nusseltAnalog_congr (o o' sn pn : Vec3 ℝ) (pts pts' : Nat → Vec3 ℝ) (n : Nat)
    (hhand : sgn (dot (cross (sub (pts' 1) (pts' 0)) (sub (pts' 2) (pts' 1))) pn) =
      sgn (dot (cross (sub (pts 1) (pts 0)) (sub (pts 2) (pts 1))) pn))
    (hsph : ∀ k, normalize (sub (bpoint2 pts' n k) o') = normalize (sub (bpoint2 pts n k) o)) :
    nusseltAnalog o' sn pts' n pn = nusseltAnalog o sn pts n pn := by
  unfold nusseltAnalog
  simp only [hhand, hsph]

/-- The Nusselt analogue depends only on the directions from the evaluation point to the patch:
    translating point and patch together changes nothing … -/
theorem nusseltAnalog_translation (origin sn pn t : Vec3 ℝ) (pts : Nat → Vec3 ℝ) (n : Nat) :
    nusseltAnalog (add origin t) sn (fun k => add (pts k) t) n pn = nusseltAnalog origin sn pts n pn := by
  apply nusseltAnalog_congr
  · simp only [sub_add_add]
  · intro k
    rw [bpoint2_translate, sub_add_add]

/-- … and so does scaling the patch about the evaluation point by `s > 0`. -/
theorem nusseltAnalog_scaling (origin sn pn : Vec3 ℝ) (pts : Nat → Vec3 ℝ) (n : Nat) (s : ℝ) (hs : 0 < s) :
    nusseltAnalog origin sn (fun k => add origin (smul s (sub (pts k) origin))) n pn =
      nusseltAnalog origin sn pts n pn := by
  apply nusseltAnalog_congr
  · have hc : ∀ a b c : Vec3 ℝ,
        dot (cross (sub (add origin (smul s (sub b origin))) (add origin (smul s (sub a origin))))
          (sub (add origin (smul s (sub c origin))) (add origin (smul s (sub b origin))))) pn =
        s ^ 2 * dot (cross (sub b a) (sub c b)) pn := by
      intro a b c
      simp only [dot, cross, sub, add, smul]
      ring
    rw [hc, sgn_sq_mul _ _ hs]
  · intro k
    rw [bpoint2_scale, normalize_smul _ _ hs]

/-- sample points of the surface integration translate with the patch -/
theorem surfSamples_translation (el : Nat → Vec3 ℝ) (nv npoints : Nat) (t : Vec3 ℝ) :
    surfSamples (fun k => add (el k) t) nv npoints = (surfSamples el nv npoints).map (fun p => add p t) := by
  have hassoc : ∀ a b c : Vec3 ℝ, add a (add b c) = add (add a b) c := by
    intro a b c
    refine Vec3.ext' ?_ ?_ ?_ <;> simp only [add] <;> ring
  simp only [surfSamples, sub_add_add, List.map_flatMap, List.map_filterMap]
  refine List.flatMap_congr ?_
  intro i _
  refine List.filterMap_congr ?_
  intro k _
  simp only [hassoc]
  exact ite_none_map _ (fun p => add p t) _

/-- the surface-integrated Nusselt form factor is translation invariant -/
theorem nusseltFF_translation (pi pj : Nat → Vec3 ℝ) (ni nj : Nat) (nrmI nrmJ t : Vec3 ℝ) (ns : Nat) :
    nusseltFF (fun k => add (pi k) t) ni nrmI (fun k => add (pj k) t) nj nrmJ ns =
      nusseltFF pi ni nrmI pj nj nrmJ ns := by
  unfold nusseltFF
  simp only [surfSamples_translation, List.foldl_map, List.length_map, nusseltAnalog_translation]

/-- hence the form factor that `bake_geometry` stores is translation invariant, whichever
    integrator is chosen -/
theorem universalFF_translation (pi pj : Nat → Vec3 ℝ) (ni nj : Nat) (nrmI nrmJ t : Vec3 ℝ) (areaI : ℝ) :
    universalFF (fun k => add (pi k) t) ni nrmI areaI (fun k => add (pj k) t) nj nrmJ =
      universalFF pi ni nrmI areaI pj nj nrmJ := by
  have hc : ∀ thr : ℝ, chooseIntegrator thr (fun k => add (pi k) t) (fun k => add (pj k) t) ni nj =
      chooseIntegrator thr pi pj ni nj := by
    intro thr
    unfold chooseIntegrator coincide
    simp only [sub_add_add]
  unfold universalFF
  simp only [hc, nusseltFF_translation, stokes_translation]

/-- the dispatch: Nusselt analogue with 64 samples exactly when some vertex pair is closer than
    `1e-6`, the contour integral otherwise -/
theorem universalFF_dispatch (pi pj : Nat → Vec3 ℝ) (ni nj : Nat) (nrmI nrmJ : Vec3 ℝ) (areaI : ℝ) :
    (chooseIntegrator (1 / ((1000000 : Nat) : ℝ)) pi pj ni nj = .nusselt →
        universalFF pi ni nrmI areaI pj nj nrmJ = nusseltFF pi ni nrmI pj nj nrmJ 64) ∧
    (chooseIntegrator (1 / ((1000000 : Nat) : ℝ)) pi pj ni nj = .stokes →
        universalFF pi ni nrmI areaI pj nj nrmJ = stokesFF (1 / ((1000 : Nat) : ℝ)) pi pj ni nj areaI) := by
  unfold universalFF
  constructor <;> intro h <;> simp only [h]

theorem linspaceAt_bounds (n i : Nat) (hn : 1 ≤ n) (hi : i < n) :
    0 ≤ linspaceAt ((1 : ℝ) - 1 / ((n : Nat) : ℝ)) n i ∧
      linspaceAt ((1 : ℝ) - 1 / ((n : Nat) : ℝ)) n i ≤ 1 - 1 / ((n : Nat) : ℝ) := by
  have hN : (1 : ℝ) ≤ (n : ℝ) := by exact_mod_cast hn
  have hN0 : (0 : ℝ) < (n : ℝ) := by linarith
  have hstop : (0 : ℝ) ≤ 1 - 1 / (n : ℝ) := by
    rw [sub_nonneg, div_le_one hN0]; exact hN
  unfold linspaceAt
  split_ifs with h1 h2
  · exact ⟨le_refl _, hstop⟩
  · exact ⟨hstop, le_refl _⟩
  · have hn2 : 2 ≤ n := by omega
    have hM : (0 : ℝ) < ((n - 1 : Nat) : ℝ) := by
      have : 0 < n - 1 := by omega
      exact_mod_cast this
    have hiM : (i : ℝ) ≤ ((n - 1 : Nat) : ℝ) := by
      have : i ≤ n - 1 := by omega
      exact_mod_cast this
    have hi0 : (0 : ℝ) ≤ (i : ℝ) := Nat.cast_nonneg i
    have hq : (0 : ℝ) ≤ (1 - 1 / (n : ℝ)) / ((n - 1 : Nat) : ℝ) := div_nonneg hstop hM.le
    constructor
    · exact mul_nonneg hi0 hq
    · calc (i : ℝ) * ((1 - 1 / (n : ℝ)) / ((n - 1 : Nat) : ℝ))
          ≤ ((n - 1 : Nat) : ℝ) * ((1 - 1 / (n : ℝ)) / ((n - 1 : Nat) : ℝ)) :=
            mul_le_mul_of_nonneg_right hiM hq
        _ = 1 - 1 / (n : ℝ) := by field_simp

theorem cellCentre_bounds (n i : Nat) (hn : 1 ≤ n) (hi : i < n) :
    0 < linspaceAt ((1 : ℝ) - 1 / ((n : Nat) : ℝ)) n i + 1 / (((n * 2 : Nat)) : ℝ) ∧
      linspaceAt ((1 : ℝ) - 1 / ((n : Nat) : ℝ)) n i + 1 / (((n * 2 : Nat)) : ℝ) < 1 := by
  obtain ⟨h0, h1⟩ := linspaceAt_bounds n i hn hi
  have hN : (1 : ℝ) ≤ (n : ℝ) := by exact_mod_cast hn
  have hN0 : (0 : ℝ) < (n : ℝ) := by linarith
  have hh : (1 : ℝ) / (((n * 2 : Nat)) : ℝ) = 1 / (n : ℝ) / 2 := by
    push_cast; field_simp
  have hp : (0 : ℝ) < 1 / (n : ℝ) := by positivity
  rw [hh]
  constructor <;> linarith

/-- For a four-sided patch every sample of the surface grid is `el0 + s·u + t·v` with
    `0 < s < 1`, `0 < t < 1`: strictly inside the parallelogram spanned by the two sides. -/
theorem surfSamples_inside_quad (el : Nat → Vec3 ℝ) (npoints : Nat) (p : Vec3 ℝ)
    (hp : p ∈ surfSamples el 4 npoints) :
    ∃ s t : ℝ, 0 < s ∧ s < 1 ∧ 0 < t ∧ t < 1 ∧
      p = add (add (smul s (sub (el 1) (el 0))) (smul t (sub (el 3) (el 0)))) (el 0) := by
  unfold surfSamples at hp
  simp only [List.mem_flatMap, List.mem_filterMap, List.mem_range] at hp
  obtain ⟨i, hi, k, hk, h⟩ := hp
  simp only [Nat.reduceEqDiff, decide_false, Bool.false_and, Bool.false_eq_true, if_false,
    Option.some.injEq, Nat.reduceSub] at h
  have hk' := lt_of_lt_of_le hk (Nat.sub_le _ _)
  have hpos : ∀ m : Nat, 1 ≤ (if m = 0 then 1 else m) := by
    intro m; split <;> omega
  obtain ⟨a1, a2⟩ := cellCentre_bounds _ i (hpos _) hi
  obtain ⟨b1, b2⟩ := cellCentre_bounds _ k (hpos _) hk'
  exact ⟨_, _, a1, a2, b1, b2, h.symm⟩

end Sparrow
