import Sparrow.Generated.LegKernels
import Sparrow.Model.Source
import Sparrow.Proofs.BakeKernelEquiv
/-
  The kernels of the source leg and of the receiver leg, TRANSLATED from the Python source
  (`Generated/LegKernels.lean`, rewritten on every run: `_source2patch_energy_universal`,
  `_patch2receiver_energy_universal`), compute what the hand-written model says
  (`sourceEnergy`, `sourceDistance`, the visibility gate of the receiver factor) — for every room,
  source, visibility vector, band, with or without attenuation and for EVERY point-to-patch
  function standing for `integration.pt_solution`.
-/
namespace Sparrow
open Sparrow.Generated.LegKernels

/-- `_source2patch_energy_universal` (translated), energy of patch `j` in band `b`: exactly `0` for a
    patch the source does not see, else `exp(-m_b · d_j) · pt_j` (no attenuation: `pt_j`), `d_j` the
    distance from the source to the patch centre. -/
theorem source2patchEnergy_eq (pt : (Nat → ℝ) → (Nat → Nat → ℝ) → ℝ) (P B : Nat) (src : Nat → ℝ)
    (pc : Nat → Nat → ℝ) (pp : Nat → Nat → Nat → ℝ) (vis : Nat → Bool) (att : Option (Nat → ℝ))
    (s0 s1 s2 s3 s4 : Nat) (j b : Nat) (hj : j < P) :
    (source2patchEnergyUniversal pt 3 src P 3 pc s0 s1 s2 pp s3 vis s4 att B).1 j b =
      sourceEnergy (vis j) (Vec3.norm (Vec3.sub ⟨src 0, src 1, src 2⟩ ⟨pc j 0, pc j 1, pc j 2⟩))
        (att.map fun a => a b) (pt src (fun v q => pp j v q)) := by
  simp only [source2patchEnergyUniversal]
  refine be_foldl_cell _ (fun (st : (Nat → ℝ) × (Nat → Nat → ℝ)) => st.2 j b) _ P j hj ?_ _ ?_
  · intro ii hii hne st
    by_cases hv : vis ii = true
    · cases att <;> simp [hv, Ne.symm hne]
    · simp [hv]
  · intro st hst
    simp only at hst
    by_cases hv : vis j = true
    · cases att <;> simp [hv, sourceEnergy, be_sum3, Vec3.norm, Vec3.dot, Vec3.sub]
    · have hv' : vis j = false := by simpa using hv
      simp [hv', sourceEnergy, hst]

/-- … and its distance output: `0` for a hidden patch, else the source–centre distance. -/
theorem source2patchDistance_eq (pt : (Nat → ℝ) → (Nat → Nat → ℝ) → ℝ) (P B : Nat) (src : Nat → ℝ)
    (pc : Nat → Nat → ℝ) (pp : Nat → Nat → Nat → ℝ) (vis : Nat → Bool) (att : Option (Nat → ℝ))
    (s0 s1 s2 s3 s4 : Nat) (j : Nat) (hj : j < P) :
    (source2patchEnergyUniversal pt 3 src P 3 pc s0 s1 s2 pp s3 vis s4 att B).2 j =
      sourceDistance (vis j) (Vec3.norm (Vec3.sub ⟨src 0, src 1, src 2⟩ ⟨pc j 0, pc j 1, pc j 2⟩)) := by
  simp only [source2patchEnergyUniversal]
  refine be_foldl_cell _ (fun (st : (Nat → ℝ) × (Nat → Nat → ℝ)) => st.1 j) _ P j hj ?_ _ ?_
  · intro ii hii hne st
    by_cases hv : vis ii = true
    · cases att <;> simp [hv, Ne.symm hne]
    · simp [hv]
  · intro st hst
    simp only at hst
    by_cases hv : vis j = true
    · cases att <;> simp [hv, sourceDistance, be_sum3, Vec3.norm, Vec3.dot, Vec3.sub]
    · have hv' : vis j = false := by simpa using hv
      simp [hv', sourceDistance, hst]

/-- `_patch2receiver_energy_universal` (translated): the factor of a patch the receiver does not see is
    exactly `0`, of a visible one the point-to-patch factor (mode "receiver"). -/
theorem patch2receiverEnergy_eq (pt : (Nat → ℝ) → (Nat → Nat → ℝ) → ℝ) (P : Nat) (rec : Nat → ℝ)
    (pp : Nat → Nat → Nat → ℝ) (vis : Nat → Bool) (s0 s1 s2 s3 : Nat) (i : Nat) (hi : i < P) :
    patch2receiverEnergyUniversal pt s0 rec P s1 s2 pp s3 vis i =
      if vis i then pt rec (fun v q => pp i v q) else 0 := by
  simp only [patch2receiverEnergyUniversal]
  refine be_foldl_cell _ (fun (st : Nat → ℝ) => st i) _ P i hi ?_ _ ?_
  · intro ii hii hne st
    by_cases hv : vis ii = true
    · simp [hv, Ne.symm hne]
    · simp [hv]
  · intro st hst
    by_cases hv : vis i = true
    · simp [hv]
    · have hv' : vis i = false := by simpa using hv
      simp [hv', hst]

/-! ### corollaries stated on the translated text -/

/-- a patch the source does not see gets exactly nothing, in every band, and distance `0` -/
theorem source2patch_hidden_zero (pt : (Nat → ℝ) → (Nat → Nat → ℝ) → ℝ) (P B : Nat) (src : Nat → ℝ)
    (pc : Nat → Nat → ℝ) (pp : Nat → Nat → Nat → ℝ) (vis : Nat → Bool) (att : Option (Nat → ℝ))
    (s0 s1 s2 s3 s4 : Nat) (j b : Nat) (hj : j < P) (hv : vis j = false) :
    (source2patchEnergyUniversal pt 3 src P 3 pc s0 s1 s2 pp s3 vis s4 att B).1 j b = 0 ∧
    (source2patchEnergyUniversal pt 3 src P 3 pc s0 s1 s2 pp s3 vis s4 att B).2 j = 0 := by
  rw [source2patchEnergy_eq pt P B src pc pp vis att s0 s1 s2 s3 s4 j b hj,
    source2patchDistance_eq pt P B src pc pp vis att s0 s1 s2 s3 s4 j hj]
  simp [hv, sourceEnergy, sourceDistance]

/-- **air attenuation on the source leg** (C10): with attenuation `m` the energy of every patch and band is
    `exp(-m_b · d_j)` times the energy without attenuation, `d_j` being the distance the kernel itself returns. -/
theorem source2patch_attenuation (pt : (Nat → ℝ) → (Nat → Nat → ℝ) → ℝ) (P B : Nat) (src : Nat → ℝ)
    (pc : Nat → Nat → ℝ) (pp : Nat → Nat → Nat → ℝ) (vis : Nat → Bool) (m : Nat → ℝ)
    (s0 s1 s2 s3 s4 : Nat) (j b : Nat) (hj : j < P) :
    (source2patchEnergyUniversal pt 3 src P 3 pc s0 s1 s2 pp s3 vis s4 (some m) B).1 j b =
      Real.exp (-(m b) * (source2patchEnergyUniversal pt 3 src P 3 pc s0 s1 s2 pp s3 vis s4 (some m) B).2 j) *
        (source2patchEnergyUniversal pt 3 src P 3 pc s0 s1 s2 pp s3 vis s4 none B).1 j b := by
  rw [source2patchEnergy_eq pt P B src pc pp vis (some m) s0 s1 s2 s3 s4 j b hj,
    source2patchEnergy_eq pt P B src pc pp vis none s0 s1 s2 s3 s4 j b hj,
    source2patchDistance_eq pt P B src pc pp vis (some m) s0 s1 s2 s3 s4 j hj]
  cases hv : vis j <;> simp [sourceEnergy, sourceDistance]

/-- **band independence of the source leg** (C12): band `b` of the output depends on band `b` of the attenuation only -/
theorem source2patch_band_local (pt : (Nat → ℝ) → (Nat → Nat → ℝ) → ℝ) (P B B' : Nat) (src : Nat → ℝ)
    (pc : Nat → Nat → ℝ) (pp : Nat → Nat → Nat → ℝ) (vis : Nat → Bool) (m m' : Nat → ℝ)
    (s0 s1 s2 s3 s4 s4' : Nat) (j b b' : Nat) (hj : j < P) (hb : m b = m' b') :
    (source2patchEnergyUniversal pt 3 src P 3 pc s0 s1 s2 pp s3 vis s4 (some m) B).1 j b =
      (source2patchEnergyUniversal pt 3 src P 3 pc s0 s1 s2 pp s3 vis s4' (some m') B').1 j b' := by
  rw [source2patchEnergy_eq pt P B src pc pp vis (some m) s0 s1 s2 s3 s4 j b hj,
    source2patchEnergy_eq pt P B' src pc pp vis (some m') s0 s1 s2 s3 s4' j b' hj]
  simp [hb]

/-- the attenuated energy never exceeds the unattenuated one when `m ≥ 0` and the point factor is non-negative -/
theorem source2patch_att_le (pt : (Nat → ℝ) → (Nat → Nat → ℝ) → ℝ) (P B : Nat) (src : Nat → ℝ)
    (pc : Nat → Nat → ℝ) (pp : Nat → Nat → Nat → ℝ) (vis : Nat → Bool) (m : Nat → ℝ)
    (s0 s1 s2 s3 s4 : Nat) (j b : Nat) (hj : j < P) (hm : 0 ≤ m b) (hpt : 0 ≤ pt src (fun v q => pp j v q)) :
    (source2patchEnergyUniversal pt 3 src P 3 pc s0 s1 s2 pp s3 vis s4 (some m) B).1 j b ≤
      (source2patchEnergyUniversal pt 3 src P 3 pc s0 s1 s2 pp s3 vis s4 none B).1 j b := by
  rw [source2patchEnergy_eq pt P B src pc pp vis (some m) s0 s1 s2 s3 s4 j b hj,
    source2patchEnergy_eq pt P B src pc pp vis none s0 s1 s2 s3 s4 j b hj]
  cases hv : vis j
  · simp [sourceEnergy]
  · simp only [sourceEnergy, if_true, Option.map]
    have hd : 0 ≤ Vec3.norm (Vec3.sub (⟨src 0, src 1, src 2⟩ : Vec3 ℝ) ⟨pc j 0, pc j 1, pc j 2⟩) := by
      unfold Vec3.norm; exact Real.sqrt_nonneg _
    have he : Real.exp (-(m b) * Vec3.norm (Vec3.sub (⟨src 0, src 1, src 2⟩ : Vec3 ℝ) ⟨pc j 0, pc j 1, pc j 2⟩)) ≤ 1 := by
      rw [Real.exp_le_one_iff]; nlinarith
    calc _ ≤ 1 * pt src (fun v q => pp j v q) := mul_le_mul_of_nonneg_right he hpt
      _ = _ := one_mul _

/-- a patch the receiver does not see contributes a factor of exactly `0` (C11) -/
theorem patch2receiver_hidden_zero (pt : (Nat → ℝ) → (Nat → Nat → ℝ) → ℝ) (P : Nat) (rec : Nat → ℝ)
    (pp : Nat → Nat → Nat → ℝ) (vis : Nat → Bool) (s0 s1 s2 s3 : Nat) (i : Nat) (hi : i < P) (hv : vis i = false) :
    patch2receiverEnergyUniversal pt s0 rec P s1 s2 pp s3 vis i = 0 := by
  rw [patch2receiverEnergy_eq pt P rec pp vis s0 s1 s2 s3 i hi]; simp [hv]

/-- **placement** (C17): moving source and room by one vector leaves the distances the translated source-leg kernel returns
    unchanged, patch by patch (whatever the point factor and the visibility vector) -/
theorem source2patchDistance_translation (pt pt' : (Nat → ℝ) → (Nat → Nat → ℝ) → ℝ) (P B : Nat) (src : Nat → ℝ)
    (pc : Nat → Nat → ℝ) (pp pp' : Nat → Nat → Nat → ℝ) (vis : Nat → Bool) (att : Option (Nat → ℝ)) (t : Nat → ℝ)
    (s0 s1 s2 s3 s4 : Nat) (j : Nat) (hj : j < P) :
    (source2patchEnergyUniversal pt' 3 (fun q => src q + t q) P 3 (fun k q => pc k q + t q) s0 s1 s2 pp' s3 vis s4 att B).2 j =
      (source2patchEnergyUniversal pt 3 src P 3 pc s0 s1 s2 pp s3 vis s4 att B).2 j := by
  rw [source2patchDistance_eq pt' P B _ _ pp' vis att s0 s1 s2 s3 s4 j hj,
    source2patchDistance_eq pt P B src pc pp vis att s0 s1 s2 s3 s4 j hj]
  simp [Vec3.sub]

end Sparrow
