import Sparrow.Model.PointPatch
import Sparrow.Model.Source
import Sparrow.Proofs.FrameLemmas
import Sparrow.Proofs.RealInst
import Mathlib.Algebra.BigOperators.Group.Finset.Basic
import Mathlib.Algebra.BigOperators.Intervals
import Mathlib.Tactic.Ring
import Mathlib.Tactic.Linarith
import Mathlib.Tactic.FieldSimp

namespace Sparrow
open Vec3

/-- A linear isometry of space (rotation or reflection about the origin), given by what the
    proofs need: compatible with differences and scalings, preserving inner products. -/
structure LinIso (Q : Vec3 ℝ → Vec3 ℝ) : Prop where
  map_sub : ∀ a b, Q (sub a b) = sub (Q a) (Q b)
  map_smul : ∀ (s : ℝ) a, Q (smul s a) = smul s (Q a)
  map_dot : ∀ a b, dot (Q a) (Q b) = dot a b

/-! ### helpers -/

theorem foldl_add_eq_sum_pp (f : Nat → ℝ) (n : Nat) :
    (List.range n).foldl (fun acc i => acc + f i) 0 = ∑ i ∈ Finset.range n, f i := by
  induction n with
  | zero => simp
  | succ m ih =>
    rw [List.range_succ, List.foldl_append, ih, Finset.sum_range_succ]
    simp

theorem ptSource_eq_sum (thr : ℝ) (x : Vec3 ℝ) (pts : Nat → Vec3 ℝ) (n : Nat) :
    ptSource thr x pts n =
      (∑ i ∈ Finset.range n, interiorAngle thr x pts n i - ((n - 2 : Nat) : ℝ) * Real.pi) /
        (Real.pi * ((1 + 1) + (1 + 1))) := by
  unfold ptSource sphericalExcess
  rw [foldl_add_eq_sum_pp]
  rfl

/-- if the interior angle sums agree, so do the point-to-patch factors -/
theorem ptSource_congr_sum (thr thr' : ℝ) (x x' : Vec3 ℝ) (pts pts' : Nat → Vec3 ℝ) (n : Nat)
    (h : ∑ i ∈ Finset.range n, interiorAngle thr' x' pts' n i =
      ∑ i ∈ Finset.range n, interiorAngle thr x pts n i) :
    ptSource thr' x' pts' n = ptSource thr x pts n := by
  rw [ptSource_eq_sum, ptSource_eq_sum, h]

theorem interiorAngle_congr_onSphere (thr : ℝ) (x x' : Vec3 ℝ) (pts pts' : Nat → Vec3 ℝ) (n i : Nat)
    (h : onSphere x' pts' = onSphere x pts) :
    interiorAngle thr x' pts' n i = interiorAngle thr x pts n i := by
  unfold interiorAngle
  rw [h]

theorem ptSource_congr_onSphere (thr : ℝ) (x x' : Vec3 ℝ) (pts pts' : Nat → Vec3 ℝ) (n : Nat)
    (h : onSphere x' pts' = onSphere x pts) :
    ptSource thr x' pts' n = ptSource thr x pts n := by
  apply ptSource_congr_sum
  exact Finset.sum_congr rfl fun i _ => interiorAngle_congr_onSphere thr x x' pts pts' n i h

theorem dot_comm' (a b : Vec3 ℝ) : dot a b = dot b a := by
  unfold dot; ring

theorem sdiv_eq_smul (a : Vec3 ℝ) (r : ℝ) : sdiv a r = smul r⁻¹ a := by
  unfold sdiv smul
  refine Vec3.ext' ?_ ?_ ?_ <;> simp only <;> rw [div_eq_inv_mul]

/-! ### the theorems -/

/-- translating point and patch together changes nothing -/
theorem pt_translation (thr : ℝ) (x t : Vec3 ℝ) (pts : Nat → Vec3 ℝ) (n : Nat) :
    ptSource thr (add x t) (fun i => add (pts i) t) n = ptSource thr x pts n := by
  apply ptSource_congr_onSphere
  funext i
  unfold onSphere
  congr 1
  unfold sub add
  refine Vec3.ext' ?_ ?_ ?_ <;> simp only <;> ring

/-- scaling the patch about the point by any `s > 0` changes nothing: the share depends only
    on the directions from the point to the vertices -/
theorem pt_scaling (thr : ℝ) (x : Vec3 ℝ) (pts : Nat → Vec3 ℝ) (n : Nat) (s : ℝ) (hs : 0 < s) :
    ptSource thr x (fun i => add x (smul s (sub (pts i) x))) n = ptSource thr x pts n := by
  apply ptSource_congr_onSphere
  funext i
  unfold onSphere
  have h : sub (add x (smul s (sub (pts i) x))) x = smul s (sub (pts i) x) := by
    unfold sub add smul
    refine Vec3.ext' ?_ ?_ ?_ <;> simp only <;> ring
  simp only [h]
  exact normalize_smul _ s hs

namespace LinIso
variable {Q : Vec3 ℝ → Vec3 ℝ} (hQ : LinIso Q)
include hQ

theorem map_norm (v : Vec3 ℝ) : norm (Q v) = norm v := by
  unfold Vec3.norm
  rw [hQ.map_dot]

theorem map_sdiv (a : Vec3 ℝ) (r : ℝ) : sdiv (Q a) r = Q (sdiv a r) := by
  rw [sdiv_eq_smul, sdiv_eq_smul, hQ.map_smul]

theorem map_normalize (v : Vec3 ℝ) : normalize (Q v) = Q (normalize v) := by
  unfold Vec3.normalize
  rw [hQ.map_norm, hQ.map_sdiv]

theorem map_sphereTangent (thr : ℝ) (a b : Vec3 ℝ) :
    sphereTangent thr (Q a) (Q b) = Q (sphereTangent thr a b) := by
  unfold sphereTangent
  simp only [hQ.map_dot]
  split_ifs with h
  · simp only [← hQ.map_sub, hQ.map_dot, ← hQ.map_smul, hQ.map_norm, hQ.map_sdiv]
  · simp only [hQ.map_norm, hQ.map_sdiv]

end LinIso

/-- invariance under every linear isometry (rotations and reflections) -/
theorem pt_isometry (thr : ℝ) (Q : Vec3 ℝ → Vec3 ℝ) (hQ : LinIso Q) (x : Vec3 ℝ) (pts : Nat → Vec3 ℝ) (n : Nat) :
    ptSource thr (Q x) (fun i => Q (pts i)) n = ptSource thr x pts n := by
  apply ptSource_congr_sum
  refine Finset.sum_congr rfl fun i _ => ?_
  have hs : ∀ j, onSphere (Q x) (fun i => Q (pts i)) j = Q (onSphere x pts j) := by
    intro j
    unfold onSphere
    rw [← hQ.map_sub, hQ.map_normalize]
  unfold interiorAngle
  simp only [hs, hQ.map_sphereTangent, hQ.map_dot]

theorem mod_lt_two (a n : Nat) (h : a < 2 * n) : a % n = if a < n then a else a - n := by
  split_ifs with h1
  · exact Nat.mod_eq_of_lt h1
  · rw [Nat.mod_eq_sub_mod (by omega)]
    exact Nat.mod_eq_of_lt (by omega)

/-- reversing the vertex order (the other winding) changes nothing -/
theorem pt_vertex_reverse (thr : ℝ) (x : Vec3 ℝ) (pts : Nat → Vec3 ℝ) (n : Nat) (hn : 0 < n) :
    ptSource thr x (fun i => pts (n - 1 - i % n)) n = ptSource thr x pts n := by
  apply ptSource_congr_sum
  rw [← Finset.sum_range_reflect (fun i => interiorAngle thr x pts n i) n]
  refine Finset.sum_congr rfl fun i hi => ?_
  have hi : i < n := Finset.mem_range.mp hi
  have hs : ∀ j, onSphere x (fun i => pts (n - 1 - i % n)) j = onSphere x pts (n - 1 - j % n) :=
    fun j => rfl
  have e0 : n - 1 - i % n = n - 1 - i := by rw [Nat.mod_eq_of_lt hi]
  have eA : n - 1 - ((i + n - 1) % n) % n = (n - 1 - i + 1) % n := by
    rw [Nat.mod_mod, mod_lt_two (i + n - 1) n (by omega), mod_lt_two (n - 1 - i + 1) n (by omega)]
    split_ifs <;> omega
  have eB : n - 1 - ((i + 1) % n) % n = (n - 1 - i + n - 1) % n := by
    rw [Nat.mod_mod, mod_lt_two (i + 1) n (by omega), mod_lt_two (n - 1 - i + n - 1) n (by omega)]
    split_ifs <;> omega
  unfold interiorAngle
  simp only [hs, e0, eA, eB]
  rw [dot_comm']

theorem sum_range_rot1 (F : Nat → ℝ) (n : Nat) :
    ∑ i ∈ Finset.range n, F ((i + 1) % n) = ∑ i ∈ Finset.range n, F i := by
  cases n with
  | zero => simp
  | succ m =>
    rw [Finset.sum_range_succ, Finset.sum_range_succ' F m, Nat.mod_self]
    congr 1
    refine Finset.sum_congr rfl fun i hi => ?_
    rw [Nat.mod_eq_of_lt (by have := Finset.mem_range.mp hi; omega)]

theorem sum_range_rot (F : Nat → ℝ) (n k : Nat) :
    ∑ i ∈ Finset.range n, F ((i + k) % n) = ∑ i ∈ Finset.range n, F i := by
  induction k generalizing F with
  | zero =>
    refine Finset.sum_congr rfl fun i hi => ?_
    rw [Nat.add_zero, Nat.mod_eq_of_lt (Finset.mem_range.mp hi)]
  | succ k ih =>
    rw [← ih F, ← sum_range_rot1 (fun j => F ((j + k) % n)) n]
    refine Finset.sum_congr rfl fun i _ => ?_
    simp only [Nat.mod_add_mod]
    congr 2
    omega

/-- starting the vertex list at another vertex changes nothing -/
theorem pt_vertex_rotate (thr : ℝ) (x : Vec3 ℝ) (pts : Nat → Vec3 ℝ) (n k : Nat) (hn : 0 < n) :
    ptSource thr x (fun i => pts ((i + k) % n)) n = ptSource thr x pts n := by
  apply ptSource_congr_sum
  rw [← sum_range_rot (fun i => interiorAngle thr x pts n i) n k]
  refine Finset.sum_congr rfl fun i _ => ?_
  have hs : ∀ j, onSphere x (fun i => pts ((i + k) % n)) j = onSphere x pts ((j + k) % n) :=
    fun j => rfl
  have eA : ((i + n - 1) % n + k) % n = ((i + k) % n + n - 1) % n := by
    have h1 : (i + k) % n + n - 1 = (i + k) % n + (n - 1) := by omega
    rw [Nat.mod_add_mod, h1, Nat.mod_add_mod]
    congr 1
    omega
  have eB : ((i + 1) % n + k) % n = ((i + k) % n + 1) % n := by
    rw [Nat.mod_add_mod, Nat.mod_add_mod]
    congr 1
    omega
  unfold interiorAngle
  simp only [hs, eA, eB]

/-- patches that the source cannot see get exactly zero energy and zero distance -/
theorem source_gate_zero (d pt : ℝ) (att : Option ℝ) :
    sourceEnergy false d att pt = 0 ∧ sourceDistance false d = 0 := by
  simp [sourceEnergy, sourceDistance]

/-- visible patches: the solid-angle share times the attenuation over the centre distance -/
theorem source_visible (d m pt : ℝ) :
    sourceEnergy true d (some m) pt = Real.exp (-m * d) * pt ∧ sourceEnergy true d none pt = pt ∧
      sourceDistance true d = d := by
  simp [sourceEnergy, sourceDistance]

end Sparrow
