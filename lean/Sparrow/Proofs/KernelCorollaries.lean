import Sparrow.Proofs.KernelEquiv
import Sparrow.Proofs.PipelineEnergy
/-
  Properties of the TRANSLATED source of `_energy_exchange` (`Generated/Kernels.lean`), obtained
  from the kernel-checked equivalence with the model: what C01 / C02 / C03 say about the model
  holds of the function the translator reads off the Python text, for every argument.
-/
namespace Sparrow
open Sparrow.Generated.Kernels

/-- the scene of a call with `S'` bins is the scene of the call with `S` bins, shortened -/
theorem kc_scene_S (S S' P D : Nat) (e0 : Nat → Nat → Nat → ℝ) (distance_0 : Nat → ℝ)
    (distance_ij : Nat → Nat → ℝ) (fft : Nat → Nat → Nat → Nat → ℝ) (p2o : Nat → Nat → Nat)
    (c dt : ℝ) (nVis : Nat) (vp : Nat → Nat → Nat) (b : Nat) :
    exSceneOfArgs S' P D e0 distance_0 distance_ij fft p2o c dt nVis vp b =
      { exSceneOfArgs S P D e0 distance_0 distance_ij fft p2o c dt nVis vp b with S := S' } := rfl

/-- in a well-formed scene a reachable bin of an in-range patch is never earlier than the first
    arrival at some in-range patch -/
theorem kc_reach_first {sc : ExScene ℝ} (hwf : sc.WF) {k j t : Nat} (h : Reach sc k j t) :
    j < sc.P → ∃ i, i < sc.P ∧ sc.bin0 i ≤ t := by
  induction h with
  | init j => intro hj; exact ⟨j, hj, Nat.le_refl _⟩
  | step _ hmem ih =>
    intro _
    obtain ⟨i, hi, hle⟩ := ih (hwf _ hmem).1
    exact ⟨i, hi, by omega⟩

/-- C02: a call with a shorter histogram returns the first bins of the longer call (nothing is
    folded back, nothing arrives earlier). -/
theorem energyExchange_prefix (S S' P D B : Nat) (hS : S' ≤ S) (e0 : Nat → Nat → Nat → ℝ)
    (s0 : Nat) (distance_0 : Nat → ℝ) (s1 s2 : Nat) (distance_ij : Nat → Nat → ℝ)
    (P' : Nat) (fft : Nat → Nat → Nat → Nat → ℝ) (s3 s4 : Nat) (p2o : Nat → Nat → Nat)
    (c dt : ℝ) (K nVis s5 : Nat) (vp : Nat → Nat → Nat) (b : Nat)
    (hwf : (exSceneOfArgs S P D e0 distance_0 distance_ij fft p2o c dt nVis vp b).WF)
    (j d t : Nat) (hj : j < P) (hd : d < D) (ht : t < S') :
    energyExchange S' P D B e0 s0 distance_0 s1 s2 distance_ij P P' D B fft s3 s4 p2o c dt K nVis s5 vp j d b t =
      energyExchange S P D B e0 s0 distance_0 s1 s2 distance_ij P P' D B fft s3 s4 p2o c dt K nVis s5 vp j d b t := by
  have hwf' : (exSceneOfArgs S' P D e0 distance_0 distance_ij fft p2o c dt nVis vp b).WF := hwf
  rw [energyExchange_eq S' P D B e0 s0 distance_0 s1 s2 distance_ij P' fft s3 s4 p2o c dt K nVis s5 vp b
        hwf' j d t hj hd ht,
      energyExchange_eq S P D B e0 s0 distance_0 s1 s2 distance_ij P' fft s3 s4 p2o c dt K nVis s5 vp b
        hwf j d t hj hd (by omega),
      kc_scene_S S S']
  exact pe_truncation_removes _ hwf S' hS K j d t hj hd ht

/-- C02: no bin before the first arrival: with every delay at least `m` bins (source leg) nothing
    is non-zero before bin `m`. -/
theorem energyExchange_nothing_early (S P D B : Nat) (e0 : Nat → Nat → Nat → ℝ)
    (s0 : Nat) (distance_0 : Nat → ℝ) (s1 s2 : Nat) (distance_ij : Nat → Nat → ℝ)
    (P' : Nat) (fft : Nat → Nat → Nat → Nat → ℝ) (s3 s4 : Nat) (p2o : Nat → Nat → Nat)
    (c dt : ℝ) (K nVis s5 : Nat) (vp : Nat → Nat → Nat) (b : Nat)
    (hwf : (exSceneOfArgs S P D e0 distance_0 distance_ij fft p2o c dt nVis vp b).WF)
    (m : Nat) (hm : ∀ i, i < P → m ≤ ToBin.floorNat (distance_0 i / c / dt))
    (j d t : Nat) (hj : j < P) (hd : d < D) (ht : t < S) (htm : t < m) :
    energyExchange S P D B e0 s0 distance_0 s1 s2 distance_ij P P' D B fft s3 s4 p2o c dt K nVis s5 vp j d b t = 0 := by
  rw [energyExchange_eq S P D B e0 s0 distance_0 s1 s2 distance_ij P' fft s3 s4 p2o c dt K nVis s5 vp b
        hwf j d t hj hd ht]
  by_contra hne
  rw [etc_eq_sum] at hne
  obtain ⟨k, _, hk⟩ := exists_ne_zero_of_sum_ne_zero _ _ hne
  obtain ⟨i, hi, hle⟩ := kc_reach_first hwf (orderH_ne_zero_reach _ k j d t hk).1 hj
  have := hm i hi
  have hle' : ToBin.floorNat (distance_0 i / c / dt) ≤ t := hle
  omega

/-- C01: a patch whose initial energy and incoming transfer factors vanish in band `b` (fully
    absorbing wall) stays dark in band `b`, at every order and bin. -/
theorem energyExchange_absorbing_dark (S P D B : Nat) (e0 : Nat → Nat → Nat → ℝ)
    (s0 : Nat) (distance_0 : Nat → ℝ) (s1 s2 : Nat) (distance_ij : Nat → Nat → ℝ)
    (P' : Nat) (fft : Nat → Nat → Nat → Nat → ℝ) (s3 s4 : Nat) (p2o : Nat → Nat → Nat)
    (c dt : ℝ) (K nVis s5 : Nat) (vp : Nat → Nat → Nat) (b : Nat)
    (hwf : (exSceneOfArgs S P D e0 distance_0 distance_ij fft p2o c dt nVis vp b).WF)
    (j : Nat) (hj : j < P) (h0 : ∀ d, e0 j d b = 0) (hf : ∀ i d, fft i j d b = 0)
    (d t : Nat) (hd : d < D) (ht : t < S) :
    energyExchange S P D B e0 s0 distance_0 s1 s2 distance_ij P P' D B fft s3 s4 p2o c dt K nVis s5 vp j d b t = 0 := by
  rw [energyExchange_eq S P D B e0 s0 distance_0 s1 s2 distance_ij P' fft s3 s4 p2o c dt K nVis s5 vp b
        hwf j d t hj hd ht, etc_eq_sum]
  apply List.sum_eq_zero
  intro x hx
  obtain ⟨k, _, rfl⟩ := List.mem_map.mp hx
  exact pe_orderH_dark _ j h0 hf k d t

/-- C03: with non-negative initial energies and transfer factors every bin is non-negative, and
    one more order never lowers a bin. -/
theorem energyExchange_nonneg_mono (S P D B : Nat) (e0 : Nat → Nat → Nat → ℝ)
    (s0 : Nat) (distance_0 : Nat → ℝ) (s1 s2 : Nat) (distance_ij : Nat → Nat → ℝ)
    (P' : Nat) (fft : Nat → Nat → Nat → Nat → ℝ) (s3 s4 : Nat) (p2o : Nat → Nat → Nat)
    (c dt : ℝ) (K nVis s5 : Nat) (vp : Nat → Nat → Nat) (b : Nat)
    (hwf : (exSceneOfArgs S P D e0 distance_0 distance_ij fft p2o c dt nVis vp b).WF)
    (he : ∀ j d, 0 ≤ e0 j d b) (hf : ∀ i j d, 0 ≤ fft i j d b)
    (j d t : Nat) (hj : j < P) (hd : d < D) (ht : t < S) :
    0 ≤ energyExchange S P D B e0 s0 distance_0 s1 s2 distance_ij P P' D B fft s3 s4 p2o c dt K nVis s5 vp j d b t ∧
    energyExchange S P D B e0 s0 distance_0 s1 s2 distance_ij P P' D B fft s3 s4 p2o c dt K nVis s5 vp j d b t ≤
      energyExchange S P D B e0 s0 distance_0 s1 s2 distance_ij P P' D B fft s3 s4 p2o c dt (K + 1) nVis s5 vp j d b t := by
  rw [energyExchange_eq S P D B e0 s0 distance_0 s1 s2 distance_ij P' fft s3 s4 p2o c dt K nVis s5 vp b
        hwf j d t hj hd ht,
      energyExchange_eq S P D B e0 s0 distance_0 s1 s2 distance_ij P' fft s3 s4 p2o c dt (K + 1) nVis s5 vp b
        hwf j d t hj hd ht]
  refine ⟨etc_nonneg _ he hf K j d t, ?_⟩
  rw [etc_succ]
  rw [if_pos (by exact ⟨hj, hd, ht⟩)]
  have := orderH_nonneg (exSceneOfArgs S P D e0 distance_0 distance_ij fft p2o c dt nVis vp b) he hf (K + 1) j d t
  linarith

end Sparrow

