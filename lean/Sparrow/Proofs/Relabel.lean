import Sparrow.Proofs.Refinement
import Sparrow.Proofs.Batch2
/-
  The result of the energy exchange does not depend on how the patches are numbered: renumbering
  the patches by any permutation of `0 … P-1` (pairs, bins, initial energies, transfer factors
  and direction slots renumbered accordingly) renumbers the patch histograms and leaves every
  receiver curve unchanged — for every order, histogram length and number of direction slots.
  (Used by C08 / C17: mirroring or permuting the axes of a room renumbers the patches of a wall.)
-/
namespace Sparrow

/-- the scene with patch `j` renamed `σ j` (`τ` is the inverse renaming) -/
def ExScene.relabel (sc : ExScene ℝ) (σ τ : Nat → Nat) : ExScene ℝ :=
  { P := sc.P, D := sc.D, S := sc.S
    pairs := sc.pairs.map fun p => (σ p.1, σ p.2)
    bin0 := fun j => sc.bin0 (τ j)
    bin := fun i j => sc.bin (τ i) (τ j)
    e0 := fun j d => sc.e0 (τ j) d
    fft := fun i j d => sc.fft (τ i) (τ j) d
    dir := fun i j => sc.dir (τ i) (τ j) }

/-- `σ` permutes `0 … P-1` with inverse `τ` -/
structure IsRelabel (P : Nat) (σ τ : Nat → Nat) : Prop where
  maps : ∀ j, j < P → σ j < P
  left : ∀ j, j < P → τ (σ j) = j
  right : ∀ j, j < P → σ (τ j) = j
  inv_maps : ∀ j, j < P → τ j < P

theorem rl_arcsOf_map (f : Nat → Nat) (pairs : List (Nat × Nat)) :
    arcsOf (pairs.map fun p => (f p.1, f p.2)) = (arcsOf pairs).map fun a => (f a.1, f a.2) := by
  unfold arcsOf
  induction pairs with
  | nil => rfl
  | cons p l ih => simp [List.flatMap_cons, ih]

theorem rl_arcs (sc : ExScene ℝ) (σ τ : Nat → Nat) :
    (sc.relabel σ τ).arcs = sc.arcs.map fun a => (σ a.1, σ a.2) := by
  unfold ExScene.arcs ExScene.relabel
  exact rl_arcsOf_map σ sc.pairs

theorem rl_stepF (sc : ExScene ℝ) (hwf : sc.WF) (σ τ : Nat → Nat) (h : IsRelabel sc.P σ τ)
    (H H' : Nat → Nat → Nat → ℝ) (hH : ∀ j d t, j < sc.P → H' (σ j) d t = H j d t)
    (j d t : Nat) (hj : j < sc.P) :
    stepF (sc.relabel σ τ) H' (σ j) d t = stepF sc H j d t := by
  rw [stepF_eq_sum, stepF_eq_sum, rl_arcs, List.filter_map, List.map_map]
  have hfil : sc.arcs.filter ((fun a : Nat × Nat => a.2 == σ j) ∘ fun a => (σ a.1, σ a.2)) =
      sc.arcs.filter fun a => a.2 == j := by
    apply List.filter_congr
    intro a ha
    obtain ⟨_, h2, _⟩ := hwf a ha
    simp only [Function.comp, beq_eq_beq]
    constructor
    · intro e
      have := congrArg τ e
      rwa [h.left _ h2, h.left _ hj] at this
    · intro e; rw [e]
  rw [hfil]
  congr 1
  apply List.map_congr_left
  intro a ha
  obtain ⟨h1, h2, _⟩ := hwf a (List.mem_filter.mp ha).1
  simp only [Function.comp, term, ExScene.relabel, h.left _ h1, h.left _ h2, hH _ _ _ h1]

/-- every order histogram is renumbered, nothing else changes -/
theorem orderH_relabel (sc : ExScene ℝ) (hwf : sc.WF) (σ τ : Nat → Nat) (h : IsRelabel sc.P σ τ)
    (k j d t : Nat) (hj : j < sc.P) :
    orderH (sc.relabel σ τ) k (σ j) d t = orderH sc k j d t := by
  induction k generalizing j d t with
  | zero =>
    rw [orderH_zero, orderH_zero]
    have hσ : σ j < sc.P := h.maps j hj
    simp only [ExScene.relabel, initF, h.left _ hj, hσ, hj]
  | succ k ih =>
    rw [orderH_succ, orderH_succ]
    have hσ : σ j < sc.P := h.maps j hj
    have e := rl_stepF sc hwf σ τ h (orderH sc k) (orderH (sc.relabel σ τ) k)
      (fun j d t hj => ih j d t hj) j d t hj
    rw [e]
    simp only [ExScene.relabel, hσ, hj]

/-- … hence the accumulated histograms -/
theorem etc_relabel (sc : ExScene ℝ) (hwf : sc.WF) (σ τ : Nat → Nat) (h : IsRelabel sc.P σ τ)
    (K j d t : Nat) (hj : j < sc.P) :
    etc (sc.relabel σ τ) K (σ j) d t = etc sc K j d t := by
  rw [etc_eq_sum, etc_eq_sum]
  congr 1
  apply List.map_congr_left
  intro k _
  exact orderH_relabel sc hwf σ τ h k j d t hj

/-- … and the receiver curve of the code (receiver data renumbered alike) is unchanged. -/
theorem monoCurveCode_relabel (sc : ExScene ℝ) (hwf : sc.WF) (σ τ : Nat → Nat) (h : IsRelabel sc.P σ τ)
    (K : Nat) (g w : Nat → ℝ) (binR : Nat → Nat) (t : Nat) :
    monoCurveCode (sc.relabel σ τ) K (fun j => g (τ j)) (fun j => w (τ j)) (fun j => binR (τ j)) t =
      monoCurveCode sc K g w binR t := by
  unfold monoCurveCode monoF
  rw [foldl_add_eq (fun j => patchwiseCodeF (sc.relabel σ τ).S (etc (sc.relabel σ τ) K) (fun _ => 0)
      (fun j => g (τ j)) (fun j => binR (τ j)) (fun j => w (τ j)) j t),
    foldl_add_eq (fun j => patchwiseCodeF sc.S (etc sc K) (fun _ => 0) g binR w j t),
    list_range_map_sum, list_range_map_sum]
  congr 1
  symm
  apply Finset.sum_nbij' σ τ
  · intro j hj; exact Finset.mem_range.mpr (h.maps j (Finset.mem_range.mp hj))
  · intro j hj; exact Finset.mem_range.mpr (h.inv_maps j (Finset.mem_range.mp hj))
  · intro j hj; exact h.left j (Finset.mem_range.mp hj)
  · intro j hj; exact h.right j (Finset.mem_range.mp hj)
  · intro j hj
    have hj := Finset.mem_range.mp hj
    simp only [patchwiseCodeF, collectRollF, h.left _ hj, etc_relabel sc hwf σ τ h K j _ _ hj]
    rfl

end Sparrow
