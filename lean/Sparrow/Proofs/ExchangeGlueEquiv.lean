import Sparrow.Generated.ExchangeGlue
import Sparrow.Proofs.KernelEquiv
import Sparrow.Proofs.BakeKernelEquiv
/-
  `DirectionalRadiosityFast.calculate_energy_exchange`, TRANSLATED from the Python source on every run
  (`Generated/ExchangeGlue.lean`).  The attributes the method writes — the stored histogram and the three parameters that
  describe it — go in and come out as a tuple; the theorems say when they are kept, when they are replaced, that
  they are replaced TOGETHER and by the values the histogram was computed with (the invariant defect D14 broke),
  and that the new histogram is the model's `etc` of the scene the stored state describes.
-/
namespace Sparrow
open Sparrow.Generated.ExchangeGlue Sparrow.Generated.Kernels

/-- centre distance of two patches -/
noncomputable def exDist (pc : Nat → Nat → ℝ) (i j : Nat) : ℝ :=
  Vec3.norm (Vec3.sub ⟨pc i 0, pc i 1, pc i 2⟩ ⟨pc j 0, pc j 1, pc j 2⟩)

/-- the double loop that fills `distance_i_j` -/
theorem glue_distFold (P : Nat) (pc : Nat → Nat → ℝ) (junk : Nat → Nat → ℝ) (i j : Nat) (hi : i < P) (hj : j < P) :
    ((List.range P).foldl (fun (st_ : Nat → Nat → ℝ) i =>
      (List.range P).foldl (fun (st_ : Nat → Nat → ℝ) j => fun p0 p1 =>
        if p0 = i ∧ p1 = j then
          Transc.sqrt ((List.range 3).foldl (fun acc_ q_ => acc_ + (pc i q_ - pc j q_) * (pc i q_ - pc j q_)) 0)
        else st_ p0 p1) st_) junk) i j = exDist pc i j := by
  refine be_foldl_cell _ (fun (st : Nat → Nat → ℝ) => st i j) _ P i hi ?_ _ ?_
  · intro ii _ hne st
    refine be_foldl_skip _ (fun (st : Nat → Nat → ℝ) => st i j) st P ?_
    intro jj _ st'
    simp [Ne.symm hne]
  · intro st _
    refine be_foldl_cell _ (fun (st : Nat → Nat → ℝ) => st i j) _ P j hj ?_ _ ?_
    · intro jj _ hne st'
      simp [Ne.symm hne]
    · intro st' _
      simp [exDist, be_sum3, Vec3.norm, Vec3.dot, Vec3.sub]

/-- **`calculate_energy_exchange` as translated.**  There is a distance matrix `Dm`, equal to the centre distances
    on all patch pairs, such that: if a histogram is stored and `recalculate` is off, NOTHING changes; otherwise the
    histogram becomes the kernel's result for the arguments of this call (order < 1: the initial energy only) and
    the three stored parameters become the arguments of this call — all four together. -/
theorem calculateEnergyExchange_eq (P D B nVis : Nat) (pc : Nat → Nat → ℝ) (d0 : Nat → ℝ) (e0 : Nat → Nat → Nat → ℝ)
    (fft : Nat → Nat → Nat → Nat → ℝ) (p2o : Nat → Nat → Nat) (vp : Nat → Nat → Nat)
    (etc0 : Option (Nat → Nat → Nat → Nat → ℝ)) (dt0 c0 dur0 : Option ℝ) (c dt dur : ℝ) (K : Int) (recalc : Bool)
    (s0 s1 s2 s3 s4 s5 s6 s7 : Nat) (junk : Nat → Nat → ℝ) :
    ∃ Dm : Nat → Nat → ℝ, (∀ i j, i < P → j < P → Dm i j = exDist pc i j) ∧
      calculateEnergyExchange P 3 pc s0 d0 P D B e0 s1 s2 s3 s4 fft s5 s6 p2o nVis s7 vp P etc0 dt0 c0 dur0 c dt dur K recalc junk =
        if etc0.isNone = true ∨ recalc = true then
          (some (if K < 1 then energyExchangeInitEnergy (ToBin.floorNat (dur / dt)) P D B e0 s0 d0 c dt
                 else energyExchange (ToBin.floorNat (dur / dt)) P D B e0 s0 d0 P P Dm s1 s2 s3 s4 fft s5 s6 p2o c dt K.toNat nVis s7 vp),
           some dt, some c, some dur)
        else (etc0, dt0, c0, dur0) := by
  refine ⟨_, fun i j hi hj => glue_distFold P pc junk i j hi hj, ?_⟩
  simp only [calculateEnergyExchange]
  by_cases h : etc0.isNone = true ∨ recalc = true
  · rw [if_pos h, if_pos h]
    by_cases hK : K < 1
    · rw [if_pos hK, if_pos hK]
    · rw [if_neg hK, if_neg hK]
  · rw [if_neg h, if_neg h]

/-- a stored histogram is kept, with the parameters that describe it, when `recalculate` is off -/
theorem calculateEnergyExchange_kept (P D B nVis : Nat) (pc : Nat → Nat → ℝ) (d0 : Nat → ℝ) (e0 : Nat → Nat → Nat → ℝ)
    (fft : Nat → Nat → Nat → Nat → ℝ) (p2o : Nat → Nat → Nat) (vp : Nat → Nat → Nat)
    (E : Nat → Nat → Nat → Nat → ℝ) (dt0 c0 dur0 : Option ℝ) (c dt dur : ℝ) (K : Int)
    (s0 s1 s2 s3 s4 s5 s6 s7 : Nat) (junk : Nat → Nat → ℝ) :
    calculateEnergyExchange P 3 pc s0 d0 P D B e0 s1 s2 s3 s4 fft s5 s6 p2o nVis s7 vp P (some E) dt0 c0 dur0 c dt dur K false junk =
      (some E, dt0, c0, dur0) := by
  obtain ⟨Dm, _, h⟩ := calculateEnergyExchange_eq P D B nVis pc d0 e0 fft p2o vp (some E) dt0 c0 dur0 c dt dur K false
    s0 s1 s2 s3 s4 s5 s6 s7 junk
  rw [h]; simp

/-- … and otherwise the stored parameters are exactly the arguments the new histogram was computed with -/
theorem calculateEnergyExchange_params (P D B nVis : Nat) (pc : Nat → Nat → ℝ) (d0 : Nat → ℝ) (e0 : Nat → Nat → Nat → ℝ)
    (fft : Nat → Nat → Nat → Nat → ℝ) (p2o : Nat → Nat → Nat) (vp : Nat → Nat → Nat)
    (etc0 : Option (Nat → Nat → Nat → Nat → ℝ)) (dt0 c0 dur0 : Option ℝ) (c dt dur : ℝ) (K : Int) (recalc : Bool)
    (s0 s1 s2 s3 s4 s5 s6 s7 : Nat) (junk : Nat → Nat → ℝ) (h : etc0.isNone = true ∨ recalc = true) :
    let r := calculateEnergyExchange P 3 pc s0 d0 P D B e0 s1 s2 s3 s4 fft s5 s6 p2o nVis s7 vp P etc0 dt0 c0 dur0 c dt dur K recalc junk
    r.1.isSome = true ∧ r.2.1 = some dt ∧ r.2.2.1 = some c ∧ r.2.2.2 = some dur := by
  obtain ⟨Dm, _, hr⟩ := calculateEnergyExchange_eq P D B nVis pc d0 e0 fft p2o vp etc0 dt0 c0 dur0 c dt dur K recalc
    s0 s1 s2 s3 s4 s5 s6 s7 junk
  intro r
  have : r = _ := hr
  rw [this, if_pos h]
  simp

/-- the new histogram is the model's `etc` (order `K ≥ 1`) of the scene read off the stored state and THIS call's
    speed of sound, resolution and duration, with the patch distances the centre distances -/
theorem calculateEnergyExchange_etc (P D B nVis : Nat) (pc : Nat → Nat → ℝ) (d0 : Nat → ℝ) (e0 : Nat → Nat → Nat → ℝ)
    (fft : Nat → Nat → Nat → Nat → ℝ) (p2o : Nat → Nat → Nat) (vp : Nat → Nat → Nat)
    (etc0 : Option (Nat → Nat → Nat → Nat → ℝ)) (dt0 c0 dur0 : Option ℝ) (c dt dur : ℝ) (K : Int) (recalc : Bool)
    (s0 s3 s4 s7 : Nat) (junk : Nat → Nat → ℝ) (h : etc0.isNone = true ∨ recalc = true) (hK : 1 ≤ K) :
    ∃ Dm : Nat → Nat → ℝ, (∀ i j, i < P → j < P → Dm i j = exDist pc i j) ∧ ∃ E,
      (calculateEnergyExchange P 3 pc s0 d0 P D B e0 P P D B fft s3 s4 p2o nVis s7 vp P etc0 dt0 c0 dur0 c dt dur K recalc junk).1 = some E ∧
      ∀ b j d t, (exSceneOfArgs (ToBin.floorNat (dur / dt)) P D e0 d0 Dm fft p2o c dt nVis vp b).WF →
        j < P → d < D → t < ToBin.floorNat (dur / dt) →
        E j d b t = etc (exSceneOfArgs (ToBin.floorNat (dur / dt)) P D e0 d0 Dm fft p2o c dt nVis vp b) K.toNat j d t := by
  obtain ⟨Dm, hDm, hr⟩ := calculateEnergyExchange_eq P D B nVis pc d0 e0 fft p2o vp etc0 dt0 c0 dur0 c dt dur K recalc
    s0 P P D B s3 s4 s7 junk
  refine ⟨Dm, hDm, _, by rw [hr, if_pos h], ?_⟩
  intro b j d t hwf hj hd ht
  rw [if_neg (by omega)]
  exact energyExchange_eq (ToBin.floorNat (dur / dt)) P D B e0 s0 d0 P P Dm P fft s3 s4 p2o c dt K.toNat nVis s7 vp b hwf j d t hj hd ht

end Sparrow
