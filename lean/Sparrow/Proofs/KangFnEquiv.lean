import Sparrow.Generated.KangFn
import Sparrow.Model.Kang
import Sparrow.Proofs.RealInst
import Sparrow.Proofs.KangLemmas
import Mathlib.Tactic.Ring
import Mathlib.Tactic.NormNum
/-
  The Kang engine's numeric core as REGENERATED from `/repo` on every run (`Generated/KangFn.lean`:
  `_init_energy_exchange` by rule; `_add_delay`, the per-patch body of `PatchesKang.init_energy_exchange` and the loop nest of
  `PatchesKang.calculate_energy_exchange` by recogniser) computes the hand-written model (`Model/Kang.lean`: `kangInit`,
  `kangInitPatch`, `binKang`, and the transfer factor `ff · refl · attw` / delayed gather of `KangScene.toEx`).  So the C19 theorems
  about `kangInitPatch` and about the order recursion are theorems about text that is rebuilt from the source.
-/
namespace Sparrow
open Sparrow.Generated.KangFn


theorem kf_foldl_cell_write {β : Type} (e : Nat → β) (init : Nat → β) (n b : Nat) :
    (List.range n).foldl (fun (st : Nat → β) i => fun k => if k = i then e i else st k) init b =
      if b < n then e b else init b := by
  induction n with
  | zero => simp
  | succ n ih =>
    rw [List.range_succ, List.foldl_append]
    simp only [List.foldl_cons, List.foldl_nil]
    by_cases h : b = n
    · subst h; simp
    · rw [if_neg h, ih]
      by_cases h2 : b < n
      · rw [if_pos h2, if_pos (by omega)]
      · rw [if_neg h2, if_neg (by omega)]

/-- `_init_energy_exchange` (translated) = `kangInit`, band by band -/
theorem initEnergyExchange_eq (thr11 dl dm dn ddl ddm sx sy sz power : ℝ) (absorption : Nat → ℝ) (dist : ℝ)
    (attenuation : Nat → ℝ) (n_bins b : Nat) (hb : b < n_bins) :
    initEnergyExchange thr11 dl dm dn ddl ddm sx sy sz power absorption dist attenuation n_bins b =
      kangInit dl dm dn ddl ddm sx sy sz power (absorption b) dist (attenuation b) thr11 := by
  unfold initEnergyExchange
  dsimp only
  rw [kf_foldl_cell_write, if_pos hb]
  unfold kangInit
  have h1 : ((1 : Nat) : ℝ) = 1 := by norm_num
  have h2 : ((2 : Nat) : ℝ) = 1 + 1 := by norm_num
  have h4 : ((4 : Nat) : ℝ) = (1 + 1) + (1 + 1) := by norm_num
  simp only [h1, h2, h4]

/-- bands outside `range n_bins` stay zero (`np.zeros(n_bins)`) -/
theorem initEnergyExchange_outside (thr11 dl dm dn ddl ddm sx sy sz power : ℝ) (absorption : Nat → ℝ) (dist : ℝ)
    (attenuation : Nat → ℝ) (n_bins b : Nat) (hb : n_bins ≤ b) :
    initEnergyExchange thr11 dl dm dn ddl ddm sx sy sz power absorption dist attenuation n_bins b = 0 := by
  unfold initEnergyExchange
  dsimp only
  rw [kf_foldl_cell_write, if_neg (by omega)]


theorem kf_delay_index (t n d : Nat) (ht : t < n) (hd : d ≤ n) (hdt : d ≤ t) :
    (t + n - d % n) % n = t - d := by
  have hdn : d < n := by omega
  rw [Nat.mod_eq_of_lt hdn]
  have e : t + n - d = (t - d) + n := by omega
  rw [e, Nat.add_mod_right, Nat.mod_eq_of_lt (by omega)]

/-- `_add_delay` (recognised): a shift that DROPS what is delayed beyond the end — never a wrap-around -/
theorem addDelay_eq (ir : Nat → ℝ) (n d : Nat) (hd : d ≤ n) :
    ∃ g, addDelay ir n d = some g ∧ ∀ t, t < n → g t = if t < d then 0 else ir (t - d) := by
  unfold addDelay
  rw [if_neg (by omega)]
  refine ⟨_, rfl, ?_⟩
  intro t ht
  dsimp only
  by_cases h : t < d
  · rw [if_pos h, if_pos h]
  · rw [if_neg h, if_neg h, kf_delay_index t n d ht hd (by omega)]

theorem addDelay_none (ir : Nat → ℝ) (n d : Nat) (hd : n < d) : addDelay ir n d = none := by
  unfold addDelay
  rw [if_pos (by omega)]

/-- nothing of the cells `ir[n-d .. n)` (what would be delayed beyond the end) re-appears anywhere -/
theorem addDelay_ignores_tail (ir ir' : Nat → ℝ) (n d : Nat) (hd : d ≤ n) (h : ∀ t, t + d < n → ir t = ir' t) :
    ∀ g g', addDelay ir n d = some g → addDelay ir' n d = some g' → ∀ t, t < n → g t = g' t := by
  intro g g' hg hg' t ht
  obtain ⟨g1, e1, p1⟩ := addDelay_eq ir n d hd
  obtain ⟨g2, e2, p2⟩ := addDelay_eq ir' n d hd
  rw [e1] at hg
  rw [e2] at hg'
  cases hg
  cases hg'
  rw [p1 t ht, p2 t ht]
  by_cases hlt : t < d
  · rw [if_pos hlt, if_pos hlt]
  · rw [if_neg hlt, if_neg hlt]
    exact h (t - d) (by omega)

/-- per-patch body of `PatchesKang.init_energy_exchange` (recognised) = (`binKang`, `kangInitPatch`) -/
theorem initEnergyExchangePatch_eq (thr99 thr11 : ℝ) (src center normal size : Nat → ℝ) (power : ℝ)
    (absorption attenuation : Nat → ℝ) (n_bins : Nat) (c fs : ℝ)
    (hn : AxisAligned (Vec3.ofFn normal) thr99) :
    ∃ E, initEnergyExchangePatch thr99 thr11 src center normal size power absorption attenuation n_bins c fs =
        some (binKang (Vec3.norm (Vec3.sub (Vec3.ofFn center) (Vec3.ofFn src))) c fs, E) ∧
      ∀ b, b < n_bins → E b = kangInitPatch (Vec3.ofFn normal) (Vec3.ofFn center) (Vec3.ofFn size) (Vec3.ofFn src) power
        (absorption b) (attenuation b) thr99 thr11 := by
  unfold AxisAligned Vec3.ofFn at hn
  dsimp only at hn
  unfold initEnergyExchangePatch
  rcases hn with ⟨h0, h1, h2⟩ | ⟨h0, h1, h2⟩ | ⟨h0, h1, h2⟩
  · have ha : normalAxisFrom2 (Vec3.ofFn normal) thr99 = 0 := by
      simp [normalAxisFrom2, Vec3.ofFn, h1, h2]
    simp only [cmp_lt_real, cmp_abs_real, h0, h1, h2, decide_true, decide_false, if_true,
      Bool.false_eq_true, if_false, Option.map_some]
    refine ⟨_, rfl, ?_⟩
    intro b hb
    rw [initEnergyExchange_eq _ _ _ _ _ _ _ _ _ _ _ _ _ _ b hb]
    unfold kangInitPatch
    rw [ha]
    simp [kangInitAxes, Vec3.get, Vec3.ofFn, Vec3.norm, Vec3.dot, Vec3.sub]
  · have ha : normalAxisFrom2 (Vec3.ofFn normal) thr99 = 1 := by
      simp [normalAxisFrom2, Vec3.ofFn, h1, h2]
    simp only [cmp_lt_real, cmp_abs_real, h0, h1, h2, decide_true, decide_false, if_true,
      Bool.false_eq_true, if_false, Option.map_some]
    refine ⟨_, rfl, ?_⟩
    intro b hb
    rw [initEnergyExchange_eq _ _ _ _ _ _ _ _ _ _ _ _ _ _ b hb]
    unfold kangInitPatch
    rw [ha]
    simp [kangInitAxes, Vec3.get, Vec3.ofFn, Vec3.norm, Vec3.dot, Vec3.sub]
  · have ha : normalAxisFrom2 (Vec3.ofFn normal) thr99 = 2 := by
      simp [normalAxisFrom2, Vec3.ofFn, h2]
    simp only [cmp_lt_real, cmp_abs_real, h0, h1, h2, decide_true, decide_false, if_true,
      Bool.false_eq_true, if_false, Option.map_some]
    refine ⟨_, rfl, ?_⟩
    intro b hb
    rw [initEnergyExchange_eq _ _ _ _ _ _ _ _ _ _ _ _ _ _ b hb]
    unfold kangInitPatch
    rw [ha]
    simp [kangInitAxes, Vec3.get, Vec3.ofFn, Vec3.norm, Vec3.dot, Vec3.sub]

/-- a normal with no component above the threshold is refused (AssertionError), not simulated -/
theorem initEnergyExchangePatch_none (thr99 thr11 : ℝ) (src center normal size : Nat → ℝ) (power : ℝ)
    (absorption attenuation : Nat → ℝ) (n_bins : Nat) (c fs : ℝ)
    (h0 : ¬ thr99 < |normal 0|) (h1 : ¬ thr99 < |normal 1|) (h2 : ¬ thr99 < |normal 2|) :
    initEnergyExchangePatch thr99 thr11 src center normal size power absorption attenuation n_bins c fs = none := by
  unfold initEnergyExchangePatch
  simp only [cmp_lt_real, cmp_abs_real, h0, h1, h2, decide_false, Bool.false_eq_true, if_false,
    Option.map_none]

/-- innermost body of `PatchesKang.calculate_energy_exchange` (recognised): the order-(k-1) histogram of the source patch, delayed by
    the centre-to-centre bins with truncation, times form factor × scattering × (1 − absorption) of the RECEIVING wall × exp(−m d) -/
theorem exchangeContribution_eq (receiver source : Nat → ℝ) (c fs : ℝ) (A : Nat → ℝ) (n : Nat) (ff : ℝ)
    (absorption scattering att : Nat → ℝ) (f : Nat)
    (hd : binKang (Vec3.norm (Vec3.sub (Vec3.ofFn receiver) (Vec3.ofFn source))) c fs ≤ n) :
    ∃ g, exchangeContribution receiver source c fs A n ff absorption scattering att f = some g ∧
      ∀ t, t < n → g t =
        if binKang (Vec3.norm (Vec3.sub (Vec3.ofFn receiver) (Vec3.ofFn source))) c fs ≤ t then
          ff * (scattering f * (1 - absorption f)) *
            Real.exp (-(att f) * Vec3.norm (Vec3.sub (Vec3.ofFn receiver) (Vec3.ofFn source))) *
            A (t - binKang (Vec3.norm (Vec3.sub (Vec3.ofFn receiver) (Vec3.ofFn source))) c fs)
        else 0 := by
  unfold exchangeContribution
  dsimp only
  have hb : ToBin.floorNat (Transc.sqrt ((receiver 0 - source 0) * (receiver 0 - source 0) +
      (receiver 1 - source 1) * (receiver 1 - source 1) + (receiver 2 - source 2) * (receiver 2 - source 2)) / c * fs) =
      binKang (Vec3.norm (Vec3.sub (Vec3.ofFn receiver) (Vec3.ofFn source))) c fs := rfl
  have hdist : Transc.sqrt ((receiver 0 - source 0) * (receiver 0 - source 0) +
      (receiver 1 - source 1) * (receiver 1 - source 1) + (receiver 2 - source 2) * (receiver 2 - source 2)) =
      Vec3.norm (Vec3.sub (Vec3.ofFn receiver) (Vec3.ofFn source)) := rfl
  rw [hb, hdist]
  obtain ⟨g, hg, pg⟩ := addDelay_eq A n _ hd
  rw [hg, Option.map_some]
  refine ⟨_, rfl, ?_⟩
  intro t ht
  rw [pg t ht]
  have h1 : ((1 : Nat) : ℝ) = 1 := by norm_num
  rw [h1, transc_exp_real]
  by_cases hle : binKang (Vec3.norm (Vec3.sub (Vec3.ofFn receiver) (Vec3.ofFn source))) c fs ≤ t
  · rw [if_pos hle, if_neg (by omega)]
    ring
  · rw [if_neg hle, if_pos (by omega)]
    ring

/-- the contribution of one source patch as the order recursion of the model writes it -/
noncomputable def kangTerm (receiver : Nat → ℝ) (c fs : ℝ) (absorption scattering att : Nat → ℝ) (f t : Nat)
    (p : (Nat → ℝ) × (Nat → ℝ) × ℝ) : ℝ :=
  let d := Vec3.norm (Vec3.sub (Vec3.ofFn receiver) (Vec3.ofFn p.1))
  if binKang d c fs ≤ t then
    p.2.2 * (scattering f * (1 - absorption f)) * Real.exp (-(att f) * d) * p.2.1 (t - binKang d c fs)
  else 0


theorem kf_exchange_wall (receiver : Nat → ℝ) (c fs : ℝ) (n : Nat)
    (absorption scattering att : Nat → ℝ) (f t : Nat) (ht : t < n)
    (w : List ((Nat → ℝ) × (Nat → ℝ) × ℝ)) (acc : ℝ)
    (hd : ∀ p ∈ w, binKang (Vec3.norm (Vec3.sub (Vec3.ofFn receiver) (Vec3.ofFn p.1))) c fs ≤ n) :
    exchangeCell acc receiver c fs n [w] absorption scattering att f t =
      some (acc + (w.map (kangTerm receiver c fs absorption scattering att f t)).sum) := by
  unfold exchangeCell
  simp only [List.foldl_cons, List.foldl_nil]
  induction w generalizing acc with
  | nil => simp
  | cons p w ih =>
    obtain ⟨g, hg, pg⟩ := exchangeContribution_eq receiver p.1 c fs p.2.1 n p.2.2 absorption scattering att f
      (hd p (by simp))
    rw [List.foldl_cons, hg]
    dsimp only
    rw [ih _ (fun q hq => hd q (by simp [hq])), pg t ht, List.map_cons, List.sum_cons, add_assoc]
    rfl

/-- the loop nest of `calculate_energy_exchange`, cell by cell: previous value plus the sum over the patches of all other walls of
    the delayed, scaled order-(k-1) energies — the right-hand side of `kang_order_recursion` -/
theorem exchangeCell_eq (before : ℝ) (receiver : Nat → ℝ) (c fs : ℝ) (n : Nat)
    (walls : List (List ((Nat → ℝ) × (Nat → ℝ) × ℝ))) (absorption scattering att : Nat → ℝ) (f t : Nat) (ht : t < n)
    (hd : ∀ w ∈ walls, ∀ p ∈ w, binKang (Vec3.norm (Vec3.sub (Vec3.ofFn receiver) (Vec3.ofFn p.1))) c fs ≤ n) :
    exchangeCell before receiver c fs n walls absorption scattering att f t =
      some (before + (walls.flatten.map (kangTerm receiver c fs absorption scattering att f t)).sum) := by
  unfold exchangeCell
  induction walls generalizing before with
  | nil => simp
  | cons w walls ih =>
    rw [List.foldl_cons]
    have hw := kf_exchange_wall receiver c fs n absorption scattering att f t ht w before
      (fun p hp => hd w (by simp) p hp)
    unfold exchangeCell at hw
    simp only [List.foldl_cons, List.foldl_nil] at hw
    rw [hw, ih _ (fun w' hw' => hd w' (by simp [hw'])), List.flatten_cons, List.map_append, List.sum_append, add_assoc]

end Sparrow
