import Sparrow.Model.Directivity
import Sparrow.Proofs.FrameLemmas
import Sparrow.Proofs.RealInst
import Mathlib.Tactic.Ring
import Mathlib.Tactic.Linarith
import Mathlib.Tactic.FieldSimp

namespace Sparrow
open Vec3

@[simp] theorem transc_asin_real (x : ℝ) : Transc.asin x = Real.arcsin x := rfl
@[simp] theorem transc_atan2_real (y x : ℝ) : Transc.atan2 y x = Complex.arg ⟨x, y⟩ := rfl

theorem gram_identity (d v u : Vec3 ℝ) :
    dot d (cross v u) * dot d (cross v u) =
      dot d d * (dot v v * dot u u - dot v u * dot v u) - dot d v * dot d v * dot u u
        - dot d u * dot d u * dot v v + 2 * (dot d v * dot d u * dot v u) := by
  obtain ⟨dx, dy, dz⟩ := d
  obtain ⟨vx, vy, vz⟩ := v
  obtain ⟨ux, uy, uz⟩ := u
  simp only [dot, cross]
  ring

theorem dot_cross_swap (d v u : Vec3 ℝ) : dot d (cross u v) = - dot d (cross v u) := by
  simp only [dot, cross]
  ring

theorem dot_neg_right (d v : Vec3 ℝ) : dot d ⟨-v.x, -v.y, -v.z⟩ = - dot d v := by
  simp only [dot]
  ring

theorem parseval_cross (d v u : Vec3 ℝ) (h : Orthonormal v u) :
    dot d (cross v u) * dot d (cross v u) = dot d d - dot d v * dot d v - dot d u * dot d u := by
  have := gram_identity d v u
  rw [h.nn, h.uu, h.nu] at this
  linarith

theorem metricsLocal_dot (pos view up target : Vec3 ℝ) (h : Orthonormal view up) :
    dot (metricsLocal pos view up target) (metricsLocal pos view up target) =
      dot (sub target pos) (sub target pos) := by
  unfold metricsLocal
  simp only
  rw [dot_neg_right]
  have := parseval_cross (sub target pos) view up h
  simp only [dot] at this ⊢
  linarith

theorem sph_aux (a b c : ℝ) (h : a ^ 2 + c ^ 2 ≠ 0) :
    Real.cos (Real.arcsin (b / Real.sqrt (a * a + b * b + c * c))) * Real.cos (Complex.arg ⟨-c, -a⟩)
        = -c / Real.sqrt (a * a + b * b + c * c) ∧
    Real.cos (Real.arcsin (b / Real.sqrt (a * a + b * b + c * c))) * Real.sin (Complex.arg ⟨-c, -a⟩)
        = -a / Real.sqrt (a * a + b * b + c * c) ∧
    Real.sin (Real.arcsin (b / Real.sqrt (a * a + b * b + c * c)))
        = b / Real.sqrt (a * a + b * b + c * c) := by
  set r := Real.sqrt (a * a + b * b + c * c) with hr
  set ρ := Real.sqrt (a ^ 2 + c ^ 2) with hρ
  have hρ2pos : 0 < a ^ 2 + c ^ 2 := lt_of_le_of_ne (by positivity) (Ne.symm h)
  have hρpos : 0 < ρ := Real.sqrt_pos.mpr hρ2pos
  have hr2 : r ^ 2 = a * a + b * b + c * c :=
    Real.sq_sqrt (by nlinarith [mul_self_nonneg a, mul_self_nonneg b, mul_self_nonneg c])
  have hρ2 : ρ ^ 2 = a ^ 2 + c ^ 2 := Real.sq_sqrt hρ2pos.le
  have hrpos : 0 < r := Real.sqrt_pos.mpr (by nlinarith [sq_nonneg b])
  have hz : (⟨-c, -a⟩ : ℂ) ≠ 0 := by
    intro hz
    have h1 := congrArg Complex.re hz
    have h2 := congrArg Complex.im hz
    simp only [Complex.zero_re, Complex.zero_im, neg_eq_zero] at h1 h2
    apply h
    rw [h1, h2]
    norm_num
  have hnorm : ‖(⟨-c, -a⟩ : ℂ)‖ = ρ := by
    rw [Complex.norm_def, Complex.normSq_apply]
    simp only
    rw [hρ]
    congr 1
    ring
  have hcosel : Real.cos (Real.arcsin (b / r)) = ρ / r := by
    rw [Real.cos_arcsin]
    have : 1 - (b / r) ^ 2 = (ρ / r) ^ 2 := by
      rw [div_pow, div_pow, one_sub_div (by positivity : r ^ 2 ≠ 0)]
      congr 1
      rw [hr2, hρ2]
      ring
    rw [this, Real.sqrt_sq (by positivity)]
  have hb : |b| ≤ r := Real.abs_le_sqrt (by nlinarith [sq_nonneg a, sq_nonneg c])
  obtain ⟨hb1, hb2⟩ := abs_le.mp hb
  refine ⟨?_, ?_, ?_⟩
  · rw [hcosel, Complex.cos_arg hz, hnorm]
    simp only
    field_simp
  · rw [hcosel, Complex.sin_arg, hnorm]
    simp only
    field_simp
  · exact Real.sin_arcsin ((le_div_iff₀ hrpos).mpr (by linarith)) ((div_le_one hrpos).mpr hb2)

/-- **The looked-up direction is the geometric direction in the source's own frame.**
    The azimuth/elevation route of `_get_metrics` (atan2, asin, then spherical → cartesian)
    yields the unit vector `(⟨d,view⟩, ⟨d,up×view⟩, ⟨d,up⟩)/|d|` for `d = target - position`,
    whenever `d` is not parallel to `up` (where the azimuth is undefined). -/
theorem metrics_frame (pos view up target : Vec3 ℝ) (h : Orthonormal view up)
    (hgen : (metricsLocal pos view up target).x ^ 2 + (metricsLocal pos view up target).z ^ 2 ≠ 0) :
    sphToCart Real.cos Real.sin (metricsAngles pos view up target).1 (metricsAngles pos view up target).2 =
      metricsDir pos view up target := by
  have _ := h  -- orthonormality is not needed for this identity
  unfold sphToCart metricsAngles metricsDir
  simp only [transc_sqrt_real, transc_asin_real, transc_atan2_real]
  set w := metricsLocal pos view up target with hw
  have hx : w.x = dot (sub target pos) (cross view up) := rfl
  have hy : w.y = dot (sub target pos) up := rfl
  have hz : w.z = - dot (sub target pos) view := by
    rw [hw]; unfold metricsLocal; simp only; rw [dot_neg_right]
  obtain ⟨h1, h2, h3⟩ := sph_aux w.x w.y w.z hgen
  have hww : dot w w = w.x * w.x + w.y * w.y + w.z * w.z := rfl
  rw [hww]
  unfold sdiv
  refine Vec3.ext' ?_ ?_ ?_ <;> simp only
  · rw [h1, hz, neg_neg]
  · rw [h2, dot_cross_swap, ← hx]
  · rw [h3, hy]

/-- It is a unit vector. -/
theorem metricsDir_unit (pos view up target : Vec3 ℝ) (h : Orthonormal view up)
    (hd : dot (sub target pos) (sub target pos) ≠ 0) :
    dot (metricsDir pos view up target) (metricsDir pos view up target) = 1 := by
  unfold metricsDir
  simp only [transc_sqrt_real]
  rw [metricsLocal_dot pos view up target h]
  set d := sub target pos with hdef
  have h0 : 0 ≤ dot d d := dot_self_nonneg d
  have hr : Real.sqrt (dot d d) * Real.sqrt (dot d d) = dot d d := Real.mul_self_sqrt h0
  have hr0 : Real.sqrt (dot d d) ≠ 0 := by
    intro h'
    rw [h'] at hr
    exact hd (by linarith)
  have hp := parseval_cross d view up h
  have hs := dot_cross_swap d view up
  have : ∀ a : Vec3 ℝ, ∀ r : ℝ, dot (sdiv a r) (sdiv a r) = dot a a / (r * r) := by
    intro a r
    unfold sdiv dot
    simp only
    by_cases hr : r = 0
    · subst hr; simp
    · field_simp
  rw [this, hr]
  have hnum : dot (⟨dot d view, dot d (cross up view), dot d up⟩ : Vec3 ℝ)
      ⟨dot d view, dot d (cross up view), dot d up⟩ = dot d d := by
    show dot d view * dot d view + dot d (cross up view) * dot d (cross up view)
      + dot d up * dot d up = dot d d
    rw [hs]
    linarith
  rw [hnum]
  exact div_self hd

/-- **Rotating source orientation and scene together changes nothing.** For every map `Q` that
    preserves differences, inner products and cross products (a proper rotation about any
    point, or a translation composed with one): same looked-up direction. -/
theorem metrics_rotation_covariant (Q : Vec3 ℝ → Vec3 ℝ) (Ql : Vec3 ℝ → Vec3 ℝ)
    (hsub : ∀ a b, sub (Q a) (Q b) = Ql (sub a b))
    (hdot : ∀ a b, dot (Ql a) (Ql b) = dot a b)
    (hcross : ∀ a b, cross (Ql a) (Ql b) = Ql (cross a b))
    (pos view up target : Vec3 ℝ) :
    metricsDir (Q pos) (Ql view) (Ql up) (Q target) = metricsDir pos view up target := by
  have hL : metricsLocal (Q pos) (Ql view) (Ql up) (Q target) = metricsLocal pos view up target := by
    unfold metricsLocal
    simp only
    rw [dot_neg_right, dot_neg_right, hsub, hcross, hdot, hdot, hdot]
  unfold metricsDir
  simp only
  rw [hL, hsub, hcross, hdot, hdot, hdot]

/-- The factor is the table entry of the nearest measured direction at the nearest measured
    frequency … -/
theorem directivity_lookup (nDir nFreq : Nat) (dirs : Nat → Vec3 ℝ) (freqs : Nat → ℝ)
    (table : Nat → Nat → ℝ) (pos view up target : Vec3 ℝ) (f : ℝ) :
    directivityFactor nDir nFreq dirs freqs table pos view up target f =
      table (nearest dirs nDir (metricsDir pos view up target)) (nearestFreq nFreq freqs f) := by
  rfl

/-- … where "nearest frequency" is the first index minimising `|f_k - f|`. -/
theorem nearestFreq_spec (n : Nat) (freqs : Nat → ℝ) (f : ℝ) (hn : 0 < n) :
    nearestFreq n freqs f < n ∧ ∀ k, k < n → |freqs (nearestFreq n freqs f) - f| ≤ |freqs k - f| := by
  unfold nearestFreq
  obtain ⟨h1, h2, _⟩ := argminFirst_spec n (fun k => Cmp.abs (freqs k - f)) hn
  refine ⟨h1, ?_⟩
  intro k hk
  have := h2 k hk
  simpa using this

/-- The factor multiplies every outgoing slot of the patch. -/
theorem directivity_multiplies (g : Nat → ℝ) (e0 : Nat → Nat → ℝ) (j d : Nat) :
    applyDirectivity (some g) e0 j d = e0 j d * g j := by
  simp [applyDirectivity]

/-- A directivity that is 1 everywhere, or no directivity at all, reproduces the
    omnidirectional result — patch energies and direct sound. -/
theorem unit_directivity_identity (g : Nat → ℝ) (hg : ∀ j, g j = 1) (e0 : Nat → Nat → ℝ) (j d : Nat) (v : ℝ) :
    applyDirectivity (some g) e0 j d = e0 j d ∧ applyDirectivityDirect (some (1 : ℝ)) v = v := by
  simp [applyDirectivity, applyDirectivityDirect, hg]

theorem no_directivity_identity (e0 : Nat → Nat → ℝ) (j d : Nat) (v : ℝ) :
    applyDirectivity none e0 j d = e0 j d ∧ applyDirectivityDirect none v = v := by
  simp [applyDirectivity, applyDirectivityDirect]

end Sparrow
