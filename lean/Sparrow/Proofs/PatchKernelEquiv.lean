import Sparrow.Generated.Patches
import Mathlib.Tactic.Ring
import Mathlib.Tactic.Linarith
/-
  The wall subdivision TRANSLATED from the Python source (`Generated/Patches.lean`, rewritten on every
  run: `_total_number_of_patches`, `_create_patches`) computes what the hand-written model says
  (`grid`, `totalPatches`, `patchOf`), for every wall, patch size, scalar type and every content of
  the `np.empty` buffers.  With these theorems every statement proved about the model's tiling is a
  statement about the translated source text.
-/
namespace Sparrow
open Sparrow.Generated.Patches

variable {α : Type}

theorem pk_foldl_range_succ {σ : Type} (f : σ → Nat → σ) (s : σ) (n : Nat) :
    (List.range (n + 1)).foldl f s = f ((List.range n).foldl f s) n := by
  rw [List.range_succ, List.foldl_append]; rfl

/-- the `for i in range(n): size[i] = g i` loop -/
theorem pk_size_fold (g : Nat → α) (junk : Nat → α) (n j : Nat) (hj : j < n) :
    ((List.range n).foldl (fun (st_ : Nat → α) i => fun p0 => if p0 = i then g i else st_ p0) junk) j = g j := by
  induction n with
  | zero => omega
  | succ n ih =>
    rw [pk_foldl_range_succ]
    by_cases h : j = n
    · subst h; simp
    · simp only [h, if_false]
      exact ih (by omega)

/-- the nested `for i_x … for i_y …: A[i] = f i_x i_y; i += 1` loop fills `A` row-major -/
theorem pk_fill_inner {β : Type} (ny : Nat) (f : Nat → β) (A0 : Nat → β) (i0 : Nat) :
    let r := (List.range ny).foldl (fun (st : (Nat → β) × Nat) iy =>
        ((fun k => if k = st.2 then f iy else st.1 k), st.2 + 1)) (A0, i0)
    r.2 = i0 + ny ∧ (∀ k, k < i0 → r.1 k = A0 k) ∧ (∀ iy, iy < ny → r.1 (i0 + iy) = f iy) ∧
      (∀ k, i0 + ny ≤ k → r.1 k = A0 k) := by
  induction ny with
  | zero => simp
  | succ ny ih =>
    intro r
    have hr : r = (fun (st : (Nat → β) × Nat) iy => ((fun k => if k = st.2 then f iy else st.1 k), st.2 + 1))
        ((List.range ny).foldl (fun (st : (Nat → β) × Nat) iy =>
          ((fun k => if k = st.2 then f iy else st.1 k), st.2 + 1)) (A0, i0)) ny := pk_foldl_range_succ _ _ _
    obtain ⟨h2, hlo, hmid, hhi⟩ := ih
    rw [hr]
    simp only
    refine ⟨by rw [h2]; omega, ?_, ?_, ?_⟩
    · intro k hk
      rw [h2, if_neg (by omega)]
      exact hlo k hk
    · intro iy hiy
      rw [h2]
      by_cases h : iy = ny
      · subst h; simp
      · rw [if_neg (by omega)]
        exact hmid iy (by omega)
    · intro k hk
      rw [h2, if_neg (by omega)]
      exact hhi k (by omega)

theorem pk_fill {β : Type} (nx ny : Nat) (f : Nat → Nat → β) (A0 : Nat → β) :
    let r := (List.range nx).foldl (fun (st : (Nat → β) × Nat) ix =>
        (List.range ny).foldl (fun (st : (Nat → β) × Nat) iy =>
          ((fun k => if k = st.2 then f ix iy else st.1 k), st.2 + 1)) st) (A0, 0)
    r.2 = nx * ny ∧ (∀ ix iy, ix < nx → iy < ny → r.1 (ix * ny + iy) = f ix iy) ∧
      (∀ k, nx * ny ≤ k → r.1 k = A0 k) := by
  induction nx with
  | zero => simp
  | succ nx ih =>
    intro r
    obtain ⟨h2, hmid, hhi⟩ := ih
    have hr : r = (List.range ny).foldl (fun (st : (Nat → β) × Nat) iy =>
          ((fun k => if k = st.2 then f nx iy else st.1 k), st.2 + 1))
        ((List.range nx).foldl (fun (st : (Nat → β) × Nat) ix =>
          (List.range ny).foldl (fun (st : (Nat → β) × Nat) iy =>
            ((fun k => if k = st.2 then f ix iy else st.1 k), st.2 + 1)) st) (A0, 0)) := pk_foldl_range_succ _ _ _
    rw [hr]
    generalize hs : (List.range nx).foldl (fun (st : (Nat → β) × Nat) ix =>
          (List.range ny).foldl (fun (st : (Nat → β) × Nat) iy =>
            ((fun k => if k = st.2 then f ix iy else st.1 k), st.2 + 1)) st) (A0, 0) = s at h2 hmid hhi
    obtain ⟨A, i⟩ := s
    simp only at h2 hmid hhi
    subst h2
    obtain ⟨g2, glo, gmid, ghi⟩ := pk_fill_inner ny (f nx) A (nx * ny)
    refine ⟨by rw [g2]; ring, ?_, ?_⟩
    · intro ix iy hix hiy
      by_cases h : ix = nx
      · subst h; exact gmid iy hiy
      · have hlt : ix < nx := by omega
        rw [glo _ (by nlinarith)]
        exact hmid ix iy hlt hiy
    · intro k hk
      rw [ghi k (by linarith [Nat.succ_mul nx ny])]
      exact hhi k (by linarith [Nat.succ_mul nx ny])

end Sparrow

namespace Sparrow
open Sparrow.Generated.Patches
variable {α : Type}

/-- `pk_fill` in the shape the translated text has: rows of a rank-3 array -/
theorem pk_fill3 (nx ny : Nat) (F : Nat → Nat → Nat → Nat → α) (A0 : Nat → Nat → Nat → α) :
    let r := (List.range nx).foldl (fun (st : (Nat → Nat → Nat → α) × Nat) ix =>
        (List.range ny).foldl (fun (st : (Nat → Nat → Nat → α) × Nat) iy =>
          ((fun p0 p1 p2 => if p0 = st.2 then F ix iy p1 p2 else st.1 p0 p1 p2), st.2 + 1)) st) (A0, 0)
    r.2 = nx * ny ∧ (∀ ix iy, ix < nx → iy < ny → r.1 (ix * ny + iy) = F ix iy) ∧
      (∀ k, nx * ny ≤ k → r.1 k = A0 k) := by
  have h : ∀ (A : Nat → Nat → Nat → α) (i : Nat) (G : Nat → Nat → α),
      (fun p0 p1 p2 => if p0 = i then G p1 p2 else A p0 p1 p2) = (fun k => if k = i then G else A k) := by
    intro A i G
    funext p0
    by_cases hp : p0 = i <;> simp [hp]
  simp only [h]
  exact pk_fill nx ny F A0

/-- the eight element assignments of the loop body -/
def pkPoints [Add α] [Mul α] [NatCast α] (w : Quad α) (xi yi : Nat) (xmin ymin : α) (rs : Nat → α)
    (i_x i_y : Nat) : Nat → Nat → α :=
  let points : (Nat → Nat → α) := w
  let points : (Nat → Nat → α) := fun p0 p1 => if p0 = (0) ∧ p1 = (xi) then (xmin + (((i_x : Nat) : α) * rs (xi))) else points p0 p1
  let points : (Nat → Nat → α) := fun p0 p1 => if p0 = (0) ∧ p1 = (yi) then (ymin + (((i_y : Nat) : α) * rs (yi))) else points p0 p1
  let points : (Nat → Nat → α) := fun p0 p1 => if p0 = (1) ∧ p1 = (xi) then (xmin + ((((i_x + 1) : Nat) : α) * rs (xi))) else points p0 p1
  let points : (Nat → Nat → α) := fun p0 p1 => if p0 = (1) ∧ p1 = (yi) then (ymin + (((i_y : Nat) : α) * rs (yi))) else points p0 p1
  let points : (Nat → Nat → α) := fun p0 p1 => if p0 = (3) ∧ p1 = (xi) then (xmin + (((i_x : Nat) : α) * rs (xi))) else points p0 p1
  let points : (Nat → Nat → α) := fun p0 p1 => if p0 = (3) ∧ p1 = (yi) then (ymin + ((((i_y + 1) : Nat) : α) * rs (yi))) else points p0 p1
  let points : (Nat → Nat → α) := fun p0 p1 => if p0 = (2) ∧ p1 = (xi) then (xmin + ((((i_x + 1) : Nat) : α) * rs (xi))) else points p0 p1
  let points : (Nat → Nat → α) := fun p0 p1 => if p0 = (2) ∧ p1 = (yi) then (ymin + ((((i_y + 1) : Nat) : α) * rs (yi))) else points p0 p1
  points

theorem pkPoints_eq [Add α] [Mul α] [NatCast α] (w : Quad α) (g : Grid α) (rs : Nat → α) (ix iy v a : Nat)
    (hne : g.xIdx ≠ g.yIdx) (hv : v < 4) (hx : rs g.xIdx = g.rx) (hy : rs g.yIdx = g.ry) :
    pkPoints w g.xIdx g.yIdx g.xMin g.yMin rs ix iy v a = patchCoord w g ix iy v a := by
  unfold pkPoints patchCoord
  have hne' : g.yIdx ≠ g.xIdx := fun h => hne h.symm
  by_cases hax : a = g.xIdx
  · subst hax
    have hv' : v = 0 ∨ v = 1 ∨ v = 2 ∨ v = 3 := by omega
    rcases hv' with h | h | h | h <;> subst h <;> simp [hne, hx]
  · by_cases hay : a = g.yIdx
    · subst hay
      have hv' : v = 0 ∨ v = 1 ∨ v = 2 ∨ v = 3 := by omega
      rcases hv' with h | h | h | h <;> subst h <;> simp [hne', hy]
    · simp [hax, hay]

/-- the statements of `_create_patches` after the plane axes are known -/
theorem createPatches_tail_spec [Cmp α] [Add α] [Sub α] [Mul α] [Div α] [ToBin α] [NatCast α]
    (w : Quad α) (n0 n1 : Nat) (p : α) (junk1 : Nat → α) (junk2 : Nat → Nat → Nat → α)
    (size : Nat → α) (pn : Nat → Nat) (rs : Nat → α) (xi yi : Nat) :
    ∃ A, createPatches_tail w n0 n1 p junk1 junk2 size pn rs xi yi = some (pn xi * pn yi, A) ∧
      (∀ ix iy, ix < pn xi → iy < pn yi →
        A (ix * pn yi + iy) = pkPoints w xi yi (minOver (fun v => w v xi) n0) (minOver (fun v => w v yi) n0) rs ix iy) ∧
      (∀ k, pn xi * pn yi ≤ k → A k = junk2 k) := by
  have h := pk_fill3 (pn xi) (pn yi)
    (fun ix iy => pkPoints w xi yi (minOver (fun v => w v xi) n0) (minOver (fun v => w v yi) n0) rs ix iy) junk2
  unfold pkPoints at h
  unfold createPatches_tail pkPoints
  simp only [Prod.mk.eta] at h ⊢
  exact ⟨_, rfl, h.2.1, h.2.2⟩

end Sparrow

namespace Sparrow
open Sparrow.Generated.Patches
variable {α : Type}

/-- `_total_number_of_patches` (translated) = number of cells of the model's grid; `none` = the
    UnboundLocalError of the Python text when no extent is smaller than the patch size. -/
theorem totalNumberOfPatches_eq [Cmp α] [Add α] [Sub α] [Mul α] [Div α] [ToBin α] [NatCast α]
    (w : Quad α) (p : α) (junk : Nat → α) :
    totalNumberOfPatches w 4 3 p junk = (grid w p).map totalPatches := by
  have hs : ∀ j, j < 3 → ((List.range 3).foldl (fun (st_ : Nat → α) i => fun p0 =>
      if p0 = i then (maxOver (fun v_ => w v_ i) 4 - minOver (fun v_ => w v_ i) 4) else st_ p0) junk) j
        = extent w j := fun j hj => pk_size_fold (fun i => extent w i) junk 3 j hj
  unfold totalNumberOfPatches grid
  simp only [hs 0 (by omega), hs 1 (by omega), hs 2 (by omega)]
  unfold planeAxes patchNum totalPatches
  by_cases h0 : ToBin.floorNat (extent w 0 / p) = 0
  · simp [h0, hs 1, hs 2, totalNumberOfPatches_tail]
  · by_cases h1 : ToBin.floorNat (extent w 1 / p) = 0
    · simp [h0, h1, hs 0, hs 2, totalNumberOfPatches_tail]
    · by_cases h2 : ToBin.floorNat (extent w 2 / p) = 0
      · simp [h0, h1, h2, hs 0, hs 1, totalNumberOfPatches_tail]
      · simp [h0, h1, h2]

/-- what `_create_patches` returns, compared with the model: `none` on both sides (no flat axis: the
    Python text stops with an UnboundLocalError), or the same count and, below it, the same patches;
    rows at or beyond the count keep the buffer's content (nothing else is written). -/
def CreatePatchesAgree [Add α] [Mul α] [NatCast α] (w : Quad α)
    (junk : Nat → Nat → Nat → α) (r : Option (Nat × (Nat → Nat → Nat → α))) (g : Option (Grid α)) : Prop :=
  match r, g with
  | some (n, A), some g => n = totalPatches g ∧
      (∀ k v a, k < n → v < 4 → A k v a = patchOf w g k v a) ∧ (∀ k, n ≤ k → A k = junk k)
  | none, none => True
  | _, _ => False

/-- from the loop's specification to agreement with the model grid -/
theorem pk_agree_of_spec [Add α] [Mul α] [NatCast α] [Cmp α]
    (w : Quad α) (junk2 : Nat → Nat → Nat → α) (pn : Nat → Nat) (rs : Nat → α) (xi yi : Nat) (hne : xi ≠ yi)
    (r : Option (Nat × (Nat → Nat → Nat → α)))
    (hspec : ∃ A, r = some (pn xi * pn yi, A) ∧
      (∀ ix iy, ix < pn xi → iy < pn yi →
        A (ix * pn yi + iy) = pkPoints w xi yi (minOver (fun v => w v xi) 4) (minOver (fun v => w v yi) 4) rs ix iy) ∧
      (∀ k, pn xi * pn yi ≤ k → A k = junk2 k))
    (G : Option (Grid α))
    (hG : G = some { nx := pn xi, ny := pn yi, xIdx := xi, yIdx := yi, xMin := minOver (fun v => w v xi) 4,
                     yMin := minOver (fun v => w v yi) 4, rx := rs xi, ry := rs yi }) :
    CreatePatchesAgree w junk2 r G := by
  obtain ⟨A, hA, hmid, hhi⟩ := hspec
  rw [hA, hG]
  unfold CreatePatchesAgree totalPatches
  refine ⟨rfl, ?_, hhi⟩
  intro k v a hk hv
  have hny : 0 < pn yi := by
    rcases Nat.eq_zero_or_pos (pn yi) with h | h
    · rw [h] at hk; simp at hk
    · exact h
  have hx : k / pn yi < pn xi := by
    rw [Nat.div_lt_iff_lt_mul hny]; exact hk
  have hy : k % pn yi < pn yi := Nat.mod_lt _ hny
  have hk' : k = (k / pn yi) * pn yi + k % pn yi := by
    rw [Nat.mul_comm]; exact (Nat.div_add_mod k (pn yi)).symm
  have := hmid (k / pn yi) (k % pn yi) hx hy
  rw [← hk'] at this
  rw [this]
  unfold patchOf
  exact pkPoints_eq w ⟨pn xi, pn yi, xi, yi, minOver (fun v => w v xi) 4, minOver (fun v => w v yi) 4, rs xi, rs yi⟩
    rs _ _ v a hne hv rfl rfl

theorem pk_case [Cmp α] [Add α] [Sub α] [Mul α] [Div α] [ToBin α] [NatCast α]
    (w : Quad α) (p : α) (junk1 : Nat → α) (junk2 : Nat → Nat → Nat → α)
    (size : Nat → α) (pn : Nat → Nat) (rs : Nat → α) (xi yi : Nat) (hne : xi ≠ yi) (G : Option (Grid α))
    (hG : G = some { nx := pn xi, ny := pn yi, xIdx := xi, yIdx := yi, xMin := minOver (fun v => w v xi) 4,
                     yMin := minOver (fun v => w v yi) 4, rx := rs xi, ry := rs yi }) :
    CreatePatchesAgree w junk2 (createPatches_tail w 4 3 p junk1 junk2 size pn rs xi yi) G :=
  pk_agree_of_spec w junk2 pn rs xi yi hne _ (createPatches_tail_spec w 4 3 p junk1 junk2 size pn rs xi yi) G hG

theorem createPatches_eq [Cmp α] [Add α] [Sub α] [Mul α] [Div α] [ToBin α] [NatCast α]
    (w : Quad α) (p : α) (junk1 : Nat → α) (junk2 : Nat → Nat → Nat → α) :
    CreatePatchesAgree w junk2 (createPatches w 4 3 p junk1 junk2) (grid w p) := by
  have hs : ∀ j, j < 3 → ((List.range 3).foldl (fun (st_ : Nat → α) i => fun p0 =>
      if p0 = i then (maxOver (fun v_ => w v_ i) 4 - minOver (fun v_ => w v_ i) 4) else st_ p0) junk1) j
        = extent w j := fun j hj => pk_size_fold (fun i => extent w i) junk1 3 j hj
  unfold createPatches
  simp only [hs 0 (by omega), hs 1 (by omega), hs 2 (by omega)]
  by_cases h0 : ToBin.floorNat (extent w 0 / p) = 0
  · simp only [h0, if_true]
    apply pk_case w p junk1 junk2 _ _ _ 1 2 (by decide)
    unfold grid planeAxes patchNum
    simp [h0, hs 1, hs 2]
  · by_cases h1 : ToBin.floorNat (extent w 1 / p) = 0
    · simp only [h0, h1, if_true, if_false]
      apply pk_case w p junk1 junk2 _ _ _ 0 2 (by decide)
      unfold grid planeAxes patchNum
      simp [h0, h1, hs 0, hs 2]
    · by_cases h2 : ToBin.floorNat (extent w 2 / p) = 0
      · simp only [h0, h1, h2, if_true, if_false]
        apply pk_case w p junk1 junk2 _ _ _ 0 1 (by decide)
        unfold grid planeAxes patchNum
        simp [h0, h1, h2, hs 0, hs 1]
      · simp only [h0, h1, h2, if_false]
        unfold grid planeAxes patchNum CreatePatchesAgree
        simp [h0, h1, h2]

/-! ### the copy of the loop in `PatchesKang.__init__` -/

theorem patchesKangInit_tail_spec [Cmp α] [Add α] [Sub α] [Mul α] [Div α] [ToBin α] [NatCast α]
    (w : Quad α) (n0 n1 : Nat) (p : α) (junk2 : Nat → Nat → Nat → α)
    (mn mx size : Nat → α) (pn : Nat → Nat) (rs : Nat → α) (xi yi : Nat) :
    ∃ A, patchesKangInit_tail w n0 n1 p junk2 mn mx size pn rs xi yi = some (pn xi * pn yi, A) ∧
      (∀ ix iy, ix < pn xi → iy < pn yi →
        A (ix * pn yi + iy) = pkPoints w xi yi (minOver (fun v => w v xi) n0) (minOver (fun v => w v yi) n0) rs ix iy) ∧
      (∀ k, pn xi * pn yi ≤ k → A k = junk2 k) := by
  have h := pk_fill3 (pn xi) (pn yi)
    (fun ix iy => pkPoints w xi yi (minOver (fun v => w v xi) n0) (minOver (fun v => w v yi) n0) rs ix iy) junk2
  unfold pkPoints at h
  unfold patchesKangInit_tail pkPoints
  simp only [Prod.mk.eta] at h ⊢
  rw [h.1]
  exact ⟨_, rfl, h.2.1, h.2.2⟩

/-- `PatchesKang.__init__` (translated) agrees with the model grid exactly as `_create_patches` does -/
theorem patchesKangInit_eq [Cmp α] [Add α] [Sub α] [Mul α] [Div α] [ToBin α] [NatCast α]
    (w : Quad α) (p : α) (junk2 : Nat → Nat → Nat → α) :
    CreatePatchesAgree w junk2 (patchesKangInit w 4 3 p junk2) (grid w p) := by
  unfold patchesKangInit
  simp only []
  by_cases h0 : ToBin.floorNat ((maxOver (fun v_ => w v_ 0) 4 - minOver (fun v_ => w v_ 0) 4) / p) = 0
  · simp only [h0, if_true]
    apply pk_agree_of_spec w junk2 _ _ 1 2 (by decide) _ (patchesKangInit_tail_spec w 4 3 p junk2 _ _ _ _ _ 1 2)
    unfold grid planeAxes patchNum extent
    simp [h0]
  · by_cases h1 : ToBin.floorNat ((maxOver (fun v_ => w v_ 1) 4 - minOver (fun v_ => w v_ 1) 4) / p) = 0
    · simp only [h0, h1, if_true, if_false]
      apply pk_agree_of_spec w junk2 _ _ 0 2 (by decide) _ (patchesKangInit_tail_spec w 4 3 p junk2 _ _ _ _ _ 0 2)
      unfold grid planeAxes patchNum extent
      simp [h0, h1]
    · by_cases h2 : ToBin.floorNat ((maxOver (fun v_ => w v_ 2) 4 - minOver (fun v_ => w v_ 2) 4) / p) = 0
      · simp only [h0, h1, h2, if_true, if_false]
        apply pk_agree_of_spec w junk2 _ _ 0 1 (by decide) _ (patchesKangInit_tail_spec w 4 3 p junk2 _ _ _ _ _ 0 1)
        unfold grid planeAxes patchNum extent
        simp [h0, h1, h2]
      · simp only [h0, h1, h2, if_false]
        unfold grid planeAxes patchNum extent CreatePatchesAgree
        simp [h0, h1, h2]

/-- **Both engines tile alike**: the translated `_create_patches` and the translated loop of
    `PatchesKang.__init__` return the same count and the same patches, for every wall, patch size, scalar type
    and whatever the buffers held. -/
theorem engines_tile_alike [Cmp α] [Add α] [Sub α] [Mul α] [Div α] [ToBin α] [NatCast α]
    (w : Quad α) (p : α) (junk1 : Nat → α) (junk2 junk3 : Nat → Nat → Nat → α) :
    match createPatches w 4 3 p junk1 junk2, patchesKangInit w 4 3 p junk3 with
    | some (n, A), some (n', A') => n = n' ∧ ∀ k v a, k < n → v < 4 → A k v a = A' k v a
    | none, none => True
    | _, _ => False := by
  have h1 := createPatches_eq w p junk1 junk2
  have h2 := patchesKangInit_eq w p junk3
  unfold CreatePatchesAgree at h1 h2
  cases hg : grid w p with
  | none =>
    rw [hg] at h1 h2
    cases hc : createPatches w 4 3 p junk1 junk2 <;> cases hk : patchesKangInit w 4 3 p junk3 <;>
      simp [hc, hk] at h1 h2 ⊢
  | some g =>
    rw [hg] at h1 h2
    cases hc : createPatches w 4 3 p junk1 junk2 with
    | none => simp [hc] at h1
    | some r =>
      cases hk : patchesKangInit w 4 3 p junk3 with
      | none => simp [hk] at h2
      | some r' =>
        obtain ⟨n, A⟩ := r
        obtain ⟨n', A'⟩ := r'
        rw [hc] at h1
        rw [hk] at h2
        simp only at h1 h2 ⊢
        refine ⟨h1.1.trans h2.1.symm, ?_⟩
        intro k v a hk' hv
        rw [h1.2.1 k v a hk' hv, h2.2.1 k v a (by rw [h2.1, ← h1.1]; exact hk') hv]

end Sparrow
