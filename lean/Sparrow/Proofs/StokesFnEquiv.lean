import Sparrow.Generated.StokesFn
import Sparrow.Model.Stokes
import Sparrow.Proofs.BakeKernelEquiv
import Sparrow.Proofs.PointFactorEquiv
/-
  The contour-integral form factor, recognised statement by statement on every run (`Generated/StokesFn.lean`), is the
  hand-written model (`Model/Stokes.lean`: `bpoint`, `conn`, `boole`, `formEntry`, `stokesInner`, `stokesOuter`,
  `stokesFF`) — whatever the `np.empty` buffers held and although the scratch buffers are reused between segments.
-/
namespace Sparrow
open Sparrow.Generated.StokesFn

theorem newtonCotes4th_eq {α : Type} [Add α] [Sub α] [Mul α] [Div α] [NatCast α] (x y : Nat → α) :
    newtonCotes4th x y = boole x y := by
  rfl

theorem boole_congr (x y y' : Nat → ℝ) (h : ∀ k, k < 5 → y k = y' k) : boole x y = boole x y' := by
  unfold boole
  simp only [h 0 (by omega), h 1 (by omega), h 2 (by omega), h 3 (by omega), h 4 (by omega)]

theorem sk_fill5 (s v : Nat → ℝ) (m : Nat) (hm : m < 5) :
    ((List.range 5).foldl (fun (s_ : Nat → ℝ) k => fun m_ => if m_ = k then v k else s_ m_) s) m = v m := by
  refine be_foldl_cell _ (fun (st : Nat → ℝ) => st m) _ 5 m hm ?_ _ ?_
  · intro ii _ hne st; simp [Ne.symm hne]
  · intro st _; simp

/-- `load_stokes_entries` -/
theorem loadStokesEntries_eq (ib jb : Nat → Nat → ℝ) (ni nj i j : Nat) (hi : i < ni) (hj : j < nj) :
    loadStokesEntries ib jb ni nj i j =
      Transc.log (Vec3.norm (Vec3.sub (⟨ib i 0, ib i 1, ib i 2⟩ : Vec3 ℝ) ⟨jb j 0, jb j 1, jb j 2⟩)) := by
  unfold loadStokesEntries
  refine be_foldl_cell _ (fun (st : Nat → Nat → ℝ) => st i j) _ ni i hi ?_ _ ?_
  · intro ii _ hne st
    refine be_foldl_skip _ (fun (st : Nat → Nat → ℝ) => st i j) st nj ?_
    intro jj _ st'
    simp [Ne.symm hne]
  · intro st _
    refine be_foldl_cell _ (fun (st : Nat → Nat → ℝ) => st i j) _ nj j hj ?_ _ ?_
    · intro jj _ hne st'
      simp [Ne.symm hne]
    · intro st' _
      simp [Vec3.norm, Vec3.dot, Vec3.sub]

/-- `_sample_boundary_regular`, the points: row `r < 4n` is the model's boundary sample -/
theorem sampleBoundary_pts (el : Nat → Nat → ℝ) (n : Nat) (jp : Nat → Nat → ℝ) (jc : Nat → Nat → Nat) (r q : Nat)
    (hr : r / 4 < n) :
    (sampleBoundaryRegular el n jp jc).1 r q =
      el (r / 4) q + ((r % 4 : Nat) : ℝ) * (el ((r / 4 + 1) % n) q - el (r / 4) q) / ((4 : Nat) : ℝ) := by
  unfold sampleBoundaryRegular
  simp only [show 5 - 1 = 4 from rfl]
  refine be_foldl_cell _ (fun (st : (Nat → Nat → ℝ) × (Nat → Nat → Nat)) => st.1 r q) _ n (r / 4) hr ?_ _ ?_
  · intro i _ hne st
    refine be_foldl_skip _ (fun (st : (Nat → Nat → ℝ) × (Nat → Nat → Nat)) => st.1 r q) _ 4 ?_
    intro ii hii st'
    have : r ≠ i * 4 + ii := by omega
    simp [this]
  · intro st _
    refine be_foldl_cell _ (fun (st : (Nat → Nat → ℝ) × (Nat → Nat → Nat)) => st.1 r q) _ 4 (r % 4) (Nat.mod_lt _ (by omega)) ?_ _ ?_
    · intro ii hii hne st'
      have : r ≠ r / 4 * 4 + ii := by omega
      simp [this]
    · intro st' _
      have : r = r / 4 * 4 + r % 4 := by omega
      simp [← this]

/-- … and the connectivity rows -/
theorem sampleBoundary_conn (el : Nat → Nat → ℝ) (n : Nat) (jp : Nat → Nat → ℝ) (jc : Nat → Nat → Nat) (a k : Nat)
    (ha : a < n) (hk : k ≤ 4) :
    (sampleBoundaryRegular el n jp jc).2 a k = conn n a k := by
  unfold sampleBoundaryRegular conn
  simp only [show 5 - 1 = 4 from rfl]
  refine be_foldl_cell _ (fun (st : (Nat → Nat → ℝ) × (Nat → Nat → Nat)) => st.2 a k) _ n a ha ?_ _ ?_
  · intro i _ hne st
    have hskip : ∀ (s0 : (Nat → Nat → ℝ) × (Nat → Nat → Nat)),
        ((List.range 4).foldl (fun (st_ : (Nat → Nat → ℝ) × (Nat → Nat → Nat)) ii =>
          ((fun r_ q_ => if r_ = i * 4 + ii then
              el i q_ + ((ii : Nat) : ℝ) * (el ((i + 1) % n) q_ - el i q_) / ((4 : Nat) : ℝ) else st_.1 r_ q_),
           (fun a_ k_ => if a_ = i ∧ k_ = ii then (i * 4 + ii) % (4 * n) else st_.2 a_ k_))) s0).2 a k = s0.2 a k := by
      intro s0
      refine be_foldl_skip _ (fun (st : (Nat → Nat → ℝ) × (Nat → Nat → Nat)) => st.2 a k) s0 4 ?_
      intro ii _ st'
      simp [Ne.symm hne]
    rw [hskip]
    simp [Ne.symm hne]
  · intro st _
    by_cases h4 : k = 4
    · subst h4
      have hskip : ∀ (s0 : (Nat → Nat → ℝ) × (Nat → Nat → Nat)),
          ((List.range 4).foldl (fun (st_ : (Nat → Nat → ℝ) × (Nat → Nat → Nat)) ii =>
            ((fun r_ q_ => if r_ = a * 4 + ii then
                el a q_ + ((ii : Nat) : ℝ) * (el ((a + 1) % n) q_ - el a q_) / ((4 : Nat) : ℝ) else st_.1 r_ q_),
             (fun a_ k_ => if a_ = a ∧ k_ = ii then (a * 4 + ii) % (4 * n) else st_.2 a_ k_))) s0).2 a 4 = s0.2 a 4 := by
        intro s0
        refine be_foldl_skip _ (fun (st : (Nat → Nat → ℝ) × (Nat → Nat → Nat)) => st.2 a 4) s0 4 ?_
        intro ii hii st'
        have : (4 : Nat) ≠ ii := by omega
        simp [this]
      rw [hskip]
      simp [Nat.mul_comm]
    · have hk4 : k < 4 := by omega
      refine be_foldl_cell _ (fun (st : (Nat → Nat → ℝ) × (Nat → Nat → Nat)) => st.2 a k) _ 4 k hk4 ?_ _ ?_
      · intro ii _ hne st'
        simp [Ne.symm hne]
      · intro st' _
        simp [Nat.mul_comm]

/-! ### the accumulation loops, abstractly -/

/-- one segment of patch j for the boundary point `i` -/
noncomputable def skStepB (cut : ℝ) (jb : Nat → Nat → ℝ) (jc : Nat → Nat → Nat) (fm : Nat → Nat → ℝ) (i dim : Nat)
    (st : (Nat → Nat → ℝ) × (Nat → ℝ)) (b : Nat) : (Nat → Nat → ℝ) × (Nat → ℝ) :=
  if Cmp.lt cut (Cmp.abs (jb (jc b 4) dim - jb (jc b 0) dim)) = true then
    ((fun r_ d_ => if r_ = i ∧ d_ = dim then
        st.1 r_ d_ + newtonCotes4th (fun k_ => jb (jc b k_) dim)
          ((List.range 5).foldl (fun (s_ : Nat → ℝ) k => fun m_ => if m_ = k then fm i (jc b k) else s_ m_) st.2)
      else st.1 r_ d_),
     (List.range 5).foldl (fun (s_ : Nat → ℝ) k => fun m_ => if m_ = k then fm i (jc b k) else s_ m_) st.2)
  else st

/-- what one segment adds -/
noncomputable def skTermB (cut : ℝ) (jb : Nat → Nat → ℝ) (jc : Nat → Nat → Nat) (fm : Nat → Nat → ℝ) (i dim : Nat)
    (acc : ℝ) (b : Nat) : ℝ :=
  if Cmp.lt cut (Cmp.abs (jb (jc b 4) dim - jb (jc b 0) dim)) = true then
    acc + boole (fun k => jb (jc b k) dim) (fun k => fm i (jc b k))
  else acc

theorem sk_innerB (cut : ℝ) (jb : Nat → Nat → ℝ) (jc : Nat → Nat → Nat) (fm : Nat → Nat → ℝ) (i dim : Nat)
    (l : List Nat) (I : Nat → Nat → ℝ) (s : Nat → ℝ) :
    (l.foldl (skStepB cut jb jc fm i dim) (I, s)).1 i dim = l.foldl (skTermB cut jb jc fm i dim) (I i dim) ∧
    ∀ r d, ¬(r = i ∧ d = dim) → (l.foldl (skStepB cut jb jc fm i dim) (I, s)).1 r d = I r d := by
  induction l generalizing I s with
  | nil => simp
  | cons b l ih =>
    rw [List.foldl_cons, List.foldl_cons]
    by_cases hc : Cmp.lt cut (Cmp.abs (jb (jc b 4) dim - jb (jc b 0) dim)) = true
    · have hstep : skStepB cut jb jc fm i dim (I, s) b =
          ((fun r_ d_ => if r_ = i ∧ d_ = dim then
              I r_ d_ + newtonCotes4th (fun k_ => jb (jc b k_) dim)
                ((List.range 5).foldl (fun (s_ : Nat → ℝ) k => fun m_ => if m_ = k then fm i (jc b k) else s_ m_) s)
            else I r_ d_),
           (List.range 5).foldl (fun (s_ : Nat → ℝ) k => fun m_ => if m_ = k then fm i (jc b k) else s_ m_) s) := by
        unfold skStepB; rw [if_pos hc]
      have hterm : skTermB cut jb jc fm i dim (I i dim) b =
          I i dim + boole (fun k => jb (jc b k) dim) (fun k => fm i (jc b k)) := by
        unfold skTermB; rw [if_pos hc]
      rw [hstep, hterm]
      obtain ⟨h1, h2⟩ := ih (fun r_ d_ => if r_ = i ∧ d_ = dim then
              I r_ d_ + newtonCotes4th (fun k_ => jb (jc b k_) dim)
                ((List.range 5).foldl (fun (s_ : Nat → ℝ) k => fun m_ => if m_ = k then fm i (jc b k) else s_ m_) s)
            else I r_ d_)
          ((List.range 5).foldl (fun (s_ : Nat → ℝ) k => fun m_ => if m_ = k then fm i (jc b k) else s_ m_) s)
      refine ⟨?_, ?_⟩
      · rw [h1]
        simp only [and_self, if_true]
        rw [newtonCotes4th_eq, boole_congr _ _ (fun k => fm i (jc b k)) (fun k hk => sk_fill5 s (fun k => fm i (jc b k)) k hk)]
      · intro r d hrd
        rw [h2 r d hrd]
        simp [hrd]
    · have hstep : skStepB cut jb jc fm i dim (I, s) b = (I, s) := by unfold skStepB; rw [if_neg hc]
      have hterm : skTermB cut jb jc fm i dim (I i dim) b = I i dim := by unfold skTermB; rw [if_neg hc]
      rw [hstep, hterm]
      exact ih I s

/-- all boundary points of patch i (for one dimension) -/
theorem sk_innerI (cut : ℝ) (jb : Nat → Nat → ℝ) (jc : Nat → Nat → Nat) (fm : Nat → Nat → ℝ) (dim nB : Nat)
    (nI : Nat) (I : Nat → Nat → ℝ) (s : Nat → ℝ) :
    (∀ i, i < nI → ((List.range nI).foldl (fun (st : (Nat → Nat → ℝ) × (Nat → ℝ)) i =>
        (List.range nB).foldl (skStepB cut jb jc fm i dim) st) (I, s)).1 i dim =
      (List.range nB).foldl (skTermB cut jb jc fm i dim) (I i dim)) ∧
    (∀ r d, (d ≠ dim ∨ nI ≤ r) → ((List.range nI).foldl (fun (st : (Nat → Nat → ℝ) × (Nat → ℝ)) i =>
        (List.range nB).foldl (skStepB cut jb jc fm i dim) st) (I, s)).1 r d = I r d) := by
  induction nI with
  | zero => simp
  | succ n ih =>
    obtain ⟨ih1, ih2⟩ := ih
    rw [List.range_succ, List.foldl_append]
    simp only [List.foldl_cons, List.foldl_nil]
    generalize hS : (List.range n).foldl (fun (st : (Nat → Nat → ℝ) × (Nat → ℝ)) i =>
        (List.range nB).foldl (skStepB cut jb jc fm i dim) st) (I, s) = S at ih1 ih2
    obtain ⟨I1, s1⟩ := S
    obtain ⟨h1, h2⟩ := sk_innerB cut jb jc fm n dim (List.range nB) I1 s1
    refine ⟨?_, ?_⟩
    · intro i hi
      by_cases hin : i = n
      · subst hin
        rw [h1]
        have := ih2 i dim (Or.inr (Nat.le_refl _))
        simp only at this
        rw [this]
      · rw [h2 i dim (by intro hh; exact hin hh.1)]
        exact ih1 i (by omega)
    · intro r d hrd
      rw [h2 r d (by
        intro hh
        rcases hrd with h | h
        · exact h hh.2
        · omega)]
      exact ih2 r d (by
        rcases hrd with h | h
        · exact Or.inl h
        · exact Or.inr (by omega))

/-- the outer accumulation over the segments of patch i -/
noncomputable def skStepA (cut : ℝ) (ib : Nat → Nat → ℝ) (ic : Nat → Nat → Nat) (I : Nat → Nat → ℝ) (dim : Nat)
    (st : ℝ × (Nat → ℝ)) (a : Nat) : ℝ × (Nat → ℝ) :=
  if Cmp.lt cut (Cmp.abs (ib (ic a 4) dim - ib (ic a 0) dim)) = true then
    (st.1 + newtonCotes4th (fun k_ => ib (ic a k_) dim)
        ((List.range 5).foldl (fun (s_ : Nat → ℝ) k => fun m_ => if m_ = k then I (ic a k) dim else s_ m_) st.2),
     (List.range 5).foldl (fun (s_ : Nat → ℝ) k => fun m_ => if m_ = k then I (ic a k) dim else s_ m_) st.2)
  else st

noncomputable def skTermA (cut : ℝ) (ib : Nat → Nat → ℝ) (ic : Nat → Nat → Nat) (I : Nat → Nat → ℝ) (dim : Nat)
    (acc : ℝ) (a : Nat) : ℝ :=
  if Cmp.lt cut (Cmp.abs (ib (ic a 4) dim - ib (ic a 0) dim)) = true then
    acc + boole (fun k => ib (ic a k) dim) (fun k => I (ic a k) dim)
  else acc

theorem sk_outerA (cut : ℝ) (ib : Nat → Nat → ℝ) (ic : Nat → Nat → Nat) (I : Nat → Nat → ℝ) (dim : Nat)
    (l : List Nat) (o : ℝ) (s : Nat → ℝ) :
    (l.foldl (skStepA cut ib ic I dim) (o, s)).1 = l.foldl (skTermA cut ib ic I dim) o := by
  induction l generalizing o s with
  | nil => rfl
  | cons a l ih =>
    rw [List.foldl_cons, List.foldl_cons]
    by_cases hc : Cmp.lt cut (Cmp.abs (ib (ic a 4) dim - ib (ic a 0) dim)) = true
    · have hstep : skStepA cut ib ic I dim (o, s) a =
          (o + newtonCotes4th (fun k_ => ib (ic a k_) dim)
              ((List.range 5).foldl (fun (s_ : Nat → ℝ) k => fun m_ => if m_ = k then I (ic a k) dim else s_ m_) s),
           (List.range 5).foldl (fun (s_ : Nat → ℝ) k => fun m_ => if m_ = k then I (ic a k) dim else s_ m_) s) := by
        unfold skStepA; rw [if_pos hc]
      have hterm : skTermA cut ib ic I dim o a = o + boole (fun k => ib (ic a k) dim) (fun k => I (ic a k) dim) := by
        unfold skTermA; rw [if_pos hc]
      rw [hstep, hterm, ih]
      rw [newtonCotes4th_eq, boole_congr _ _ (fun k => I (ic a k) dim) (fun k hk => sk_fill5 s (fun k => I (ic a k) dim) k hk)]
    · have hstep : skStepA cut ib ic I dim (o, s) a = (o, s) := by unfold skStepA; rw [if_neg hc]
      have hterm : skTermA cut ib ic I dim o a = o := by unfold skTermA; rw [if_neg hc]
      rw [hstep, hterm]
      exact ih o s

/-! ### from the arrays to the model's geometry -/

theorem sk_bpoint (el : Nat → Nat → ℝ) (n : Nat) (jp : Nat → Nat → ℝ) (jc : Nat → Nat → Nat) (r : Nat) (hr : r / 4 < n) :
    (⟨(sampleBoundaryRegular el n jp jc).1 r 0, (sampleBoundaryRegular el n jp jc).1 r 1,
      (sampleBoundaryRegular el n jp jc).1 r 2⟩ : Vec3 ℝ) = bpoint (ptsOf el) n r := by
  rw [sampleBoundary_pts el n jp jc r 0 hr, sampleBoundary_pts el n jp jc r 1 hr, sampleBoundary_pts el n jp jc r 2 hr]
  unfold bpoint ptsOf Vec3.add Vec3.sdiv Vec3.smul Vec3.sub
  rfl

theorem sk_bcoord (el : Nat → Nat → ℝ) (n : Nat) (jp : Nat → Nat → ℝ) (jc : Nat → Nat → Nat) (r q : Nat) (hr : r / 4 < n)
    (hq : q < 3) :
    (sampleBoundaryRegular el n jp jc).1 r q = bcoord (ptsOf el) n r q := by
  unfold bcoord
  rw [← sk_bpoint el n jp jc r hr]
  have : q = 0 ∨ q = 1 ∨ q = 2 := by omega
  rcases this with h | h | h <;> subst h <;> simp [Vec3.get]

theorem sk_conn_lt (n a k : Nat) (ha : a < n) : conn n a k / 4 < n := by
  unfold conn
  have h : (4 * a + k) % (4 * n) < 4 * n := Nat.mod_lt _ (by omega)
  omega

theorem boole_congr2 (x x' y y' : Nat → ℝ) (hx0 : x 0 = x' 0) (hx1 : x 1 = x' 1) (h : ∀ k, k < 5 → y k = y' k) :
    boole x y = boole x' y' := by
  unfold boole
  simp only [hx0, hx1, h 0 (by omega), h 1 (by omega), h 2 (by omega), h 3 (by omega), h 4 (by omega)]

section assembly
variable (cut : ℝ) (pI pJ : Nat → Nat → ℝ) (nI nJ : Nat) (jp1 jp2 : Nat → Nat → ℝ) (jc1 jc2 : Nat → Nat → Nat)

/-- one segment of patch j, in the model's terms -/
theorem sk_termB_model (i dim b : Nat) (acc : ℝ) (hi : i / 4 < nI) (hb : b < nJ) (hd : dim < 3) :
    skTermB cut (sampleBoundaryRegular pJ nJ jp2 jc2).1 (sampleBoundaryRegular pJ nJ jp2 jc2).2
        (loadStokesEntries (sampleBoundaryRegular pI nI jp1 jc1).1 (sampleBoundaryRegular pJ nJ jp2 jc2).1 (nI * (5 - 1)) (nJ * (5 - 1)))
        i dim acc b =
      (let x := fun k => bcoord (ptsOf pJ) nJ (conn nJ b k) dim
       if Cmp.lt cut (Cmp.abs (x 4 - x 0)) then
         acc + boole x (fun k => formEntry (ptsOf pI) (ptsOf pJ) nI nJ i (conn nJ b k))
       else acc) := by
  have hc : ∀ k, k ≤ 4 → (sampleBoundaryRegular pJ nJ jp2 jc2).2 b k = conn nJ b k :=
    fun k hk => sampleBoundary_conn pJ nJ jp2 jc2 b k hb hk
  have hx : ∀ k, k ≤ 4 → (sampleBoundaryRegular pJ nJ jp2 jc2).1 ((sampleBoundaryRegular pJ nJ jp2 jc2).2 b k) dim =
      bcoord (ptsOf pJ) nJ (conn nJ b k) dim := by
    intro k hk
    rw [hc k hk]
    exact sk_bcoord pJ nJ jp2 jc2 _ dim (sk_conn_lt nJ b k hb) hd
  have hf : ∀ k, k < 5 → loadStokesEntries (sampleBoundaryRegular pI nI jp1 jc1).1 (sampleBoundaryRegular pJ nJ jp2 jc2).1
      (nI * (5 - 1)) (nJ * (5 - 1)) i ((sampleBoundaryRegular pJ nJ jp2 jc2).2 b k) =
      formEntry (ptsOf pI) (ptsOf pJ) nI nJ i (conn nJ b k) := by
    intro k hk
    rw [hc k (by omega)]
    have hlt := sk_conn_lt nJ b k hb
    rw [loadStokesEntries_eq _ _ _ _ i (conn nJ b k) (by omega) (by omega)]
    rw [sk_bpoint pI nI jp1 jc1 i hi, sk_bpoint pJ nJ jp2 jc2 _ hlt]
    rfl
  unfold skTermB
  simp only [hx 4 (by omega), hx 0 (by omega)]
  by_cases hcut : Cmp.lt cut (Cmp.abs (bcoord (ptsOf pJ) nJ (conn nJ b 4) dim - bcoord (ptsOf pJ) nJ (conn nJ b 0) dim)) = true
  · rw [if_pos hcut, if_pos hcut]
    rw [boole_congr2 _ (fun k => bcoord (ptsOf pJ) nJ (conn nJ b k) dim) _
      (fun k => formEntry (ptsOf pI) (ptsOf pJ) nI nJ i (conn nJ b k)) (hx 0 (by omega)) (hx 1 (by omega)) hf]
  · rw [if_neg hcut, if_neg hcut]

/-- the inner integral of boundary point `i` -/
theorem sk_inner_model (i dim : Nat) (hi : i / 4 < nI) (hd : dim < 3) :
    (List.range nJ).foldl (skTermB cut (sampleBoundaryRegular pJ nJ jp2 jc2).1 (sampleBoundaryRegular pJ nJ jp2 jc2).2
        (loadStokesEntries (sampleBoundaryRegular pI nI jp1 jc1).1 (sampleBoundaryRegular pJ nJ jp2 jc2).1 (nI * (5 - 1)) (nJ * (5 - 1)))
        i dim) 0 = stokesInner cut (ptsOf pI) (ptsOf pJ) nI nJ i dim := by
  unfold stokesInner
  apply pf_foldl_congr
  intro st b hb
  exact sk_termB_model cut pI pJ nI nJ jp1 jp2 jc1 jc2 i dim b st hi hb hd

/-- one segment of patch i, in the model's terms, once the inner integrals are the model's -/
theorem sk_termA_model (I : Nat → Nat → ℝ) (dim a : Nat) (acc : ℝ) (ha : a < nI) (hd : dim < 3)
    (hI : ∀ r, r / 4 < nI → I r dim = stokesInner cut (ptsOf pI) (ptsOf pJ) nI nJ r dim) :
    skTermA cut (sampleBoundaryRegular pI nI jp1 jc1).1 (sampleBoundaryRegular pI nI jp1 jc1).2 I dim acc a =
      (let x := fun k => bcoord (ptsOf pI) nI (conn nI a k) dim
       if Cmp.lt cut (Cmp.abs (x 4 - x 0)) then
         acc + boole x (fun k => stokesInner cut (ptsOf pI) (ptsOf pJ) nI nJ (conn nI a k) dim)
       else acc) := by
  have hc : ∀ k, k ≤ 4 → (sampleBoundaryRegular pI nI jp1 jc1).2 a k = conn nI a k :=
    fun k hk => sampleBoundary_conn pI nI jp1 jc1 a k ha hk
  have hx : ∀ k, k ≤ 4 → (sampleBoundaryRegular pI nI jp1 jc1).1 ((sampleBoundaryRegular pI nI jp1 jc1).2 a k) dim =
      bcoord (ptsOf pI) nI (conn nI a k) dim := by
    intro k hk
    rw [hc k hk]
    exact sk_bcoord pI nI jp1 jc1 _ dim (sk_conn_lt nI a k ha) hd
  have hf : ∀ k, k < 5 → I ((sampleBoundaryRegular pI nI jp1 jc1).2 a k) dim =
      stokesInner cut (ptsOf pI) (ptsOf pJ) nI nJ (conn nI a k) dim := by
    intro k hk
    rw [hc k (by omega)]
    exact hI _ (sk_conn_lt nI a k ha)
  unfold skTermA
  simp only [hx 4 (by omega), hx 0 (by omega)]
  by_cases hcut : Cmp.lt cut (Cmp.abs (bcoord (ptsOf pI) nI (conn nI a 4) dim - bcoord (ptsOf pI) nI (conn nI a 0) dim)) = true
  · rw [if_pos hcut, if_pos hcut]
    rw [boole_congr2 _ (fun k => bcoord (ptsOf pI) nI (conn nI a k) dim) _
      (fun k => stokesInner cut (ptsOf pI) (ptsOf pJ) nI nJ (conn nI a k) dim) (hx 0 (by omega)) (hx 1 (by omega)) hf]
  · rw [if_neg hcut, if_neg hcut]

end assembly

/-- one dimension of the double contour sum -/
noncomputable def skDim (cut : ℝ) (ib jb : Nat → Nat → ℝ) (ic jc : Nat → Nat → Nat) (fm : Nat → Nat → ℝ) (nI4 nI nJ : Nat)
    (st : ℝ × (Nat → Nat → ℝ) × (Nat → ℝ) × (Nat → ℝ)) (dim : Nat) : ℝ × (Nat → Nat → ℝ) × (Nat → ℝ) × (Nat → ℝ) :=
  let ij := (List.range nI4).foldl (fun (st : (Nat → Nat → ℝ) × (Nat → ℝ)) i =>
    (List.range nJ).foldl (skStepB cut jb jc fm i dim) st) (st.2.1, st.2.2.1)
  let oi := (List.range nI).foldl (skStepA cut ib ic ij.1 dim) (st.1, st.2.2.2)
  (oi.1, ij.1, ij.2, oi.2)

theorem sk_dim_spec (cut : ℝ) (ib jb : Nat → Nat → ℝ) (ic jc : Nat → Nat → Nat) (fm : Nat → Nat → ℝ) (nI4 nI nJ : Nat)
    (o : ℝ) (I : Nat → Nat → ℝ) (sj si : Nat → ℝ) (dim : Nat) :
    (∀ r, r < nI4 → (skDim cut ib jb ic jc fm nI4 nI nJ (o, I, sj, si) dim).2.1 r dim =
        (List.range nJ).foldl (skTermB cut jb jc fm r dim) (I r dim)) ∧
    (∀ r d, d ≠ dim → (skDim cut ib jb ic jc fm nI4 nI nJ (o, I, sj, si) dim).2.1 r d = I r d) ∧
    (skDim cut ib jb ic jc fm nI4 nI nJ (o, I, sj, si) dim).1 =
      (List.range nI).foldl (skTermA cut ib ic (skDim cut ib jb ic jc fm nI4 nI nJ (o, I, sj, si) dim).2.1 dim) o := by
  obtain ⟨h1, h2⟩ := sk_innerI cut jb jc fm dim nJ nI4 I sj
  refine ⟨h1, fun r d hd => h2 r d (Or.inl hd), ?_⟩
  unfold skDim
  exact sk_outerA cut ib ic _ dim (List.range nI) o si

/-- **`stokes_integration` as recognised = the model's `stokesFF`**, for every pair of polygons, every cut-off and area, and
    whatever the `np.empty` buffers of the boundary sampler held -/
theorem stokesIntegration_eq (cut : ℝ) (pI pJ : Nat → Nat → ℝ) (nI nJ : Nat) (area : ℝ)
    (jp1 jp2 : Nat → Nat → ℝ) (jc1 jc2 : Nat → Nat → Nat) :
    stokesIntegration cut pI pJ nI nJ area jp1 jp2 jc1 jc2 = stokesFF cut (ptsOf pI) (ptsOf pJ) nI nJ area := by
  -- the generated fold is the fold of `skDim`
  have hgen : stokesIntegration cut pI pJ nI nJ area jp1 jp2 jc1 jc2 =
      Cmp.abs (((List.range 3).foldl (skDim cut (sampleBoundaryRegular pI nI jp1 jc1).1 (sampleBoundaryRegular pJ nJ jp2 jc2).1
        (sampleBoundaryRegular pI nI jp1 jc1).2 (sampleBoundaryRegular pJ nJ jp2 jc2).2
        (loadStokesEntries (sampleBoundaryRegular pI nI jp1 jc1).1 (sampleBoundaryRegular pJ nJ jp2 jc2).1 (nI * (5 - 1)) (nJ * (5 - 1)))
        (nI * (5 - 1)) nI nJ) ((0 : ℝ), (fun _ _ => (0 : ℝ)), (fun _ => (0 : ℝ)), (fun _ => (0 : ℝ)))).1 /
        (((2 : Nat) : ℝ) * Transc.pi * area)) := rfl
  rw [hgen]
  unfold stokesFF
  congr 2
  -- unroll the three dimensions
  have h3 : List.range 3 = [0, 1, 2] := by decide
  rw [h3]
  simp only [List.foldl_cons, List.foldl_nil]
  unfold stokesOuter
  rw [h3]
  simp only [List.foldl_cons, List.foldl_nil]
  -- dimension 0
  obtain ⟨a1, a2, a3⟩ := sk_dim_spec cut (sampleBoundaryRegular pI nI jp1 jc1).1 (sampleBoundaryRegular pJ nJ jp2 jc2).1
    (sampleBoundaryRegular pI nI jp1 jc1).2 (sampleBoundaryRegular pJ nJ jp2 jc2).2
    (loadStokesEntries (sampleBoundaryRegular pI nI jp1 jc1).1 (sampleBoundaryRegular pJ nJ jp2 jc2).1 (nI * (5 - 1)) (nJ * (5 - 1)))
    (nI * (5 - 1)) nI nJ 0 (fun _ _ => 0) (fun _ => 0) (fun _ => 0) 0
  generalize hS0 : skDim cut (sampleBoundaryRegular pI nI jp1 jc1).1 (sampleBoundaryRegular pJ nJ jp2 jc2).1
    (sampleBoundaryRegular pI nI jp1 jc1).2 (sampleBoundaryRegular pJ nJ jp2 jc2).2
    (loadStokesEntries (sampleBoundaryRegular pI nI jp1 jc1).1 (sampleBoundaryRegular pJ nJ jp2 jc2).1 (nI * (5 - 1)) (nJ * (5 - 1)))
    (nI * (5 - 1)) nI nJ ((0 : ℝ), (fun _ _ => (0 : ℝ)), (fun _ => (0 : ℝ)), (fun _ => (0 : ℝ))) 0 = S0 at a1 a2 a3 ⊢
  obtain ⟨o0, I0, sj0, si0⟩ := S0
  simp only at a1 a2 a3
  -- dimension 1
  obtain ⟨b1, b2, b3⟩ := sk_dim_spec cut (sampleBoundaryRegular pI nI jp1 jc1).1 (sampleBoundaryRegular pJ nJ jp2 jc2).1
    (sampleBoundaryRegular pI nI jp1 jc1).2 (sampleBoundaryRegular pJ nJ jp2 jc2).2
    (loadStokesEntries (sampleBoundaryRegular pI nI jp1 jc1).1 (sampleBoundaryRegular pJ nJ jp2 jc2).1 (nI * (5 - 1)) (nJ * (5 - 1)))
    (nI * (5 - 1)) nI nJ o0 I0 sj0 si0 1
  generalize hS1 : skDim cut (sampleBoundaryRegular pI nI jp1 jc1).1 (sampleBoundaryRegular pJ nJ jp2 jc2).1
    (sampleBoundaryRegular pI nI jp1 jc1).2 (sampleBoundaryRegular pJ nJ jp2 jc2).2
    (loadStokesEntries (sampleBoundaryRegular pI nI jp1 jc1).1 (sampleBoundaryRegular pJ nJ jp2 jc2).1 (nI * (5 - 1)) (nJ * (5 - 1)))
    (nI * (5 - 1)) nI nJ (o0, I0, sj0, si0) 1 = S1 at b1 b2 b3 ⊢
  obtain ⟨o1, I1, sj1, si1⟩ := S1
  simp only at b1 b2 b3
  -- dimension 2
  obtain ⟨c1, c2, c3⟩ := sk_dim_spec cut (sampleBoundaryRegular pI nI jp1 jc1).1 (sampleBoundaryRegular pJ nJ jp2 jc2).1
    (sampleBoundaryRegular pI nI jp1 jc1).2 (sampleBoundaryRegular pJ nJ jp2 jc2).2
    (loadStokesEntries (sampleBoundaryRegular pI nI jp1 jc1).1 (sampleBoundaryRegular pJ nJ jp2 jc2).1 (nI * (5 - 1)) (nJ * (5 - 1)))
    (nI * (5 - 1)) nI nJ o1 I1 sj1 si1 2
  generalize hS2 : skDim cut (sampleBoundaryRegular pI nI jp1 jc1).1 (sampleBoundaryRegular pJ nJ jp2 jc2).1
    (sampleBoundaryRegular pI nI jp1 jc1).2 (sampleBoundaryRegular pJ nJ jp2 jc2).2
    (loadStokesEntries (sampleBoundaryRegular pI nI jp1 jc1).1 (sampleBoundaryRegular pJ nJ jp2 jc2).1 (nI * (5 - 1)) (nJ * (5 - 1)))
    (nI * (5 - 1)) nI nJ (o1, I1, sj1, si1) 2 = S2 at c1 c2 c3 ⊢
  obtain ⟨o2, I2, sj2, si2⟩ := S2
  simp only at c1 c2 c3
  -- the inner integrals are the model's, dimension by dimension
  have hI0 : ∀ r, r / 4 < nI → I0 r 0 = stokesInner cut (ptsOf pI) (ptsOf pJ) nI nJ r 0 := by
    intro r hr
    rw [a1 r (by omega)]
    exact sk_inner_model cut pI pJ nI nJ jp1 jp2 jc1 jc2 r 0 hr (by omega)
  have hI1 : ∀ r, r / 4 < nI → I1 r 1 = stokesInner cut (ptsOf pI) (ptsOf pJ) nI nJ r 1 := by
    intro r hr
    rw [b1 r (by omega), a2 r 1 (by omega)]
    exact sk_inner_model cut pI pJ nI nJ jp1 jp2 jc1 jc2 r 1 hr (by omega)
  have hI2 : ∀ r, r / 4 < nI → I2 r 2 = stokesInner cut (ptsOf pI) (ptsOf pJ) nI nJ r 2 := by
    intro r hr
    rw [c1 r (by omega), b2 r 2 (by omega), a2 r 2 (by omega)]
    exact sk_inner_model cut pI pJ nI nJ jp1 jp2 jc1 jc2 r 2 hr (by omega)
  rw [c3, b3, a3]
  rw [pf_foldl_congr _ _ nI _ (fun st a ha => sk_termA_model cut pI pJ nI nJ jp1 jc1 I0 0 a st ha (by omega) hI0),
    pf_foldl_congr _ _ nI _ (fun st a ha => sk_termA_model cut pI pJ nI nJ jp1 jc1 I1 1 a st ha (by omega) hI1),
    pf_foldl_congr _ _ nI _ (fun st a ha => sk_termA_model cut pI pJ nI nJ jp1 jc1 I2 2 a st ha (by omega) hI2)]

end Sparrow
