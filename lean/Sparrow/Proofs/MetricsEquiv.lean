import Sparrow.Generated.Metrics
import Sparrow.Model.Directivity
import Sparrow.Proofs.RealInst
import Sparrow.Proofs.DirectivityLemmas
/-
  `_get_metrics`, TRANSLATED from the Python source on every run (`Generated/Metrics.lean`), returns the model's
  `metricsAngles` (azimuth `atan2(-w_x, -w_z)`, elevation `asin(w_y/|w|)` of the direction in the source frame
  `x' = view × up`, `y' = up`, `z' = -view`), converted to degrees.
-/
namespace Sparrow
open Sparrow.Generated.Metrics

theorem getMetrics_eq {α : Type} [Add α] [Sub α] [Mul α] [Div α] [Neg α] [Transc α] [NatCast α]
    (pos view up target : Nat → α) :
    getMetrics pos view up target =
      ((metricsAngles ⟨pos 0, pos 1, pos 2⟩ ⟨view 0, view 1, view 2⟩ ⟨up 0, up 1, up 2⟩ ⟨target 0, target 1, target 2⟩).1
          / Transc.pi * ((180 : Nat) : α),
       (metricsAngles ⟨pos 0, pos 1, pos 2⟩ ⟨view 0, view 1, view 2⟩ ⟨up 0, up 1, up 2⟩ ⟨target 0, target 1, target 2⟩).2
          / Transc.pi * ((180 : Nat) : α)) := by
  simp [getMetrics, metricsAngles, metricsLocal, Vec3.dot, Vec3.sub, Vec3.cross]

/-- **`SoundSource.get_directivity` as recognised = the model's `directivityFactor`**: for an orthonormal source frame and a
    target not on the source's up axis, with pyfar's nearest-point query the nearest measured direction: the factor of target
    `p` is the table entry of the measured direction nearest to the direction of the target IN THE SOURCE'S OWN FRAME, at the
    measured frequency nearest to the requested one. -/
theorem soundObjectGetDirectivity_eq (nDir nFreq : Nat) (dirs : Nat → Vec3 ℝ) (freqs : Nat → ℝ) (table : Nat → Nat → ℝ)
    (pos view up : Nat → ℝ) (targets : Nat → Nat → ℝ) (f : ℝ) (p : Nat)
    (h : Orthonormal (⟨view 0, view 1, view 2⟩ : Vec3 ℝ) ⟨up 0, up 1, up 2⟩)
    (hgen : (metricsLocal (⟨pos 0, pos 1, pos 2⟩ : Vec3 ℝ) ⟨view 0, view 1, view 2⟩ ⟨up 0, up 1, up 2⟩
              ⟨targets p 0, targets p 1, targets p 2⟩).x ^ 2 +
            (metricsLocal (⟨pos 0, pos 1, pos 2⟩ : Vec3 ℝ) ⟨view 0, view 1, view 2⟩ ⟨up 0, up 1, up 2⟩
              ⟨targets p 0, targets p 1, targets p 2⟩).z ^ 2 ≠ 0) :
    soundObjectGetDirectivity Real.cos Real.sin (fun v => nearest dirs nDir ⟨v.1, v.2.1, v.2.2⟩) table nFreq freqs
        pos view up targets f p =
      directivityFactor nDir nFreq dirs freqs table ⟨pos 0, pos 1, pos 2⟩ ⟨view 0, view 1, view 2⟩ ⟨up 0, up 1, up 2⟩
        ⟨targets p 0, targets p 1, targets p 2⟩ f := by
  have hm := metrics_frame ⟨pos 0, pos 1, pos 2⟩ ⟨view 0, view 1, view 2⟩ ⟨up 0, up 1, up 2⟩
    ⟨targets p 0, targets p 1, targets p 2⟩ h hgen
  have hpi : (Real.pi : ℝ) ≠ 0 := Real.pi_ne_zero
  have hdeg : ∀ x : ℝ, x / Real.pi * ((180 : Nat) : ℝ) / ((180 : Nat) : ℝ) * Real.pi = x := by
    intro x
    have h180 : ((180 : Nat) : ℝ) ≠ 0 := by norm_num
    field_simp
  unfold soundObjectGetDirectivity directivityMSGet directivityFactor nearestFreq
  rw [getMetrics_eq]
  simp only [transc_pi_real, hdeg]
  rw [← hm]
  simp [sphToCart]

end Sparrow
