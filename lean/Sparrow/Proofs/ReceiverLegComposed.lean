import Sparrow.Proofs.SourceLegComposed
/-
  THE RECEIVER LEG COMPOSED FROM REGENERATED TEXT ONLY (C11): `_patch2receiver_energy_universal` (Generated/LegKernels.lean) with the
  regenerated `pt_solution` (mode "receiver") and the regenerated point-to-patches scan over the walls as its opaque parameters.
-/
namespace Sparrow
open Sparrow.Generated.LegKernels Sparrow.Generated.PointFactor

/-- **a patch hidden from the receiver, or seen from behind, contributes a factor of exactly zero** -/
theorem patch2receiver_composed_hidden_zero (thr eta : ℝ) (P nvp : Nat) (rec : Nat → ℝ) (pc : Nat → Nat → ℝ)
    (pp : Nat → Nat → Nat → ℝ) (wp : Nat → Nat → Nat → ℝ) (nvw : Nat) (wn : Nat → Nat → ℝ) (nS : Nat)
    (s0 s1 s2 s3 : Nat) (i : Nat) (hi : i < P)
    (hv : visibleThroughAll eta (Vec3.ofFn rec) (Vec3.ofFn (fun q => pc i q)) nS
        (fun s => ptsOf (fun k q => wp s k q)) nvw (fun s => Vec3.ofFn (fun q => wn s q)) = false) :
    patch2receiverEnergyUniversal (fun x pts => ptSolutionReceiver thr x pts nvp) s0 rec P s1 s2 pp s3
        (srcVisT thr eta rec pc wp nvw wn nS) i = 0 := by
  exact patch2receiver_hidden_zero _ P rec pp _ s0 s1 s2 s3 i hi (by rw [srcVisT_eq]; exact hv)

/-- **a visible patch contributes the model's receiver factor `ptReceiver`** (solid angle seen from the receiver / (π · patch area)) -/
theorem patch2receiver_composed_visible (thr eta : ℝ) (P nvp : Nat) (rec : Nat → ℝ) (pc : Nat → Nat → ℝ)
    (pp : Nat → Nat → Nat → ℝ) (wp : Nat → Nat → Nat → ℝ) (nvw : Nat) (wn : Nat → Nat → ℝ) (nS : Nat)
    (s0 s1 s2 s3 : Nat) (i : Nat) (hi : i < P)
    (hv : visibleThroughAll eta (Vec3.ofFn rec) (Vec3.ofFn (fun q => pc i q)) nS
        (fun s => ptsOf (fun k q => wp s k q)) nvw (fun s => Vec3.ofFn (fun q => wn s q)) = true) :
    patch2receiverEnergyUniversal (fun x pts => ptSolutionReceiver thr x pts nvp) s0 rec P s1 s2 pp s3
        (srcVisT thr eta rec pc wp nvw wn nS) i =
      ptReceiver thr (Vec3.ofFn rec) (ptsOf (fun v q => pp i v q)) nvp := by
  rw [patch2receiverEnergy_eq _ P rec pp _ s0 s1 s2 s3 i hi, srcVisT_eq, hv, if_pos rfl, ptSolutionReceiver_eq]

end Sparrow
