import Sparrow.Proofs.KangRecvEquiv
/-
  BAND LOCALITY of the regenerated Kang text (C12 for the Kang engine): band `f` of every regenerated piece reads the per-band
  parameters (absorption, scattering, attenuation) at index `f` only, so a band simulated together with others gets exactly what it
  gets alone.
-/
namespace Sparrow
open Sparrow.Generated.KangFn

theorem initEnergyExchange_band_local (thr11 dl dm dn ddl ddm sx sy sz power : ℝ) (absorption absorption' : Nat → ℝ) (dist : ℝ)
    (attenuation attenuation' : Nat → ℝ) (n n' b : Nat) (hb : b < n) (hb' : b < n')
    (ha : absorption b = absorption' b) (hm : attenuation b = attenuation' b) :
    initEnergyExchange thr11 dl dm dn ddl ddm sx sy sz power absorption dist attenuation n b =
      initEnergyExchange thr11 dl dm dn ddl ddm sx sy sz power absorption' dist attenuation' n' b := by
  rw [initEnergyExchange_eq _ _ _ _ _ _ _ _ _ _ _ _ _ _ _ hb, initEnergyExchange_eq _ _ _ _ _ _ _ _ _ _ _ _ _ _ _ hb', ha, hm]

theorem exchangeContribution_band_local (receiver source : Nat → ℝ) (c fs : ℝ) (A : Nat → ℝ) (n : Nat) (ff : ℝ)
    (absorption absorption' scattering scattering' att att' : Nat → ℝ) (f : Nat)
    (ha : absorption f = absorption' f) (hs : scattering f = scattering' f) (hm : att f = att' f) :
    exchangeContribution receiver source c fs A n ff absorption scattering att f =
      exchangeContribution receiver source c fs A n ff absorption' scattering' att' f := by
  unfold exchangeContribution
  simp only [ha, hs, hm]

theorem receiverContribution_band_local (center recv normal : Nat → ℝ) (c fs : ℝ) (E : Nat → ℝ) (n : Nat) (att att' : Nat → ℝ)
    (f : Nat) (hm : att f = att' f) :
    receiverContribution center recv normal c fs E n att f = receiverContribution center recv normal c fs E n att' f := by
  unfold receiverContribution
  simp only [hm]

theorem directSoundKang_band_local (recv src : Nat → ℝ) (M M' : Nat → ℝ) (c fs : ℝ) (b : Nat) (hm : M b = M' b) :
    (directSoundKang recv src M c fs).2 b = (directSoundKang recv src M' c fs).2 b ∧
      (directSoundKang recv src M c fs).1 = (directSoundKang recv src M' c fs).1 := by
  unfold directSoundKang
  simp only [hm, and_self]

end Sparrow
