import Sparrow.Proofs.Refinement
import Sparrow.Model.Collect
import Mathlib.Algebra.BigOperators.Ring.Finset
import Mathlib.Algebra.BigOperators.Group.Finset.Basic
import Mathlib.Algebra.Polynomial.Coeff
import Mathlib.Data.List.Count

namespace Sparrow

/-- Mono receiver curve of the model for one source/receiver pair (single slot `D = 1`):
    sum over patches of the ETC, weighted by `g j` (solid angle / (π·area), 0 if hidden),
    attenuated by `w j`, delayed by `binR j` bins. -/
noncomputable def monoCurve (sc : ExScene ℝ) (K : Nat) (g w : Nat → ℝ) (binR : Nat → Nat) : Nat → ℝ :=
  monoF sc.P (patchwiseF (etc sc K) (fun _ => 0) g binR w)

/-
  Proof of source/receiver reciprocity (path-sum / transposition argument, in `ℝ[X]`).

  1. `monoCurve_eq_coeff`: bin `t < S` of the model curve is the `X^t` coefficient of the receiver
     polynomial `Σ_j X^(binR j) · specEtc j · C (g j w j)` (uses the refinement theorem).
  2. `specOrder_green` / `response_order`: with `fft i j = κ i j / area i · ρ j`, the order-`k`
     part of that polynomial is `C c₁ C c₂ Σ_{i,j} r j · s i · green k i j`, where
     `green k i j` is the total weight of `k`-arc chains `i → j` (symmetric kernel `arcKer` on the
     arcs, node weight `ρ/area` on every visited patch), `s` the source leg, `r` the receiver leg.
  3. `green_symm`: `green k i j = green k j i` (front extension = back extension, kernel symmetric
     because the arc list is closed under reversal, `κ` and `bin` symmetric).
  4. `hbins` gives `r_B j · s_A i = r_A i · s_B j`; swap the two sums.
-/
open Polynomial Finset

/-! ### Generic "Green's function" of a symmetric kernel with diagonal weights -/
section Green
variable {R : Type} [CommSemiring R] (P : Nat) (N : Nat → Nat → R) (d : Nat → R)

/-- `green k i j`: total weight of chains with `k` arcs from `i` to `j`, each arc weighted by the
    symmetric kernel `N`, each visited node (both ends included) weighted by `d`. Extension at the back. -/
def green : Nat → Nat → Nat → R
  | 0, i, j => if i = j then d i else 0
  | k + 1, i, j => ∑ m ∈ range P, green k i m * (N m j * d j)

theorem green_zero (i j : Nat) : green P N d 0 i j = if i = j then d i else 0 := rfl

theorem green_succ (k i j : Nat) :
    green P N d (k + 1) i j = ∑ m ∈ range P, green P N d k i m * (N m j * d j) := rfl

theorem green_front (hN0 : ∀ i j, ¬ (i < P ∧ j < P) → N i j = 0) (k i j : Nat) :
    green P N d (k + 1) i j = ∑ m ∈ range P, d i * N i m * green P N d k m j := by
  induction k generalizing j with
  | zero =>
    simp only [green_succ, green_zero, ite_mul, zero_mul, mul_ite, mul_zero, Finset.sum_ite_eq, Finset.sum_ite_eq',
      Finset.mem_range]
    by_cases hi : i < P <;> by_cases hj : j < P <;> simp [hi, hj, hN0 i j, mul_assoc]
  | succ k ih =>
    rw [green_succ]
    simp only [ih]
    simp only [green_succ]
    simp only [Finset.sum_mul, Finset.mul_sum]
    rw [Finset.sum_comm]
    apply Finset.sum_congr rfl
    intro l _
    apply Finset.sum_congr rfl
    intro m _
    ring

theorem green_symm (hN : ∀ i j, N i j = N j i) (hN0 : ∀ i j, ¬ (i < P ∧ j < P) → N i j = 0)
    (k : Nat) : ∀ i j, green P N d k i j = green P N d k j i := by
  induction k with
  | zero =>
    intro i j
    simp only [green_zero]
    by_cases h : i = j
    · subst h; rfl
    · simp [h, Ne.symm h]
  | succ k ih =>
    intro i j
    rw [green_front P N d hN0 k j i, green_succ]
    apply Finset.sum_congr rfl
    intro m _
    rw [ih i m, hN m j]
    ring

end Green

/-! ### List bookkeeping -/

theorem list_range_map_sum {M : Type} [AddCommMonoid M] (f : Nat → M) (n : Nat) :
    ((List.range n).map f).sum = ∑ k ∈ range n, f k := by
  induction n with
  | zero => simp
  | succ n ih => rw [List.range_succ, List.map_append, List.sum_append, ih, Finset.sum_range_succ]; simp

theorem foldl_add_eq (f : Nat → ℝ) (l : List Nat) (a : ℝ) :
    l.foldl (fun acc j => acc + f j) a = a + (l.map f).sum := by
  induction l generalizing a with
  | nil => simp
  | cons x l ih => simp only [List.foldl_cons, List.map_cons, List.sum_cons, ih]; ring

/-- Re-indexing the gather over the arcs into `j` by the source patch. -/
theorem sum_filter_arcs {M : Type} [AddCommMonoid M] (P : Nat) (l : List (Nat × Nat))
    (hl : ∀ a ∈ l, a.1 < P) (j : Nat) (f : Nat → M) :
    ((l.filter fun a => a.2 == j).map fun a => f a.1).sum
      = ∑ m ∈ range P, (l.count (m, j)) • f m := by
  induction l with
  | nil => simp
  | cons a l ih =>
    have ih' := ih (fun b hb => hl b (List.mem_cons_of_mem _ hb))
    have ha : a.1 < P := hl a List.mem_cons_self
    obtain ⟨a1, a2⟩ := a
    simp only [List.count_cons, add_smul, Finset.sum_add_distrib, ← ih']
    by_cases h : a2 = j
    · subst h
      simp only [List.filter_cons, beq_self_eq_true, if_true, List.map_cons, List.sum_cons]
      rw [add_comm]
      congr 1
      have : ∀ m, ((if ((a1, a2) == (m, a2)) = true then 1 else 0 : Nat) • f m)
          = if a1 = m then f m else 0 := by
        intro m
        by_cases hm : a1 = m <;> simp [hm]
      simp only [this, Finset.sum_ite_eq, Finset.mem_range]
      simp at ha
      simp [ha]
    · have : ∀ m, ((a1, a2) == (m, j)) = false := by
        intro m; simp [h]
      simp [h, this]

theorem count_arcsOf_swap (pairs : List (Nat × Nat)) (i j : Nat) :
    (arcsOf pairs).count (i, j) = (arcsOf pairs).count (j, i) := by
  induction pairs with
  | nil => simp [arcsOf]
  | cons p ps ih =>
    unfold arcsOf at ih ⊢
    rw [List.flatMap_cons, List.count_append, List.count_append, ih]
    congr 1
    simp only [List.count_cons, List.count_nil, beq_iff_eq, Prod.mk.injEq]
    split_ifs <;> omega

theorem arcsOf_lt (pairs : List (Nat × Nat)) (P : Nat)
    (hlt : ∀ p ∈ pairs, p.1 < p.2 ∧ p.2 < P) : ∀ a ∈ arcsOf pairs, a.1 < P ∧ a.2 < P := by
  intro a ha
  unfold arcsOf at ha
  obtain ⟨p, hp, ha⟩ := List.mem_flatMap.mp ha
  obtain ⟨h1, h2⟩ := hlt p hp
  simp at ha
  rcases ha with rfl | rfl
  · exact ⟨by omega, h2⟩
  · exact ⟨h2, by omega⟩

/-! ### The symmetric arc kernel and the node weights as polynomials -/

/-- Symmetric part of the transfer along the arcs `i → j`: multiplicity, `κ`, delay. -/
noncomputable def arcKer (arcs : List (Nat × Nat)) (bin : Nat → Nat → Nat) (κ : Nat → Nat → ℝ)
    (i j : Nat) : ℝ[X] :=
  (arcs.count (i, j) : ℝ[X]) * (C (κ i j) * X ^ bin i j)

/-- Node weight `ρ j / area j`. -/
noncomputable def nodeW (area ρ : Nat → ℝ) (j : Nat) : ℝ[X] := C (ρ j / area j)

theorem arcKer_symm (pairs : List (Nat × Nat)) (bin : Nat → Nat → Nat) (κ : Nat → Nat → ℝ)
    (hbinsym : ∀ i j, bin i j = bin j i) (hκ : ∀ i j, κ i j = κ j i) (i j : Nat) :
    arcKer (arcsOf pairs) bin κ i j = arcKer (arcsOf pairs) bin κ j i := by
  unfold arcKer
  rw [count_arcsOf_swap, hbinsym i j, hκ i j]

theorem arcKer_out (arcs : List (Nat × Nat)) (bin : Nat → Nat → Nat) (κ : Nat → Nat → ℝ) (P : Nat)
    (hlt : ∀ a ∈ arcs, a.1 < P ∧ a.2 < P) (i j : Nat) (h : ¬ (i < P ∧ j < P)) :
    arcKer arcs bin κ i j = 0 := by
  unfold arcKer
  have : (i, j) ∉ arcs := fun hm => h (hlt _ hm)
  rw [List.count_eq_zero_of_not_mem this]
  simp

/-! ### Model curve as a polynomial coefficient -/

theorem monoCurve_eq_coeff (sc : ExScene ℝ) (hwf : sc.WF) (hD : sc.D = 1) (K : Nat)
    (g w : Nat → ℝ) (binR : Nat → Nat) (t : Nat) (ht : t < sc.S) :
    monoCurve sc K g w binR t
      = (∑ j ∈ range sc.P, X ^ binR j * (specEtc sc K j 0 * C (g j * w j))).coeff t := by
  unfold monoCurve monoF
  rw [foldl_add_eq, zero_add, list_range_map_sum, finsetSum_coeff]
  apply Finset.sum_congr rfl
  intro j hj
  have hj := Finset.mem_range.mp hj
  unfold patchwiseF collectF
  rw [coeff_X_pow_mul', coeff_mul_C]
  split
  · beta_reduce
    rw [etc_eq_coeff sc hwf K j 0 _ hj (by omega) (by omega)]; ring
  · rfl

/-! ### Path-sum form of the polynomial recursion -/

theorem specOrder_green (sc : ExScene ℝ) (hwf : sc.WF) (hdir : ∀ i j, sc.dir i j = 0)
    (κ : Nat → Nat → ℝ) (area ρ : Nat → ℝ)
    (hform : ∀ i j, sc.fft i j 0 = κ i j / area i * ρ j)
    (u : Nat → ℝ) (c₁ : ℝ) (he0 : ∀ j, sc.e0 j 0 = c₁ * u j * ρ j) (k : Nat) :
    ∀ j, j < sc.P →
    specOrder sc k j 0 * C (1 / area j)
      = C c₁ * ∑ i ∈ range sc.P, (C (u i) * X ^ sc.bin0 i) *
          green sc.P (arcKer sc.arcs sc.bin κ) (nodeW area ρ) k i j := by
  induction k with
  | zero =>
    intro j hj
    simp only [specOrder, specInit, green_zero, mul_ite, mul_zero, Finset.sum_ite_eq',
      Finset.mem_range, hj, if_true, he0, nodeW]
    have : C (ρ j / area j) = C (ρ j) * C (1 / area j) := by
      rw [← C_mul]; congr 1; ring
    rw [this]
    simp only [C_mul]
    ring
  | succ k ih =>
    intro j hj
    rw [specOrder, specStep, ← List.sum_map_mul_right]
    obtain ⟨F, hF⟩ : ∃ F : Nat → ℝ[X], F = fun m => C (κ m j) * X ^ sc.bin m j * nodeW area ρ j *
              (C c₁ * ∑ i ∈ range sc.P, (C (u i) * X ^ sc.bin0 i) *
                green sc.P (arcKer sc.arcs sc.bin κ) (nodeW area ρ) k i m) := ⟨_, rfl⟩
    have step : ∀ a ∈ sc.arcs.filter (fun a => a.2 == j),
        C (sc.fft a.1 a.2 0) * (X ^ sc.bin a.1 a.2 * specOrder sc k a.1 (sc.dir a.1 a.2))
            * C (1 / area j)
          = F a.1 := by
      intro a ha
      rw [hF]
      obtain ⟨ha', haj⟩ := List.mem_filter.mp ha
      have haj : a.2 = j := by simpa using haj
      obtain ⟨h1, _, _⟩ := hwf a ha'
      simp only
      rw [← ih a.1 h1, hdir, haj, hform, nodeW]
      have : C (κ a.1 j / area a.1 * ρ j) * C (1 / area j)
          = C (κ a.1 j) * C (ρ j / area j) * C (1 / area a.1) := by
        simp only [← C_mul]; congr 1; ring
      calc C (κ a.1 j / area a.1 * ρ j) * (X ^ sc.bin a.1 j * specOrder sc k a.1 0) * C (1 / area j)
          = (C (κ a.1 j / area a.1 * ρ j) * C (1 / area j)) * (X ^ sc.bin a.1 j * specOrder sc k a.1 0) := by ring
        _ = _ := by rw [this]; ring
    rw [List.map_congr_left step,
      sum_filter_arcs sc.P sc.arcs (fun a ha => (hwf a ha).1) j F]
    simp only [hF, green_succ, Finset.mul_sum, nsmul_eq_mul]
    rw [Finset.sum_comm]
    apply Finset.sum_congr rfl
    intro m _
    apply Finset.sum_congr rfl
    intro i _
    unfold arcKer
    ring

/-- Order-`k` part of the receiver polynomial as a two-ended path sum. -/
theorem response_order (sc : ExScene ℝ) (hwf : sc.WF) (hdir : ∀ i j, sc.dir i j = 0)
    (κ : Nat → Nat → ℝ) (area ρ : Nat → ℝ)
    (hform : ∀ i j, sc.fft i j 0 = κ i j / area i * ρ j)
    (u : Nat → ℝ) (c₁ : ℝ) (he0 : ∀ j, sc.e0 j 0 = c₁ * u j * ρ j)
    (u' : Nat → ℝ) (c₂ : ℝ) (g w : Nat → ℝ) (hr : ∀ j, g j * w j = c₂ * u' j / area j)
    (binR : Nat → Nat) (k : Nat) :
    ∑ j ∈ range sc.P, X ^ binR j * (specOrder sc k j 0 * C (g j * w j))
      = C c₁ * C c₂ * ∑ j ∈ range sc.P, ∑ i ∈ range sc.P,
          (C (u' j) * X ^ binR j) * (C (u i) * X ^ sc.bin0 i) *
            green sc.P (arcKer sc.arcs sc.bin κ) (nodeW area ρ) k i j := by
  rw [Finset.mul_sum]
  apply Finset.sum_congr rfl
  intro j hj
  have hj := Finset.mem_range.mp hj
  have hC : C (g j * w j) = C c₂ * C (u' j) * C (1 / area j) := by
    rw [hr]; simp only [← C_mul]; congr 1; ring
  calc X ^ binR j * (specOrder sc k j 0 * C (g j * w j))
      = C c₂ * (C (u' j) * X ^ binR j) * (specOrder sc k j 0 * C (1 / area j)) := by
        rw [hC]; ring
    _ = _ := by
        rw [specOrder_green sc hwf hdir κ area ρ hform u c₁ he0 k j hj]
        simp only [Finset.mul_sum]
        apply Finset.sum_congr rfl
        intro i _
        ring

/-- Receiver polynomial: sum over orders. -/
theorem response_poly (sc : ExScene ℝ) (K : Nat) (g w : Nat → ℝ) (binR : Nat → Nat) :
    ∑ j ∈ range sc.P, X ^ binR j * (specEtc sc K j 0 * C (g j * w j))
      = ∑ k ∈ range (K + 1), ∑ j ∈ range sc.P, X ^ binR j * (specOrder sc k j 0 * C (g j * w j)) := by
  rw [Finset.sum_comm]
  apply Finset.sum_congr rfl
  intro j _
  rw [specEtc, list_range_map_sum, Finset.sum_mul, Finset.mul_sum]

/-- **Source/receiver reciprocity, conditional bin hypothesis.**  Same as `reciprocity` below,
  but the bin identity `bin0A i + binRB j = bin0B j + binRA i` is only required for patches with
  `uA i ≠ 0` and `uB j ≠ 0`: for a patch invisible from a position the model stores a zero
  point-to-patch distance, so the identity may fail there, but every chain through such an end
  carries the factor `uA i` or `uB j` `= 0` on both sides. -/
theorem reciprocity_cond
    (scA scB : ExScene ℝ)
    (hP : scB.P = scA.P) (hS : scB.S = scA.S) (hDA : scA.D = 1) (hDB : scB.D = 1)
    (hpairs : scB.pairs = scA.pairs) (hbin : scB.bin = scA.bin) (hfft : scB.fft = scA.fft)
    (hdirA : ∀ i j, scA.dir i j = 0) (hdirB : ∀ i j, scB.dir i j = 0)
    (hnodup : scA.pairs.Nodup) (hlt : ∀ p ∈ scA.pairs, p.1 < p.2 ∧ p.2 < scA.P)
    (hbinsym : ∀ i j, scA.bin i j = scA.bin j i)
    (κ : Nat → Nat → ℝ) (area ρ : Nat → ℝ) (hκ : ∀ i j, κ i j = κ j i) (harea : ∀ i, area i ≠ 0)
    (hform : ∀ i j, scA.fft i j 0 = κ i j / area i * ρ j)
    (uA uB : Nat → ℝ) (c₁ c₂ : ℝ)
    (he0A : ∀ j, scA.e0 j 0 = c₁ * uA j * ρ j) (he0B : ∀ j, scB.e0 j 0 = c₁ * uB j * ρ j)
    (gA wA gB wB : Nat → ℝ)
    (hrA : ∀ j, gA j * wA j = c₂ * uA j / area j) (hrB : ∀ j, gB j * wB j = c₂ * uB j / area j)
    (binRA binRB : Nat → Nat)
    (hbins : ∀ i j, uA i ≠ 0 → uB j ≠ 0 → scA.bin0 i + binRB j = scB.bin0 j + binRA i)
    (K t : Nat) (ht : t < scA.S) :
    monoCurve scA K gB wB binRB t = monoCurve scB K gA wA binRA t := by
  have _ := hnodup
  have _ := harea
  have harcs : scB.arcs = scA.arcs := by unfold ExScene.arcs; rw [hpairs]
  have hltA : ∀ a ∈ scA.arcs, a.1 < scA.P ∧ a.2 < scA.P := arcsOf_lt scA.pairs scA.P hlt
  have hwfA : scA.WF := fun a ha => ⟨(hltA a ha).1, (hltA a ha).2, by rw [hdirA, hDA]; exact Nat.one_pos⟩
  have hwfB : scB.WF := fun a ha => by
    rw [harcs] at ha
    rw [hP, hdirB, hDB]
    exact ⟨(hltA a ha).1, (hltA a ha).2, Nat.one_pos⟩
  have hformB : ∀ i j, scB.fft i j 0 = κ i j / area i * ρ j := by rw [hfft]; exact hform
  rw [monoCurve_eq_coeff scA hwfA hDA K gB wB binRB t ht,
    monoCurve_eq_coeff scB hwfB hDB K gA wA binRA t (by rw [hS]; exact ht)]
  congr 1
  rw [response_poly, response_poly]
  apply Finset.sum_congr rfl
  intro k _
  rw [response_order scA hwfA hdirA κ area ρ hform uA c₁ he0A uB c₂ gB wB hrB binRB k,
    response_order scB hwfB hdirB κ area ρ hformB uB c₁ he0B uA c₂ gA wA hrA binRA k,
    hP, harcs, hbin]
  congr 1
  rw [Finset.sum_comm]
  apply Finset.sum_congr rfl
  intro i _
  apply Finset.sum_congr rfl
  intro j _
  have hsym := green_symm scA.P (arcKer scA.arcs scA.bin κ) (nodeW area ρ)
    (arcKer_symm scA.pairs scA.bin κ hbinsym hκ)
    (arcKer_out scA.arcs scA.bin κ scA.P hltA) k i j
  rw [hsym]
  generalize green scA.P (arcKer scA.arcs scA.bin κ) (nodeW area ρ) k j i = Gv
  by_cases hA : uA i = 0
  · simp [hA]
  by_cases hB : uB j = 0
  · simp [hB]
  have hX : X ^ binRB j * X ^ scA.bin0 i = (X ^ binRA i * X ^ scB.bin0 j : ℝ[X]) := by
    rw [← pow_add, ← pow_add, add_comm, hbins i j hA hB, add_comm]
  calc C (uB j) * X ^ binRB j * (C (uA i) * X ^ scA.bin0 i) * Gv
      = C (uB j) * C (uA i) * (X ^ binRB j * X ^ scA.bin0 i) * Gv := by ring
    _ = C (uA i) * X ^ binRA i * (C (uB j) * X ^ scB.bin0 j) * Gv := by rw [hX]; ring

/-- **Source/receiver reciprocity** of the discrete model.

  Two runs in the same room: `scA` (source at A, received at B with weights `gB wB binRB`)
  and `scB` (source at B, received at A with `gA wA binRA`).  They share patches, pairs,
  patch-to-patch bins, transfer factors and the (single) direction slot.  If

  * the visible-pair list has no duplicates and lists each pair once with `i < j`, inside `P`,
  * patch-to-patch bins are symmetric,
  * transfer factors have the radiosity form `fft i j 0 = κ i j / area i * ρ j` with `κ` symmetric
    (this is `area_i·F'_ij = area_j·F'_ji` times a symmetric attenuation) and `area i ≠ 0`,
  * initial energy and receiver weight come from the same point-to-patch factor `u`:
    `e0X j 0 = c₁ · uX j · ρ j` and `gX j · wX j = c₂ · uX j / area j`  (X = A, B),
  * `bin0A i + binRB j = bin0B j + binRA i` for all patches `i j` (true whenever no
    source/receiver–patch delay is an exact integer number of bins, because then
    `⌈x⌉ = ⌊x⌋ + 1` on both sides),

  then the two curves are equal in every bin, for every order `K` and every histogram
  length (including truncating ones). -/
theorem reciprocity
    (scA scB : ExScene ℝ)
    (hP : scB.P = scA.P) (hS : scB.S = scA.S) (hDA : scA.D = 1) (hDB : scB.D = 1)
    (hpairs : scB.pairs = scA.pairs) (hbin : scB.bin = scA.bin) (hfft : scB.fft = scA.fft)
    (hdirA : ∀ i j, scA.dir i j = 0) (hdirB : ∀ i j, scB.dir i j = 0)
    (hnodup : scA.pairs.Nodup) (hlt : ∀ p ∈ scA.pairs, p.1 < p.2 ∧ p.2 < scA.P)
    (hbinsym : ∀ i j, scA.bin i j = scA.bin j i)
    (κ : Nat → Nat → ℝ) (area ρ : Nat → ℝ) (hκ : ∀ i j, κ i j = κ j i) (harea : ∀ i, area i ≠ 0)
    (hform : ∀ i j, scA.fft i j 0 = κ i j / area i * ρ j)
    (uA uB : Nat → ℝ) (c₁ c₂ : ℝ)
    (he0A : ∀ j, scA.e0 j 0 = c₁ * uA j * ρ j) (he0B : ∀ j, scB.e0 j 0 = c₁ * uB j * ρ j)
    (gA wA gB wB : Nat → ℝ)
    (hrA : ∀ j, gA j * wA j = c₂ * uA j / area j) (hrB : ∀ j, gB j * wB j = c₂ * uB j / area j)
    (binRA binRB : Nat → Nat)
    (hbins : ∀ i j, scA.bin0 i + binRB j = scB.bin0 j + binRA i)
    (K t : Nat) (ht : t < scA.S) :
    monoCurve scA K gB wB binRB t = monoCurve scB K gA wA binRA t := by
  exact reciprocity_cond scA scB hP hS hDA hDB hpairs hbin hfft hdirA hdirB hnodup hlt hbinsym
    κ area ρ hκ harea hform uA uB c₁ c₂ he0A he0B gA wA gB wB hrA hrB binRA binRB
    (fun i j _ _ => hbins i j) K t ht

end Sparrow
