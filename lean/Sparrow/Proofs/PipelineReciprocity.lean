import Sparrow.Proofs.PipelineTranslation
import Sparrow.Proofs.Reciprocity
import Sparrow.Proofs.Batch2
import Sparrow.Proofs.StokesLemmas
/-
  Source/receiver reciprocity of the whole modelled run (`runPipeline`, the composition
  from_polygon → set_wall_brdf → set_air_attenuation → bake_geometry → init_source_energy →
  calculate_energy_exchange → collect_energy_receiver_mono), C09 at pipeline level.

  For a diffuse room (one incoming and one outgoing direction per wall), any reflection order and
  histogram length: the mono curve with the source at `a` and the receiver at `b` equals, bin by
  bin, the curve with the source at `b` and the receiver at `a`.  Hypotheses, each a fact about
  the concrete run (not about an abstract scene):
    * patch areas are non-zero (non-degenerate patches),
    * generic positions: no source/receiver-to-patch delay is an exact number of samples
      (then `⌈x⌉ = ⌊x⌋ + 1`; the source leg is floored and the receiver leg is ceiled by the code),
    * the receiver kernel wraps nothing (known finding D3: `np.roll`): the patch histograms are
      zero in the last `⌈delay⌉` bins.
-/
namespace Sparrow
open Vec3

/-! ### generic helpers -/

theorem pr_nearest_one (s : Nat → Vec3 ℝ) (u : Vec3 ℝ) : nearest s 1 u = 0 := by
  unfold nearest argminFirst
  simp

theorem pr_norm_sub_comm (a c : Vec3 ℝ) : Vec3.norm (Vec3.sub a c) = Vec3.norm (Vec3.sub c a) := by
  unfold Vec3.norm Vec3.dot Vec3.sub
  congr 1
  ring

theorem pr_monoF_congr (P : Nat) (f f' : Nat → Nat → ℝ) (t : Nat) (h : ∀ j, j < P → f j t = f' j t) :
    monoF P f t = monoF P f' t := by
  unfold monoF
  apply foldl_range_congr
  intro acc j hj
  rw [h j hj]

theorem pr_getD_ofFn_out {β : Type} (n : Nat) (f : Fin n → β) (k : Nat) (h : ¬ k < n) (d : β) :
    (Array.ofFn f).getD k d = d := by
  simp [Array.getD_eq_getD_getElem?, h]

/-! ### attenuation factor of one leg -/

noncomputable def pr_attF (att : Option ℝ) (d : ℝ) : ℝ :=
  match att with
  | some m => Real.exp (-m * d)
  | none => 1

theorem pr_sourceEnergy (vis : Bool) (d : ℝ) (att : Option ℝ) (pt : ℝ) :
    sourceEnergy vis d att pt = if vis then pr_attF att d * pt else 0 := by
  cases att <;> simp [sourceEnergy, pr_attF]

theorem pr_receiverWeight (att : Option ℝ) (d : ℝ) :
    receiverWeight (match att with | some a => a | none => 0) d = pr_attF att d := by
  cases att <;> simp [receiverWeight, pr_attF]

/-! ### the code's receiver kernel, conditional bin hypothesis -/

theorem pr_reciprocity_code_cond
    (scA scB : ExScene ℝ)
    (hP : scB.P = scA.P) (hS : scB.S = scA.S) (hDA : scA.D = 1) (hDB : scB.D = 1)
    (hpairs : scB.pairs = scA.pairs) (hbin : scB.bin = scA.bin) (hfft : scB.fft = scA.fft)
    (hdirA : ∀ i j, scA.dir i j = 0) (hdirB : ∀ i j, scB.dir i j = 0)
    (hnodup : scA.pairs.Nodup) (hlt : ∀ p ∈ scA.pairs, p.1 < p.2 ∧ p.2 < scA.P)
    (hbinsym : ∀ i j, scA.bin i j = scA.bin j i)
    (κ : Nat → Nat → ℝ) (area ρ : Nat → ℝ) (hκ : ∀ i j, κ i j = κ j i) (harea : ∀ i, area i ≠ 0)
    (hform : ∀ i j, scA.fft i j 0 = κ i j / area i * ρ j)
    (uA uB : Nat → ℝ) (c₁ c₂ : ℝ)
    (he0A : ∀ j, scA.e0 j 0 = c₁ * uA j * ρ j) (he0B : ∀ j, scB.e0 j 0 = c₁ * uB j * ρ j)
    (gA wA gB wB : Nat → ℝ)
    (hrA : ∀ j, gA j * wA j = c₂ * uA j / area j) (hrB : ∀ j, gB j * wB j = c₂ * uB j / area j)
    (binRA binRB : Nat → Nat)
    (hbins : ∀ i j, uA i ≠ 0 → uB j ≠ 0 → scA.bin0 i + binRB j = scB.bin0 j + binRA i)
    (K t : Nat) (ht : t < scA.S)
    (hfitA : ∀ j u, scA.S - binRB j ≤ u → u < scA.S → etc scA K j 0 u * gB j = 0)
    (hfitB : ∀ j u, scB.S - binRA j ≤ u → u < scB.S → etc scB K j 0 u * gA j = 0) :
    monoCurveCode scA K gB wB binRB t = monoCurveCode scB K gA wA binRA t := by
  rw [monoCurveCode_eq_monoCurve scA K gB wB binRB t ht hfitA,
    monoCurveCode_eq_monoCurve scB K gA wA binRA t (hS ▸ ht) hfitB]
  exact reciprocity_cond scA scB hP hS hDA hDB hpairs hbin hfft hdirA hdirB hnodup hlt hbinsym
    κ area ρ hκ harea hform uA uB c₁ c₂ he0A he0B gA wA gB wB hrA hrB binRA binRB hbins K t ht

/-! ### the exchange reads the direction map on the arcs only -/

theorem pr_stepF_dir_congr (ex : ExScene ℝ) (dir' : Nat → Nat → Nat)
    (h : ∀ a ∈ ex.arcs, dir' a.1 a.2 = ex.dir a.1 a.2) (Hh : Nat → Nat → Nat → ℝ) :
    stepF { ex with dir := dir' } Hh = stepF ex Hh := by
  funext j
  unfold stepF
  simp only
  funext d t
  apply List.foldl_ext
  intro acc a ha
  have ha' : a ∈ ex.arcs := (List.mem_filter.mp ha).1
  unfold contrib
  simp only [h a ha']

theorem pr_orderTab_dir_congr (ex : ExScene ℝ) (dir' : Nat → Nat → Nat)
    (h : ∀ a ∈ ex.arcs, dir' a.1 a.2 = ex.dir a.1 a.2) (k : Nat) :
    orderTab { ex with dir := dir' } k = orderTab ex k := by
  induction k with
  | zero => rfl
  | succ k ih =>
    unfold orderTab
    rw [ih, pr_stepF_dir_congr ex dir' h]

theorem pr_etcLoop_dir_congr (ex : ExScene ℝ) (dir' : Nat → Nat → Nat)
    (h : ∀ a ∈ ex.arcs, dir' a.1 a.2 = ex.dir a.1 a.2) (k : Nat) :
    etcLoop { ex with dir := dir' } k = etcLoop ex k := by
  induction k with
  | zero => rfl
  | succ k ih =>
    unfold etcLoop
    rw [ih]
    simp only [pr_stepF_dir_congr ex dir' h]

theorem pr_etcTab_dir_congr (ex : ExScene ℝ) (dir' : Nat → Nat → Nat)
    (h : ∀ a ∈ ex.arcs, dir' a.1 a.2 = ex.dir a.1 a.2) (K : Nat) :
    etcTab { ex with dir := dir' } K = etcTab ex K := by
  unfold etcTab
  rw [pr_etcLoop_dir_congr ex dir' h]

theorem pr_rEtc (par : RunPar ℝ) (ex : ExScene ℝ) : rEtc par ex = etcTab ex par.K := by
  unfold rEtc
  split
  · next h => rw [h]; rfl
  · rfl

/-! ### baked factors of a diffuse scene -/

theorem pr_visSym_comm (sc : BakeScene ℝ) (i j : Nat) : sc.visSym i j = sc.visSym j i := by
  unfold BakeScene.visSym
  rcases Nat.lt_trichotomy i j with h | h | h
  · simp [h, Nat.lt_asymm h]
  · subst h; rfl
  · simp [h, Nat.lt_asymm h]

theorem pr_dist_comm (sc : BakeScene ℝ) (i j : Nat) : sc.dist i j = sc.dist j i :=
  pr_norm_sub_comm _ _

theorem pr_fft_vis (sc : BakeScene ℝ) (i j : Nat) (hv : sc.visSym i j = true) (ht : sc.hasTable = true)
    (hn : sc.nIn = 1) :
    sc.fft i j 0 =
      sc.ffPrime i j * pr_attF sc.att (sc.dist i j) * sc.table (sc.tableIdx (sc.wall j)) 0 0 := by
  have hin : sc.inIdx i j = 0 := by
    unfold BakeScene.inIdx
    rw [hn]
    exact pr_nearest_one _ _
  unfold BakeScene.fft BakeScene.dist
  rw [if_pos hv]
  simp only [ht, if_true, hin]
  cases sc.att <;> simp [pr_attF]

noncomputable def pr_kappa (P : Nat) (sc : BakeScene ℝ) (i j : Nat) : ℝ :=
  if i < P ∧ j < P ∧ sc.visSym i j = true then
    sc.area i * sc.ffPrime i j * pr_attF sc.att (sc.dist i j)
  else 0

noncomputable def pr_area (P : Nat) (sc : BakeScene ℝ) (k : Nat) : ℝ := if k < P then sc.area k else 1

noncomputable def pr_rho (sc : BakeScene ℝ) (j : Nat) : ℝ := sc.table (sc.tableIdx (sc.wall j)) 0 0

theorem pr_kappa_symm (P : Nat) (sc : BakeScene ℝ) (harea : ∀ k, k < P → sc.area k ≠ 0) (i j : Nat) :
    pr_kappa P sc i j = pr_kappa P sc j i := by
  by_cases hij : i = j
  · subst hij; rfl
  unfold pr_kappa
  rw [pr_visSym_comm sc j i, pr_dist_comm sc j i]
  by_cases h : i < P ∧ j < P ∧ sc.visSym i j = true
  · have h' : j < P ∧ i < P ∧ sc.visSym i j = true := ⟨h.2.1, h.1, h.2.2⟩
    rw [if_pos h, if_pos h', ffPrime_reciprocity sc i j (harea i h.1) (harea j h.2.1) hij]
  · have h' : ¬ (j < P ∧ i < P ∧ sc.visSym i j = true) := fun h' => h ⟨h'.2.1, h'.1, h'.2.2⟩
    rw [if_neg h, if_neg h']

theorem pr_area_ne (P : Nat) (sc : BakeScene ℝ) (harea : ∀ k, k < P → sc.area k ≠ 0) (k : Nat) :
    pr_area P sc k ≠ 0 := by
  unfold pr_area
  split
  · next h => exact harea k h
  · exact one_ne_zero

theorem pr_hform (P nOut : Nat) (sc : BakeScene ℝ) (hD : 0 < nOut) (ht : sc.hasTable = true) (hn : sc.nIn = 1)
    (harea : ∀ k, k < P → sc.area k ≠ 0) (i j : Nat) :
    lookup3 (tabulate3 P P nOut fun i j d => sc.fft i j d) i j 0 =
      pr_kappa P sc i j / pr_area P sc i * pr_rho sc j := by
  rw [lookup3_tabulate3]
  unfold pr_kappa pr_area pr_rho
  by_cases hi : i < P
  · by_cases hj : j < P
    · by_cases hv : sc.visSym i j = true
      · rw [if_pos ⟨hi, hj, hD⟩, if_pos ⟨hi, hj, hv⟩, if_pos hi, pr_fft_vis sc i j hv ht hn]
        have := harea i hi
        field_simp
      · have hv' : sc.visSym i j = false := by simpa using hv
        rw [if_pos ⟨hi, hj, hD⟩, sc.fft_invisible i j 0 hv', if_neg (by tauto)]
        simp
    · rw [if_neg (by tauto), if_neg (by tauto)]
      simp
  · rw [if_neg (by tauto), if_neg (by tauto)]
    simp


/-! ### mono curve of a run as `monoCurveCode` -/

theorem pr_rMono_getD (mat : Materials ℝ) (par : RunPar ℝ) (ex : ExScene ℝ) (hS : ex.S = par.S) (K : Nat)
    (ridx : Array Nat) (g distR : Array ℝ) (hr : ∀ j, j < ex.P → ridx.getD j 0 = 0) (t : Nat)
    (ht : t < par.S) :
    (rMono mat par ex.P (etcTab ex K) ridx g distR).getD t 0 =
      monoCurveCode ex K (fun j => g.getD j 0) (fun j => pr_attF mat.att (distR.getD j 0))
        (fun j => binCeil (distR.getD j 0) par.c par.dt) t := by
  unfold rMono monoCurveCode
  simp only
  rw [getD_ofFn _ _ t ht]
  apply pr_monoF_congr
  intro j hj
  rw [lookup2_tabulate2, if_pos ⟨hj, ht⟩]
  unfold patchwiseCodeF collectRollF
  simp only [hr j hj, hS]
  unfold etc
  congr 1
  cases mat.att <;> simp [receiverWeight, pr_attF]

/-! ### the visible-pair list -/

section Core
variable (eta thr : ℝ) (room : Room ℝ) (mat : Materials ℝ) (par : RunPar ℝ) (P : Nat)
  (ps : Array (PatchRec ℝ))

theorem pr_visB_lt (i j : Nat) (h : bVisB eta room P ps i j = true) : i < j := by
  by_contra hij
  unfold bVisB bVis at h
  rw [lookup2_tabulate2] at h
  simp [hij] at h

theorem pr_mem_bPairs (p : Nat × Nat) (h : p ∈ bPairs eta room P ps) :
    p.1 < p.2 ∧ p.2 < P ∧ bVisB eta room P ps p.1 p.2 = true := by
  unfold bPairs at h
  simp only [List.mem_flatMap, List.mem_map, List.mem_filter, List.mem_range] at h
  obtain ⟨i, _, j, ⟨hj, hv⟩, rfl⟩ := h
  exact ⟨pr_visB_lt eta room P ps i j hv, hj, hv⟩

theorem pr_bPairs_nodup : (bPairs eta room P ps).Nodup := by
  unfold bPairs
  rw [List.nodup_flatMap]
  constructor
  · intro i _
    apply List.Nodup.map
    · intro x y hxy
      exact (Prod.mk.inj hxy).2
    · exact List.Nodup.filter _ List.nodup_range
  · apply List.Nodup.pairwise_of_forall_ne List.nodup_range
    intro i _ i' _ hne
    unfold Function.onFun
    rw [List.disjoint_left]
    intro x hx hx'
    simp only [List.mem_map] at hx hx'
    obtain ⟨j, _, rfl⟩ := hx
    obtain ⟨j', _, h⟩ := hx'
    exact hne (Prod.mk.inj h).1.symm

theorem pr_arc_facts (a : Nat × Nat) (ha : a ∈ arcsOf (bPairs eta room P ps)) :
    a.1 < P ∧ a.2 < P ∧ a.1 ≠ a.2 ∧ (bScene eta room mat P ps).visSym a.1 a.2 = true := by
  unfold arcsOf at ha
  simp only [List.mem_flatMap, List.mem_cons, List.not_mem_nil, or_false] at ha
  obtain ⟨p, hp, h⟩ := ha
  obtain ⟨h1, h2, hv⟩ := pr_mem_bPairs eta room P ps p hp
  have hvs : (bScene eta room mat P ps).visSym p.1 p.2 = true := by
    unfold BakeScene.visSym
    rw [if_pos h1]
    exact hv
  rcases h with rfl | rfl
  · exact ⟨by omega, h2, by omega, hvs⟩
  · refine ⟨h2, by omega, by simp only; omega, ?_⟩
    rw [pr_visSym_comm]
    exact hvs

/-! ### the pieces of one run on the baked scene -/

noncomputable def pr_vis (x : Vec3 ℝ) (k : Nat) : Bool :=
  visibleThroughAll eta x (bCen P ps k) room.W room.wallPts 4 room.wallNormal

noncomputable def pr_en (src : Vec3 ℝ) : Array ℝ :=
  rEnergy0 thr mat src P (bScene eta room mat P ps) ps (rSrcVis eta room src P (bScene eta room mat P ps))

noncomputable def pr_u (src : Vec3 ℝ) (k : Nat) : ℝ := (pr_en eta thr room mat P ps src).getD k 0

noncomputable def pr_ex (src : Vec3 ℝ) : ExScene ℝ :=
  rEx mat par P (bScene eta room mat P ps) (bPairs eta room P ps)
    (rDist0 src P (bScene eta room mat P ps) (rSrcVis eta room src P (bScene eta room mat P ps)))
    (rE0 mat src P (bScene eta room mat P ps) (pr_en eta thr room mat P ps src))
    (rFft mat P (bScene eta room mat P ps)) (rOutIdx P (bScene eta room mat P ps))

noncomputable def pr_ex0 (src : Vec3 ℝ) : ExScene ℝ :=
  { pr_ex eta thr room mat par P ps src with dir := fun _ _ => 0 }

noncomputable def pr_g (recv : Vec3 ℝ) (j : Nat) : ℝ :=
  (rG eta thr room recv P (bScene eta room mat P ps) ps).getD j 0

noncomputable def pr_w (recv : Vec3 ℝ) (j : Nat) : ℝ :=
  pr_attF mat.att ((rDistR recv P (bScene eta room mat P ps)).getD j 0)

noncomputable def pr_binR (recv : Vec3 ℝ) (j : Nat) : Nat :=
  binCeil ((rDistR recv P (bScene eta room mat P ps)).getD j 0) par.c par.dt

theorem pr_runOf_etc (src recv : Vec3 ℝ) :
    (runOf eta thr room mat par src recv (bakeP eta room mat P ps)).etc =
      rEtc par (pr_ex eta thr room mat par P ps src) := rfl

theorem pr_runOf_mono (src recv : Vec3 ℝ) :
    (runOf eta thr room mat par src recv (bakeP eta room mat P ps)).mono =
      rMono mat par P (rEtc par (pr_ex eta thr room mat par P ps src))
        (rRidx recv P (bScene eta room mat P ps)) (rG eta thr room recv P (bScene eta room mat P ps) ps)
        (rDistR recv P (bScene eta room mat P ps)) := rfl

/-- on the arcs the outgoing slot is `0` (one outgoing direction per wall) -/
theorem pr_dir_arcs (hnOut : mat.nOut = 1) (src : Vec3 ℝ) (a : Nat × Nat)
    (ha : a ∈ (pr_ex eta thr room mat par P ps src).arcs) :
    (fun (_ _ : Nat) => 0) a.1 a.2 = (pr_ex eta thr room mat par P ps src).dir a.1 a.2 := by
  obtain ⟨h1, h2, hne, hv⟩ := pr_arc_facts eta room mat P ps a ha
  have hP : 0 < P := by omega
  have hlt : a.1 * P + a.2 < P * P := by
    have : (a.1 + 1) * P ≤ P * P := Nat.mul_le_mul_right P (by omega)
    rw [Nat.add_mul] at this
    omega
  have hdiv : (a.1 * P + a.2) / P = a.1 := by
    rw [Nat.mul_comm, Nat.mul_add_div hP, Nat.div_eq_of_lt h2, Nat.add_zero]
  have hmod : (a.1 * P + a.2) % P = a.2 := by
    rw [Nat.mul_comm, Nat.mul_add_mod, Nat.mod_eq_of_lt h2]
  show 0 = (rOutIdx P (bScene eta room mat P ps)).getD (a.1 * P + a.2) 0
  unfold rOutIdx
  rw [getD_ofFn _ _ _ hlt]
  simp only [hdiv, hmod]
  unfold BakeScene.outIdx
  have hD : (bScene eta room mat P ps).D = 1 := hnOut
  have hT : (bScene eta room mat P ps).hasTable = true := rfl
  rw [hD, pr_nearest_one]
  simp [hT, hv, hne]

theorem pr_etc_ex0 (hnOut : mat.nOut = 1) (src : Vec3 ℝ) (K : Nat) :
    etcTab (pr_ex0 eta thr room mat par P ps src) K = etcTab (pr_ex eta thr room mat par P ps src) K :=
  pr_etcTab_dir_congr (pr_ex eta thr room mat par P ps src) (fun _ _ => 0)
    (pr_dir_arcs eta thr room mat par P ps hnOut src) K

theorem pr_ridx (hnOut : mat.nOut = 1) (recv : Vec3 ℝ) (j : Nat) (hj : j < P) :
    (rRidx recv P (bScene eta room mat P ps)).getD j 0 = 0 := by
  unfold rRidx
  rw [getD_ofFn _ _ j hj]
  unfold BakeScene.receiverIdx BakeScene.towards
  have hD : (bScene eta room mat P ps).D = 1 := hnOut
  rw [hD, pr_nearest_one]

/-- the mono curve of the run is the code's curve of the exchange scene with direction map `0` -/
theorem pr_mono_eq (hnOut : mat.nOut = 1) (src recv : Vec3 ℝ) (t : Nat) (ht : t < par.S) :
    (runOf eta thr room mat par src recv (bakeP eta room mat P ps)).mono.getD t 0 =
      monoCurveCode (pr_ex0 eta thr room mat par P ps src) par.K (pr_g eta thr room mat P ps recv)
        (pr_w eta room mat P ps recv) (pr_binR eta room mat par P ps recv) t := by
  rw [pr_runOf_mono, pr_rEtc, ← pr_etc_ex0 eta thr room mat par P ps hnOut src par.K]
  exact pr_rMono_getD mat par (pr_ex0 eta thr room mat par P ps src) rfl par.K _ _ _
    (pr_ridx eta room mat P ps hnOut recv) t ht

/-! ### the point-to-patch factor of a position -/

theorem pr_u_eq (src : Vec3 ℝ) (j : Nat) (hj : j < P) :
    pr_u eta thr room mat P ps src j =
      if pr_vis eta room P ps src j then
        pr_attF mat.att (Vec3.norm (Vec3.sub src (bCen P ps j))) *
          ptSource thr src (fun v => (bPP ps j).pt v) 4
      else 0 := by
  unfold pr_u pr_en rEnergy0 rSrcVis
  rw [getD_ofFn _ _ j hj]
  simp only
  rw [getD_ofFn _ _ j hj, pr_sourceEnergy]
  rfl

theorem pr_u_out (src : Vec3 ℝ) (j : Nat) (hj : ¬ j < P) : pr_u eta thr room mat P ps src j = 0 := by
  unfold pr_u pr_en rEnergy0
  exact pr_getD_ofFn_out _ _ j hj 0

theorem pr_u_ne (src : Vec3 ℝ) (j : Nat) (h : pr_u eta thr room mat P ps src j ≠ 0) :
    j < P ∧ pr_vis eta room P ps src j = true := by
  by_cases hj : j < P
  · refine ⟨hj, ?_⟩
    by_contra hv
    rw [pr_u_eq eta thr room mat P ps src j hj, if_neg hv] at h
    exact h rfl
  · exact absurd (pr_u_out eta thr room mat P ps src j hj) h

theorem pr_he0 (hnIn : mat.nIn = 1) (hnOut : mat.nOut = 1) (src : Vec3 ℝ) (j : Nat) :
    (pr_ex0 eta thr room mat par P ps src).e0 j 0 =
      1 * pr_u eta thr room mat P ps src j * pr_rho (bScene eta room mat P ps) j := by
  show lookup2 (rE0 mat src P (bScene eta room mat P ps) (pr_en eta thr room mat P ps src)) j 0 = _
  unfold rE0
  rw [lookup2_tabulate2]
  by_cases hj : j < P
  · rw [if_pos ⟨hj, by omega⟩]
    unfold BakeScene.addDirectional BakeScene.towards pr_rho pr_u
    have hN : (bScene eta room mat P ps).nIn = 1 := hnIn
    rw [hN, pr_nearest_one, one_mul]
  · rw [if_neg (by tauto), pr_u_out eta thr room mat P ps src j hj]
    ring

theorem pr_hr (recv : Vec3 ℝ) (j : Nat) :
    pr_g eta thr room mat P ps recv j * pr_w eta room mat P ps recv j =
      4 * pr_u eta thr room mat P ps recv j / pr_area P (bScene eta room mat P ps) j := by
  by_cases hj : j < P
  · rw [pr_u_eq eta thr room mat P ps recv j hj]
    unfold pr_g pr_w pr_area rG rDistR
    rw [getD_ofFn _ _ j hj, getD_ofFn _ _ j hj, if_pos hj]
    have hA : (bScene eta room mat P ps).area j = polygonArea (fun v => (bPP ps j).pt v) 4 := by
      show (bAreas P ps).getD j 0 = _
      unfold bAreas
      rw [getD_ofFn _ _ j hj]
    have hc : (bScene eta room mat P ps).center j = bCen P ps j := rfl
    rw [hA]
    simp only [hc, pr_norm_sub_comm (bCen P ps j) recv]
    unfold pr_vis
    split
    · unfold ptReceiver ptSource
      simp only [transc_pi_real]
      ring
    · ring
  · rw [pr_u_out eta thr room mat P ps recv j hj]
    unfold pr_g rG
    rw [pr_getD_ofFn_out _ _ j hj]
    ring

theorem pr_g_out (recv : Vec3 ℝ) (j : Nat) (hj : ¬ j < P) : pr_g eta thr room mat P ps recv j = 0 := by
  unfold pr_g rG
  exact pr_getD_ofFn_out _ _ j hj 0

theorem pr_binR_eq (recv : Vec3 ℝ) (j : Nat) (hj : j < P) :
    pr_binR eta room mat par P ps recv j =
      binCeil (Vec3.norm (Vec3.sub (bCen P ps j) recv)) par.c par.dt := by
  unfold pr_binR rDistR
  rw [getD_ofFn _ _ j hj]
  rfl

theorem pr_bin0_eq (src : Vec3 ℝ) (j : Nat) (hj : j < P) (hv : pr_vis eta room P ps src j = true) :
    (pr_ex0 eta thr room mat par P ps src).bin0 j =
      binFloor (Vec3.norm (Vec3.sub src (bCen P ps j))) par.c par.dt := by
  show binFloor ((rDist0 src P (bScene eta room mat P ps)
    (rSrcVis eta room src P (bScene eta room mat P ps))).getD j 0) par.c par.dt = _
  unfold rDist0 rSrcVis
  rw [getD_ofFn _ _ j hj]
  simp only
  rw [getD_ofFn _ _ j hj]
  have hv' : visibleThroughAll eta src ((bScene eta room mat P ps).center j) room.W room.wallPts 4
      room.wallNormal = true := hv
  rw [hv']
  rfl

theorem pr_ex0_P (src : Vec3 ℝ) : (pr_ex0 eta thr room mat par P ps src).P = P := rfl
theorem pr_ex0_S (src : Vec3 ℝ) : (pr_ex0 eta thr room mat par P ps src).S = par.S := rfl
theorem pr_ex0_D (src : Vec3 ℝ) : (pr_ex0 eta thr room mat par P ps src).D = mat.nOut := rfl
theorem pr_ex0_pairs (src : Vec3 ℝ) : (pr_ex0 eta thr room mat par P ps src).pairs = bPairs eta room P ps := rfl
theorem pr_ex0_bin (src : Vec3 ℝ) : (pr_ex0 eta thr room mat par P ps src).bin =
    fun i j => binFloor (Vec3.norm (Vec3.sub (bCen P ps i) (bCen P ps j))) par.c par.dt := rfl
theorem pr_ex0_fft (src : Vec3 ℝ) : (pr_ex0 eta thr room mat par P ps src).fft =
    fun i j d => lookup3 (rFft mat P (bScene eta room mat P ps)) i j d := rfl
theorem pr_ex0_dir (src : Vec3 ℝ) (i j : Nat) : (pr_ex0 eta thr room mat par P ps src).dir i j = 0 := rfl

theorem pr_hlt (src : Vec3 ℝ) (p : Nat × Nat) (hp : p ∈ (pr_ex0 eta thr room mat par P ps src).pairs) :
    p.1 < p.2 ∧ p.2 < (pr_ex0 eta thr room mat par P ps src).P := by
  rw [pr_ex0_pairs] at hp
  rw [pr_ex0_P]
  exact ⟨(pr_mem_bPairs eta room P ps p hp).1, (pr_mem_bPairs eta room P ps p hp).2.1⟩

theorem pr_hbinsym (src : Vec3 ℝ) (i j : Nat) :
    (pr_ex0 eta thr room mat par P ps src).bin i j = (pr_ex0 eta thr room mat par P ps src).bin j i := by
  rw [pr_ex0_bin]
  simp only
  rw [pr_norm_sub_comm]

theorem pr_hform0 (hnIn : mat.nIn = 1) (hnOut : mat.nOut = 1)
    (harea : ∀ k, k < P → (bScene eta room mat P ps).area k ≠ 0) (src : Vec3 ℝ) (i j : Nat) :
    (pr_ex0 eta thr room mat par P ps src).fft i j 0 =
      pr_kappa P (bScene eta room mat P ps) i j / pr_area P (bScene eta room mat P ps) i *
        pr_rho (bScene eta room mat P ps) j := by
  rw [pr_ex0_fft]
  simp only
  unfold rFft
  exact pr_hform P mat.nOut (bScene eta room mat P ps) (by omega) rfl hnIn harea i j

theorem pr_hfit (hnOut : mat.nOut = 1) (x y : Vec3 ℝ)
    (h : ∀ j u, j < P →
      par.S - binCeil (Vec3.norm (Vec3.sub (bCen P ps j) y)) par.c par.dt ≤ u → u < par.S →
      lookup3 (runOf eta thr room mat par x y (bakeP eta room mat P ps)).etc j 0 u = 0)
    (j u : Nat)
    (h1 : (pr_ex0 eta thr room mat par P ps x).S - pr_binR eta room mat par P ps y j ≤ u)
    (h2 : u < (pr_ex0 eta thr room mat par P ps x).S) :
    etc (pr_ex0 eta thr room mat par P ps x) par.K j 0 u * pr_g eta thr room mat P ps y j = 0 := by
  rw [pr_ex0_S] at h1 h2
  by_cases hj : j < P
  · rw [pr_binR_eq eta room mat par P ps y j hj] at h1
    have := h j u hj h1 h2
    rw [pr_runOf_etc, pr_rEtc, ← pr_etc_ex0 eta thr room mat par P ps hnOut x par.K] at this
    unfold etc
    rw [this, zero_mul]
  · rw [pr_g_out eta thr room mat P ps y j hj, mul_zero]

theorem pr_hbins (a b : Vec3 ℝ)
    (hgenA : ∀ k, k < P →
      binCeil (Vec3.norm (Vec3.sub (bCen P ps k) a)) par.c par.dt =
        binFloor (Vec3.norm (Vec3.sub a (bCen P ps k))) par.c par.dt + 1)
    (hgenB : ∀ k, k < P →
      binCeil (Vec3.norm (Vec3.sub (bCen P ps k) b)) par.c par.dt =
        binFloor (Vec3.norm (Vec3.sub b (bCen P ps k))) par.c par.dt + 1)
    (i j : Nat) (hi : pr_u eta thr room mat P ps a i ≠ 0) (hj : pr_u eta thr room mat P ps b j ≠ 0) :
    (pr_ex0 eta thr room mat par P ps a).bin0 i + pr_binR eta room mat par P ps b j =
      (pr_ex0 eta thr room mat par P ps b).bin0 j + pr_binR eta room mat par P ps a i := by
  obtain ⟨hiP, hiv⟩ := pr_u_ne eta thr room mat P ps a i hi
  obtain ⟨hjP, hjv⟩ := pr_u_ne eta thr room mat P ps b j hj
  rw [pr_bin0_eq eta thr room mat par P ps a i hiP hiv, pr_bin0_eq eta thr room mat par P ps b j hjP hjv,
    pr_binR_eq eta room mat par P ps b j hjP, pr_binR_eq eta room mat par P ps a i hiP,
    hgenA i hiP, hgenB j hjP]
  omega

/-- reciprocity of the run on a baked patch list -/
theorem pr_core (hnIn : mat.nIn = 1) (hnOut : mat.nOut = 1) (a b : Vec3 ℝ)
    (harea : ∀ k, k < P → (bScene eta room mat P ps).area k ≠ 0)
    (hgenA : ∀ k, k < P →
      binCeil (Vec3.norm (Vec3.sub (bCen P ps k) a)) par.c par.dt =
        binFloor (Vec3.norm (Vec3.sub a (bCen P ps k))) par.c par.dt + 1)
    (hgenB : ∀ k, k < P →
      binCeil (Vec3.norm (Vec3.sub (bCen P ps k) b)) par.c par.dt =
        binFloor (Vec3.norm (Vec3.sub b (bCen P ps k))) par.c par.dt + 1)
    (hfitA : ∀ j u, j < P →
      par.S - binCeil (Vec3.norm (Vec3.sub (bCen P ps j) b)) par.c par.dt ≤ u → u < par.S →
      lookup3 (runOf eta thr room mat par a b (bakeP eta room mat P ps)).etc j 0 u = 0)
    (hfitB : ∀ j u, j < P →
      par.S - binCeil (Vec3.norm (Vec3.sub (bCen P ps j) a)) par.c par.dt ≤ u → u < par.S →
      lookup3 (runOf eta thr room mat par b a (bakeP eta room mat P ps)).etc j 0 u = 0)
    (t : Nat) (ht : t < par.S) :
    (runOf eta thr room mat par a b (bakeP eta room mat P ps)).mono.getD t 0 =
      (runOf eta thr room mat par b a (bakeP eta room mat P ps)).mono.getD t 0 := by
  rw [pr_mono_eq eta thr room mat par P ps hnOut a b t ht, pr_mono_eq eta thr room mat par P ps hnOut b a t ht]
  have hnodup : (pr_ex0 eta thr room mat par P ps a).pairs.Nodup := by
    rw [pr_ex0_pairs]
    exact pr_bPairs_nodup eta room P ps
  have htS : t < (pr_ex0 eta thr room mat par P ps a).S := by
    rw [pr_ex0_S]
    exact ht
  exact pr_reciprocity_code_cond (pr_ex0 eta thr room mat par P ps a) (pr_ex0 eta thr room mat par P ps b)
    ((pr_ex0_P eta thr room mat par P ps b).trans (pr_ex0_P eta thr room mat par P ps a).symm)
    ((pr_ex0_S eta thr room mat par P ps b).trans (pr_ex0_S eta thr room mat par P ps a).symm)
    ((pr_ex0_D eta thr room mat par P ps a).trans hnOut)
    ((pr_ex0_D eta thr room mat par P ps b).trans hnOut)
    ((pr_ex0_pairs eta thr room mat par P ps b).trans (pr_ex0_pairs eta thr room mat par P ps a).symm)
    ((pr_ex0_bin eta thr room mat par P ps b).trans (pr_ex0_bin eta thr room mat par P ps a).symm)
    ((pr_ex0_fft eta thr room mat par P ps b).trans (pr_ex0_fft eta thr room mat par P ps a).symm)
    (pr_ex0_dir eta thr room mat par P ps a) (pr_ex0_dir eta thr room mat par P ps b)
    hnodup
    (pr_hlt eta thr room mat par P ps a)
    (pr_hbinsym eta thr room mat par P ps a)
    (pr_kappa P (bScene eta room mat P ps)) (pr_area P (bScene eta room mat P ps))
    (pr_rho (bScene eta room mat P ps))
    (pr_kappa_symm P _ harea) (pr_area_ne P _ harea)
    (pr_hform0 eta thr room mat par P ps hnIn hnOut harea a)
    (pr_u eta thr room mat P ps a) (pr_u eta thr room mat P ps b) 1 4
    (pr_he0 eta thr room mat par P ps hnIn hnOut a) (pr_he0 eta thr room mat par P ps hnIn hnOut b)
    (pr_g eta thr room mat P ps a) (pr_w eta room mat P ps a)
    (pr_g eta thr room mat P ps b) (pr_w eta room mat P ps b)
    (pr_hr eta thr room mat P ps a) (pr_hr eta thr room mat P ps b)
    (pr_binR eta room mat par P ps a) (pr_binR eta room mat par P ps b)
    (pr_hbins eta thr room mat par P ps a b hgenA hgenB) par.K t htS
    (pr_hfit eta thr room mat par P ps hnOut a b hfitA) (pr_hfit eta thr room mat par P ps hnOut b a hfitB)

end Core

theorem runPipeline_reciprocity
    (eta thr : ℝ) (room : Room ℝ) (mat : Materials ℝ) (par : RunPar ℝ) (a b : Vec3 ℝ)
    (bk : Baked ℝ) (rA rB : RunResult ℝ)
    (hb : bakeRoom eta room mat = some bk)
    (hA : runPipeline eta thr room mat par a b = some rA)
    (hB : runPipeline eta thr room mat par b a = some rB)
    (hnIn : mat.nIn = 1) (hnOut : mat.nOut = 1)
    (harea : ∀ k, k < bk.P → bk.scene.area k ≠ 0)
    (hgenA : ∀ k, k < bk.P →
      binCeil (Vec3.norm (Vec3.sub (bk.scene.center k) a)) par.c par.dt =
        binFloor (Vec3.norm (Vec3.sub a (bk.scene.center k))) par.c par.dt + 1)
    (hgenB : ∀ k, k < bk.P →
      binCeil (Vec3.norm (Vec3.sub (bk.scene.center k) b)) par.c par.dt =
        binFloor (Vec3.norm (Vec3.sub b (bk.scene.center k))) par.c par.dt + 1)
    (hfitA : ∀ j u, j < bk.P →
      par.S - binCeil (Vec3.norm (Vec3.sub (bk.scene.center j) b)) par.c par.dt ≤ u → u < par.S →
      lookup3 rA.etc j 0 u = 0)
    (hfitB : ∀ j u, j < bk.P →
      par.S - binCeil (Vec3.norm (Vec3.sub (bk.scene.center j) a)) par.c par.dt ≤ u → u < par.S →
      lookup3 rB.etc j 0 u = 0)
    (t : Nat) (ht : t < par.S) :
    rA.mono.getD t 0 = rB.mono.getD t 0 := by
  rw [bakeRoom_eq] at hb
  rw [runPipeline_eq, bakeRoom_eq] at hA hB
  cases hm : makePatches room with
  | none =>
    rw [hm] at hb
    simp at hb
  | some ps =>
    rw [hm] at hb hA hB
    simp only [Option.map_some, Option.some.injEq] at hb hA hB
    subst hb hA hB
    exact pr_core eta thr room mat par ps.size ps hnIn hnOut a b harea hgenA hgenB hfitA hfitB t ht

end Sparrow
