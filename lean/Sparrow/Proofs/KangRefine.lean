import Sparrow.Proofs.KangFnEquiv
import Sparrow.Proofs.KangLemmas
import Mathlib.Tactic.Ring
/-
  REFINEMENT of the regenerated Kang loop nest to the model's order recursion.  The data of a Kang run (patch centres, wall of every
  patch, analytic form factors, per-wall absorption / scattering / attenuation) determine the model scene `KangGeom.scene`; the
  regenerated loop nest of `PatchesKang.calculate_energy_exchange` (`exchangeCell`, Generated/KangFn.lean), run on the model's
  order-`k` histograms of the patches of all other walls, yields the model's order-`k+1` histogram cell.  So `kang_order_recursion`,
  `kang_truncation`, `kang_monotone_in_k` … are statements about what the regenerated text computes, order after order.
-/
namespace Sparrow
open Sparrow.Generated.KangFn Finset

structure KangGeom where
  P : Nat
  W : Nat
  S : Nat
  wall : Nat → Nat
  center : Nat → Nat → ℝ
  ff : Nat → Nat → ℝ
  absorption : Nat → Nat → ℝ
  scattering : Nat → Nat → ℝ
  att : Nat → Nat → ℝ
  c : ℝ
  fs : ℝ
  e0 : Nat → ℝ
  bin0 : Nat → Nat

/-- centre-to-centre distance as the code computes it for receiver `j` and source `i` -/
noncomputable def KangGeom.dist (g : KangGeom) (i j : Nat) : ℝ :=
  Vec3.norm (Vec3.sub (Vec3.ofFn (g.center j)) (Vec3.ofFn (g.center i)))

/-- the model scene of band `f` -/
noncomputable def KangGeom.scene (g : KangGeom) (f : Nat) : KangScene ℝ :=
  { P := g.P, S := g.S, wall := g.wall, bin0 := g.bin0
    bin := fun i j => binKang (g.dist i j) g.c g.fs
    e0 := g.e0, ff := g.ff
    refl := fun j => g.scattering (g.wall j) f * (1 - g.absorption (g.wall j) f)
    attw := fun i j => Real.exp (-(g.att (g.wall j) f) * g.dist i j) }

/-- what the loop nest iterates over for receiver patch `j`: wall by wall (`others` = `self.other_wall_ids`), the patches of that wall
    as (centre, order-`k` histogram of the model, form factor towards `j`) -/
noncomputable def KangGeom.wallsOf (g : KangGeom) (f k j : Nat) (others : List Nat) :
    List (List ((Nat → ℝ) × (Nat → ℝ) × ℝ)) :=
  others.map fun w => ((List.range g.P).filter fun i => g.wall i = w).map fun i =>
    (g.center i, (fun t => orderH (g.scene f).toEx k i 0 t), g.ff i j)

theorem sum_filter_range_aux (P : Nat) (p : Nat → Prop) [DecidablePred p] (G : Nat → ℝ) :
    (((List.range P).filter (fun i => decide (p i))).map G).sum = ∑ i ∈ range P, if p i then G i else 0 := by
  induction P with
  | zero => simp
  | succ n ih =>
    rw [List.range_succ, List.filter_append, List.map_append, List.sum_append, ih, Finset.sum_range_succ]
    by_cases h : p n <;> simp [h]

theorem sum_blocks_aux (P : Nat) (wall : Nat → Nat) (G : Nat → ℝ) (others : List Nat) (hnd : others.Nodup) :
    (others.map fun w => (((List.range P).filter (fun i => decide (wall i = w))).map G).sum).sum =
      ∑ i ∈ range P, if wall i ∈ others then G i else 0 := by
  have h1 : ∀ w, (((List.range P).filter (fun i => decide (wall i = w))).map G).sum =
      ∑ i ∈ range P, if wall i = w then G i else 0 := fun w => sum_filter_range_aux P (fun i => wall i = w) G
  simp only [h1]
  rw [← List.sum_toFinset _ hnd, Finset.sum_comm]
  apply Finset.sum_congr rfl
  intro i _
  rw [Finset.sum_ite_eq]
  simp

/-- **refinement**: the regenerated loop nest, started from a zero cell, computes the model's next order -/
theorem exchangeCell_refines_order (g : KangGeom) (f k j t : Nat) (others : List Nat)
    (hj : j < g.P) (ht : t < g.S) (hnd : others.Nodup)
    (hmem : ∀ w, w ∈ others ↔ w < g.W ∧ w ≠ g.wall j) (hwall : ∀ i, i < g.P → g.wall i < g.W)
    (hbins : ∀ i, i < g.P → g.wall i ≠ g.wall j → binKang (g.dist i j) g.c g.fs ≤ g.S) :
    exchangeCell 0 (g.center j) g.c g.fs g.S (g.wallsOf f k j others) (g.absorption (g.wall j)) (g.scattering (g.wall j))
        (g.att (g.wall j)) f t =
      some (orderH (g.scene f).toEx (k + 1) j 0 t) := by
  have hd : ∀ w ∈ g.wallsOf f k j others, ∀ p ∈ w,
      binKang (Vec3.norm (Vec3.sub (Vec3.ofFn (g.center j)) (Vec3.ofFn p.1))) g.c g.fs ≤ g.S := by
    intro w hw p hp
    unfold KangGeom.wallsOf at hw
    obtain ⟨w0, hw0, rfl⟩ := List.mem_map.mp hw
    obtain ⟨i, hi, rfl⟩ := List.mem_map.mp hp
    rw [List.mem_filter, List.mem_range] at hi
    have hwi : g.wall i = w0 := by simpa using hi.2
    have := ((hmem w0).mp hw0).2
    exact hbins i hi.1 (by rw [hwi]; exact this)
  rw [exchangeCell_eq 0 (g.center j) g.c g.fs g.S _ _ _ _ f t ht hd, zero_add]
  congr 1
  have hrec := kang_order_recursion (g.scene f) k j t hj ht
  rw [hrec]
  set G : Nat → ℝ := fun i => kangTerm (g.center j) g.c g.fs (g.absorption (g.wall j)) (g.scattering (g.wall j))
    (g.att (g.wall j)) f t (g.center i, (fun t => orderH (g.scene f).toEx k i 0 t), g.ff i j) with hG
  have hflat : ((g.wallsOf f k j others).flatten.map (kangTerm (g.center j) g.c g.fs (g.absorption (g.wall j))
      (g.scattering (g.wall j)) (g.att (g.wall j)) f t)).sum =
      (others.map fun w => (((List.range g.P).filter (fun i => decide (g.wall i = w))).map G).sum).sum := by
    rw [List.map_flatten, List.sum_flatten]
    unfold KangGeom.wallsOf
    simp only [List.map_map]
    congr 1
    apply List.map_congr_left
    intro w _
    simp only [Function.comp_apply, List.map_map, hG]
    rfl
  rw [hflat, sum_blocks_aux g.P g.wall G others hnd]
  apply Finset.sum_congr rfl
  intro i hi
  have hiP := Finset.mem_range.mp hi
  have hmi : g.wall i ∈ others ↔ g.wall i ≠ g.wall j := by
    rw [hmem]; exact ⟨fun h => h.2, fun h => ⟨hwall i hiP, h⟩⟩
  show (if g.wall i ∈ others then G i else 0) =
    if g.wall i ≠ g.wall j ∧ binKang (g.dist i j) g.c g.fs ≤ t then _ else 0
  by_cases hw : g.wall i ≠ g.wall j
  · rw [if_pos (hmi.mpr hw)]
    simp only [hG, kangTerm, KangGeom.scene, KangGeom.dist, hw, ne_eq, not_false_eq_true, true_and]
  · rw [if_neg (fun h => hw (hmi.mp h)), if_neg (fun h => hw h.1)]

/-- the result does not depend on the order in which the other walls are listed -/
theorem exchangeCell_order_of_walls (g : KangGeom) (f k j t : Nat) (others others' : List Nat)
    (hj : j < g.P) (ht : t < g.S) (hnd : others.Nodup) (hnd' : others'.Nodup)
    (hmem : ∀ w, w ∈ others ↔ w < g.W ∧ w ≠ g.wall j) (hmem' : ∀ w, w ∈ others' ↔ w < g.W ∧ w ≠ g.wall j)
    (hwall : ∀ i, i < g.P → g.wall i < g.W)
    (hbins : ∀ i, i < g.P → g.wall i ≠ g.wall j → binKang (g.dist i j) g.c g.fs ≤ g.S) :
    exchangeCell 0 (g.center j) g.c g.fs g.S (g.wallsOf f k j others) (g.absorption (g.wall j)) (g.scattering (g.wall j))
        (g.att (g.wall j)) f t =
      exchangeCell 0 (g.center j) g.c g.fs g.S (g.wallsOf f k j others') (g.absorption (g.wall j)) (g.scattering (g.wall j))
        (g.att (g.wall j)) f t := by
  rw [exchangeCell_refines_order g f k j t others hj ht hnd hmem hwall hbins,
    exchangeCell_refines_order g f k j t others' hj ht hnd' hmem' hwall hbins]

end Sparrow
