import Sparrow.Model.Hist
import Mathlib.Data.List.GetD
import Mathlib.Data.List.Rotate

namespace Sparrow

variable {α : Type}

theorem lookup3_tabulate3 [Zero α] (P D S : Nat) (f : Nat → Nat → Nat → α) (j d t : Nat) :
    lookup3 (tabulate3 P D S f) j d t = if j < P ∧ d < D ∧ t < S then f j d t else 0 := by
  unfold lookup3 tabulate3
  by_cases hj : j < P <;> by_cases hd : d < D <;> by_cases ht : t < S <;>
    simp [Array.getD, hj, hd, ht]

theorem lookup2_tabulate2 [Zero α] (P S : Nat) (f : Nat → Nat → α) (j t : Nat) :
    lookup2 (tabulate2 P S f) j t = if j < P ∧ t < S then f j t else 0 := by
  unfold lookup2 tabulate2
  by_cases hj : j < P <;> by_cases ht : t < S <;>
    simp [Array.getD, hj, ht]

@[simp] theorem length_shiftTrunc [Zero α] (n : Nat) (h : List α) :
    (shiftTrunc n h).length = h.length := by
  simp [shiftTrunc]

/-- The defining property of the truncating delay: bin `t` of the delayed histogram is
    bin `t - n` of the original when `n ≤ t` (and `t` exists), and `0` otherwise. -/
theorem getD_shiftTrunc [Zero α] (n : Nat) (h : List α) (t : Nat) :
    (shiftTrunc n h).getD t 0 = if n ≤ t ∧ t < h.length then h.getD (t - n) 0 else 0 := by
  unfold shiftTrunc
  by_cases ht : t < h.length
  · rw [List.getD_eq_getElem?_getD, List.getElem?_take_of_lt ht]
    by_cases hn : n ≤ t
    · simp [hn, ht, List.getElem?_append_right, List.getD_eq_getElem?_getD]
    · have : t < n := Nat.lt_of_not_le hn
      simp [hn, List.getElem?_append_left, this]
  · have : (List.take h.length (List.replicate n 0 ++ h)).length ≤ t := by
      simp; omega
    rw [List.getD_eq_default _ _ this]
    simp [ht]

@[simp] theorem length_roll (n : Nat) (h : List α) : (roll n h).length = h.length := by
  simp only [roll]
  split
  · rfl
  · simp only [List.rotateRight]
    split
    · rfl
    · simp

end Sparrow
