import Sparrow.Generated.PolygonFn
import Sparrow.Model.Visibility
import Sparrow.Model.Kang
import Sparrow.Proofs.RealInst
import Sparrow.Proofs.VisibilityFnEquiv
import Sparrow.Proofs.PointFactorEquiv
import Mathlib.Tactic.Ring
import Mathlib.Tactic.NormNum
import Mathlib.Tactic.IntervalCases
/-
  The membership test of the line-of-sight scan as REGENERATED from `/repo` on every run (`Generated/PolygonFn.lean`:
  `_matrix_vector_product`, `_rotation_matrix`, `_point_in_polygon`, recognised statement by statement) computes the hand-written
  model (`Model/Visibility.lean`: `rotationToZ`, `Mat3.mulVec`, `pointInPolygon`).  With it the opaque `point_in_polygon` of the
  translated `_basic_visibility` is instantiated by regenerated text, so the whole scan `_check_patch2patch_visibility` /
  `_check_point2patch_visibility` down to the arithmetic is text rebuilt from the source and proved equal to `visibleThroughAll`.
-/
namespace Sparrow
open Sparrow.Generated.PolygonFn Sparrow.Generated.VisibilityFn

/-- entry `(r, c)` of a `Mat3` -/
def Mat3.entry {α : Type} (m : Mat3 α) (r c : Nat) : α :=
  Vec3.get (if r = 0 then m.r0 else if r = 1 then m.r1 else m.r2) c

/-- the equality counter of `_rotation_matrix` reaches 3 iff all three coordinates agree -/
theorem counter3 (p0 p1 p2 : Prop) [Decidable p0] [Decidable p1] [Decidable p2] :
    ((if p2 then (if p1 then (if p0 then 0 + 1 else 0) + 1 else (if p0 then 0 + 1 else 0)) + 1
      else (if p1 then (if p0 then 0 + 1 else 0) + 1 else (if p0 then 0 + 1 else 0))) = 3) ↔ (p0 ∧ p1 ∧ p2) := by
  by_cases h0 : p0 <;> by_cases h1 : p1 <;> by_cases h2 : p2 <;> simp [h0, h1, h2]

/-- `_rotation_matrix(n_in)` (recognised) = `rotationToZ`, entry by entry -/
theorem rotationMatrixT_eq (n : Nat → ℝ) (r c : Nat) (hr : r < 3) (hc : c < 3) :
    rotationMatrixT n r c = (rotationToZ (Vec3.ofFn n)).entry r c := by
  unfold rotationMatrixT rotationToZ
  simp only [List.range_succ, List.range_zero, List.nil_append, List.cons_append, List.foldl_cons, List.foldl_nil, counter3]
  simp only [Nat.cast_one, if_true, OfNat.zero_ne_ofNat, OfNat.one_ne_ofNat, if_false, mul_zero, mul_one, zero_mul, add_zero, zero_add, sub_zero, zero_sub, Real.sqrt_one, div_one, transc_sqrt_real,
    Vec3.normalize, Vec3.dot, Vec3.cross, Vec3.norm, Vec3.sdiv, Vec3.ofFn, feq, reduceCtorEq, zero_ne_one, one_ne_zero]
  have h21 : ¬ ((2:ℕ) = 1) := by decide
  simp only [h21, if_false, mul_zero, add_zero, neg_zero, Bool.and_eq_true, and_assoc]
  generalize √(n 0 * n 0 + n 1 * n 1 + n 2 * n 2) = N
  generalize n 0 / N = a0
  generalize n 1 / N = a1
  generalize n 2 / N = a2
  generalize √(a1 * a1 + -a0 * -a0) = S
  split_ifs with h1 h2 h3
  · interval_cases r <;> interval_cases c <;> simp [Mat3.entry, Vec3.get, Mat3.id]
  · interval_cases r <;> interval_cases c <;> simp [Mat3.entry, Vec3.get, Mat3.id]
  · interval_cases r <;> interval_cases c <;> simp [Mat3.entry, Vec3.get]
  · interval_cases r <;> interval_cases c <;> simp [Mat3.entry, Vec3.get]

/-- `_matrix_vector_product(_rotation_matrix(n), v)` = `(rotationToZ n).mulVec v` -/
theorem matrixVectorProduct_eq (n v : Nat → ℝ) :
    Vec3.ofFn (matrixVectorProduct (rotationMatrixT n) v) = (rotationToZ (Vec3.ofFn n)).mulVec (Vec3.ofFn v) := by
  unfold matrixVectorProduct Mat3.mulVec
  simp only [Vec3.ofFn, Vec3.dot]
  rw [rotationMatrixT_eq n 0 0, rotationMatrixT_eq n 0 1, rotationMatrixT_eq n 0 2,
    rotationMatrixT_eq n 1 0, rotationMatrixT_eq n 1 1, rotationMatrixT_eq n 1 2,
    rotationMatrixT_eq n 2 0, rotationMatrixT_eq n 2 1, rotationMatrixT_eq n 2 2] <;> try omega
  simp [Mat3.entry, Vec3.get, Vec3.ofFn]

/-- the winding increment of one polygon side, additive form -/
theorem ite_count (A B C D : Prop) [Decidable A] [Decidable B] [Decidable C] [Decidable D] (count : ℤ) :
    (if A then if B then if C then count + 1 else if D then count - 1 else count else count else count) =
      count + (if A then if B then if C then 1 else if D then -1 else 0 else 0 else 0) := by
  split_ifs <;> simp [sub_eq_add_neg]

/-- one step of the side loop of `_point_in_polygon` = `count + windingSide` (third coordinates padded with 0) -/
theorem windingBody_eq (thr eta : ℝ) (pt a0 a1 : Nat → ℝ) (hp : pt 2 = 0) (h1 : a1 2 = 0) (count : Int) :
    (let side : Nat → ℝ := fun q_ => a1 q_ - a0 q_
      let norm_side : ℝ := Transc.sqrt (side 0 * side 0 + side 1 * side 1)
      let nl : Nat → ℝ := fun q_ => if q_ = 0 then -(side 1) / norm_side else if q_ = 1 then side 0 / norm_side else 0
      let b : Option (Nat → ℝ) := projectToPlaneT thr pt (fun q_ => pt q_ + (if q_ = 0 then ((1 : Nat) : ℝ) else 0)) a1 nl eta
      match b with
      | none => count
      | some b =>
        if Cmp.lt (pt 0) (b 0) = true then
          if Cmp.le (Cmp.abs (Transc.sqrt ((b 0 - a0 0) * (b 0 - a0 0) + (b 1 - a0 1) * (b 1 - a0 1)) +
              Transc.sqrt ((b 0 - a1 0) * (b 0 - a1 0) + (b 1 - a1 1) * (b 1 - a1 1)) -
              Transc.sqrt ((a1 0 - a0 0) * (a1 0 - a0 0) + (a1 1 - a0 1) * (a1 1 - a0 1)))) eta = true then
            if Cmp.lt 0 ((b 0 - pt 0) * nl 0 + (b 1 - pt 1) * nl 1) = true then count + 1
            else if Cmp.lt ((b 0 - pt 0) * nl 0 + (b 1 - pt 1) * nl 1) 0 = true then count - 1
            else count
          else count
        else count) = count + windingSide eta ⟨pt 0, pt 1⟩ ⟨a0 0, a0 1⟩ ⟨a1 0, a1 1⟩ := by
  unfold windingSide projectToLine2 projectToPlaneT
  have e20 : ¬ ((2:ℕ) = 0) := by decide
  have e21 : ¬ ((2:ℕ) = 1) := by decide
  have e10 : ¬ ((1:ℕ) = 0) := by decide
  have e01 : ¬ ((0:ℕ) = 1) := by decide
  simp only [Vec2.sub, Vec2.add, Vec2.dot, Vec2.smul, Vec2.norm, hp, h1, e20, e21, e10, e01, if_true, if_false,
    Nat.cast_one, add_zero, mul_zero, zero_mul, sub_self]
  by_cases h : Cmp.lt eta (Cmp.abs ((pt 0 + 1 - pt 0) *
      (-(a1 1 - a0 1) / sqrt ((a1 0 - a0 0) * (a1 0 - a0 0) + (a1 1 - a0 1) * (a1 1 - a0 1))))) = true
  · simp only [h, if_true, e10, if_false, add_zero, sub_self, mul_zero]
    exact ite_count _ _ _ _ _
  · simp only [h, Bool.false_eq_true, if_false, add_zero]

/-- **`_point_in_polygon` (recognised) = the model's winding-number test** -/
theorem pointInPolygonT_eq (thr eta : ℝ) (p : Nat → ℝ) (poly : Nat → Nat → ℝ) (n : Nat) (normal : Nat → ℝ) :
    pointInPolygonT thr p poly n normal eta eta =
      pointInPolygon eta (Vec3.ofFn p) (ptsOf poly) n (Vec3.ofFn normal) := by
  unfold pointInPolygonT pointInPolygon
  have hcop : Vec3.dot (Vec3.sub (Vec3.ofFn p) (ptsOf poly 0)) (Vec3.ofFn normal) =
      (p 0 - poly 0 0) * normal 0 + (p 1 - poly 0 1) * normal 1 + (p 2 - poly 0 2) * normal 2 := rfl
  rw [hcop]
  split_ifs with hc
  · rfl
  · have hx : ∀ v : Nat → ℝ, ((rotationToZ (Vec3.ofFn normal)).mulVec (Vec3.ofFn v)).x =
        matrixVectorProduct (rotationMatrixT normal) v 0 := fun v =>
      (congrArg Vec3.x (matrixVectorProduct_eq normal v)).symm
    have hy : ∀ v : Nat → ℝ, ((rotationToZ (Vec3.ofFn normal)).mulVec (Vec3.ofFn v)).y =
        matrixVectorProduct (rotationMatrixT normal) v 1 := fun v =>
      (congrArg Vec3.y (matrixVectorProduct_eq normal v)).symm
    have hpts : ∀ i, ptsOf poly i = Vec3.ofFn (fun k => poly i k) := fun i => rfl
    have hfold : ∀ (f g : Int → Nat → Int), (∀ st i, i < n → f st i = g st i) →
        ((if (List.range n).foldl f 0 != 0 then true else false) = ((List.range n).foldl g 0 != 0)) := by
      intro f g h
      rw [pf_foldl_congr f g n 0 h]
      generalize ((List.range n).foldl g 0 != 0) = b
      cases b <;> rfl
    apply hfold
    intro count i hi
    rw [Nat.mod_eq_of_lt hi]
    refine Eq.trans ?_ ((windingBody_eq thr eta
      (fun q_ => if q_ < 2 then matrixVectorProduct (rotationMatrixT normal) p q_ else 0)
      (fun q_ => if q_ < 2 then matrixVectorProduct (rotationMatrixT normal) (fun k_ => poly i k_) q_ else 0)
      (fun q_ => if q_ < 2 then matrixVectorProduct (rotationMatrixT normal) (fun k_ => poly ((i + 1) % n) k_) q_ else 0)
      rfl rfl count).trans ?_)
    · dsimp only
      split <;> rename_i heq <;> rw [heq]
    simp only [hpts, hx, hy]
    rfl

/-- the regenerated membership test reads only the three coordinates of its point -/
theorem pointInPolygonT_ext (thr eta : ℝ) (poly : Nat → Nat → ℝ) (n : Nat) (normal f g : Nat → ℝ)
    (h0 : f 0 = g 0) (h1 : f 1 = g 1) (h2 : f 2 = g 2) :
    pointInPolygonT thr f poly n normal eta eta = pointInPolygonT thr g poly n normal eta eta := by
  rw [pointInPolygonT_eq, pointInPolygonT_eq]
  have : Vec3.ofFn f = Vec3.ofFn g := by unfold Vec3.ofFn; rw [h0, h1, h2]
  rw [this]

theorem ofFn_get (v : Vec3 ℝ) : Vec3.ofFn (fun q => Vec3.get v q) = v := by
  cases v; simp [Vec3.ofFn, Vec3.get]

/-- **`_basic_visibility` with the regenerated membership test = the model's `basicVisibility`** -/
theorem basicVisibilityT_full_eq (thr eta : ℝ) (a b : Nat → ℝ) (sp : Nat → Nat → ℝ) (nsp : Nat) (normal : Nat → ℝ) :
    basicVisibilityT thr (fun x => pointInPolygonT thr x sp nsp normal eta eta) a b sp nsp normal eta eta =
      basicVisibility eta (Vec3.ofFn a) (Vec3.ofFn b) (ptsOf sp) nsp (Vec3.ofFn normal) := by
  rw [basicVisibilityT_eq thr eta (fun x => pointInPolygonT thr x sp nsp normal eta eta) a b sp nsp normal
    (fun f g h0 h1 h2 => pointInPolygonT_ext thr eta sp nsp normal f g h0 h1 h2)]
  unfold basicVisibility
  have hpip : (fun v : Vec3 ℝ => pointInPolygonT thr (fun q => Vec3.get v q) sp nsp normal eta eta) =
      (fun q => pointInPolygon eta q (ptsOf sp) nsp (Vec3.ofFn normal)) := by
    funext v
    rw [pointInPolygonT_eq, ofFn_get]
  rw [hpip]
  rfl

/-- **the whole patch-to-patch scan, regenerated down to the arithmetic, = the model's `visibleThroughAll`** on the upper triangle -/
theorem checkPatch2PatchVisibility_full_eq (thr eta : ℝ) (pc : Nat → Nat → ℝ) (sp : Nat → Nat → Nat → ℝ) (nsp : Nat)
    (normals : Nat → Nat → ℝ) (nS i j : Nat) :
    checkPatch2PatchVisibility (fun a b s => basicVisibilityT thr (fun x => pointInPolygonT thr x (fun k q => sp s k q) nsp
        (fun q => normals s q) eta eta) a b (fun k q => sp s k q) nsp (fun q => normals s q) eta eta) pc nS i j =
      (decide (i < j) && visibleThroughAll eta (Vec3.ofFn (fun q => pc i q)) (Vec3.ofFn (fun q => pc j q)) nS
        (fun s => ptsOf (fun k q => sp s k q)) nsp (fun s => Vec3.ofFn (fun q => normals s q))) := by
  unfold checkPatch2PatchVisibility visibleThroughAll
  by_cases h : i < j
  · simp only [h, if_true, decide_true, Bool.true_and]
    congr 1
    funext s
    exact basicVisibilityT_full_eq thr eta _ _ _ nsp _
  · simp [h]

/-- **the whole point-to-patches scan = `visibleThroughAll`** -/
theorem checkPoint2PatchVisibility_full_eq (thr eta : ℝ) (x : Nat → ℝ) (pc : Nat → Nat → ℝ) (sp : Nat → Nat → Nat → ℝ) (nsp : Nat)
    (normals : Nat → Nat → ℝ) (nS i : Nat) :
    checkPoint2PatchVisibility (fun a b s => basicVisibilityT thr (fun x => pointInPolygonT thr x (fun k q => sp s k q) nsp
        (fun q => normals s q) eta eta) a b (fun k q => sp s k q) nsp (fun q => normals s q) eta eta) x pc nS i =
      visibleThroughAll eta (Vec3.ofFn x) (Vec3.ofFn (fun q => pc i q)) nS
        (fun s => ptsOf (fun k q => sp s k q)) nsp (fun s => Vec3.ofFn (fun q => normals s q)) := by
  unfold checkPoint2PatchVisibility visibleThroughAll
  congr 1
  funext s
  exact basicVisibilityT_full_eq thr eta _ _ _ nsp _
end Sparrow
