import Sparrow.Model.Bake
import Sparrow.Proofs.RealInst
import Sparrow.Proofs.Mono

namespace Sparrow

/-- Distance between the centres of patches `i` and `j` (un-normalised). -/
noncomputable def BakeScene.dist (sc : BakeScene ℝ) (i j : Nat) : ℝ :=
  Vec3.norm (Vec3.sub (sc.center i) (sc.center j))

theorem BakeScene.fft_eq (sc : BakeScene ℝ) (i j d : Nat) (hv : sc.visSym i j = true)
    (ht : sc.hasTable = true) (m : ℝ) (ha : sc.att = some m) :
    sc.fft i j d = sc.ffPrime i j * Real.exp (-m * sc.dist i j) *
      sc.table (sc.tableIdx (sc.wall j)) (sc.inIdx i j) d := by
  unfold BakeScene.fft BakeScene.dist
  simp [hv, ht, ha]

theorem BakeScene.fft_invisible (sc : BakeScene ℝ) (i j d : Nat) (hv : sc.visSym i j = false) :
    sc.fft i j d = 0 := by
  unfold BakeScene.fft
  simp [hv]

/-- the same scene with another attenuation coefficient -/
def BakeScene.withAtt {α : Type} (sc : BakeScene α) (a : Option α) : BakeScene α := { sc with att := a }

theorem BakeScene.fft_att (sc : BakeScene ℝ) (i j d : Nat) (m : ℝ) :
    (sc.withAtt (some m)).fft i j d =
      (sc.withAtt none).fft i j d * (if sc.visSym i j then Real.exp (-m * sc.dist i j) else 1) := by
  unfold BakeScene.fft BakeScene.withAtt BakeScene.dist BakeScene.visSym BakeScene.ffPrime BakeScene.inIdx
  by_cases hv : (if i < j then sc.vis i j else sc.vis j i) = true
  · by_cases ht : sc.hasTable = true
    · simp only [hv, ht, if_true, transc_exp_real]; ring
    · simp only [hv, ht, if_true]; simp
  · simp [hv]

end Sparrow
