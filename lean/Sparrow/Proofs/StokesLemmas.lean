import Sparrow.Model.Stokes
import Sparrow.Model.Bake
import Sparrow.Proofs.FrameLemmas
import Sparrow.Proofs.RealInst
import Mathlib.Algebra.BigOperators.Group.Finset.Basic
import Mathlib.Tactic.Ring
import Mathlib.Tactic.Linarith
import Mathlib.Tactic.FieldSimp
import Mathlib.Tactic.IntervalCases
import Mathlib.Tactic.NormNum
import Mathlib.Algebra.BigOperators.Ring.Finset
import Mathlib.Algebra.Order.BigOperators.Group.Finset

namespace Sparrow
open Vec3

/-! ### Boole's rule -/

/-- Boole's rule with five equispaced nodes `a, a+h, …, a+4h` integrates every monomial of degree
    `≤ 5` exactly: the result is `((a+4h)^(k+1) - a^(k+1)) / (k+1)`. -/
theorem boole_exact_deg5 (a h : ℝ) (k : Nat) (hk : k ≤ 5) :
    boole (fun i => a + (i : ℝ) * h) (fun i => (a + (i : ℝ) * h) ^ k) =
      ((a + 4 * h) ^ (k + 1) - a ^ (k + 1)) / ((k : ℝ) + 1) := by
  interval_cases k <;> simp [boole] <;> field_simp <;> ring

/-- … hence (by linearity) a constant `c` over a segment of extent `4h` integrates to `4h·c`. -/
theorem boole_const (x : Nat → ℝ) (c : ℝ) (hx : ∀ i, x i = x 0 + (i : ℝ) * (x 1 - x 0)) :
    boole x (fun _ => c) = (x 4 - x 0) * c := by
  have h4 := hx 4
  simp only [boole]
  rw [h4]
  push_cast
  ring

theorem boole_linear (x y z : Nat → ℝ) (c : ℝ) :
    boole x (fun i => y i + c * z i) = boole x y + c * boole x z := by
  unfold boole
  ring

/-! ### boundary sampling -/

/-- sample `4a + ii` of the contour is the point `el a + (ii/4)·(el (a+1) - el a)` of edge `a`;
    the last index of every connectivity row is the first of the next (closed contour). -/
theorem boundary_sampling (el : Nat → Vec3 ℝ) (n a ii : Nat) (ha : a < n) (hii : ii < 4) :
    bpoint el n (4 * a + ii) = add (el a) (smul ((ii : ℝ) / 4) (sub (el ((a + 1) % n)) (el a))) ∧
    conn n a 4 = conn n ((a + 1) % n) 0 := by
  constructor
  · have h1 : (4 * a + ii) / 4 = a := by omega
    have h2 : (4 * a + ii) % 4 = ii := by omega
    simp only [bpoint, h1, h2]
    refine Vec3.ext' ?_ ?_ ?_ <;> simp [add, smul, sdiv, sub] <;> ring
  · unfold conn
    rcases Nat.lt_or_ge (a + 1) n with h | h
    · rw [Nat.mod_eq_of_lt h]
      congr 1
    · have : a + 1 = n := by omega
      subst this
      have : 4 * a + 4 = 4 * (a + 1) := by ring
      rw [this]
      simp

/-! ### the contour integrator -/

theorem stokes_nonneg (cut : ℝ) (pi pj : Nat → Vec3 ℝ) (ni nj : Nat) (areaI : ℝ) :
    0 ≤ stokesFF cut pi pj ni nj areaI := by
  unfold stokesFF
  simp only [cmp_abs_real]
  exact abs_nonneg _

/-! ### sum form of the contour sums (helpers) -/

theorem foldl_range_ite (n : Nat) (c : Nat → Bool) (f : Nat → ℝ) (z : ℝ) :
    (List.range n).foldl (fun acc b => if c b then acc + f b else acc) z =
      z + ∑ b ∈ Finset.range n, (if c b then f b else 0) := by
  induction n generalizing z with
  | zero => simp
  | succ n ih =>
    rw [List.range_succ, List.foldl_append, ih, Finset.sum_range_succ]
    simp only [List.foldl_cons, List.foldl_nil]
    by_cases h : c n = true <;> simp [h]; ring

theorem foldl_range_add (n : Nat) (f : Nat → ℝ) (z : ℝ) :
    (List.range n).foldl (fun acc b => acc + f b) z = z + ∑ b ∈ Finset.range n, f b := by
  induction n generalizing z with
  | zero => simp
  | succ n ih =>
    rw [List.range_succ, List.foldl_append, ih, Finset.sum_range_succ]
    simp only [List.foldl_cons, List.foldl_nil]
    ring

/-- the Boole weight functional -/
def W5 (y : Nat → ℝ) : ℝ := 7 * y 0 + 32 * y 1 + 12 * y 2 + 32 * y 3 + 7 * y 4

/-- weight of one edge: `2h/45` if the extent exceeds the cut-off, else `0` -/
noncomputable def edgeW (cut : ℝ) (x : Nat → ℝ) : ℝ :=
  if cut < |x 4 - x 0| then 2 * (x 1 - x 0) / 45 else 0

theorem boole_eq (x y : Nat → ℝ) : boole x y = 2 * (x 1 - x 0) / 45 * W5 y := by
  simp only [boole, W5]
  push_cast
  ring

theorem W5_sum {ι : Type} (s : Finset ι) (g : ι → Nat → ℝ) :
    W5 (fun k => ∑ b ∈ s, g b k) = ∑ b ∈ s, W5 (g b) := by
  simp only [W5, Finset.mul_sum, Finset.sum_add_distrib]

theorem W5_smul (c : ℝ) (g : Nat → ℝ) : W5 (fun k => c * g k) = c * W5 g := by
  simp only [W5]
  ring

theorem W5_comm (f : Nat → Nat → ℝ) :
    W5 (fun k => W5 (fun l => f k l)) = W5 (fun l => W5 (fun k => f k l)) := by
  simp only [W5]
  ring

noncomputable def G (cut : ℝ) (el : Nat → Vec3 ℝ) (n a dim : Nat) : ℝ :=
  edgeW cut (fun k => bcoord el n (conn n a k) dim)

noncomputable def WW (pi pj : Nat → Vec3 ℝ) (ni nj a b : Nat) : ℝ :=
  W5 (fun k => W5 (fun l => formEntry pi pj ni nj (conn ni a k) (conn nj b l)))

theorem stokesInner_eq (cut : ℝ) (pi pj : Nat → Vec3 ℝ) (ni nj i dim : Nat) :
    stokesInner cut pi pj ni nj i dim =
      ∑ b ∈ Finset.range nj, G cut pj nj b dim * W5 (fun l => formEntry pi pj ni nj i (conn nj b l)) := by
  unfold stokesInner
  refine (foldl_range_ite nj _ _ 0).trans ?_
  rw [zero_add]
  refine Finset.sum_congr rfl fun b _ => ?_
  simp only [cmp_lt_real, cmp_abs_real, decide_eq_true_eq, boole_eq, G, edgeW, ite_mul, zero_mul]

theorem stokesOuter_eq (cut : ℝ) (pi pj : Nat → Vec3 ℝ) (ni nj : Nat) :
    stokesOuter cut pi pj ni nj =
      ∑ dim ∈ Finset.range 3, ∑ a ∈ Finset.range ni, ∑ b ∈ Finset.range nj,
        G cut pi ni a dim * G cut pj nj b dim * WW pi pj ni nj a b := by
  unfold stokesOuter
  simp only [foldl_range_ite, foldl_range_add, zero_add]
  refine Finset.sum_congr rfl fun dim _ => Finset.sum_congr rfl fun a _ => ?_
  simp only [cmp_lt_real, cmp_abs_real, decide_eq_true_eq, boole_eq, stokesInner_eq, W5_sum, W5_smul]
  simp only [mul_assoc, ← Finset.mul_sum]
  simp only [G, edgeW, WW, ite_mul, zero_mul]

theorem norm_sub_comm' (p q : Vec3 ℝ) : Vec3.norm (sub p q) = Vec3.norm (sub q p) := by
  unfold Vec3.norm dot sub
  simp only [transc_sqrt_real]
  congr 1
  ring

theorem formEntry_symm (pi pj : Nat → Vec3 ℝ) (ni nj i j : Nat) :
    formEntry pi pj ni nj i j = formEntry pj pi nj ni j i := by
  unfold formEntry
  rw [norm_sub_comm']

theorem WW_symm (pi pj : Nat → Vec3 ℝ) (ni nj a b : Nat) :
    WW pi pj ni nj a b = WW pj pi nj ni b a := by
  unfold WW
  rw [W5_comm]
  simp only [formEntry_symm pi pj]

/-- **Reciprocity of the discrete contour sum**: integrating either patch of a pair first gives
    the same double sum, so `A_i·F_ij = A_j·F_ji` in exact arithmetic. -/
theorem stokes_outer_symm (cut : ℝ) (pi pj : Nat → Vec3 ℝ) (ni nj : Nat) :
    stokesOuter cut pi pj ni nj = stokesOuter cut pj pi nj ni := by
  rw [stokesOuter_eq, stokesOuter_eq]
  refine Finset.sum_congr rfl fun dim _ => ?_
  rw [Finset.sum_comm]
  refine Finset.sum_congr rfl fun b _ => Finset.sum_congr rfl fun a _ => ?_
  rw [WW_symm pi pj]
  ring

theorem stokes_reciprocity (cut : ℝ) (pi pj : Nat → Vec3 ℝ) (ni nj : Nat) (ai aj : ℝ) (hi : 0 < ai) (hj : 0 < aj) :
    ai * stokesFF cut pi pj ni nj ai = aj * stokesFF cut pj pi nj ni aj := by
  unfold stokesFF
  rw [stokes_outer_symm cut pj pi nj ni]
  have hpi := Real.pi_pos
  simp only [cmp_abs_real, transc_pi_real, Nat.cast_ofNat, abs_div, abs_mul, abs_of_pos hi,
    abs_of_pos hj, abs_of_pos hpi, abs_two]
  field_simp

theorem bpoint_translate (el : Nat → Vec3 ℝ) (t : Vec3 ℝ) (n k : Nat) :
    bpoint (fun k => add (el k) t) n k = add (bpoint el n k) t := by
  refine Vec3.ext' ?_ ?_ ?_ <;> simp [bpoint, add, sub, smul, sdiv] <;> ring

theorem get_add (v t : Vec3 ℝ) (dim : Nat) : (add v t).get dim = v.get dim + t.get dim := by
  unfold Vec3.get add
  split_ifs <;> rfl

theorem G_translate (cut : ℝ) (el : Nat → Vec3 ℝ) (t : Vec3 ℝ) (n a dim : Nat) :
    G cut (fun k => add (el k) t) n a dim = G cut el n a dim := by
  unfold G edgeW bcoord
  simp only [bpoint_translate, get_add, add_sub_add_right_eq_sub]

theorem sub_add_add (p q t : Vec3 ℝ) : sub (add p t) (add q t) = sub p q := by
  refine Vec3.ext' ?_ ?_ ?_ <;> simp [add, sub]

theorem WW_translate (pi pj : Nat → Vec3 ℝ) (t : Vec3 ℝ) (ni nj a b : Nat) :
    WW (fun k => add (pi k) t) (fun k => add (pj k) t) ni nj a b = WW pi pj ni nj a b := by
  unfold WW formEntry
  simp only [bpoint_translate, sub_add_add]

/-- translation invariance -/
theorem stokes_translation (cut : ℝ) (pi pj : Nat → Vec3 ℝ) (ni nj : Nat) (areaI : ℝ) (t : Vec3 ℝ) :
    stokesFF cut (fun k => add (pi k) t) (fun k => add (pj k) t) ni nj areaI = stokesFF cut pi pj ni nj areaI := by
  unfold stokesFF
  rw [stokesOuter_eq, stokesOuter_eq]
  simp only [G_translate, WW_translate]

theorem bpoint_mirror (el : Nat → Vec3 ℝ) (n k : Nat) :
    bpoint (fun k => (⟨-(el k).x, (el k).y, (el k).z⟩ : Vec3 ℝ)) n k =
      ⟨-(bpoint el n k).x, (bpoint el n k).y, (bpoint el n k).z⟩ := by
  refine Vec3.ext' ?_ ?_ ?_ <;> simp [bpoint, add, sub, smul, sdiv]
  ring

theorem G_mirror (cut : ℝ) (el : Nat → Vec3 ℝ) (n a dim : Nat) :
    G cut (fun k => (⟨-(el k).x, (el k).y, (el k).z⟩ : Vec3 ℝ)) n a dim =
      (if dim = 0 then -1 else 1) * G cut el n a dim := by
  unfold G edgeW bcoord
  simp only [bpoint_mirror, Vec3.get]
  by_cases h : dim = 0
  · simp only [h, if_true]
    have : ∀ u v : ℝ, |-u - -v| = |u - v| := by
      intro u v
      rw [← abs_neg]
      congr 1
      ring
    rw [this]
    split_ifs <;> ring
  · simp only [h, if_false, one_mul]

theorem WW_mirror (pi pj : Nat → Vec3 ℝ) (ni nj a b : Nat) :
    WW (fun k => (⟨-(pi k).x, (pi k).y, (pi k).z⟩ : Vec3 ℝ))
       (fun k => (⟨-(pj k).x, (pj k).y, (pj k).z⟩ : Vec3 ℝ)) ni nj a b = WW pi pj ni nj a b := by
  unfold WW formEntry
  simp only [bpoint_mirror]
  have : ∀ p q : Vec3 ℝ, Vec3.norm (sub (⟨-p.x, p.y, p.z⟩ : Vec3 ℝ) ⟨-q.x, q.y, q.z⟩) = Vec3.norm (sub p q) := by
    intro p q
    unfold Vec3.norm dot sub
    simp only [transc_sqrt_real]
    congr 1
    ring
  simp only [this]

/-- mirroring a coordinate axis (here `x ↦ -x`; the other axes by the permutation lemma) -/
theorem stokes_mirror_x (cut : ℝ) (pi pj : Nat → Vec3 ℝ) (ni nj : Nat) (areaI : ℝ) :
    stokesFF cut (fun k => ⟨-(pi k).x, (pi k).y, (pi k).z⟩) (fun k => ⟨-(pj k).x, (pj k).y, (pj k).z⟩) ni nj areaI =
      stokesFF cut pi pj ni nj areaI := by
  unfold stokesFF
  rw [stokesOuter_eq, stokesOuter_eq]
  simp only [G_mirror, WW_mirror]
  congr 2
  refine Finset.sum_congr rfl fun dim _ => Finset.sum_congr rfl fun a _ =>
    Finset.sum_congr rfl fun b _ => ?_
  by_cases h : dim = 0 <;> simp [h]

theorem bpoint_cycle (el : Nat → Vec3 ℝ) (n k : Nat) :
    bpoint (fun k => (⟨(el k).z, (el k).x, (el k).y⟩ : Vec3 ℝ)) n k =
      ⟨(bpoint el n k).z, (bpoint el n k).x, (bpoint el n k).y⟩ := by
  refine Vec3.ext' ?_ ?_ ?_ <;> simp [bpoint, add, sub, smul, sdiv]

theorem G_cycle0 (cut : ℝ) (el : Nat → Vec3 ℝ) (n a : Nat) :
    G cut (fun k => (⟨(el k).z, (el k).x, (el k).y⟩ : Vec3 ℝ)) n a 0 = G cut el n a 2 := by
  unfold G edgeW bcoord
  simp [bpoint_cycle, Vec3.get]

theorem G_cycle1 (cut : ℝ) (el : Nat → Vec3 ℝ) (n a : Nat) :
    G cut (fun k => (⟨(el k).z, (el k).x, (el k).y⟩ : Vec3 ℝ)) n a 1 = G cut el n a 0 := by
  unfold G edgeW bcoord
  simp [bpoint_cycle, Vec3.get]

theorem G_cycle2 (cut : ℝ) (el : Nat → Vec3 ℝ) (n a : Nat) :
    G cut (fun k => (⟨(el k).z, (el k).x, (el k).y⟩ : Vec3 ℝ)) n a 2 = G cut el n a 1 := by
  unfold G edgeW bcoord
  simp [bpoint_cycle, Vec3.get]

theorem WW_cycle (pi pj : Nat → Vec3 ℝ) (ni nj a b : Nat) :
    WW (fun k => (⟨(pi k).z, (pi k).x, (pi k).y⟩ : Vec3 ℝ))
       (fun k => (⟨(pj k).z, (pj k).x, (pj k).y⟩ : Vec3 ℝ)) ni nj a b = WW pi pj ni nj a b := by
  unfold WW formEntry
  simp only [bpoint_cycle]
  have : ∀ p q : Vec3 ℝ, Vec3.norm (sub (⟨p.z, p.x, p.y⟩ : Vec3 ℝ) ⟨q.z, q.x, q.y⟩) = Vec3.norm (sub p q) := by
    intro p q
    unfold Vec3.norm dot sub
    simp only [transc_sqrt_real]
    congr 1
    ring
  simp only [this]

/-- permuting the coordinate axes cyclically -/
theorem stokes_axis_cycle (cut : ℝ) (pi pj : Nat → Vec3 ℝ) (ni nj : Nat) (areaI : ℝ) :
    stokesFF cut (fun k => ⟨(pi k).z, (pi k).x, (pi k).y⟩) (fun k => ⟨(pj k).z, (pj k).x, (pj k).y⟩) ni nj areaI =
      stokesFF cut pi pj ni nj areaI := by
  unfold stokesFF
  rw [stokesOuter_eq, stokesOuter_eq]
  simp only [Finset.sum_range_succ, Finset.sum_range_zero, zero_add, G_cycle0, G_cycle1, G_cycle2, WW_cycle]
  congr 2
  ring

theorem bpoint_swap (el : Nat → Vec3 ℝ) (n k : Nat) :
    bpoint (fun k => (⟨(el k).y, (el k).x, (el k).z⟩ : Vec3 ℝ)) n k =
      ⟨(bpoint el n k).y, (bpoint el n k).x, (bpoint el n k).z⟩ := by
  refine Vec3.ext' ?_ ?_ ?_ <;> simp [bpoint, add, sub, smul, sdiv]

theorem G_swap0 (cut : ℝ) (el : Nat → Vec3 ℝ) (n a : Nat) :
    G cut (fun k => (⟨(el k).y, (el k).x, (el k).z⟩ : Vec3 ℝ)) n a 0 = G cut el n a 1 := by
  unfold G edgeW bcoord
  simp [bpoint_swap, Vec3.get]

theorem G_swap1 (cut : ℝ) (el : Nat → Vec3 ℝ) (n a : Nat) :
    G cut (fun k => (⟨(el k).y, (el k).x, (el k).z⟩ : Vec3 ℝ)) n a 1 = G cut el n a 0 := by
  unfold G edgeW bcoord
  simp [bpoint_swap, Vec3.get]

theorem G_swap2 (cut : ℝ) (el : Nat → Vec3 ℝ) (n a : Nat) :
    G cut (fun k => (⟨(el k).y, (el k).x, (el k).z⟩ : Vec3 ℝ)) n a 2 = G cut el n a 2 := by
  unfold G edgeW bcoord
  simp [bpoint_swap, Vec3.get]

theorem WW_swap (pi pj : Nat → Vec3 ℝ) (ni nj a b : Nat) :
    WW (fun k => (⟨(pi k).y, (pi k).x, (pi k).z⟩ : Vec3 ℝ))
       (fun k => (⟨(pj k).y, (pj k).x, (pj k).z⟩ : Vec3 ℝ)) ni nj a b = WW pi pj ni nj a b := by
  unfold WW formEntry
  simp only [bpoint_swap]
  have : ∀ p q : Vec3 ℝ, Vec3.norm (sub (⟨p.y, p.x, p.z⟩ : Vec3 ℝ) ⟨q.y, q.x, q.z⟩) = Vec3.norm (sub p q) := by
    intro p q
    unfold Vec3.norm dot sub
    simp only [transc_sqrt_real]
    congr 1
    ring
  simp only [this]

/-- swapping two coordinate axes -/
theorem stokes_axis_swap (cut : ℝ) (pi pj : Nat → Vec3 ℝ) (ni nj : Nat) (areaI : ℝ) :
    stokesFF cut (fun k => ⟨(pi k).y, (pi k).x, (pi k).z⟩) (fun k => ⟨(pj k).y, (pj k).x, (pj k).z⟩) ni nj areaI =
      stokesFF cut pi pj ni nj areaI := by
  unfold stokesFF
  rw [stokesOuter_eq, stokesOuter_eq]
  simp only [Finset.sum_range_succ, Finset.sum_range_zero, zero_add, G_swap0, G_swap1, G_swap2, WW_swap]
  congr 2
  ring

/-! ### dispatch and the baked matrix -/

/-- the integrator is the Nusselt analogue exactly when some vertex pair is closer than the
    threshold, else the contour integral -/
theorem integrator_branch (thr : ℝ) (pi pj : Nat → Vec3 ℝ) (ni nj : Nat) :
    chooseIntegrator thr pi pj ni nj = .nusselt ↔
      ∃ i j, i < ni ∧ j < nj ∧ Vec3.norm (sub (pj j) (pi i)) < thr := by
  unfold chooseIntegrator coincide
  simp only [cmp_lt_real]
  split
  · rename_i h
    simp only [List.any_eq_true, List.mem_range, decide_eq_true_eq] at h
    obtain ⟨i, hi, j, hj, hlt⟩ := h
    simp only [true_iff]
    exact ⟨i, j, hi, hj, hlt⟩
  · rename_i h
    simp only [List.any_eq_true, List.mem_range, decide_eq_true_eq] at h
    constructor
    · intro h'; cases h'
    · rintro ⟨i, j, hi, hj, hlt⟩
      exact absurd ⟨i, hi, j, hj, hlt⟩ h

/-- pairs that are not listed as visible keep an exact zero -/
theorem ff_zero_invisible (visible : List (Nat × Nat)) (ff : Nat → Nat → ℝ) (i j : Nat)
    (h : (i, j) ∉ visible) : ffMatrix visible ff i j = 0 := by
  simp [ffMatrix, h]

/-- reciprocity of the form factors the exchange uses: `A_i·F'_ij = A_j·F'_ji` by construction -/
theorem ffPrime_reciprocity (sc : BakeScene ℝ) (i j : Nat) (hi : sc.area i ≠ 0) (hj : sc.area j ≠ 0) (hij : i ≠ j) :
    sc.area i * sc.ffPrime i j = sc.area j * sc.ffPrime j i := by
  unfold BakeScene.ffPrime
  rcases Nat.lt_or_gt_of_ne hij with h | h
  · have h' : ¬ j < i := by omega
    simp only [h, h', if_true, if_false]
    field_simp
  · have h' : ¬ i < j := by omega
    simp only [h, h', if_true, if_false]
    field_simp

end Sparrow
