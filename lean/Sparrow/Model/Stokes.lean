import Sparrow.Model.Vec
import Sparrow.Model.Kang
/-
  Model of the contour-integral form factor (form_factor/integration.py, universal.py):
  `_sample_boundary_regular(el, npoints=5)`, `load_stokes_entries`, `_newton_cotes_4th`
  (Boole's rule), `stokes_integration`, `geometry._coincidence_check`, and the dispatch in
  `universal_form_factor` / `patch2patch_ff_universal`.
-/
namespace Sparrow

variable {α : Type}

/-- boundary sample `k = 4·edge + ii` of polygon `el` with `n` vertices:
    `el[i] + ii·(el[i+1] - el[i]) / 4` -/
def bpoint [Add α] [Sub α] [Mul α] [Div α] [NatCast α] (el : Nat → Vec3 α) (n k : Nat) : Vec3 α :=
  let i := k / 4
  let ii := k % 4
  let four : α := ((4 : Nat) : α)
  Vec3.add (el i) (Vec3.sdiv (Vec3.smul ((ii : Nat) : α) (Vec3.sub (el ((i + 1) % n)) (el i))) four)

/-- connectivity row of edge `a`: the five sample indices `4a, 4a+1, 4a+2, 4a+3, (4a+4) mod 4n` -/
def conn (n a k : Nat) : Nat := (4 * a + k) % (4 * n)

/-- Boole's rule on five samples: `2h/45 · (7y₀ + 32y₁ + 12y₂ + 32y₃ + 7y₄)`, `h = x₁ - x₀`. -/
def boole [Add α] [Sub α] [Mul α] [Div α] [NatCast α] (x y : Nat → α) : α :=
  let h := x 1 - x 0
  let c := fun (k : Nat) => ((k : Nat) : α)
  (c 2 * h / c 45) * (c 7 * y 0 + c 32 * y 1 + c 12 * y 2 + c 32 * y 3 + c 7 * y 4)

/-- `form_mat[i][j] = log |p_i - q_j|` -/
def formEntry [Add α] [Sub α] [Mul α] [Div α] [NatCast α] [Transc α] (pi pj : Nat → Vec3 α) (ni nj i j : Nat) : α :=
  Transc.log (Vec3.norm (Vec3.sub (bpoint pi ni i) (bpoint pj nj j)))

/-- coordinate `dim` of boundary sample `k` -/
def bcoord [Add α] [Sub α] [Mul α] [Div α] [NatCast α] (el : Nat → Vec3 α) (n k dim : Nat) : α :=
  (bpoint el n k).get dim

/-- `inner_integral[i][dim]`: Boole over every edge of patch j whose extent along `dim`
    exceeds the cut-off, accumulated in edge order. -/
def stokesInner [Add α] [Sub α] [Mul α] [Div α] [Zero α] [NatCast α] [Cmp α] [Transc α]
    (cut : α) (pi pj : Nat → Vec3 α) (ni nj i dim : Nat) : α :=
  (List.range nj).foldl (fun acc b =>
    let x := fun k => bcoord pj nj (conn nj b k) dim
    if Cmp.lt cut (Cmp.abs (x 4 - x 0)) then
      acc + boole x (fun k => formEntry pi pj ni nj i (conn nj b k))
    else acc) 0

/-- the double contour sum before normalisation -/
def stokesOuter [Add α] [Sub α] [Mul α] [Div α] [Zero α] [NatCast α] [Cmp α] [Transc α]
    (cut : α) (pi pj : Nat → Vec3 α) (ni nj : Nat) : α :=
  (List.range 3).foldl (fun acc dim =>
    (List.range ni).foldl (fun acc2 a =>
      let x := fun k => bcoord pi ni (conn ni a k) dim
      if Cmp.lt cut (Cmp.abs (x 4 - x 0)) then
        acc2 + boole x (fun k => stokesInner cut pi pj ni nj (conn ni a k) dim)
      else acc2) acc) 0

/-- `stokes_integration(patch_i, patch_j, patch_i_area) = |outer / (2π·A_i)|` -/
def stokesFF [Add α] [Sub α] [Mul α] [Div α] [Zero α] [NatCast α] [Cmp α] [Transc α]
    (cut : α) (pi pj : Nat → Vec3 α) (ni nj : Nat) (areaI : α) : α :=
  Cmp.abs (stokesOuter cut pi pj ni nj / (((2 : Nat) : α) * Transc.pi * areaI))

/-- `_coincidence_check`: some vertex of one patch within `thr` of a vertex of the other -/
def coincide [Add α] [Sub α] [Mul α] [Cmp α] [Transc α] (thr : α) (pi pj : Nat → Vec3 α) (ni nj : Nat) : Bool :=
  (List.range ni).any fun i => (List.range nj).any fun j =>
    Cmp.lt (Vec3.norm (Vec3.sub (pj j) (pi i))) thr

/-- which integrator `universal_form_factor` uses -/
inductive Integrator where
  | nusselt | stokes
  deriving DecidableEq, Repr

def chooseIntegrator [Add α] [Sub α] [Mul α] [Cmp α] [Transc α] (thr : α) (pi pj : Nat → Vec3 α) (ni nj : Nat) : Integrator :=
  if coincide thr pi pj ni nj then .nusselt else .stokes

/-- `patch2patch_ff_universal`: only listed pairs are written, everything else stays exactly 0. -/
def ffMatrix [Zero α] (visible : List (Nat × Nat)) (ff : Nat → Nat → α) (i j : Nat) : α :=
  if visible.contains (i, j) then ff i j else 0

end Sparrow
