import Sparrow.Model.Basic
/- 3-vectors with the operation order numpy uses (left-to-right sums of three terms). -/
namespace Sparrow

structure Vec3 (α : Type) where
  x : α
  y : α
  z : α

namespace Vec3
variable {α : Type}

def sub [Sub α] (a b : Vec3 α) : Vec3 α := ⟨a.x - b.x, a.y - b.y, a.z - b.z⟩
def add [Add α] (a b : Vec3 α) : Vec3 α := ⟨a.x + b.x, a.y + b.y, a.z + b.z⟩
def smul [Mul α] (s : α) (a : Vec3 α) : Vec3 α := ⟨s * a.x, s * a.y, s * a.z⟩
def sdiv [Div α] (a : Vec3 α) (s : α) : Vec3 α := ⟨a.x / s, a.y / s, a.z / s⟩
def dot [Add α] [Mul α] (a b : Vec3 α) : α := a.x * b.x + a.y * b.y + a.z * b.z
def cross [Sub α] [Mul α] (a b : Vec3 α) : Vec3 α :=
  ⟨a.y * b.z - a.z * b.y, a.z * b.x - a.x * b.z, a.x * b.y - a.y * b.x⟩
def norm [Add α] [Mul α] [Transc α] (a : Vec3 α) : α := Transc.sqrt (dot a a)
def normalize [Add α] [Mul α] [Div α] [Transc α] (a : Vec3 α) : Vec3 α := sdiv a (norm a)
/-- `np.sum((s - u)**2, axis=-1)` -/
def sqDist [Add α] [Sub α] [Mul α] (a b : Vec3 α) : α :=
  let d := sub a b
  d.x * d.x + d.y * d.y + d.z * d.z

end Vec3

/-- `np.argmin` over `f 0 … f (n-1)`: index of the first minimum. -/
def argminFirst {α : Type} [Cmp α] (n : Nat) (f : Nat → α) : Nat :=
  (List.range n).foldl (fun best k => if Cmp.lt (f k) (f best) then k else best) 0

/-- Nearest sample direction: `argmin_k |s_k - u|²`. -/
def nearest {α : Type} [Add α] [Sub α] [Mul α] [Cmp α] (samples : Nat → Vec3 α) (n : Nat)
    (u : Vec3 α) : Nat :=
  argminFirst n fun k => Vec3.sqDist (samples k) u

end Sparrow
