import Sparrow.Model.Exchange
import Sparrow.Model.Collect
import Sparrow.Model.Source
/-
  Model of the Kang engine (classes/RadiosityKang.py):
  `PatchesKang.calculate_form_factor` (analytic form factors, orthogonal / parallel walls),
  `_init_energy_exchange` (first-order patch sources), `calculate_energy_exchange` (order
  recursion with `_add_delay`), `energy_at_receiver` and the direct sound.
  Patches are numbered globally (wall by wall, as `RadiosityKang.patch_list` orders them).
-/
namespace Sparrow

variable {α : Type}

def Vec3.get (v : Vec3 α) (i : Nat) : α := if i = 0 then v.x else if i = 1 then v.y else v.z
def Vec3.ofFn (f : Nat → α) : Vec3 α := ⟨f 0, f 1, f 2⟩

/-- axis along which an axis-aligned normal points: the first `k` with `|n_k| > thr` -/
def normalAxis [Cmp α] (n : Vec3 α) (thr : α) : Nat :=
  if Cmp.lt thr (Cmp.abs n.x) then 0 else if Cmp.lt thr (Cmp.abs n.y) then 1 else 2

/-- `init_energy_exchange` tests the axes in the order z, y, x (`|n_2| > 0.99`, then 1, then 0) -/
def normalAxisFrom2 [Cmp α] (n : Vec3 α) (thr : α) : Nat :=
  if Cmp.lt thr (Cmp.abs n.z) then 2 else if Cmp.lt thr (Cmp.abs n.y) then 1 else 0

/-- the axis that is neither `a` nor `b` (for `a ≠ b` in `{0,1,2}`) -/
def thirdAxis (a b : Nat) : Nat := 3 - a - b

/-- Orthogonal walls (`dot == 0`): Kang's eq. 11–15.  `sc`, `rc` patch centres, `ns`, `nr`
    normals, `dd` the patch size.  `idx_l` is the axis shared by both walls, `idx_s` the axis of
    the receiver's normal, `idx_r` the axis of the source's normal. -/
def kangFFOrth [Add α] [Sub α] [Mul α] [Div α] [Neg α] [One α] [Cmp α] [Transc α]
    (sc rc ns nr : Vec3 α) (dd thr5 thr12 : α) : α :=
  let two : α := 1 + 1
  let half : α := 1 / two
  let aS := normalAxis ns thr5
  let aR := normalAxis nr thr5
  let idxL := thirdAxis aS aR
  let idxS := aR
  let idxR := aS
  let dm := Cmp.abs (sc.get idxS - rc.get idxS)
  let dl := sc.get idxL
  let dl' := rc.get idxL
  let dn' := Cmp.abs (sc.get idxR - rc.get idxR)
  let e := dl - dl'
  let A := (dm - half * dd) / Transc.sqrt (e * e + (dm - half * dd) * (dm - half * dd) + dn' * dn')
  let B := (dm + half * dd) / Transc.sqrt (e * e + (dm + half * dd) * (dm + half * dd) + dn' * dn')
  let one := Transc.atan (Cmp.abs ((dl - half * dd - dl') / dn'))
  let twoA := Transc.atan (Cmp.abs ((dl + half * dd - dl') / dn'))
  let k : α := if Cmp.lt (Cmp.abs e) thr12 then -1 else 1
  let theta := Cmp.abs (one - k * twoA)
  (1 / (two * Transc.pi)) * Cmp.abs (A * A - B * B) * theta

/-- Parallel walls: eq. 16, `dd² (Δm)² / (π d⁴)` with `m` the axis separating the two walls
    (the first axis along which the wall centres differ by more than `1e-5`). -/
def kangFFPar [Add α] [Sub α] [Mul α] [Div α] [Cmp α] [Transc α]
    (sc rc wallDiff : Vec3 α) (dd thr5 : α) : Option α :=
  let pick : Option (Nat × Nat × Nat) :=
    if Cmp.lt thr5 wallDiff.x then some (1, 0, 2)
    else if Cmp.lt thr5 wallDiff.y then some (0, 1, 2)
    else if Cmp.lt thr5 wallDiff.z then some (1, 2, 0)
    else none
  pick.map fun (l, m, n) =>
    let el := rc.get l - sc.get l
    let em := rc.get m - sc.get m
    let en := rc.get n - sc.get n
    let d := Transc.sqrt (el * el + en * en + em * em)
    (dd * dd * (em * em)) / (Transc.pi * (d * d * d * d))

/-- `_init_energy_exchange`: first-order energy of a patch (centre offsets `dl dm dn` from the
    wall plane frame, sizes `ddl ddm`, source at `(sx, sy, sz)` in the same frame) for one band. -/
def kangInit [Add α] [Sub α] [Mul α] [Div α] [Neg α] [One α] [Zero α] [Cmp α] [Transc α]
    (dl dm dn ddl ddm sx sy sz power alpha dist att thr11 : α) : α :=
  let two : α := 1 + 1
  let four : α := two + two
  let hl := ddl / two
  let hm := ddm / two
  let sq := fun (x : α) => x * x
  let sinPhiDelta := (dl + hl - sx) / Transc.sqrt (sq (dl + hl - sx) + sq (dm - sy) + sq (dn - sz))
  let inL := Cmp.le (dl - hl) sx && Cmp.le sx (dl + hl)
  let kPhi : α := if inL then -1 else 1
  let sinPhi0 := kPhi * (dl - hl - sx) / Transc.sqrt (sq (dl - hl - sx) + sq (dm - sy) + sq (dn - sz))
  let sinPhi := if Cmp.lt (sinPhiDelta - sinPhi0) thr11 then sinPhi0 * (-1) else sinPhi0
  let plus := Transc.atan (Cmp.abs ((dm + hm - sy) / Cmp.abs sz))
  let minus := Transc.atan (Cmp.abs ((dm - hm - sy) / Cmp.abs sz))
  let inM := Cmp.le (dm - hm) sy && Cmp.le sy (dm + hm)
  let kBeta : α := if inM then -1 else 1
  let beta := Cmp.abs (plus - kBeta * minus)
  let const := power * (1 - alpha) * Transc.exp (-att * dist)
  const * Cmp.abs (sinPhiDelta - sinPhi) * beta / (four * Transc.pi)

/-- Index tables of `init_energy_exchange`: normal along `i` ⇒ `(l, m, n) = (i+1, i+2, i)` mod 3
    (`[0,1,2]`, `[2,0,1]`, `[1,2,0]` for `i = 2, 1, 0`). -/
def kangInitAxes (i : Nat) : Nat × Nat × Nat := ((i + 1) % 3, (i + 2) % 3, i % 3)

/-- `PatchesKang.init_energy_exchange` for one patch and band: frame the patch by its normal
    axis `i` (coordinates along `i` measured from the patch plane, absolute value), pick
    `(l, m, n)` by `kangInitAxes`, then `kangInit`. -/
def kangInitPatch [Add α] [Sub α] [Mul α] [Div α] [Neg α] [One α] [Zero α] [Cmp α] [Transc α]
    (normal center size src : Vec3 α) (power alpha att thr99 thr11 : α) : α :=
  let i := normalAxisFrom2 normal thr99
  let offset := center.get i
  let sp : Nat → α := fun a => if a = i then Cmp.abs (src.get a - offset) else src.get a
  let rp : Nat → α := fun a => if a = i then Cmp.abs (center.get a - offset) else center.get a
  let (l, m, n) := kangInitAxes i
  let dist := Vec3.norm (Vec3.sub center src)
  kangInit (rp l) (rp m) (rp n) (size.get l) (size.get m) (sp l) (sp m) (sp n) power alpha dist att thr11

/-- The exchange data of a Kang run as an `ExScene` with a single slot: arcs between all patches
    of different walls; transfer factor `ff i j · s_j (1-α_j) · exp(-m d_ij)` — reflectance and
    scattering of the RECEIVING wall. -/
structure KangScene (α : Type) where
  P : Nat
  S : Nat
  wall : Nat → Nat
  bin0 : Nat → Nat
  bin : Nat → Nat → Nat
  e0 : Nat → α
  ff : Nat → Nat → α          -- source patch i → receiver patch j
  refl : Nat → α              -- scattering·(1-α) of the wall of patch j
  attw : Nat → Nat → α        -- exp(-m d_ij)

def KangScene.pairs (k : KangScene α) : List (Nat × Nat) :=
  (List.range k.P).flatMap fun i => ((List.range k.P).filter fun j => i < j && k.wall i != k.wall j).map fun j => (i, j)

def KangScene.toEx [Mul α] (k : KangScene α) : ExScene α :=
  { P := k.P, D := 1, S := k.S, pairs := k.pairs, bin0 := k.bin0, bin := k.bin
    e0 := fun j _ => k.e0 j, fft := fun i j _ => k.ff i j * k.refl j * k.attw i j, dir := fun _ _ => 0 }

/-- `delay_samples = int(distance / speed_of_sound * sampling_rate)` -/
def binKang [Mul α] [Div α] [ToBin α] (d c fs : α) : Nat := ToBin.floorNat (d / c * fs)

/-- Receiver response from given order histograms `H k j t`: every patch, every order `≤ K`,
    delayed by the patch→receiver bins (truncating) and weighted by `factor j`. -/
def kangReceiverOf [Add α] [Mul α] [Zero α] (P K : Nat) (H : Nat → Nat → Nat → α) (binR : Nat → Nat)
    (factor : Nat → α) : Nat → α :=
  monoF P (collectF binR factor fun j t => (List.range (K + 1)).foldl (fun acc k => acc + H k j t) 0)

/-- Equation 20 weight of a patch for a receiver: `cos ξ · exp(-m R) / (π R²)` with
    `cos ξ = |Σ n_a·|Δ_a|| / R`. -/
def kangRecvFactor [Add α] [Sub α] [Mul α] [Div α] [Neg α] [Cmp α] [Transc α]
    (normal center recv : Vec3 α) (m : α) : α :=
  let dx := Cmp.abs (recv.x - center.x)
  let dy := Cmp.abs (recv.y - center.y)
  let dz := Cmp.abs (recv.z - center.z)
  let R := Vec3.norm (Vec3.sub center recv)
  let cosxi := Cmp.abs (normal.x * dx + normal.y * dy + normal.z * dz) / R
  cosxi * Transc.exp (-m * R) / (Transc.pi * (R * R))

/-- `energy_at_receiver` of the whole room for maximum order `K` (without direct sound):
    every patch, every order `≤ K`, delayed by the patch→receiver bins and weighted. -/
def kangReceiver [Add α] [Mul α] [Zero α] (sc : ExScene α) (K : Nat) (binR : Nat → Nat)
    (factor : Nat → α) : Nat → α :=
  kangReceiverOf sc.P K (fun k j t => orderH sc k j 0 t) binR factor

end Sparrow

/-! ### The array versions in `sparrowpy/form_factor/kang.py`

  `patch2patch_ff_kang`, `_source2patch_energy_kang`, `_patch2receiver_energy_kang` are the same
  formulas as the methods of `PatchesKang`, vectorised over patch arrays and with the in-plane
  sizes of the SOURCE patch taken from `patches_size` instead of one `max_size`. -/
namespace Sparrow
variable {α : Type}

/-- in-plane sizes `(dd_l, dd_m)` of the source patch, by the axis of its normal -/
def kangSizesOrth (aS : Nat) (size : Vec3 α) : α × α :=
  if aS = 0 then (size.z, size.y) else if aS = 1 then (size.z, size.x) else (size.y, size.x)

/-- orthogonal branch of `patch2patch_ff_kang` for one pair (`size` of the source patch) -/
def kangFFArrOrth [Add α] [Sub α] [Mul α] [Div α] [Neg α] [One α] [Cmp α] [Transc α]
    (sc rc ns nr size : Vec3 α) (thr5 thr12 : α) : α :=
  let two : α := 1 + 1
  let half : α := 1 / two
  let aS := normalAxis ns thr5
  let aR := normalAxis nr thr5
  let (ddl, ddm) := kangSizesOrth aS size
  -- idx_source = {2,1} / {2,0} / {0,1}
  let inSrc : Nat → Bool := fun a => a != aS
  let idxL := if aR = 0 then (if inSrc 1 then 1 else 2) else if aR = 1 then (if inSrc 0 then 0 else 2)
              else (if inSrc 0 then 0 else 1)
  let idxS := aR
  let idxR := if aR = 0 then (if inSrc 1 then 2 else 1) else if aR = 1 then (if inSrc 0 then 2 else 0)
              else (if inSrc 0 then 1 else 0)
  let dm := Cmp.abs (sc.get idxS - rc.get idxS)
  let dl := sc.get idxL
  let dl' := rc.get idxL
  let dn' := Cmp.abs (sc.get idxR - rc.get idxR)
  let e := dl - dl'
  let A := (dm - half * ddm) / Transc.sqrt (e * e + (dm - half * ddm) * (dm - half * ddm) + dn' * dn')
  let B := (dm + half * ddm) / Transc.sqrt (e * e + (dm + half * ddm) * (dm + half * ddm) + dn' * dn')
  let one := Transc.atan (Cmp.abs ((dl - half * ddl - dl') / dn'))
  let twoA := Transc.atan (Cmp.abs ((dl + half * ddl - dl') / dn'))
  let k : α := if Cmp.lt (Cmp.abs e) thr12 then -1 else 1
  let theta := Cmp.abs (one - k * twoA)
  (1 / (two * Transc.pi)) * Cmp.abs (A * A - B * B) * theta

/-- parallel branch of `patch2patch_ff_kang`: the separating axis is the one of the receiver's
    normal; `dd_l · dd_n` are the in-plane sizes of the source patch -/
def kangFFArrPar [Add α] [Sub α] [Mul α] [Div α] [Cmp α] [Transc α]
    (sc rc nr size : Vec3 α) (thr5 : α) : α :=
  let aR := normalAxis nr thr5
  let (l, m, n) : Nat × Nat × Nat := if aR = 0 then (1, 0, 2) else if aR = 1 then (0, 1, 2) else (1, 2, 0)
  let (ddl, ddn) : α × α := if aR = 0 then (size.y, size.z) else if aR = 1 then (size.x, size.z) else (size.y, size.x)
  let el := rc.get l - sc.get l
  let em := rc.get m - sc.get m
  let en := rc.get n - sc.get n
  let d := Transc.sqrt (el * el + en * en + em * em)
  (ddl * ddn * (em * em)) / (Transc.pi * (d * d * d * d))

/-- one entry of `patch2patch_ff_kang` -/
def kangFFArr [Add α] [Sub α] [Mul α] [Div α] [Neg α] [One α] [Zero α] [Cmp α] [Transc α]
    (sc rc ns nr size : Vec3 α) (thr5 thr12 : α) : α :=
  let dot := nr.x * ns.x + nr.y * ns.y + nr.z * ns.z
  if !Cmp.lt dot 0 && !Cmp.lt 0 dot then kangFFArrOrth sc rc ns nr size thr5 thr12
  else kangFFArrPar sc rc nr size thr5

end Sparrow
