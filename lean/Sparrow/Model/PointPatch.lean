import Sparrow.Model.Vec
/-
  Model of the point-to-patch factor `form_factor.integration.pt_solution`
  (with `geometry._sphere_tangent_vector`, `geometry._polygon_area`):
  the patch's vertices are projected on the unit sphere around the point, the interior
  angles of the spherical polygon are summed, and the spherical excess `Σθ - (n-2)π` is
  divided by `4π` (source mode) or `π·area` (receiver mode).
-/
namespace Sparrow

variable {α : Type}

/-- `_sphere_tangent_vector(v0, v1)`: unit tangent at `v0` of the great arc towards `v1`. -/
def sphereTangent [Add α] [Sub α] [Mul α] [Div α] [Cmp α] [Transc α] (thr : α) (v0 v1 : Vec3 α) : Vec3 α :=
  if Cmp.lt thr (Cmp.abs (Vec3.dot v0 v1)) then
    let d := Vec3.sub v1 v0
    let t := Vec3.sub d (Vec3.smul (Vec3.dot d v0 / Vec3.dot v0 v0) v0)
    Vec3.sdiv t (Vec3.norm t)
  else Vec3.sdiv v1 (Vec3.norm v1)

/-- vertex `i` of the patch projected on the unit sphere around `x` -/
def onSphere [Add α] [Sub α] [Mul α] [Div α] [Transc α] (x : Vec3 α) (pts : Nat → Vec3 α) (i : Nat) : Vec3 α :=
  Vec3.normalize (Vec3.sub (pts i) x)

/-- interior angle of the spherical polygon at vertex `i` -/
def interiorAngle [Add α] [Sub α] [Mul α] [Div α] [Cmp α] [Transc α] (thr : α) (x : Vec3 α)
    (pts : Nat → Vec3 α) (n i : Nat) : α :=
  let s := onSphere x pts
  let v0 := sphereTangent thr (s i) (s ((i + n - 1) % n))
  let v1 := sphereTangent thr (s i) (s ((i + 1) % n))
  Transc.acos (Vec3.dot v0 v1)

/-- `Σ_i θ_i - (n-2)·π` -/
def sphericalExcess [Add α] [Sub α] [Mul α] [Div α] [Zero α] [Cmp α] [Transc α] [NatCast α] (thr : α)
    (x : Vec3 α) (pts : Nat → Vec3 α) (n : Nat) : α :=
  (List.range n).foldl (fun acc i => acc + interiorAngle thr x pts n i) 0 - ((n - 2 : Nat) : α) * Transc.pi

/-- `_polygon_area`: fan triangulation from vertex 0. -/
def polygonArea [Add α] [Sub α] [Mul α] [Div α] [Zero α] [One α] [Transc α] (pts : Nat → Vec3 α) (n : Nat) : α :=
  let half : α := 1 / (1 + 1)
  (List.range (n - 2)).foldl (fun acc t =>
    acc + half * Vec3.norm (Vec3.cross (Vec3.sub (pts (t + 1)) (pts 0)) (Vec3.sub (pts (t + 2)) (pts 0)))) 0

/-- `_calculate_center`: `np.sum(points, axis=-2) / n` -/
def polygonCenter [Add α] [Div α] [Zero α] [NatCast α] (pts : Nat → Vec3 α) (n : Nat) : Vec3 α :=
  let s := (List.range n).foldl (fun (acc : Vec3 α) k => Vec3.add acc (pts k)) ⟨0, 0, 0⟩
  Vec3.sdiv s ((n : Nat) : α)

/-- `pt_solution(point, patch, mode="source")`: share of the full sphere. -/
def ptSource [Add α] [Sub α] [Mul α] [Div α] [Zero α] [One α] [Cmp α] [Transc α] [NatCast α] (thr : α)
    (x : Vec3 α) (pts : Nat → Vec3 α) (n : Nat) : α :=
  let four : α := (1 + 1) + (1 + 1)
  sphericalExcess thr x pts n / (Transc.pi * four)

/-- `pt_solution(point, patch, mode="receiver")`: solid angle / (π·area). -/
def ptReceiver [Add α] [Sub α] [Mul α] [Div α] [Zero α] [One α] [Cmp α] [Transc α] [NatCast α] (thr : α)
    (x : Vec3 α) (pts : Nat → Vec3 α) (n : Nat) : α :=
  sphericalExcess thr x pts n / (Transc.pi * polygonArea pts n)

end Sparrow
