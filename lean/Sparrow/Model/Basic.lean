/-
  Scalar abstractions of the executable model.

  Model definitions are written against the *standard* algebraic notation classes
  (`Add`, `Mul`, `Zero`, …) plus the three tiny classes below, so that

  * at `Float` they run with IEEE-754 double arithmetic (the semantics of the Python
    code; used by the correspondence driver), and
  * at `ℝ` (proof files only, via Mathlib) `+`, `*`, … *are* Mathlib's operations and
    `ring`, `positivity`, `Polynomial` lemmas apply to unfolded model terms directly.

  No Mathlib import anywhere under `Sparrow/Model` or `Driver`.
-/
namespace Sparrow

/-- Elementary functions used by the kernels. -/
class Transc (α : Type) where
  exp   : α → α
  log   : α → α
  sqrt  : α → α
  acos  : α → α
  asin  : α → α
  atan  : α → α
  atan2 : α → α → α
  pi    : α

/-- `int(x)` and `int(ceil(x))` of the Python code for non-negative finite `x`. -/
class ToBin (α : Type) where
  floorNat : α → Nat
  ceilNat  : α → Nat

/-- Decidable comparisons as the code performs them. -/
class Cmp (α : Type) where
  lt : α → α → Bool
  le : α → α → Bool
  abs : α → α

export Transc (exp log sqrt acos asin atan atan2)

instance : Transc Float where
  exp := Float.exp
  log := Float.log
  sqrt := Float.sqrt
  acos := Float.acos
  asin := Float.asin
  atan := Float.atan
  atan2 := Float.atan2
  pi := 3.141592653589793

instance : ToBin Float where
  floorNat x := x.toUInt64.toNat
  ceilNat x := x.ceil.toUInt64.toNat

instance : Cmp Float where
  lt a b := a < b
  le a b := a ≤ b
  abs := Float.abs

instance : Zero Float := ⟨0.0⟩
instance : One Float := ⟨1.0⟩

/-- Python `int(d / c / dt)`: the number of whole bins of a travel distance `d`. -/
def binFloor {α : Type} [Div α] [ToBin α] (d c dt : α) : Nat :=
  ToBin.floorNat (d / c / dt)

/-- Python `int(np.ceil(d / c / dt))`. -/
def binCeil {α : Type} [Div α] [ToBin α] (d c dt : α) : Nat :=
  ToBin.ceilNat (d / c / dt)

/-- Error kinds the driver reports (the small enum of the line protocol). -/
inductive Err where
  | indexError | valueError | typeError | assertion | other
  deriving Repr, DecidableEq

def Err.toString : Err → String
  | .indexError => "index_error"
  | .valueError => "value_error"
  | .typeError => "type_error"
  | .assertion => "assertion"
  | .other => "other"

end Sparrow
