import Sparrow.Model.Vec
/-
  Model of `_rotate_coords_to_normal` (classes/RadiosityFast.py): BRDF direction sets given
  in the reference frame (normal +z, up +x) are carried to a wall by the rotation whose
  columns are `(û, n̂ × û, n̂)`; the radius is set to 1.
  (The code goes through pyfar/scipy Euler angles; the tie is the correspondence.)
-/
namespace Sparrow

variable {α : Type}

/-- `R(n, u) v = v.x·û + v.y·(n̂ × û) + v.z·n̂` with `n̂ = n/|n|`, `û = u/|u|`. -/
def wallFrame [Add α] [Sub α] [Mul α] [Div α] [Transc α] (n u v : Vec3 α) : Vec3 α :=
  let nh := Vec3.normalize n
  let uh := Vec3.normalize u
  let c := Vec3.cross nh uh
  Vec3.add (Vec3.add (Vec3.smul v.x uh) (Vec3.smul v.y c)) (Vec3.smul v.z nh)

/-- direction carried to the wall and set to unit radius -/
def rotateToWall [Add α] [Sub α] [Mul α] [Div α] [Transc α] (n u v : Vec3 α) : Vec3 α :=
  Vec3.normalize (wallFrame n u v)

end Sparrow
