import Sparrow.Model.Basic
/-
  Model of `sparrowpy.brdf.create_from_scattering` and
  `create_from_directional_scattering` (one frequency band).
  A sampling is `n` directions with `cosθ k` (cosine of the colatitude) and raw weights
  `w k`; `mir i` is the index of the outgoing sample nearest to the mirror image of
  incoming direction `i`.
-/
namespace Sparrow

variable {α : Type}

def sumTo [Add α] [Zero α] (n : Nat) (f : Nat → α) : α :=
  (List.range n).foldl (fun acc k => acc + f k) 0

/-- weights rescaled to sum `2π`:  `w *= 2π / Σ w` -/
def normWeight [Add α] [Mul α] [Div α] [Zero α] [Transc α] (n : Nat) (w : Nat → α) (two : α) (k : Nat) : α :=
  w k * (two * Transc.pi / sumTo n w)

/-- `create_from_scattering`: `brdf[i, o] = (s/π + [o = mir i]·(1-s)/(cosθ_{mir i}·wn_i))·(1-a)`. -/
def brdfScattering [Add α] [Sub α] [Mul α] [Div α] [Zero α] [One α] [Transc α]
    (n : Nat) (cosT w : Nat → α) (mir : Nat → Nat) (s a : α) (i o : Nat) : α :=
  let two : α := 1 + 1
  let base := s / Transc.pi
  let spec := if o = mir i then (1 - s) / (cosT (mir i) * normWeight n w two i) else 0
  (base + spec) * (1 - a)

/-- `create_from_directional_scattering`: `brdf[i, o] = sd[i,o] / wn_o / cosθ_o · (1-a)`. -/
def brdfDirectional [Add α] [Sub α] [Mul α] [Div α] [Zero α] [One α] [Transc α]
    (n : Nat) (cosT w : Nat → α) (sd : Nat → Nat → α) (a : α) (i o : Nat) : α :=
  let two : α := 1 + 1
  sd i o / normWeight n w two o / cosT o * (1 - a)

/-- Reflected energy for incident direction `i`: `Σ_o brdf[i,o]·cosθ_o·wn_o`. -/
def reflected [Add α] [Mul α] [Div α] [Zero α] [One α] [Transc α]
    (n : Nat) (cosT w : Nat → α) (brdf : Nat → Nat → α) (i : Nat) : α :=
  let two : α := 1 + 1
  sumTo n fun o => brdf i o * cosT o * normWeight n w two o

end Sparrow
