import Sparrow.Model.Exchange
/-
  Model of the receiver side of the fast engine (one band):
  `_collect_receiver_energy`, the per-patch weighting in `_collect_energy_patches`,
  the mono sum and `calculate_direct_sound`.
-/
namespace Sparrow

variable {α : Type}

/-- `_collect_receiver_energy` for one band: every patch histogram scaled by `w i`
    (= `exp(-m·d_i)`) and delayed by `binR i` bins; what is delayed past the end is dropped. -/
def collectF [Mul α] [Zero α] (binR : Nat → Nat) (w : Nat → α) (E : Nat → Nat → α) :
    Nat → Nat → α :=
  fun i t => if binR i ≤ t then E i (t - binR i) * w i else 0

/-- The same kernel with `np.roll` (pre-repair behaviour), on a histogram of `S` bins. -/
def collectRollF [Mul α] (S : Nat) (binR : Nat → Nat) (w : Nat → α) (E : Nat → Nat → α) :
    Nat → Nat → α :=
  fun i t => E i ((t + S - binR i % S) % S) * w i

/-- Patch-wise receiver histogram as the repaired kernel would give it: the ETC slot nearest
    to the receiver direction, times the geometric weight `g j` (0 for invisible patches),
    then the truncating `collectF`. -/
def patchwiseF [Mul α] [Zero α] (etcv : Nat → Nat → Nat → α) (ridx : Nat → Nat)
    (g : Nat → α) (binR : Nat → Nat) (w : Nat → α) : Nat → Nat → α :=
  collectF binR w (fun j t => etcv j (ridx j) t * g j)

/-- Patch-wise receiver histogram **as the code computes it** (`np.roll` in
    `_collect_receiver_energy`, known finding D3): identical to `patchwiseF` whenever no
    energy is delayed past the end of the histogram. -/
def patchwiseCodeF [Mul α] (S : Nat) (etcv : Nat → Nat → Nat → α) (ridx : Nat → Nat)
    (g : Nat → α) (binR : Nat → Nat) (w : Nat → α) : Nat → Nat → α :=
  collectRollF S binR w (fun j t => etcv j (ridx j) t * g j)

/-- Mono curve: sum over patches `0 … P-1`, in index order. -/
def monoF [Add α] [Zero α] (P : Nat) (pw : Nat → Nat → α) : Nat → α :=
  fun t => (List.range P).foldl (fun acc j => acc + pw j t) 0

end Sparrow
