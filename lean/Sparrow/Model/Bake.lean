import Sparrow.Model.Vec
/-
  Model (one band) of
    `_form_factors_with_directivity_dim`, the outgoing-index map built in `bake_geometry`
    (`get_scattering_data_receiver_index`), `_add_directional`
    (`get_scattering_data_source`) and the receiver index of `_collect_energy_patches`.
-/
namespace Sparrow

variable {α : Type}

structure BakeScene (α : Type) where
  P : Nat
  D : Nat                          -- outgoing samples per wall
  nIn : Nat                        -- incoming samples per wall
  center : Nat → Vec3 α
  area : Nat → α
  F : Nat → Nat → α                -- form_factors (filled for i < j)
  vis : Nat → Nat → Bool           -- visibility_matrix (filled for i < j)
  wall : Nat → Nat                 -- patch_to_wall_ids
  tableIdx : Nat → Nat             -- brdf_index[w]
  inDirs : Nat → Nat → Vec3 α      -- wall, sample
  outDirs : Nat → Nat → Vec3 α     -- wall, sample
  table : Nat → Nat → Nat → α      -- table index, incoming, outgoing  (π·brdf of this band)
  hasTable : Bool                  -- false: no BRDF set at bake time
  att : Option α                   -- air attenuation of this band (None: not set)

def BakeScene.visSym (sc : BakeScene α) (i j : Nat) : Bool :=
  if i < j then sc.vis i j else sc.vis j i

/-- `F'`: the form factor from `i` to `j` read from the upper triangle by reciprocity. -/
def BakeScene.ffPrime [Mul α] [Div α] (sc : BakeScene α) (i j : Nat) : α :=
  if i < j then sc.F i j else sc.F j i * sc.area j / sc.area i

/-- Incoming sample of the wall of the *receiving* patch `j` nearest to the direction
    from `c_j` towards `c_i`. -/
def BakeScene.inIdx [Add α] [Sub α] [Mul α] [Div α] [Cmp α] [Transc α]
    (sc : BakeScene α) (i j : Nat) : Nat :=
  nearest (sc.inDirs (sc.wall j)) sc.nIn (Vec3.normalize (Vec3.sub (sc.center i) (sc.center j)))

/-- `form_factors_tilde[i, j, d]` of this band. -/
def BakeScene.fft [Add α] [Sub α] [Mul α] [Div α] [Neg α] [Zero α] [Cmp α] [Transc α]
    (sc : BakeScene α) (i j d : Nat) : α :=
  if sc.visSym i j then
    let dist := Vec3.norm (Vec3.sub (sc.center i) (sc.center j))
    let base := sc.ffPrime i j
    let a := match sc.att with
      | some m => base * Transc.exp (-m * dist)
      | none => base
    if sc.hasTable then a * sc.table (sc.tableIdx (sc.wall j)) (sc.inIdx i j) d else a
  else 0

/-- `patch_2_brdf_outgoing_index[i, j]`: outgoing sample of wall `w(i)` nearest to
    `c_j - c_i`; the invalid marker `D` for pairs that do not see each other. -/
def BakeScene.outIdx [Add α] [Sub α] [Mul α] [Div α] [Cmp α] [Transc α]
    (sc : BakeScene α) (i j : Nat) : Nat :=
  if sc.hasTable then
    if sc.visSym i j && i != j then
      nearest (sc.outDirs (sc.wall i)) sc.D (Vec3.normalize (Vec3.sub (sc.center j) (sc.center i)))
    else sc.D
  else 0

/-- Sample of wall `w(i)`'s set `dirs` nearest to the direction from `c_i` to a point. -/
def BakeScene.towards [Add α] [Sub α] [Mul α] [Div α] [Cmp α] [Transc α]
    (sc : BakeScene α) (dirs : Nat → Nat → Vec3 α) (n : Nat) (pt : Vec3 α) (i : Nat) : Nat :=
  nearest (dirs (sc.wall i)) n (Vec3.normalize (Vec3.sub pt (sc.center i)))

/-- `_add_directional`: `e0dir[i, d] = energy_0[i] · table[w(i)][nearest incoming to (s - c_i)][d]`. -/
def BakeScene.addDirectional [Add α] [Sub α] [Mul α] [Div α] [Cmp α] [Transc α]
    (sc : BakeScene α) (src : Vec3 α) (energy0 : Nat → α) (i d : Nat) : α :=
  energy0 i * sc.table (sc.tableIdx (sc.wall i)) (sc.towards sc.inDirs sc.nIn src i) d

/-- Outgoing slot used towards a receiver at `r`. -/
def BakeScene.receiverIdx [Add α] [Sub α] [Mul α] [Div α] [Cmp α] [Transc α]
    (sc : BakeScene α) (r : Vec3 α) (i : Nat) : Nat :=
  sc.towards sc.outDirs sc.D r i

end Sparrow
