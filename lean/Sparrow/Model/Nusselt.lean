import Sparrow.Model.Visibility
import Sparrow.Model.PointPatch
import Sparrow.Model.Stokes
/-
  Model of the Nusselt-analogue integrator (form_factor/integration.py):
  `_sample_boundary_regular(el, npoints=3)`, `nusselt_analog`, `_area_under_curve`,
  `_poly_estimation_Lagrange` / `_poly_integration` (3 points, order 2),
  `_surf_sample_regulargrid`, `nusselt_integration`, and the dispatch of `universal_form_factor`.
  The 3×3 Vandermonde system of the Lagrange estimate is solved in closed form (the code
  inverts the matrix numerically; equal over the reals, compared at 1e-8 in the tie).
-/
namespace Sparrow

variable {α : Type}

/-- `np.sign` -/
def sgn [Zero α] [One α] [Neg α] [Cmp α] (x : α) : α :=
  if Cmp.lt 0 x then 1 else if Cmp.lt x 0 then -1 else 0

/-- boundary sample `k = 2·edge + ii` for `npoints = 3`: vertices and edge midpoints -/
def bpoint2 [Add α] [Sub α] [Mul α] [Div α] [NatCast α] (el : Nat → Vec3 α) (n k : Nat) : Vec3 α :=
  let i := k / 2
  let ii := k % 2
  Vec3.add (el i) (Vec3.sdiv (Vec3.smul ((ii : Nat) : α) (Vec3.sub (el ((i + 1) % n)) (el i))) ((2 : Nat) : α))

/-- `_area_under_curve(ps, order=2)` for three planar points: the area between the chord
    `ps0 → ps2` and the parabola through the three points, in the chord's frame. -/
def areaUnderCurve [Add α] [Sub α] [Mul α] [Div α] [Neg α] [Zero α] [NatCast α] [Cmp α] [Transc α]
    (thr : α) (p0 p1 p2 : Vec2 α) : α :=
  let f := Vec2.sub p2 p0
  let nf := Vec2.norm f
  let r0 : Vec2 α := ⟨f.x / nf, f.y / nf⟩
  let r1 : Vec2 α := ⟨-f.y / nf, f.x / nf⟩
  let c1 := Vec2.sub p1 p0
  let c2 := Vec2.sub p2 p0
  let x1 := Vec2.dot r0 c1
  let y1 := Vec2.dot r1 c1
  let x2 := Vec2.dot r0 c2
  let y2 := Vec2.dot r1 c2
  if Cmp.lt (Cmp.abs (x2 - 0)) thr then 0
  else
    -- y = b0 x² + b1 x + b2 through (0,0), (x1,y1), (x2,y2)
    let den := x1 * x2 * (x1 - x2)
    let b0 := (y1 * x2 - y2 * x1) / den
    let b1 := (y2 * (x1 * x1) - y1 * (x2 * x2)) / den
    let three : α := ((3 : Nat) : α)
    let two : α := ((2 : Nat) : α)
    b0 * (x2 * x2 * x2) / three + b1 * (x2 * x2) / two

/-- `nusselt_analog(surf_origin, surf_normal, patch_points, patch_normal)`: differential form
    factor (times π) of patch `pts` seen from `origin` on a surface with normal `sn`. -/
def nusseltAnalog [Add α] [Sub α] [Mul α] [Div α] [Neg α] [Zero α] [One α] [NatCast α] [Cmp α] [Transc α]
    (origin sn : Vec3 α) (pts : Nat → Vec3 α) (n : Nat) (pn : Vec3 α) : α :=
  let thr6 : α := 1 / ((1000000 : Nat) : α)
  let two : α := ((2 : Nat) : α)
  let hand := sgn (Vec3.dot (Vec3.cross (Vec3.sub (pts 1) (pts 0)) (Vec3.sub (pts 2) (pts 1))) pn)
  let sph := fun k => Vec3.normalize (Vec3.sub (bpoint2 pts n k) origin)
  let rot := rotationToZ sn
  let to2 := fun (q : Vec3 α) => let r := rot.mulVec q; (⟨r.x, r.y⟩ : Vec2 α)
  let pln := fun k => to2 (sph k)
  let proj := fun k => (⟨(pln k).x, (pln k).y, 0⟩ : Vec3 α)
  let bigPoly := polygonArea (fun k => proj (2 * k)) n
  let curved := (List.range n).foldl (fun acc j =>
    let s := 2 * j
    let m := 2 * j + 1
    let e := (2 * j + 2) % (2 * n)
    if Cmp.lt thr6 (Vec3.norm (Vec3.cross (proj e) (proj s))) then
      if Cmp.le thr6 (Vec2.dot (pln e) (pln s)) then
        acc + areaUnderCurve thr6 (pln s) (pln m) (pln e)
      else
        let mpoint := Vec3.add (sph s) (Vec3.sdiv (Vec3.sub (sph e) (sph s)) two)
        let marc := Vec3.normalize mpoint
        let a := Vec3.add (sph s) (Vec3.sdiv (Vec3.sub marc (sph s)) two)
        let b := Vec3.add marc (Vec3.sdiv (Vec3.sub (sph e) marc) two)
        let mp2 := to2 mpoint
        let ma2 := to2 marc
        let a2 := to2 (Vec3.normalize a)
        let b2 := to2 (Vec3.normalize b)
        let linArea := Vec2.norm (Vec2.sub (pln e) (pln s)) * Vec2.norm (Vec2.sub mp2 ma2) / two
        let left := areaUnderCurve thr6 (pln s) a2 ma2
        let right := areaUnderCurve thr6 ma2 b2 (pln e)
        acc + (linArea * sgn left + left + right)
    else acc) 0
  bigPoly + hand * curved

/-- Python `round()` of a non-negative number: half to even. -/
def roundHalfEven [Sub α] [One α] [Add α] [Div α] [NatCast α] [Cmp α] [ToBin α] (x : α) : Nat :=
  let r := ToBin.floorNat x
  let frac := x - ((r : Nat) : α)
  let half : α := 1 / ((2 : Nat) : α)
  if Cmp.lt half frac then r + 1
  else if Cmp.lt frac half then r
  else if r % 2 = 0 then r else r + 1

/-- `np.linspace(0, stop, n)[k] + shift` -/
def linspaceAt [Add α] [Mul α] [Div α] [Zero α] [NatCast α] (stop : α) (n k : Nat) : α :=
  if n ≤ 1 then 0
  else if k = n - 1 then stop
  else ((k : Nat) : α) * (stop / (((n - 1 : Nat)) : α))

/-- `_surf_sample_regulargrid(el, npoints)`: the list of sample points on patch `el`
    (`nv` vertices: 3 or 4), cell-centred in the directions of the sides `u = el1 - el0`,
    `v = el_last - el0`. -/
def surfSamples [Add α] [Sub α] [Mul α] [Div α] [Zero α] [One α] [NatCast α] [Cmp α] [ToBin α] [Transc α]
    (el : Nat → Vec3 α) (nv npoints : Nat) : List (Vec3 α) :=
  let u := Vec3.sub (el 1) (el 0)
  let v := Vec3.sub (el (nv - 1)) (el 0)
  let a : Nat := if nv = 3 then 2 else 1
  let sq := Transc.sqrt (((a * npoints : Nat)) : α)
  let nx0 := roundHalfEven (Vec3.norm u / Vec3.norm v * sq)
  let nz0 := roundHalfEven (Vec3.norm v / Vec3.norm u * sq)
  let nx := if nx0 = 0 then 1 else nx0
  let nz := if nz0 = 0 then 1 else nz0
  let one : α := 1
  let sstep := one / (((nx * 2 : Nat)) : α)
  let sstepz := one / (((nz * 2 : Nat)) : α)
  let tt := fun i => linspaceAt (one - one / ((nx : Nat) : α)) nx i + sstep
  let tz := fun k => linspaceAt (one - one / ((nz : Nat) : α)) nz k + sstepz
  let thres := Transc.sqrt (sstepz * sstepz + sstep * sstep) / ((2 : Nat) : α)
  (List.range nx).flatMap fun i =>
    let s := tt i
    let jj := if nv = 3 then i else 0
    let cnt := nz - roundHalfEven ((((nz : Nat)) : α) / (((nx : Nat)) : α) * (((jj : Nat)) : α))
    (List.range cnt).filterMap fun k =>
      let t := tz k
      let inside := Cmp.le (s + t) (one - thres)
      if nv = 3 && !inside then none
      else some (Vec3.add (Vec3.add (Vec3.smul s u) (Vec3.smul t v)) (el 0))

/-- `nusselt_integration(patch_i, patch_j, n_i, n_j, nsamples)`: average of the Nusselt analogue
    over the sample points of patch i, divided by π. -/
def nusseltFF [Add α] [Sub α] [Mul α] [Div α] [Neg α] [Zero α] [One α] [NatCast α] [Cmp α] [ToBin α] [Transc α]
    (pi : Nat → Vec3 α) (ni : Nat) (nrmI : Vec3 α) (pj : Nat → Vec3 α) (nj : Nat) (nrmJ : Vec3 α)
    (nsamples : Nat) : α :=
  let samples := surfSamples pi ni nsamples
  let tot := samples.foldl (fun acc p0 => acc + nusseltAnalog p0 nrmI pj nj nrmJ) 0
  tot * (1 / (Transc.pi * ((samples.length : Nat) : α)))

/-- `universal_form_factor`: Nusselt (64 samples) for patches with a common vertex, else Stokes. -/
def universalFF [Add α] [Sub α] [Mul α] [Div α] [Neg α] [Zero α] [One α] [NatCast α] [Cmp α] [ToBin α] [Transc α]
    (pi : Nat → Vec3 α) (ni : Nat) (nrmI : Vec3 α) (areaI : α) (pj : Nat → Vec3 α) (nj : Nat) (nrmJ : Vec3 α) : α :=
  let thr6 : α := 1 / ((1000000 : Nat) : α)
  let cut : α := 1 / ((1000 : Nat) : α)
  match chooseIntegrator thr6 pi pj ni nj with
  | .nusselt => nusseltFF pi ni nrmI pj nj nrmJ 64
  | .stokes => stokesFF cut pi pj ni nj areaI

end Sparrow
