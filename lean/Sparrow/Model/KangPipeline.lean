import Sparrow.Model.Patches
import Sparrow.Model.PointPatch
import Sparrow.Model.Kang
import Sparrow.Model.Source
import Sparrow.Model.Pipeline
/-
  End-to-end model of the Kang engine for one frequency band, from the bare scene description
  (walls, patch size, per-wall absorption / scattering / attenuation, source, receiver, speed of
  sound, sampling rate, histogram length, order) to the receiver response:

    RadiosityKang.__init__ (PatchesKang per wall) → run (init_energy_exchange,
    calculate_form_factor, calculate_energy_exchange for k = 1 … K) → energy_at_receiver

  It only composes the kernels of `Kang.lean`; `none` where the Python code raises
  (a wall without a flat axis, a delay that does not fit the histogram, parallel walls whose
  centres coincide).
-/
namespace Sparrow

variable {α : Type}

structure KRoom (α : Type) where
  W : Nat
  wallPts : Nat → Nat → Vec3 α      -- wall, vertex 0..3
  wallNormal : Nat → Vec3 α
  patchSize : α
  absorption : Nat → α              -- per wall
  scattering : Nat → α
  att : Nat → α                     -- `sound_attenuation_factor` per wall

structure KPar (α : Type) where
  c : α                             -- speed of sound
  fs : α                            -- sampling rate
  S : Nat                           -- `int(ir_length_s * sampling_rate)`
  K : Nat                           -- max_order_k
  power : α                         -- source.sound_power

/-- `Polygon.size`: `|(p0 - p1) - (p1 - p2)|` per coordinate -/
def polySize [Sub α] [Cmp α] (pt : Nat → Vec3 α) : Vec3 α :=
  let v1 := Vec3.sub (pt 0) (pt 1)
  let v2 := Vec3.sub (pt 1) (pt 2)
  ⟨Cmp.abs (v1.x - v2.x), Cmp.abs (v1.y - v2.y), Cmp.abs (v1.z - v2.z)⟩

structure KBaked (α : Type) where
  P : Nat
  patches : Array (PatchRec α)
  centers : Array (Vec3 α)
  sizes : Array (Vec3 α)
  wallCenters : Array (Vec3 α)

/-- `RadiosityKang.__init__`: every wall cut into patches (same loop as the fast engine) -/
def kangBake [Add α] [Sub α] [Mul α] [Div α] [Zero α] [Cmp α] [ToBin α] [NatCast α] (room : KRoom α) :
    Option (KBaked α) :=
  let r : Room α := { W := room.W, wallPts := room.wallPts, wallNormal := room.wallNormal,
                      wallUp := fun _ => ⟨0, 0, 0⟩, patchSize := room.patchSize }
  match makePatches r with
  | none => none
  | some patches =>
    let P := patches.size
    let pp := fun k => patches.getD k { wall := 0, pts := #[] }
    some { P := P, patches := patches
           centers := Array.ofFn (n := P) fun k => polygonCenter (fun v => (pp k.val).pt v) 4
           sizes := Array.ofFn (n := P) fun k => polySize (fun v => (pp k.val).pt v)
           wallCenters := Array.ofFn (n := room.W) fun w => polygonCenter (room.wallPts w.val) 4 }

structure KRun (α : Type) where
  P : Nat
  ff : Tab2 α              -- source patch i → receiver patch j (0 on the same wall)
  e0 : Array α
  bin0 : Array Nat
  orders : Array (Tab3 α)  -- order k ↦ (patch, 0, t)
  response : Array α       -- energy_at_receiver(max_order_k, ignore_direct = True)
  directBin : Nat
  directVal : α
  full : Option (Array α)  -- with the direct sound (`none`: its bin is outside the histogram)

/-- the whole run; `none` where the implementation raises -/
def runKang [Add α] [Sub α] [Mul α] [Div α] [Neg α] [Zero α] [One α] [Cmp α] [ToBin α] [NatCast α] [Transc α]
    (thr5 thr12 thr99 thr11 : α) (room : KRoom α) (par : KPar α) (src recv : Vec3 α) : Option (KRun α) :=
  match kangBake room with
  | none => none
  | some b =>
    let P := b.P
    let pp := fun k => b.patches.getD k { wall := 0, pts := #[] }
    let wall := fun k => (pp k).wall
    let cen := fun k => b.centers.getD k ⟨0, 0, 0⟩
    let nrm := fun k => room.wallNormal (wall k)
    let wc := fun w => b.wallCenters.getD w ⟨0, 0, 0⟩
    -- C. form factors: orthogonal walls (dot == 0) or parallel ones
    let ffO : Nat → Nat → Option α := fun i j =>
      if wall i = wall j then (some 0 : Option α)
      else
        let dot := Vec3.dot (nrm j) (nrm i)
        if feq dot 0 then some (kangFFOrth (cen i) (cen j) (nrm i) (nrm j) room.patchSize thr5 thr12)
        else
          let d := Vec3.sub (wc (wall j)) (wc (wall i))
          kangFFPar (cen i) (cen j) ⟨Cmp.abs d.x, Cmp.abs d.y, Cmp.abs d.z⟩ room.patchSize thr5
    let ffBad := (List.range P).any fun i => (List.range P).any fun j => (ffO i j).isNone
    -- B. first-order sources
    let dist0 := fun j => Vec3.norm (Vec3.sub (cen j) src)
    let bin0 := Array.ofFn (n := P) fun j => binKang (dist0 j.val) par.c par.fs
    let e0 := Array.ofFn (n := P) fun j =>
      kangInitPatch (nrm j.val) (cen j.val) (b.sizes.getD j.val ⟨0, 0, 0⟩) src par.power
        (room.absorption (wall j.val)) (room.att (wall j.val)) thr99 thr11
    let dist := fun i j => Vec3.norm (Vec3.sub (cen j) (cen i))
    let binT := tabulate2 P P fun i j => binKang (dist i j) par.c par.fs
    let ff := tabulate2 P P fun i j => (ffO i j).getD 0
    let ks : KangScene α :=
      { P := P, S := par.S, wall := wall
        bin0 := fun j => bin0.getD j 0
        bin := fun i j => lookup2 binT i j
        e0 := fun j => e0.getD j 0
        ff := fun i j => lookup2 ff i j
        refl := fun j => room.scattering (wall j) * (1 - room.absorption (wall j))
        attw := fun i j => Transc.exp (-(room.att (wall j)) * dist i j) }
    let sc := ks.toEx
    -- the delays the implementation indexes / rolls with must fit the histogram
    let initBad := (List.range P).any fun j => decide (par.S ≤ bin0.getD j 0)
    let exBad := decide (1 < room.W ∧ 1 ≤ par.K) &&
      ((List.range P).any fun i => (List.range P).any fun j =>
        wall i != wall j && decide (par.S < lookup2 binT i j))
    let binR := Array.ofFn (n := P) fun j => binKang (Vec3.norm (Vec3.sub (cen j.val) recv)) par.c par.fs
    let recvBad := (List.range P).any fun j => decide (par.S < binR.getD j 0)
    let r := Vec3.norm (Vec3.sub recv src)
    let dBin := binKang r par.c par.fs
    -- `init_energy_exchange` raises for a wall whose normal is not along an axis
    let normBad := (List.range room.W).any fun w =>
      let n := room.wallNormal w
      !(Cmp.lt thr99 (Cmp.abs n.z) || Cmp.lt thr99 (Cmp.abs n.y) || Cmp.lt thr99 (Cmp.abs n.x))
    if ffBad || initBad || exBad || recvBad || normBad then none
    else
      let K := if 1 < room.W then par.K else 0
      let orders := Array.ofFn (n := par.K + 1) fun k =>
        if k.val ≤ K then orderTab sc k.val else tabulate3 P 1 par.S fun _ _ _ => 0
      let H := fun k j t => lookup3 (orders.getD k (tabulate3 0 0 0 fun _ _ _ => 0)) j 0 t
      let resp := kangReceiverOf P par.K H (fun j => binR.getD j 0)
        (fun j => kangRecvFactor (nrm j) (cen j) recv (room.att (wall j)))
      let response := Array.ofFn (n := par.S) fun t => resp t.val
      let dVal := directSound r (room.att 0)
      let full := if dBin < par.S then
          some (Array.ofFn (n := par.S) fun t =>
            if t.val = dBin then response.getD t.val 0 + dVal else response.getD t.val 0)
        else none
      some { P := P, ff := ff, e0 := e0, bin0 := bin0, orders := orders, response := response,
             directBin := dBin, directVal := dVal, full := full }

end Sparrow
