import Sparrow.Model.Basic
/- Helpers the generated `__init__`/`check()` translation refers to (no Mathlib). -/
namespace Sparrow

/-- `ndarray.size`: product of the shape. -/
def shapeSize (s : List Int) : Int := s.foldl (· * ·) 1

/-- Python `int(a / b)` for rationals: truncation towards zero. -/
def truncDiv (a b : Rat) : Int :=
  let q := a / b
  if 0 ≤ q then q.floor else -((-q).floor)

/-- Shape effect of `np.atleast_3d`: `() ↦ (1,1,1)`, `(n) ↦ (1,n,1)`, `(m,n) ↦ (m,n,1)`, rank ≥ 3 unchanged. -/
def atleast3d : List Int → List Int
  | [] => [1, 1, 1]
  | [n] => [1, n, 1]
  | [m, n] => [m, n, 1]
  | s => s

/-- `np.atleast_2d`: `() ↦ (1,1)`, `(n) ↦ (1,n)`, rank ≥ 2 unchanged. -/
def atleast2d : List Int → List Int
  | [] => [1, 1]
  | [n] => [1, n]
  | s => s

/-- `np.atleast_1d`: `() ↦ (1)`, rank ≥ 1 unchanged. -/
def atleast1d : List Int → List Int
  | [] => [1]
  | s => s

end Sparrow
