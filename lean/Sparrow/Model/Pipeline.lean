import Sparrow.Model.Patches
import Sparrow.Model.Visibility
import Sparrow.Model.Nusselt
import Sparrow.Model.Bake
import Sparrow.Model.Frame
import Sparrow.Model.Source
import Sparrow.Model.Collect
import Sparrow.Model.Exchange
/-
  End-to-end model of the fast engine for one frequency band, from the bare scene description
  (walls, patch size, per-wall BRDF tables and reference direction sets, attenuation, source,
  receiver, speed of sound, resolution, duration, order) to the mono receiver curve:

    from_polygon → set_wall_brdf → set_air_attenuation → bake_geometry →
    init_source_energy → calculate_energy_exchange → collect_energy_receiver_mono

  It only composes the kernels modelled in the other files; intermediate results are tabulated
  so that the composition is executable.
-/
namespace Sparrow

variable {α : Type}

structure Room (α : Type) where
  W : Nat
  wallPts : Nat → Nat → Vec3 α      -- wall, vertex 0..3
  wallNormal : Nat → Vec3 α
  wallUp : Nat → Vec3 α
  patchSize : α

structure Materials (α : Type) where
  nIn : Nat
  nOut : Nat
  refIn : Nat → Vec3 α              -- incoming samples in the reference frame (normal +z, up +x)
  refOut : Nat → Vec3 α
  tableIdx : Nat → Nat              -- wall → table
  table : Nat → Nat → Nat → α       -- table, incoming, outgoing  (π·brdf of this band)
  att : Option α

structure RunPar (α : Type) where
  c : α
  dt : α
  S : Nat
  K : Nat

/-- one patch: owning wall and its four vertices -/
structure PatchRec (α : Type) where
  wall : Nat
  pts : Array (Vec3 α)

def PatchRec.pt [Zero α] (p : PatchRec α) (v : Nat) : Vec3 α := p.pts.getD v ⟨0, 0, 0⟩

/-- `_process_patches`: all walls subdivided, in wall order (`none` if a wall has no flat axis). -/
def makePatches [Add α] [Sub α] [Mul α] [Div α] [Zero α] [Cmp α] [ToBin α] [NatCast α] (room : Room α) :
    Option (Array (PatchRec α)) :=
  (List.range room.W).foldl (fun (acc : Option (Array (PatchRec α))) w =>
    match acc with
    | none => none
    | some arr =>
      let q : Quad α := fun v a => (room.wallPts w v).get a
      match grid q room.patchSize with
      | none => none
      | some g =>
        some ((List.range (totalPatches g)).foldl (fun ar k =>
          let pq := patchOf q g k
          ar.push { wall := w, pts := #[⟨pq 0 0, pq 0 1, pq 0 2⟩, ⟨pq 1 0, pq 1 1, pq 1 2⟩,
                                         ⟨pq 2 0, pq 2 1, pq 2 2⟩, ⟨pq 3 0, pq 3 1, pq 3 2⟩] }) arr))
    (some #[])

structure Baked (α : Type) where
  P : Nat
  patches : Array (PatchRec α)
  centers : Array (Vec3 α)
  areas : Array α
  pairs : List (Nat × Nat)          -- visible_patches
  F : Tab2 α                        -- form_factors
  scene : BakeScene α

/-- `from_polygon` + `set_wall_brdf` + `set_air_attenuation` + `bake_geometry` (geometry part). -/
def bakeRoom [Add α] [Sub α] [Mul α] [Div α] [Neg α] [Zero α] [One α] [Cmp α] [ToBin α] [NatCast α] [Transc α]
    (eta : α) (room : Room α) (mat : Materials α) : Option (Baked α) :=
  match makePatches room with
  | none => none
  | some patches =>
    let P := patches.size
    let pp := fun k => patches.getD k { wall := 0, pts := #[] }
    let centers := Array.ofFn (n := P) fun k => polygonCenter (fun v => (pp k.val).pt v) 4
    let areas := Array.ofFn (n := P) fun k => polygonArea (fun v => (pp k.val).pt v) 4
    let cen := fun k => centers.getD k ⟨0, 0, 0⟩
    let nrm := fun k => room.wallNormal (pp k).wall
    -- `_check_patch2patch_visibility`: blockers are all patches
    let vis := tabulate2 P P fun i j =>
      if i < j then
        (if visibleThroughAll eta (cen i) (cen j) P (fun s v => (pp s).pt v) 4 nrm then (1 : α) else 0)
      else 0
    let visB := fun i j => Cmp.lt 0 (lookup2 vis i j)
    let pairs := (List.range P).flatMap fun i => ((List.range P).filter fun j => visB i j).map fun j => (i, j)
    let F := tabulate2 P P fun i j =>
      if visB i j then
        universalFF (fun v => (pp i).pt v) 4 (nrm i) (areas.getD i 0) (fun v => (pp j).pt v) 4 (nrm j)
      else 0
    let inD := tabulate2 room.W mat.nIn fun w k => (rotateToWall (room.wallNormal w) (room.wallUp w) (mat.refIn k)).x
    -- direction sets per wall (three coordinates tabulated separately)
    let inDy := tabulate2 room.W mat.nIn fun w k => (rotateToWall (room.wallNormal w) (room.wallUp w) (mat.refIn k)).y
    let inDz := tabulate2 room.W mat.nIn fun w k => (rotateToWall (room.wallNormal w) (room.wallUp w) (mat.refIn k)).z
    let outD := tabulate2 room.W mat.nOut fun w k => (rotateToWall (room.wallNormal w) (room.wallUp w) (mat.refOut k)).x
    let outDy := tabulate2 room.W mat.nOut fun w k => (rotateToWall (room.wallNormal w) (room.wallUp w) (mat.refOut k)).y
    let outDz := tabulate2 room.W mat.nOut fun w k => (rotateToWall (room.wallNormal w) (room.wallUp w) (mat.refOut k)).z
    let sc : BakeScene α :=
      { P := P, D := mat.nOut, nIn := mat.nIn, center := cen, area := fun k => areas.getD k 0
        F := fun i j => lookup2 F i j, vis := visB, wall := fun k => (pp k).wall, tableIdx := mat.tableIdx
        inDirs := fun w k => ⟨lookup2 inD w k, lookup2 inDy w k, lookup2 inDz w k⟩
        outDirs := fun w k => ⟨lookup2 outD w k, lookup2 outDy w k, lookup2 outDz w k⟩
        table := mat.table, hasTable := true, att := mat.att }
    some { P := P, patches := patches, centers := centers, areas := areas, pairs := pairs, F := F, scene := sc }

/-- The whole run: baked transfer factors and index map, initial energies, exchange, receiver. -/
structure RunResult (α : Type) where
  P : Nat
  D : Nat
  pairs : List (Nat × Nat)
  F : Tab2 α
  fft : Tab3 α            -- (i*P + j, d, 0) flattened as (i, j·D + d)… see `runPipeline`
  outIdx : Array Nat
  e0 : Tab2 α
  dist0 : Array α
  etc : Tab3 α
  mono : Array α

def runPipeline [Add α] [Sub α] [Mul α] [Div α] [Neg α] [Zero α] [One α] [Cmp α] [ToBin α] [NatCast α] [Transc α]
    (eta thr : α) (room : Room α) (mat : Materials α) (par : RunPar α) (src recv : Vec3 α) :
    Option (RunResult α) :=
  match bakeRoom eta room mat with
  | none => none
  | some b =>
    let P := b.P
    let D := mat.nOut
    let sc := b.scene
    let pp := fun k => b.patches.getD k { wall := 0, pts := #[] }
    -- baked factors, tabulated as (i, j, d)
    let fft := tabulate3 P P D fun i j d => sc.fft i j d
    let outIdx := Array.ofFn (n := P * P) fun k => sc.outIdx (k.val / P) (k.val % P)
    -- source (blockers: the walls)
    let srcVis := Array.ofFn (n := P) fun k =>
      visibleThroughAll eta src (sc.center k.val) room.W room.wallPts 4 room.wallNormal
    let dist0 := Array.ofFn (n := P) fun k =>
      sourceDistance (srcVis.getD k.val false) (Vec3.norm (Vec3.sub src (sc.center k.val)))
    let energy0 := Array.ofFn (n := P) fun k =>
      sourceEnergy (srcVis.getD k.val false) (Vec3.norm (Vec3.sub src (sc.center k.val))) mat.att
        (ptSource thr src (fun v => (pp k.val).pt v) 4)
    let e0 := tabulate2 P D fun j d => sc.addDirectional src (fun k => energy0.getD k 0) j d
    -- exchange
    let ex : ExScene α :=
      { P := P, D := D, S := par.S, pairs := b.pairs
        bin0 := fun j => binFloor (dist0.getD j 0) par.c par.dt
        bin := fun i j => binFloor (Vec3.norm (Vec3.sub (sc.center i) (sc.center j))) par.c par.dt
        e0 := fun j d => lookup2 e0 j d
        fft := fun i j d => lookup3 fft i j d
        dir := fun i j => outIdx.getD (i * P + j) 0 }
    let etcT := if par.K = 0 then orderTab ex 0 else etcTab ex par.K
    -- receiver (blockers: the walls)
    let g := Array.ofFn (n := P) fun k =>
      if visibleThroughAll eta recv (sc.center k.val) room.W room.wallPts 4 room.wallNormal then
        ptReceiver thr recv (fun v => (pp k.val).pt v) 4
      else 0
    let ridx := Array.ofFn (n := P) fun k => sc.receiverIdx recv k.val
    let distR := Array.ofFn (n := P) fun k => Vec3.norm (Vec3.sub (sc.center k.val) recv)
    let m := match mat.att with
      | some a => a
      | none => 0
    let pw := patchwiseCodeF par.S (lookup3 etcT) (fun j => ridx.getD j 0) (fun j => g.getD j 0)
      (fun j => binCeil (distR.getD j 0) par.c par.dt) (fun j => receiverWeight m (distR.getD j 0))
    let pwT := tabulate2 P par.S pw
    let mono := Array.ofFn (n := par.S) fun t => monoF P (lookup2 pwT) t.val
    some { P := P, D := D, pairs := b.pairs, F := b.F, fft := fft, outIdx := outIdx, e0 := e0,
           dist0 := dist0, etc := etcT, mono := mono }

end Sparrow
