import Sparrow.Model.Hist
/-
  Model of the fast engine's energy kernels (one frequency band):

    `_energy_exchange_init_energy`, `_energy_exchange`  (classes/RadiosityFast.py)

  A scene is what those kernels receive, already reduced to bins:
  the visible-pair list, the per-leg delay bins, the baked transfer factors of the band,
  the outgoing-direction map and the initial energies.
-/
namespace Sparrow

variable {α : Type}

structure ExScene (α : Type) where
  P : Nat                       -- patches
  D : Nat                       -- outgoing direction slots
  S : Nat                       -- histogram bins  (n_samples)
  pairs : List (Nat × Nat)      -- rows of `visible_patches`
  bin0 : Nat → Nat              -- int(distance_0[j] / c / dt)
  bin  : Nat → Nat → Nat        -- int(distance_ij[i,j] / c / dt)
  e0   : Nat → Nat → α          -- energy_0_directivity[j, d, band]
  fft  : Nat → Nat → Nat → α    -- form_factors_tilde[i, j, d, band]
  dir  : Nat → Nat → Nat        -- patch_2_out_directions[i, j]

/-- The directed arcs `(i, j)` in the order the double loop of `_energy_exchange`
    visits them: for every listed pair first `(a, b)` then `(b, a)`. -/
def arcsOf (pairs : List (Nat × Nat)) : List (Nat × Nat) :=
  pairs.flatMap fun p => [(p.1, p.2), (p.2, p.1)]

def ExScene.arcs (sc : ExScene α) : List (Nat × Nat) := arcsOf sc.pairs

/-- Index well-formedness; numpy raises `IndexError` otherwise. -/
def ExScene.wf (sc : ExScene α) : Bool :=
  sc.arcs.all fun a => a.1 < sc.P && a.2 < sc.P && sc.dir a.1 a.2 < sc.D

/-- Order 0: `E[j, :, :, bin0 j] += e0[j]` when that bin exists, nothing otherwise. -/
def initF [Zero α] (sc : ExScene α) : Nat → Nat → Nat → α :=
  fun j d t => if t = sc.bin0 j then sc.e0 j d else 0

/-- One arc's slice-accumulate, seen from the target cell `(j, d, t)`:
    `E_new[j, d, n:] += fft[i, j, d] * E_old[i, dir i j, :-n]`  with `n = bin i j`
    touches `t` iff `n ≤ t`. -/
def contrib [Add α] [Mul α] (sc : ExScene α) (H : Nat → Nat → Nat → α) (d t : Nat)
    (acc : α) (a : Nat × Nat) : α :=
  if sc.bin a.1 a.2 ≤ t then
    acc + sc.fft a.1 a.2 d * H a.1 (sc.dir a.1 a.2) (t - sc.bin a.1 a.2)
  else acc

/-- One reflection order as a gather in arc order. -/
def stepF [Add α] [Mul α] [Zero α] (sc : ExScene α) (H : Nat → Nat → Nat → α) :
    Nat → Nat → Nat → α :=
  fun j =>
    let arcsJ := sc.arcs.filter fun a => a.2 == j
    fun d t => arcsJ.foldl (contrib sc H d t) 0

/-- Tabulated order-`k` histogram `H_k`. -/
def orderTab [Add α] [Mul α] [Zero α] (sc : ExScene α) : Nat → Tab3 α
  | 0 => tabulate3 sc.P sc.D sc.S (initF sc)
  | k + 1 => tabulate3 sc.P sc.D sc.S (stepF sc (lookup3 (orderTab sc k)))

/-- `H_k j d t`. -/
def orderH [Add α] [Mul α] [Zero α] (sc : ExScene α) (k : Nat) : Nat → Nat → Nat → α :=
  lookup3 (orderTab sc k)

/-- Accumulated histogram `E_matrix_total` after `K` orders, summed in the order the
    code sums (`total = H_0; total += H_1; …`). Returns (total, last order table). -/
def etcLoop [Add α] [Mul α] [Zero α] (sc : ExScene α) : Nat → Tab3 α × Tab3 α
  | 0 => let t0 := tabulate3 sc.P sc.D sc.S (initF sc); (t0, t0)
  | k + 1 =>
    let (tot, last) := etcLoop sc k
    let next := tabulate3 sc.P sc.D sc.S (stepF sc (lookup3 last))
    (tabulate3 sc.P sc.D sc.S fun j d t => lookup3 tot j d t + lookup3 next j d t, next)

def etcTab [Add α] [Mul α] [Zero α] (sc : ExScene α) (K : Nat) : Tab3 α := (etcLoop sc K).1

/-- `ETC_K j d t`: the model of `_energy_exchange(..., max_order = K, ...)[j, d, band, t]`. -/
def etc [Add α] [Mul α] [Zero α] (sc : ExScene α) (K : Nat) : Nat → Nat → Nat → α :=
  lookup3 (etcTab sc K)

end Sparrow
