import Sparrow.Model.Vec
/-
  Model of the source directivity lookup (sound_object.py):
  `_get_metrics`, `DirectivityMS.get_directivity`, `SoundSource.get_directivity`, and the way
  `init_source_energy` / `calculate_direct_sound` apply it.
-/
namespace Sparrow

variable {α : Type}

/-- Local components of the direction `target - pos` in the source frame, as `_get_metrics`
    computes them: `x' = view × up`, `y' = up`, `z' = -view`. -/
def metricsLocal [Add α] [Sub α] [Mul α] [Neg α] (pos view up target : Vec3 α) : Vec3 α :=
  let d := Vec3.sub target pos
  ⟨Vec3.dot d (Vec3.cross view up), Vec3.dot d up, Vec3.dot d ⟨-view.x, -view.y, -view.z⟩⟩

/-- azimuth `atan2(-w_x, -w_z)` and elevation `asin(w_y / |w|)` in radians. -/
def metricsAngles [Add α] [Sub α] [Mul α] [Div α] [Neg α] [Transc α] (pos view up target : Vec3 α) : α × α :=
  let w := metricsLocal pos view up target
  (Transc.atan2 (-w.x) (-w.z), Transc.asin (w.y / Transc.sqrt (Vec3.dot w w)))

/-- The unit vector looked up in the directivity's receiver set: the direction expressed in the
    frame (view, up × view, up), normalised. -/
def metricsDir [Add α] [Sub α] [Mul α] [Div α] [Neg α] [Transc α] (pos view up target : Vec3 α) : Vec3 α :=
  let d := Vec3.sub target pos
  let w := metricsLocal pos view up target
  Vec3.sdiv ⟨Vec3.dot d view, Vec3.dot d (Vec3.cross up view), Vec3.dot d up⟩ (Transc.sqrt (Vec3.dot w w))

/-- spherical (azimuth, elevation, radius 1) → cartesian, as pyfar does -/
def sphToCart [Mul α] [Transc α] (cosf sinf : α → α) (az el : α) : Vec3 α :=
  ⟨cosf el * cosf az, cosf el * sinf az, sinf el⟩

/-- nearest measured frequency: first index minimising `|f_k - f|` -/
def nearestFreq [Sub α] [Cmp α] (n : Nat) (freqs : Nat → α) (f : α) : Nat :=
  argminFirst n fun k => Cmp.abs (freqs k - f)

/-- `SoundSource.get_directivity(target, frequency)`: table entry of the nearest measured
    direction at the nearest measured frequency. -/
def directivityFactor [Add α] [Sub α] [Mul α] [Div α] [Neg α] [Cmp α] [Transc α]
    (nDir nFreq : Nat) (dirs : Nat → Vec3 α) (freqs : Nat → α) (table : Nat → Nat → α)
    (pos view up target : Vec3 α) (f : α) : α :=
  table (nearest dirs nDir (metricsDir pos view up target)) (nearestFreq nFreq freqs f)

/-- The directivity block of `init_source_energy`: every outgoing slot of patch `j` is
    multiplied by the factor for the patch centre; a source without directivity multiplies by 1. -/
def applyDirectivity [Mul α] [One α] (g : Option (Nat → α)) (e0 : Nat → Nat → α) (j d : Nat) : α :=
  match g with
  | some gf => e0 j d * gf j
  | none => e0 j d * 1

/-- Direct sound with directivity: the omnidirectional value times the factor towards the
    receiver (only when the source has a directivity). -/
def applyDirectivityDirect [Mul α] (g : Option α) (v : α) : α :=
  match g with
  | some gf => v * gf
  | none => v

end Sparrow
