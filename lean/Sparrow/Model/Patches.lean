import Sparrow.Model.Basic
/-
  Model of the wall subdivision:
    `geometry._create_patches`, `_total_number_of_patches`, `_process_patches`
    and the duplicated loop in `PatchesKang.__init__`.
  A wall is four vertices; coordinates are indexed by axis 0,1,2.
-/
namespace Sparrow

variable {α : Type}

/-- wall / patch: vertex index (0..3) → axis (0..2) → coordinate -/
abbrev Quad (α : Type) := Nat → Nat → α

def minOver [Cmp α] (f : Nat → α) (n : Nat) : α :=
  (List.range n).foldl (fun m k => if Cmp.lt (f k) m then f k else m) (f 0)

def maxOver [Cmp α] (f : Nat → α) (n : Nat) : α :=
  (List.range n).foldl (fun m k => if Cmp.lt m (f k) then f k else m) (f 0)

/-- per-axis extent `max - min` over the four vertices -/
def extent [Cmp α] [Sub α] (w : Quad α) (axis : Nat) : α :=
  maxOver (fun v => w v axis) 4 - minOver (fun v => w v axis) 4

/-- patches per axis: `int(size / max_size)` -/
def patchNum [Cmp α] [Sub α] [Div α] [ToBin α] (w : Quad α) (p : α) (axis : Nat) : Nat :=
  ToBin.floorNat (extent w axis / p)

/-- The two in-plane axes: the last of the three `if patch_nums[k] == 0` tests that fires
    wins; none firing is an error (unbound local in Python). -/
def planeAxes (n0 n1 n2 : Nat) : Option (Nat × Nat) :=
  if n0 = 0 then some (1, 2) else if n1 = 0 then some (0, 2) else if n2 = 0 then some (0, 1) else none

structure Grid (α : Type) where
  nx : Nat
  ny : Nat
  xIdx : Nat
  yIdx : Nat
  xMin : α
  yMin : α
  rx : α          -- real patch size along x: extent / nx
  ry : α

def grid [Cmp α] [Sub α] [Div α] [ToBin α] [NatCast α] (w : Quad α) (p : α) : Option (Grid α) :=
  let n0 := patchNum w p 0
  let n1 := patchNum w p 1
  let n2 := patchNum w p 2
  match planeAxes n0 n1 n2 with
  | none => none
  | some (xi, yi) =>
    let nn := fun a => if a = 0 then n0 else if a = 1 then n1 else n2
    some { nx := nn xi, ny := nn yi, xIdx := xi, yIdx := yi
           xMin := minOver (fun v => w v xi) 4, yMin := minOver (fun v => w v yi) 4
           rx := extent w xi / (nn xi : α), ry := extent w yi / (nn yi : α) }

/-- Vertex `v`, axis `a` of patch `(ix, iy)`:  vertices 0,3 sit at `ix`, 1,2 at `ix+1`;
    vertices 0,1 at `iy`, 2,3 at `iy+1`; the flat coordinate is the wall's own. -/
def patchCoord [Add α] [Mul α] [NatCast α] (w : Quad α) (g : Grid α) (ix iy v a : Nat) : α :=
  if a = g.xIdx then g.xMin + ((ix + (if v = 1 ∨ v = 2 then 1 else 0) : Nat) : α) * g.rx
  else if a = g.yIdx then g.yMin + ((iy + (if v = 2 ∨ v = 3 then 1 else 0) : Nat) : α) * g.ry
  else w v a

/-- Patch number `k` in the enumeration order of the code (`ix` outer, `iy` inner). -/
def patchOf [Add α] [Mul α] [NatCast α] (w : Quad α) (g : Grid α) (k : Nat) : Quad α :=
  fun v a => patchCoord w g (k / g.ny) (k % g.ny) v a

def totalPatches (g : Grid α) : Nat := g.nx * g.ny

/-- `_process_patches`: the wall owning global patch index `k`, given the per-wall counts. -/
def wallOfPatch (counts : List Nat) (k : Nat) : Nat :=
  let rec go (cs : List Nat) (w : Nat) (k : Nat) : Nat :=
    match cs with
    | [] => w
    | c :: rest => if k < c then w else go rest (w + 1) (k - c)
  go counts 0 k

end Sparrow
