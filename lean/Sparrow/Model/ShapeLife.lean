import Sparrow.Generated.Check
/-
  Shape-level model of the life cycle of `DirectionalRadiosityFast` (no Mathlib):
  which attributes are set after which calls, and with which *shapes* — exactly the information
  `to_dict()` hands to the constructor and `check()` looks at when an object is restored.

    from_polygon → { set_wall_brdf | set_air_attenuation | bake_geometry | init_source_energy |
                     calculate_energy_exchange | to_dict/from_dict }*

  A step returns `none` where the Python call raises (or where its behaviour is not specified by
  the class: using baked factors whose shape no longer fits the configuration).  `toCfg` is the
  abstraction of the saved dictionary to the generated record `Cfg`; `accepted` runs the generated
  `check()` on it.  Tied to the implementation by the history correspondence of C18 (shapes of
  every attribute after every step, and whether the restore is accepted).
-/
namespace Sparrow.Shape
open Sparrow Sparrow.Generated

/-- identity of a frequency vector: number of bands and a tag for its values -/
structure Freq where
  n : Nat
  tag : Nat
  deriving DecidableEq, Repr

structure St where
  W : Nat                                   -- walls
  nv : Nat                                  -- vertices per wall / patch
  P : Nat                                   -- patches
  ids : List Int                            -- patch → wall
  freq : Option Freq := none
  /-- per wall: sizes of the incoming / outgoing direction sets (`none` = the entry is `None`) -/
  dirs : Option (List (Option (Nat × Nat))) := none
  /-- shapes of the tables in `_brdf`: `[n_in, n_out, n_bins]` for a table set by the user,
      `[1, n_bins]` for the default table of `init_source_energy` (stacking both kinds fails) -/
  tables : List (List Nat) := []
  att : Option Nat := none
  nvis : Option Nat := none                 -- rows of `_visible_patches` (bake has run)
  fft : Option (Nat × Nat) := none          -- (n_out, n_bins) of `_form_factors_tilde`
  c : Option Rat := none
  dt : Option Rat := none
  dur : Option Rat := none
  e0 : Option (Nat × Nat) := none           -- (n_out, n_bins) of `_energy_init_source`
  etc : Option (Nat × Nat × Int) := none    -- (n_out, n_bins, n_samples)
  deriving Repr

inductive Op where
  | setBrdf (walls : List Nat) (nIn nOut : Nat) (f : Freq)
  | setAtt (f : Freq)
  | bake (nVisible : Nat)
  | init
  | exchange (c dt dur : Rat) (order : Int) (recalc : Bool)
  | saveRestore
  deriving Repr

/-- `from_polygon` -/
def fresh (W nv P : Nat) (ids : List Int) : St := { W := W, nv := nv, P := P, ids := ids }

/-- `_check_set_frequency`: first vector is adopted, later ones must be the same vector -/
def setFreq (s : St) (f : Freq) : Option St :=
  match s.freq with
  | none => some { s with freq := some f }
  | some g => if g = f then some s else none

def setAt {β : Type} (l : List β) (ws : List Nat) (v : β) : List β :=
  l.zipIdx.map fun (x, i) => if ws.contains i then v else x

/-- `set_wall_brdf(walls, brdf, incoming, outgoing)` with a table of shape `tshape` -/
def setBrdfT (s : St) (ws : List Nat) (nIn nOut : Nat) (f : Freq) (tshape : List Nat) : Option St :=
  if ws.all (· < s.W) then
    match setFreq s f with
    | none => none
    | some s1 =>
      let d := s1.dirs.getD (List.replicate s1.W none)
      some { s1 with dirs := some (setAt d ws (some (nIn, nOut))), tables := s1.tables ++ [tshape] }
  else none

def setBrdf (s : St) (ws : List Nat) (nIn nOut : Nat) (f : Freq) : Option St :=
  setBrdfT s ws nIn nOut f [nIn, nOut, f.n]

/-- `set_air_attenuation(att)` -/
def setAtt (s : St) (f : Freq) : Option St :=
  (setFreq s f).map fun s1 => { s1 with att := some f.n }

def allSame {β : Type} [DecidableEq β] : List β → Bool
  | [] => true
  | x :: xs => xs.all (· = x)

/-- the direction sets can be stacked into one array: every wall has one, all of one size -/
def dirsUniform (s : St) : Option (Nat × Nat) :=
  match s.dirs with
  | none => none
  | some d =>
    if d.all Option.isSome && allSame d then
      match d.head? with
      | some (some x) => some x
      | _ => none
    else none

/-- number of outgoing directions / bands `check()` and the kernels derive from the configuration -/
def curOut (s : St) : Nat :=
  match s.dirs with
  | none => 1
  | some d => match d.head? with
    | some (some x) => x.2
    | _ => 0
def curBins (s : St) : Nat := match s.freq with | none => 1 | some f => f.n

/-- `bake_geometry()` -/
def bake (s : St) (nVisible : Nat) : Option St :=
  match s.dirs with
  | none => some { s with nvis := some nVisible, fft := some (1, curBins s) }
  | some _ =>
    match dirsUniform s with
    | none => none                                  -- `None.cartesian` / ragged array
    | some (_, nOut) =>
      if allSame s.tables then some { s with nvis := some nVisible, fft := some (nOut, curBins s) }
      else none

/-- default materials of `init_source_energy` -/
def installDefaults (s : St) : Option St :=
  let s1 : Option St :=
    match s.dirs with
    | some _ => some s
    | none =>
      let f := s.freq.getD ⟨1, 0⟩
      -- the default table is 2-D `(1, n_bins)`; stacked alone it behaves like `(1, 1, n_bins)`
      (setBrdfT s (List.range s.W) 1 1 f [1, f.n]).map fun t => { t with freq := some f }
  s1.bind fun t =>
    match t.att with
    | some _ => some t
    | none =>
      let f := t.freq.getD ⟨1, 0⟩
      (setAtt t f).map fun u => { u with freq := some f }

/-- `init_source_energy(source)` for one valid source position -/
def init (s : St) : Option St :=
  (installDefaults s).bind fun t =>
    match dirsUniform t with
    | none => none
    | some (_, nOut) =>
      if allSame t.tables then some { t with e0 := some (nOut, curBins t) } else none

/-- `calculate_energy_exchange(c, dt, duration, order, recalculate)` for positive parameters -/
def exchange (s : St) (c dt dur : Rat) (order : Int) (recalc : Bool) : Option St :=
  if 0 < c ∧ 0 < dt ∧ 0 < dur then
    match s.e0 with
    | none => none
    | some (nOut, nBins) =>
      if s.etc.isNone || recalc then
        let ns := truncDiv dur dt
        if order < 1 then
          some { s with etc := some (nOut, nBins, ns), c := some c, dt := some dt, dur := some dur }
        else
          -- needs baked factors that fit the initial energy
          if s.nvis.isSome ∧ s.fft = some (nOut, nBins) then
            some { s with etc := some (nOut, nBins, ns), c := some c, dt := some dt, dur := some dur }
          else none
      else some s
  else none

def oi (n : Nat) : Int := Int.ofNat n

/-- the saved dictionary, abstracted like the harness abstracts `to_dict()` -/
def toCfg (s : St) : Cfg :=
  { walls_points := [oi s.W, oi s.nv, 3]
    walls_normal := [oi s.W, 3]
    walls_up_vector := [oi s.W, 3]
    patches_points := [oi s.P, oi s.nv, 3]
    n_patches := oi s.P
    patch_to_wall_ids_shape := [oi s.P]
    patch_to_wall_ids := s.ids
    visibility_matrix := s.nvis.map fun _ => [oi s.P, oi s.P]
    visible_patches := s.nvis.map fun n => [oi n, 2]
    form_factors := s.nvis.map fun _ => [oi s.P, oi s.P]
    form_factors_tilde := s.fft.map fun x => [oi s.P, oi s.P, oi x.1, oi x.2]
    frequencies := s.freq.map fun f => [oi f.n]
    brdf := s.dirs.map fun _ => s.tables.length
    brdf_index := s.dirs.map fun _ => [oi s.W]
    brdf_incoming_directions := s.dirs.map fun d => d.map fun e => match e with
      | some x => (true, oi x.1) | none => (false, 0)
    brdf_outgoing_directions := s.dirs.map fun d => d.map fun e => match e with
      | some x => (true, oi x.2) | none => (false, 0)
    patch_2_brdf_outgoing_index := s.nvis.map fun _ => [oi s.P, oi s.P]
    air_attenuation := s.att.map fun n => [oi n]
    speed_of_sound := s.c
    etc_time_resolution := s.dt
    etc_duration := s.dur
    distance_patches_to_source := s.e0.map fun _ => [oi s.P]
    energy_init_source := s.e0.map fun x => [oi s.P, oi x.1, oi x.2]
    energy_exchange_etc := s.etc.map fun x => [oi s.P, oi x.1, oi x.2.1, x.2.2] }

/-- `from_dict(to_dict())` succeeds -/
def accepted (s : St) : Bool :=
  match checkGen (convert (toCfg s)) with
  | .ok _ => true
  | .error _ => false

def step (s : St) : Op → Option St
  | .setBrdf ws nIn nOut f => setBrdf s ws nIn nOut f
  | .setAtt f => setAtt s f
  | .bake n => bake s n
  | .init => init s
  | .exchange c dt dur k r => exchange s c dt dur k r
  | .saveRestore => if accepted s then some s else none

def run (s : St) : List Op → Option St
  | [] => some s
  | op :: ops => (step s op).bind fun t => run t ops

end Sparrow.Shape
