import Sparrow.Model.Bake
import Sparrow.Model.Collect
import Sparrow.Model.Exchange
/-
  Source and receiver legs of the fast engine:
  the gate/attenuation of `_source2patch_energy_universal`, the attenuation weight of
  `_collect_receiver_energy`, `calculate_direct_sound`, and the assembly of an exchange
  scene from a baked scene.
-/
namespace Sparrow

variable {α : Type}

/-- `_source2patch_energy_universal` for one patch and band: exactly `0` (energy and distance)
    when the patch is not visible from the source, else `exp(-m·d) · Ω/(4π)` (`pt` is the
    point-to-patch factor of `pt_solution`, mode "source"). -/
def sourceEnergy [Mul α] [Neg α] [Zero α] [Transc α] (vis : Bool) (d : α) (att : Option α)
    (pt : α) : α :=
  if vis then
    match att with
    | some m => Transc.exp (-m * d) * pt
    | none => pt
  else 0

def sourceDistance [Zero α] (vis : Bool) (d : α) : α := if vis then d else 0

/-- Attenuation weight of the patch→receiver leg. -/
def receiverWeight [Mul α] [Neg α] [Transc α] (m d : α) : α := Transc.exp (-m * d)

/-- `calculate_direct_sound`: `1/(4π r²)·exp(-m r)` (then times the directivity factor, if the
    source has one), placed in bin `int(r/c/dt)`. -/
def directSound [Mul α] [Div α] [Neg α] [One α] [Add α] [Transc α] (r m : α) : α :=
  let four : α := (1 + 1) + (1 + 1)
  (1 / (four * Transc.pi * (r * r))) * Transc.exp (-m * r)

/-- The exchange scene of one band assembled from a baked scene. -/
def BakeScene.toEx [Add α] [Sub α] [Mul α] [Div α] [Neg α] [Zero α] [Cmp α] [Transc α]
    (sc : BakeScene α) (S : Nat) (pairs : List (Nat × Nat)) (bin0 : Nat → Nat)
    (bin : Nat → Nat → Nat) (e0 : Nat → Nat → α) : ExScene α :=
  { P := sc.P, D := if sc.hasTable then sc.D else 1, S := S, pairs := pairs, bin0 := bin0, bin := bin
    e0 := e0, fft := sc.fft, dir := sc.outIdx }

end Sparrow
