import Sparrow.Model.Basic
/-
  Histograms, the two delay operators (slice shift with truncation, and `np.roll`),
  and tabulation of index functions into nested arrays.
-/
namespace Sparrow

variable {α : Type}

/-- "Delay by `n` bins, drop what falls off the end":
    `out[n:] = h[:len-n]`, `out[:n] = 0`. -/
def shiftTrunc [Zero α] (n : Nat) (h : List α) : List α :=
  (List.replicate n 0 ++ h).take h.length

/-- `np.roll(h, n)`: cyclic shift (the wrong ring, kept to state what it breaks). -/
def roll (n : Nat) (h : List α) : List α :=
  let m := h.length
  if m = 0 then h else h.rotateRight (n % m)

/-- Sum of a histogram, left to right. -/
def histSum [Add α] [Zero α] (h : List α) : α := h.foldl (· + ·) 0

/-- A 3-index table (patch, direction slot, time bin). -/
abbrev Tab3 (α : Type) := Array (Array (Array α))

/-- Tabulate an index function.  `f j` is evaluated once per `j`, so a definition of the
    form `fun j => let pre := …; fun d t => …` shares `pre` over all `(d, t)`. -/
def tabulate3 (P D S : Nat) (f : Nat → Nat → Nat → α) : Tab3 α :=
  Array.ofFn (n := P) fun j =>
    let g := f j.val
    Array.ofFn (n := D) fun d => Array.ofFn (n := S) fun t => g d.val t.val

def lookup3 [Zero α] (T : Tab3 α) (j d t : Nat) : α :=
  ((T.getD j #[]).getD d #[]).getD t 0

/-- A 2-index table. -/
abbrev Tab2 (α : Type) := Array (Array α)

def tabulate2 (P S : Nat) (f : Nat → Nat → α) : Tab2 α :=
  Array.ofFn (n := P) fun j =>
    let g := f j.val
    Array.ofFn (n := S) fun t => g t.val

def lookup2 [Zero α] (T : Tab2 α) (j t : Nat) : α :=
  (T.getD j #[]).getD t 0

end Sparrow
