import Sparrow.Model.Vec
/-
  Model of the visibility kernels of geometry.py:
  `_rotation_matrix` (towards +z), `_matrix_vector_product`, `_project_to_plane` (3-D and 2-D),
  `_point_in_polygon` (winding number in the rotated plane), `_basic_visibility`,
  `_check_patch2patch_visibility`, `_check_point2patch_visibility`.
-/
namespace Sparrow

variable {α : Type}

structure Mat3 (α : Type) where
  r0 : Vec3 α
  r1 : Vec3 α
  r2 : Vec3 α

def Mat3.mulVec [Add α] [Mul α] (m : Mat3 α) (v : Vec3 α) : Vec3 α :=
  ⟨Vec3.dot m.r0 v, Vec3.dot m.r1 v, Vec3.dot m.r2 v⟩

def Mat3.id [Zero α] [One α] : Mat3 α := ⟨⟨1, 0, 0⟩, ⟨0, 1, 0⟩, ⟨0, 0, 1⟩⟩

/-- float equality test `a == b` of the code -/
def feq [Cmp α] (a b : α) : Bool := !Cmp.lt a b && !Cmp.lt b a

/-- `_rotation_matrix(n_in)` with the default target `(0, 0, 1)` (Rodrigues' formula). -/
def rotationToZ [Add α] [Sub α] [Mul α] [Div α] [Neg α] [Zero α] [One α] [Cmp α] [Transc α]
    (n : Vec3 α) : Mat3 α :=
  if feq n.x 0 && feq n.y 0 && feq n.z 1 then Mat3.id
  else
    let a := Vec3.normalize n
    let b : Vec3 α := ⟨0, 0, 1⟩
    let c := Vec3.dot a b
    let v := Vec3.cross a b
    let s := Vec3.norm v
    if feq s 0 && Cmp.lt 0 c then Mat3.id
    else if !feq c (-1) then
      let f := (1 - c) / (s * s)
      -- K = [[0,-v2,v1],[v2,0,-v0],[-v1,v0,0]],  K·K computed entrywise
      let k00 : α := 0;      let k01 := -v.z;  let k02 := v.y
      let k10 := v.z;        let k11 : α := 0; let k12 := -v.x
      let k20 := -v.y;       let k21 := v.x;   let k22 : α := 0
      let kk := fun (a0 a1 a2 b0 b1 b2 : α) => a0 * b0 + a1 * b1 + a2 * b2
      ⟨⟨1 + k00 + kk k00 k01 k02 k00 k10 k20 * f, 0 + k01 + kk k00 k01 k02 k01 k11 k21 * f, 0 + k02 + kk k00 k01 k02 k02 k12 k22 * f⟩,
       ⟨0 + k10 + kk k10 k11 k12 k00 k10 k20 * f, 1 + k11 + kk k10 k11 k12 k01 k11 k21 * f, 0 + k12 + kk k10 k11 k12 k02 k12 k22 * f⟩,
       ⟨0 + k20 + kk k20 k21 k22 k00 k10 k20 * f, 0 + k21 + kk k20 k21 k22 k01 k11 k21 * f, 1 + k22 + kk k20 k21 k22 k02 k12 k22 * f⟩⟩
    else ⟨⟨-1, 0, 0⟩, ⟨0, 1, 0⟩, ⟨0, 0, -1⟩⟩

/-- `_project_to_plane(origin, point, plane_pt, normal, check_normal=False)`: the point where the
    line through `origin` and `point` meets the plane, `none` if (nearly) parallel. -/
def projectToPlane [Add α] [Sub α] [Mul α] [Div α] [Neg α] [Cmp α] (eps : α)
    (origin point planePt normal : Vec3 α) : Option (Vec3 α) :=
  let v := Vec3.sub point origin
  let dp := Vec3.dot v normal
  if Cmp.lt eps (Cmp.abs dp) then
    let w := Vec3.sub point planePt
    let fac := -(Vec3.dot normal w / dp)
    some (Vec3.add (Vec3.add w planePt) (Vec3.smul fac v))
  else none

structure Vec2 (α : Type) where
  x : α
  y : α

def Vec2.sub [Sub α] (a b : Vec2 α) : Vec2 α := ⟨a.x - b.x, a.y - b.y⟩
def Vec2.add [Add α] (a b : Vec2 α) : Vec2 α := ⟨a.x + b.x, a.y + b.y⟩
def Vec2.smul [Mul α] (s : α) (a : Vec2 α) : Vec2 α := ⟨s * a.x, s * a.y⟩
def Vec2.dot [Add α] [Mul α] (a b : Vec2 α) : α := a.x * b.x + a.y * b.y
def Vec2.norm [Add α] [Mul α] [Transc α] (a : Vec2 α) : α := Transc.sqrt (Vec2.dot a a)

def projectToLine2 [Add α] [Sub α] [Mul α] [Div α] [Neg α] [Cmp α] (eps : α)
    (origin point planePt normal : Vec2 α) : Option (Vec2 α) :=
  let v := Vec2.sub point origin
  let dp := Vec2.dot v normal
  if Cmp.lt eps (Cmp.abs dp) then
    let w := Vec2.sub point planePt
    let fac := -(Vec2.dot normal w / dp)
    some (Vec2.add (Vec2.add w planePt) (Vec2.smul fac v))
  else none

/-- contribution of polygon side `a0 → a1` to the winding count of the ray from `pt` in `+x` -/
def windingSide [Add α] [Sub α] [Mul α] [Div α] [Neg α] [Zero α] [One α] [Cmp α] [Transc α]
    (eta : α) (pt a0 a1 : Vec2 α) : Int :=
  let side := Vec2.sub a1 a0
  let len := Vec2.norm side
  let nl : Vec2 α := ⟨-side.y / len, side.x / len⟩
  match projectToLine2 eta pt (Vec2.add pt ⟨1, 0⟩) a1 nl with
  | none => 0
  | some b =>
    if Cmp.lt pt.x b.x then
      if Cmp.le (Cmp.abs (Vec2.norm (Vec2.sub b a0) + Vec2.norm (Vec2.sub b a1) - Vec2.norm (Vec2.sub a1 a0))) eta then
        let d := Vec2.dot (Vec2.sub b pt) nl
        if Cmp.lt 0 d then 1 else if Cmp.lt d 0 then -1 else 0
      else 0
    else 0

/-- `_point_in_polygon(point3d, polygon3d, plane_normal)` -/
def pointInPolygon [Add α] [Sub α] [Mul α] [Div α] [Neg α] [Zero α] [One α] [Cmp α] [Transc α]
    (eta : α) (p : Vec3 α) (poly : Nat → Vec3 α) (n : Nat) (normal : Vec3 α) : Bool :=
  if Cmp.lt eta (Cmp.abs (Vec3.dot (Vec3.sub p (poly 0)) normal)) then false
  else
    let rot := rotationToZ normal
    let to2 := fun (q : Vec3 α) => let r := rot.mulVec q; (⟨r.x, r.y⟩ : Vec2 α)
    let pt := to2 p
    let count := (List.range n).foldl (fun (acc : Int) i =>
      acc + windingSide eta pt (to2 (poly i)) (to2 (poly ((i + 1) % n)))) 0
    count != 0

/-- `_basic_visibility(vis_point, eval_point, surf_points, surf_normal)` with the membership
    test abstracted (`inSurf`): `true` = the surface does not hide the two points from each other. -/
def basicVisibilityWith [Add α] [Sub α] [Mul α] [Div α] [Neg α] [Zero α] [Cmp α]
    (eta : α) (inSurf : Vec3 α → Bool) (a b p0 normal : Vec3 α) : Bool :=
  let aIn := inSurf a
  let bIn := inSurf b
  if !aIn && !bIn then
    match projectToPlane eta a b p0 normal with
    | none => true
    | some pt =>
      if inSurf pt then
        if Cmp.lt (Vec3.dot (Vec3.sub pt a) (Vec3.sub pt b)) 0 then false else true
      else true
  else if aIn && !bIn && Cmp.lt (Vec3.dot normal (Vec3.sub b a)) 0 then false
  else if !aIn && bIn && Cmp.lt (Vec3.dot normal (Vec3.sub a b)) 0 then false
  else if Cmp.lt (Cmp.abs (Vec3.dot (Vec3.sub a p0) normal)) eta &&
          Cmp.lt (Cmp.abs (Vec3.dot (Vec3.sub b p0) normal)) eta && (aIn || bIn) then false
  else true

def basicVisibility [Add α] [Sub α] [Mul α] [Div α] [Neg α] [Zero α] [One α] [Cmp α] [Transc α]
    (eta : α) (a b : Vec3 α) (poly : Nat → Vec3 α) (n : Nat) (normal : Vec3 α) : Bool :=
  basicVisibilityWith eta (fun q => pointInPolygon eta q poly n normal) a b (poly 0) normal

/-- the scans: visible iff no surface of the scene hides the pair -/
def visibleThroughAll [Add α] [Sub α] [Mul α] [Div α] [Neg α] [Zero α] [One α] [Cmp α] [Transc α]
    (eta : α) (a b : Vec3 α) (nSurf : Nat) (surf : Nat → Nat → Vec3 α) (nPts : Nat) (normals : Nat → Vec3 α) : Bool :=
  (List.range nSurf).all fun s => basicVisibility eta a b (surf s) nPts (normals s)

end Sparrow
