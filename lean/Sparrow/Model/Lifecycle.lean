import Sparrow.Model.Basic
/-
  Life-cycle model of `DirectionalRadiosityFast` (hand-written; tied to the source by the
  generated read/write footprints in `Generated/Lifecycle.lean` and by the history
  correspondence, which compares "same term" with "same content hash" on real objects).

  Values are *terms*: which kernel produced an attribute from which inputs.  Kernels are
  deterministic pure functions of their array arguments (tied by the numerical
  correspondence), so equal terms denote bit-identical arrays.
-/
namespace Sparrow.Life

inductive Term where
  | none : Term
  | inp : String → Term
  | app : String → List Term → Term
  deriving Repr, Inhabited

/-- `x is None` -/
def Term.isNone : Term → Bool
  | .none => true
  | _ => false

/-- The simulation object: the attributes that matter, grouped.  `geom` stands for the six
    constructor arrays (never written after construction); `W` is the number of walls. -/
structure St where
  W : Nat
  geom : Term
  freq : Term
  brdf : List Term                -- `_brdf`: tables in call order
  index : Option (List Int)       -- `_brdf_index`, `-1` = wall not set; `none` = attribute None
  dirsIn : Option (List Term)     -- `_brdf_incoming_directions` per wall
  dirsOut : Option (List Term)
  att : Term
  vis : Term
  visible : Term
  ff : Term
  fft : Term
  p2o : Term
  c : Term
  dt : Term
  dur : Term
  d0 : Term
  e0 : Term
  etc : Term
  source : Term                   -- `_source`: NOT serialised
  deriving Repr, Inhabited

inductive Op where
  | setBrdf (walls : List Nat) (mat : String)
  | setAtt (a : String)
  | bake
  | init (src : String)
  | exchange (par : String) (orderZero : Bool) (recalc : Bool)
  | saveRestore
  deriving Repr

def fresh (W : Nat) (g : String) : St :=
  { W := W, geom := .inp g, freq := .none, brdf := [], index := none, dirsIn := none, dirsOut := none,
    att := .none, vis := .none, visible := .none, ff := .none, fft := .none, p2o := .none,
    c := .none, dt := .none, dur := .none, d0 := .none, e0 := .none, etc := .none, source := .none }

/-- `_brdf[_brdf_index[w]]` with Python's negative indexing (`-1` reads the last table). -/
def tableAt (brdf : List Term) (k : Int) : Term :=
  if 0 ≤ k then brdf.getD k.toNat .none
  else if brdf.length = 0 then .none else brdf.getD (brdf.length - 1) .none

/-- Effective table of wall `w`. -/
def eff (s : St) (w : Nat) : Term :=
  match s.index with
  | some ix => tableAt s.brdf (ix.getD w (-1))
  | none => .none

def effAll (s : St) : List Term := (List.range s.W).map (eff s)

def setAll {β : Type} (l : List β) (idx : List Nat) (f : Nat → β) : List β :=
  (List.range l.length).map fun i => if idx.contains i then f i else l.getD i (f i)

/-- `set_wall_brdf` with the table given as a term (`tab`) and named direction sets. All
    materials of one configuration share the frequency vector `F` (the code asserts equality). -/
def setBrdfT (s : St) (walls : List Nat) (tab : Term) (dirs : String) : St :=
  let dIn := s.dirsIn.getD (List.replicate s.W .none)
  let dOut := s.dirsOut.getD (List.replicate s.W .none)
  let ix := if s.dirsIn.isSome then s.index.getD (List.replicate s.W (-1)) else List.replicate s.W (-1)
  let br := if s.dirsIn.isSome then s.brdf else []
  let br' := br ++ [Term.app "pi*" [tab]]
  { s with
    freq := if s.freq.isNone then .inp "F" else s.freq
    dirsIn := some (setAll dIn walls fun i => .app "rot" [s.geom, .inp (toString i), .inp (dirs ++ ".in")])
    dirsOut := some (setAll dOut walls fun i => .app "rot" [s.geom, .inp (toString i), .inp (dirs ++ ".out")])
    brdf := br'
    index := some (setAll ix walls fun _ => (br'.length : Int) - 1) }

/-- `set_wall_brdf(walls, mat, …)` called by the user with material `mat`. -/
def setBrdf (s : St) (walls : List Nat) (mat : String) : St := setBrdfT s walls (.inp mat) mat

def setAtt (s : St) (a : String) : St :=
  { s with freq := if s.freq.isNone then .inp "F" else s.freq, att := .inp a }

/-- `bake_geometry()`: reads geometry and materials only. -/
def bake (s : St) : St :=
  let vis := Term.app "vis" [s.geom]
  let visible := Term.app "visible" [vis]
  let ff := Term.app "ff" [s.geom, visible]
  match s.dirsIn, s.dirsOut with
  | some dIn, some dOut =>
    { s with vis := vis, visible := visible, ff := ff
             p2o := .app "p2o" ([s.geom, vis] ++ dOut)
             fft := .app "fft" ([s.geom, vis, ff, s.att, s.freq] ++ effAll s ++ dIn) }
  | _, _ =>
    { s with vis := vis, visible := visible, ff := ff
             p2o := .app "p2o0" [s.geom]
             fft := .app "fft0" [s.geom, vis, ff, s.att, s.freq] }

/-- default materials installed by `init_source_energy` when none were set -/
def installDefaults (s : St) : St :=
  let s1 := if s.dirsIn.isSome then s else
    let f := if s.freq.isNone then Term.inp "F0" else s.freq
    -- the default table is `ones_like(frequencies)`: it depends on the frequency vector in force
    { setBrdfT { s with freq := f } (List.range s.W) (.app "ones" [f]) "default" with freq := f }
  if s1.att.isNone then
    let f := if s1.freq.isNone then Term.inp "F0" else s1.freq
    { s1 with att := .app "zeros" [f], freq := f }
  else s1

/-- `init_source_energy(src)`. -/
def init (s : St) (src : String) : St :=
  let s1 := installDefaults s
  { s1 with
    source := .inp src
    d0 := .app "d0" [s1.geom, .inp src]
    e0 := .app "e0" ([s1.geom, .inp src, s1.att, s1.freq] ++ effAll s1 ++ (s1.dirsIn.getD []) ++ (s1.dirsOut.getD [])) }

/-- `calculate_energy_exchange(par…, recalculate)`: the histogram and the three parameters that
    describe it are stored together; with a histogram present and no recalculation requested the
    call changes nothing. -/
def exchange (s : St) (par : String) (orderZero recalc : Bool) : St :=
  if s.etc.isNone || recalc then
    let etc' :=
      if orderZero then Term.app "etc0" [s.e0, s.d0, .inp par]
      else Term.app "etc" [s.e0, s.d0, s.geom, s.fft, s.p2o, s.visible, .inp par]
    { s with etc := etc', c := .app "c" [.inp par], dt := .app "dt" [.inp par], dur := .app "dur" [.inp par] }
  else s

/-- `from_dict(to_dict())` / `from_read(write())`: every serialised attribute comes back;
    `_source` does not (known finding D8). -/
def saveRestore (s : St) : St := { s with source := .none }

def step (s : St) : Op → St
  | .setBrdf w m => setBrdf s w m
  | .setAtt a => setAtt s a
  | .bake => bake s
  | .init src => init s src
  | .exchange p z r => exchange s p z r
  | .saveRestore => saveRestore s

def run (s : St) (ops : List Op) : St := ops.foldl step s

/-- What a receiver collection observes (patch-wise / mono without direct sound). -/
def obsCollect (s : St) (recv : String) : Term :=
  .app "collect" ([s.etc, s.geom, s.att, s.c, s.dt, .inp recv] ++ (s.dirsOut.getD []))

/-- What the direct sound observes (`none` source: the call fails). -/
def obsDirect (s : St) (recv : String) : Option Term :=
  if s.source.isNone then none
  else some (.app "direct" [s.source, s.att, s.freq, s.c, s.dt, .inp recv])

end Sparrow.Life
