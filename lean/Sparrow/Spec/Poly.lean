import Sparrow.Model.Exchange
import Mathlib.Algebra.Polynomial.Coeff
import Mathlib.Data.Real.Basic
/-
  Spec of the time-resolved energy exchange: linear algebra over polynomials.

  A histogram with `S` bins is the list of coefficients below `S` of a polynomial;
  "delay by `n` bins" is multiplication by `X ^ n`; dropping what falls off the end is
  reading only the coefficients below `S`.  This file is the *independently written
  solver of the discretised radiosity recursion*: it mentions no arrays, no buffers, no
  slicing and no truncation.
-/
namespace Sparrow
open Polynomial

/-- Order 0: the initial energy of patch `j` into slot `d`, arriving after `bin0 j` bins. -/
noncomputable def specInit (sc : ExScene ℝ) (j d : Nat) : ℝ[X] :=
  C (sc.e0 j d) * X ^ sc.bin0 j

/-- One reflection order: everything that patch `i` radiates towards `j` (its slot
    `dir i j`) arrives `bin i j` bins later, scaled by the baked transfer factor. -/
noncomputable def specStep (sc : ExScene ℝ) (p : Nat → Nat → ℝ[X]) (j d : Nat) : ℝ[X] :=
  ((sc.arcs.filter fun a => a.2 == j).map fun a =>
    C (sc.fft a.1 a.2 d) * (X ^ sc.bin a.1 a.2 * p a.1 (sc.dir a.1 a.2))).sum

noncomputable def specOrder (sc : ExScene ℝ) : Nat → Nat → Nat → ℝ[X]
  | 0 => specInit sc
  | k + 1 => specStep sc (specOrder sc k)

/-- All orders up to `K`. -/
noncomputable def specEtc (sc : ExScene ℝ) (K : Nat) (j d : Nat) : ℝ[X] :=
  ((List.range (K + 1)).map fun k => specOrder sc k j d).sum

end Sparrow
