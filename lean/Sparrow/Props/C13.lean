import Sparrow.Proofs.BrdfGlueEquiv
import Sparrow.Proofs.BrdfLemmas
/-
  C13 — Constructed BRDFs conserve energy, are non-negative and reciprocal.
  Model: `Sparrow/Model/Brdf.lean` (`create_from_scattering`, `create_from_directional_scattering`).
-/
namespace Sparrow.Props.C13
open Sparrow

theorem scattering_nonneg (n : Nat) (cosT w : Nat → ℝ) (mir : Nat → Nat) (s a : ℝ)
    (hs : 0 ≤ s ∧ s ≤ 1) (ha : 0 ≤ a ∧ a ≤ 1) (hc : ∀ k, k < n → 0 < cosT k) (hw : ∀ k, k < n → 0 < w k)
    (hm : ∀ k, k < n → mir k < n) (i o : Nat) (hi : i < n) (ho : o < n) :
    0 ≤ brdfScattering n cosT w mir s a i o :=
  Sparrow.scattering_nonneg n cosT w mir s a hs ha hc hw hm i o hi ho

/-- For every incident direction exactly `1 - a` of the energy is reflected … -/
theorem scattering_energy (n : Nat) (cosT w : Nat → ℝ) (mir : Nat → Nat) (s a : ℝ)
    (g : GaussSampling n cosT w mir) (i : Nat) (hi : i < n) :
    reflected n cosT w (brdfScattering n cosT w mir s a) i = 1 - a :=
  Sparrow.scattering_energy n cosT w mir s a g i hi

/-- … `s(1-a)` of it diffusely … -/
theorem scattering_diffuse_part (n : Nat) (cosT w : Nat → ℝ) (mir : Nat → Nat) (s a : ℝ)
    (g : GaussSampling n cosT w mir) :
    sumTo n (fun o => (s / Real.pi * (1 - a)) * cosT o * normWeight n w 2 o) = s * (1 - a) :=
  Sparrow.scattering_diffuse_part n cosT w mir s a g

/-- … and `(1-s)(1-a)` into the mirror direction. -/
theorem scattering_mirror_part (n : Nat) (cosT w : Nat → ℝ) (mir : Nat → Nat) (s a : ℝ)
    (g : GaussSampling n cosT w mir) (i : Nat) (hi : i < n) :
    ((1 - s) / (cosT (mir i) * normWeight n w 2 i) * (1 - a)) * cosT (mir i) * normWeight n w 2 (mir i)
      = (1 - s) * (1 - a) :=
  Sparrow.scattering_mirror_part n cosT w mir s a g i hi

theorem scattering_reciprocal (n : Nat) (cosT w : Nat → ℝ) (mir : Nat → Nat) (s a : ℝ)
    (g : GaussSampling n cosT w mir) (i o : Nat) (hi : i < n) (ho : o < n) :
    brdfScattering n cosT w mir s a i o = brdfScattering n cosT w mir s a o i :=
  Sparrow.scattering_reciprocal n cosT w mir s a g i o hi ho

theorem weights_scale_free (n : Nat) (w : Nat → ℝ) (c : ℝ) (hc : c ≠ 0) (hsum : sumTo n w ≠ 0) (k : Nat) :
    normWeight n (fun j => c * w j) 2 k = normWeight n w 2 k :=
  Sparrow.weights_scale_free n w c hc hsum k

theorem directional_energy (n : Nat) (cosT w : Nat → ℝ) (sd : Nat → Nat → ℝ) (a : ℝ)
    (hc : ∀ k, k < n → 0 < cosT k) (hw : ∀ k, k < n → 0 < w k) (hn : 0 < n)
    (i : Nat) (hsum : sumTo n (fun o => sd i o) = 1) :
    reflected n cosT w (brdfDirectional n cosT w sd a) i = 1 - a :=
  Sparrow.directional_energy n cosT w sd a hc hw hn i hsum

/-- Non-vacuity: the two-direction sampling with `cosθ = 1/2`, equal weights and the swap as
    mirror is a `GaussSampling` (Σ cosθ·wn = ½·π + ½·π = π). -/
example : GaussSampling 2 (fun _ => 1 / 2) (fun _ => 1) (fun k => 1 - k) where
  cos_pos := fun _ _ => by norm_num
  w_pos := fun _ _ => by norm_num
  n_pos := by norm_num
  mir_lt := fun k hk => by omega
  cosine_exact := by
    rw [sumTo_eq_sum]
    simp [normWeight, sumTo_eq_sum, Finset.sum_range_succ]
  mirror_cos := fun _ _ => rfl
  mirror_w := fun _ _ => rfl
  mir_invol := fun k hk => by omega

end Sparrow.Props.C13

namespace Sparrow.Props.C13.BrdfGlue
open Sparrow Sparrow.Generated.BrdfGlue


theorem createFromScattering_eq (n : Nat) (cosT w s a : Nat → ℝ) (mir : Nat → Nat) (i o b : Nat) :
    createFromScattering n n cosT w s a mir i o b = brdfScattering n cosT w mir (s b) (a b) i o :=
  Sparrow.createFromScattering_eq n cosT w s a mir i o b


theorem createFromDirectionalScattering_eq (n : Nat) (cosT w : Nat → ℝ) (sd : Nat → Nat → Nat → ℝ) (a : Nat → ℝ)
    (i o b : Nat) :
    createFromDirectionalScattering n n cosT w sd a i o b =
      brdfDirectional n cosT w (fun i o => sd i o b) (a b) i o :=
  Sparrow.createFromDirectionalScattering_eq n cosT w sd a i o b

end Sparrow.Props.C13.BrdfGlue
