import Sparrow.Proofs.StokesFnEquiv
import Sparrow.Proofs.StokesLemmas
import Sparrow.Proofs.StokesConstants
/-
  C06 — Numerical form factors match the exact view-factor integral within the envelope.

  The main clause (1 % / 3 % / 8 % / 5 % of the exact four-fold integral over a continuous
  envelope) is an analytic error bound; it is NOT proved — it is measured by the check against an
  independent reference integrator and reported as measured (known finding D12 for obtuse
  shared-edge angles).  PROVED here: the structure that the accuracy rests on.
-/
namespace Sparrow.Props.C06
open Sparrow Vec3

/-- Boole's rule with five equispaced nodes `a, a+h, …, a+4h` integrates every monomial of degree
    `≤ 5` exactly: the result is `((a+4h)^(k+1) - a^(k+1)) / (k+1)`. -/
theorem boole_exact_deg5 (a h : ℝ) (k : Nat) (hk : k ≤ 5) :
    boole (fun i => a + (i : ℝ) * h) (fun i => (a + (i : ℝ) * h) ^ k) =
      ((a + 4 * h) ^ (k + 1) - a ^ (k + 1)) / ((k : ℝ) + 1) :=
  Sparrow.boole_exact_deg5 a h k hk

/-- … hence (by linearity) a constant `c` over a segment of extent `4h` integrates to `4h·c`. -/
theorem boole_const (x : Nat → ℝ) (c : ℝ) (hx : ∀ i, x i = x 0 + (i : ℝ) * (x 1 - x 0)) :
    boole x (fun _ => c) = (x 4 - x 0) * c :=
  Sparrow.boole_const x c hx


theorem boole_linear (x y z : Nat → ℝ) (c : ℝ) :
    boole x (fun i => y i + c * z i) = boole x y + c * boole x z :=
  Sparrow.boole_linear x y z c

/-- the weights in the source, regenerated on every run -/
theorem boole_weights_as_modelled :
    Generated.booleWeights = [7, 32, 12, 32, 7] ∧ Generated.booleNum = 2 ∧ Generated.booleDen = 45 ∧
    Generated.booleWeights.sum = 90 ∧ Generated.stokesNPoints = 5 ∧ Generated.stokesCutoff = (1, 1000) ∧
    Generated.nusseltSamples = 64 ∧ Generated.coincidenceThreshold = (1, 1000000) :=
  Sparrow.boole_weights_as_modelled 

/-- sample `4a + ii` of the contour is the point `el a + (ii/4)·(el (a+1) - el a)` of edge `a`;
    the last index of every connectivity row is the first of the next (closed contour). -/
theorem boundary_sampling (el : Nat → Vec3 ℝ) (n a ii : Nat) (ha : a < n) (hii : ii < 4) :
    bpoint el n (4 * a + ii) = add (el a) (smul ((ii : ℝ) / 4) (sub (el ((a + 1) % n)) (el a))) ∧
    conn n a 4 = conn n ((a + 1) % n) 0 :=
  Sparrow.boundary_sampling el n a ii ha hii

/-- the integrator is the Nusselt analogue exactly when some vertex pair is closer than the
    threshold, else the contour integral -/
theorem integrator_branch (thr : ℝ) (pi pj : Nat → Vec3 ℝ) (ni nj : Nat) :
    chooseIntegrator thr pi pj ni nj = .nusselt ↔
      ∃ i j, i < ni ∧ j < nj ∧ Vec3.norm (sub (pj j) (pi i)) < thr :=
  Sparrow.integrator_branch thr pi pj ni nj


theorem stokes_reciprocity (cut : ℝ) (pi pj : Nat → Vec3 ℝ) (ni nj : Nat) (ai aj : ℝ) (hi : 0 < ai) (hj : 0 < aj) :
    ai * stokesFF cut pi pj ni nj ai = aj * stokesFF cut pj pi nj ni aj :=
  Sparrow.stokes_reciprocity cut pi pj ni nj ai aj hi hj

end Sparrow.Props.C06

namespace Sparrow.Props.C06.StokesFn
open Sparrow Sparrow.Generated.StokesFn

/-- **`stokes_integration` as recognised = the model's `stokesFF`**, for every pair of polygons, every cut-off and area, and
    whatever the `np.empty` buffers of the boundary sampler held -/
theorem stokesIntegration_eq (cut : ℝ) (pI pJ : Nat → Nat → ℝ) (nI nJ : Nat) (area : ℝ)
    (jp1 jp2 : Nat → Nat → ℝ) (jc1 jc2 : Nat → Nat → Nat) :
    stokesIntegration cut pI pJ nI nJ area jp1 jp2 jc1 jc2 = stokesFF cut (ptsOf pI) (ptsOf pJ) nI nJ area :=
  Sparrow.stokesIntegration_eq cut pI pJ nI nJ area jp1 jp2 jc1 jc2

end Sparrow.Props.C06.StokesFn
