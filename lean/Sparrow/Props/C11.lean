import Sparrow.Proofs.ReceiverLegComposed
import Sparrow.Proofs.SourceLegClosed
import Sparrow.Proofs.MonoGlueEquiv
import Sparrow.Proofs.GlueEquiv
import Sparrow.Proofs.LegKernelEquiv
import Sparrow.Proofs.BakeKernelEquiv
import Sparrow.Proofs.KernelEquiv
import Sparrow.Proofs.CollectLemmas
import Sparrow.Proofs.RealInst
import Sparrow.Model.Source
import Mathlib.Algebra.BigOperators.Group.Finset.Basic
/-
  C11 — Receiver collection is geometric, per-receiver and additive over patches.

  The geometric factor `g j = visible · Ω_j(r) / (π·A_j)` is the point-to-patch kernel (C04);
  which slot `ridx j` is read is C14.  Here: the way they are combined.
-/
namespace Sparrow.Props.C11
open Sparrow Finset

/-
  FULL STATEMENT (what the property demands):
    patchwise r j t = [binR j ≤ t] · ETC j (ridx j) (t - binR j) · g j · exp(-m d_j)   for all t < S.
  False of the code at the pinned commit for histograms shorter than the tail (known finding
  D3, `np.roll`; witness: `Sparrow.collectRollF_wraps`).  Proved: the statement whenever no
  energy is delayed past the end of the histogram.
-/
theorem patchwise_formula_partial (S : Nat) (etcv : Nat → Nat → Nat → ℝ) (ridx : Nat → Nat)
    (g : Nat → ℝ) (binR : Nat → Nat) (m : ℝ) (dist : Nat → ℝ) (j t : Nat) (ht : t < S)
    (hfit : ∀ u, S - binR j ≤ u → u < S → etcv j (ridx j) u * g j = 0) :
    patchwiseCodeF S etcv ridx g binR (fun i => receiverWeight m (dist i)) j t =
      if binR j ≤ t then etcv j (ridx j) (t - binR j) * g j * Real.exp (-m * dist j) else 0 := by
  unfold patchwiseCodeF
  rw [collectRollF_eq_collectF_of_fits S binR _ _ j t ht hfit]
  rfl

/-- A patch that is hidden from the receiver or seen from behind (`g j = 0`) contributes
    nothing, in any bin — wrap-around or not. -/
theorem hidden_patch_contributes_nothing (S : Nat) (etcv : Nat → Nat → Nat → ℝ)
    (ridx : Nat → Nat) (g : Nat → ℝ) (binR : Nat → Nat) (w : Nat → ℝ) (j t : Nat)
    (hg : g j = 0) : patchwiseCodeF S etcv ridx g binR w j t = 0 := by
  unfold patchwiseCodeF collectRollF
  simp only [hg]; ring

/-- The mono curve is the sum of the patch-wise curves. -/
theorem mono_is_sum (P : Nat) (pw : Nat → Nat → ℝ) (t : Nat) :
    monoF P pw t = ∑ j ∈ range P, pw j t := by
  unfold monoF
  induction P with
  | zero => simp
  | succ n ih =>
    rw [List.range_succ, List.foldl_append, Finset.sum_range_succ, ← ih]
    simp

/-- The patch-wise result for one receiver is a function of that receiver's own data only
    (`g`, `binR`, `w`, `ridx`): evaluating a list of receivers is the list of the
    single-receiver evaluations — nothing is carried from one receiver to the next. -/
theorem receivers_independent {R : Type} (S : Nat) (etcv : Nat → Nat → Nat → ℝ)
    (ridx : R → Nat → Nat) (g : R → Nat → ℝ) (binR : R → Nat → Nat) (w : R → Nat → ℝ)
    (rs : List R) (k : Nat) (hk : k < rs.length) :
    (rs.map fun r => patchwiseCodeF S etcv (ridx r) (g r) (binR r) (w r))[k]'(by simpa using hk) =
      patchwiseCodeF S etcv (ridx rs[k]) (g rs[k]) (binR rs[k]) (w rs[k]) := by
  simp

/-- The direct sound is `exp(-m r) / (4π r²)`. -/
theorem direct_sound_value (r m : ℝ) :
    directSound r m = Real.exp (-m * r) / (4 * Real.pi * r ^ 2) := by
  unfold directSound
  simp only [transc_exp_real, transc_pi_real]
  ring

end Sparrow.Props.C11

namespace Sparrow.Props.C11.Kernels
open Sparrow Sparrow.Generated.Kernels

/-- `_collect_receiver_energy` as translated = the model's receiver kernel (`np.roll`, D3). -/
theorem collectReceiverEnergy_eq (P B S : Nat) (E : Nat → Nat → Nat → ℝ) (s0 : Nat) (dist : Nat → ℝ)
    (c dt : ℝ) (s1 : Nat) (att : Nat → ℝ) (i b t : Nat) (hi : i < P) (hb : b < B) :
    collectReceiverEnergy P B S E s0 dist c dt s1 att i b t =
      collectRollF S (fun i => ToBin.ceilNat (dist i / c / dt)) (fun i => Real.exp (-(att b) * dist i))
        (fun i t => E i b t) i t :=
  Sparrow.collectReceiverEnergy_eq P B S E s0 dist c dt s1 att i b t hi hb

end Sparrow.Props.C11.Kernels

namespace Sparrow.Props.C11.ReceiverIndex
open Sparrow Sparrow.Generated.BakeKernels

/-- `get_scattering_data_receiver_index` as translated: for every patch `i` the outgoing sample of
    ITS wall nearest to the direction from its centre to the point `pt` (used for the
    patch-to-patch slot in `bake_geometry` and for the slot towards a receiver). -/
theorem getScatteringDataReceiverIndex_eq (P W D : Nat) (pc : Nat → Nat → ℝ) (pt : Nat → ℝ)
    (receivers : Nat → Nat → Nat → ℝ) (wall : Nat → Nat) (s0 : Nat) (i : Nat) (hi : i < P) :
    getScatteringDataReceiverIndex P 3 pc 3 pt W D 3 receivers s0 wall i =
      nearest (fun k => ⟨receivers (wall i) k 0, receivers (wall i) k 1, receivers (wall i) k 2⟩) D
        (Vec3.normalize (Vec3.sub ⟨pt 0, pt 1, pt 2⟩ ⟨pc i 0, pc i 1, pc i 2⟩)) :=
  Sparrow.getScatteringDataReceiverIndex_eq P W D pc pt receivers wall s0 i hi

end Sparrow.Props.C11.ReceiverIndex

namespace Sparrow.Props.C11.ReceiverLeg
open Sparrow Sparrow.Generated.LegKernels

/-- `_patch2receiver_energy_universal` (translated): the factor of a patch the receiver does not see is
    exactly `0`, of a visible one the point-to-patch factor (mode "receiver"). -/
theorem patch2receiverEnergy_eq (pt : (Nat → ℝ) → (Nat → Nat → ℝ) → ℝ) (P : Nat) (rec : Nat → ℝ)
    (pp : Nat → Nat → Nat → ℝ) (vis : Nat → Bool) (s0 s1 s2 s3 : Nat) (i : Nat) (hi : i < P) :
    patch2receiverEnergyUniversal pt s0 rec P s1 s2 pp s3 vis i =
      if vis i then pt rec (fun v q => pp i v q) else 0 :=
  Sparrow.patch2receiverEnergy_eq pt P rec pp vis s0 s1 s2 s3 i hi

/-- a patch the receiver does not see contributes a factor of exactly `0` (C11) -/
theorem patch2receiver_hidden_zero (pt : (Nat → ℝ) → (Nat → Nat → ℝ) → ℝ) (P : Nat) (rec : Nat → ℝ)
    (pp : Nat → Nat → Nat → ℝ) (vis : Nat → Bool) (s0 s1 s2 s3 : Nat) (i : Nat) (hi : i < P) (hv : vis i = false) :
    patch2receiverEnergyUniversal pt s0 rec P s1 s2 pp s3 vis i = 0 :=
  Sparrow.patch2receiver_hidden_zero pt P rec pp vis s0 s1 s2 s3 i hi hv

end Sparrow.Props.C11.ReceiverLeg

namespace Sparrow.Props.C11.Glue
open Sparrow Sparrow.Generated.Glue Sparrow.Generated.Kernels Sparrow.Generated.BakeKernels Sparrow.Generated.LegKernels

/-- **`_collect_energy_patches` as translated, receiver `i`, patch `p`, band `b`, bin `t`** -/
theorem collectEnergyPatches_eq
    (vis : (Nat → ℝ) → (Nat → Nat → ℝ) → (Nat → Nat → ℝ) → (Nat → Nat → Nat → ℝ) → Nat → Bool)
    (pt : (Nat → ℝ) → (Nat → Nat → ℝ) → ℝ) (R P B S W D : Nat) (rpos : Nat → Nat → ℝ) (att : Nat → ℝ)
    (pp : Nat → Nat → Nat → ℝ) (pc : Nat → Nat → ℝ) (etc : Nat → Nat → Nat → Nat → ℝ)
    (wp : Nat → Nat → Nat → ℝ) (wn : Nat → Nat → ℝ) (dirs : Nat → Nat → Nat → ℝ) (wall : Nat → Nat)
    (c dt : ℝ) (fx : Bool) (s0 s1 s2 s3 s4 s5 s6 s7 s8 s9 s10 s11 : Nat)
    (j1 : Nat → Nat → Nat → ℝ) (j2 : Nat → Nat → Nat → ℝ) (j3 : Nat → Nat → Nat → Nat → ℝ) (j4 : Nat → Nat → Bool)
    (i p b t : Nat) (hi : i < R) (hp : p < P) (hb : b < B) :
    collectEnergyPatches vis pt R 3 rpos s0 att P s1 s2 pp P 3 pc s3 s4 s5 S etc s6 s7 s8 wp s9 s10 wn W D 3 dirs s11 wall
        P B c dt fx j1 j2 j3 j4 i p b t =
      glueRow vis pt (fun q => rpos i q) att pp pc etc wp wn dirs wall D S c dt fx p b t :=
  Sparrow.collectEnergyPatches_eq vis pt R P B S W D rpos att pp pc etc wp wn dirs wall c dt fx s0 s1 s2 s3 s4 s5 s6 s7 s8 s9 s10 s11 j1 j2 j3 j4 i p b t hi hp hb

/-- **Per-receiver** (C11): the rows of two calls agree whenever the two receiver positions agree — whatever the
    other receivers are, how many there are, in which order they come, and whatever the `np.empty` buffers held. -/
theorem collectEnergyPatches_receiver_local
    (vis : (Nat → ℝ) → (Nat → Nat → ℝ) → (Nat → Nat → ℝ) → (Nat → Nat → Nat → ℝ) → Nat → Bool)
    (pt : (Nat → ℝ) → (Nat → Nat → ℝ) → ℝ) (R R' P B S W D : Nat) (rpos rpos' : Nat → Nat → ℝ) (att : Nat → ℝ)
    (pp : Nat → Nat → Nat → ℝ) (pc : Nat → Nat → ℝ) (etc : Nat → Nat → Nat → Nat → ℝ)
    (wp : Nat → Nat → Nat → ℝ) (wn : Nat → Nat → ℝ) (dirs : Nat → Nat → Nat → ℝ) (wall : Nat → Nat)
    (c dt : ℝ) (fx : Bool) (s0 s1 s2 s3 s4 s5 s6 s7 s8 s9 s10 s11 : Nat)
    (j1 j1' : Nat → Nat → Nat → ℝ) (j2 j2' : Nat → Nat → Nat → ℝ) (j3 j3' : Nat → Nat → Nat → Nat → ℝ) (j4 j4' : Nat → Nat → Bool)
    (i i' p b t : Nat) (hi : i < R) (hi' : i' < R') (hp : p < P) (hb : b < B) (hpos : ∀ q, rpos i q = rpos' i' q) :
    collectEnergyPatches vis pt R 3 rpos s0 att P s1 s2 pp P 3 pc s3 s4 s5 S etc s6 s7 s8 wp s9 s10 wn W D 3 dirs s11 wall
        P B c dt fx j1 j2 j3 j4 i p b t =
    collectEnergyPatches vis pt R' 3 rpos' s0 att P s1 s2 pp P 3 pc s3 s4 s5 S etc s6 s7 s8 wp s9 s10 wn W D 3 dirs s11 wall
        P B c dt fx j1' j2' j3' j4' i' p b t :=
  Sparrow.collectEnergyPatches_receiver_local vis pt R R' P B S W D rpos rpos' att pp pc etc wp wn dirs wall c dt fx s0 s1 s2 s3 s4 s5 s6 s7 s8 s9 s10 s11 j1 j1' j2 j2' j3 j3' j4 j4' i i' p b t hi hi' hp hb hpos

/-- **Geometric** (C11): a patch the receiver does not see contributes exactly nothing, in every band and bin. -/
theorem collectEnergyPatches_hidden_zero
    (vis : (Nat → ℝ) → (Nat → Nat → ℝ) → (Nat → Nat → ℝ) → (Nat → Nat → Nat → ℝ) → Nat → Bool)
    (pt : (Nat → ℝ) → (Nat → Nat → ℝ) → ℝ) (R P B S W D : Nat) (rpos : Nat → Nat → ℝ) (att : Nat → ℝ)
    (pp : Nat → Nat → Nat → ℝ) (pc : Nat → Nat → ℝ) (etc : Nat → Nat → Nat → Nat → ℝ)
    (wp : Nat → Nat → Nat → ℝ) (wn : Nat → Nat → ℝ) (dirs : Nat → Nat → Nat → ℝ) (wall : Nat → Nat)
    (c dt : ℝ) (fx : Bool) (s0 s1 s2 s3 s4 s5 s6 s7 s8 s9 s10 s11 : Nat)
    (j1 : Nat → Nat → Nat → ℝ) (j2 : Nat → Nat → Nat → ℝ) (j3 : Nat → Nat → Nat → Nat → ℝ) (j4 : Nat → Nat → Bool)
    (i p b t : Nat) (hi : i < R) (hp : p < P) (hb : b < B)
    (hv : vis (fun q => rpos i q) pc wn wp p = false) :
    collectEnergyPatches vis pt R 3 rpos s0 att P s1 s2 pp P 3 pc s3 s4 s5 S etc s6 s7 s8 wp s9 s10 wn W D 3 dirs s11 wall
        P B c dt fx j1 j2 j3 j4 i p b t = 0 :=
  Sparrow.collectEnergyPatches_hidden_zero vis pt R P B S W D rpos att pp pc etc wp wn dirs wall c dt fx s0 s1 s2 s3 s4 s5 s6 s7 s8 s9 s10 s11 j1 j2 j3 j4 i p b t hi hp hb hv

/-- the response of a patch is linear in its stored histogram: scaling the stored state by `s` scales the row -/
theorem collectEnergyPatches_scale
    (vis : (Nat → ℝ) → (Nat → Nat → ℝ) → (Nat → Nat → ℝ) → (Nat → Nat → Nat → ℝ) → Nat → Bool)
    (pt : (Nat → ℝ) → (Nat → Nat → ℝ) → ℝ) (R P B S W D : Nat) (rpos : Nat → Nat → ℝ) (att : Nat → ℝ)
    (pp : Nat → Nat → Nat → ℝ) (pc : Nat → Nat → ℝ) (etc : Nat → Nat → Nat → Nat → ℝ)
    (wp : Nat → Nat → Nat → ℝ) (wn : Nat → Nat → ℝ) (dirs : Nat → Nat → Nat → ℝ) (wall : Nat → Nat)
    (c dt : ℝ) (fx : Bool) (s0 s1 s2 s3 s4 s5 s6 s7 s8 s9 s10 s11 : Nat)
    (j1 : Nat → Nat → Nat → ℝ) (j2 : Nat → Nat → Nat → ℝ) (j3 : Nat → Nat → Nat → Nat → ℝ) (j4 : Nat → Nat → Bool)
    (i p b t : Nat) (hi : i < R) (hp : p < P) (hb : b < B) (s : ℝ) :
    collectEnergyPatches vis pt R 3 rpos s0 att P s1 s2 pp P 3 pc s3 s4 s5 S (fun k d b t => s * etc k d b t)
        s6 s7 s8 wp s9 s10 wn W D 3 dirs s11 wall P B c dt fx j1 j2 j3 j4 i p b t =
    s * collectEnergyPatches vis pt R 3 rpos s0 att P s1 s2 pp P 3 pc s3 s4 s5 S etc s6 s7 s8 wp s9 s10 wn W D 3 dirs s11 wall
        P B c dt fx j1 j2 j3 j4 i p b t :=
  Sparrow.collectEnergyPatches_scale vis pt R P B S W D rpos att pp pc etc wp wn dirs wall c dt fx s0 s1 s2 s3 s4 s5 s6 s7 s8 s9 s10 s11 j1 j2 j3 j4 i p b t hi hp hb s

end Sparrow.Props.C11.Glue

namespace Sparrow.Props.C11.MonoGlue
open Sparrow Sparrow.Generated.MonoGlue

/-- additivity (C11): without the direct sound the mono curve IS the sum of the patch-wise curves -/
theorem collectEnergyReceiverMono_additive (pw : Nat → Nat → Nat → Nat → ℝ) (R P Bn S : Nat)
    (r : Nat → ℝ) (rc : Nat → Nat → ℝ) (B : Nat) (att : Option (Nat → ℝ))
    (g : Option ((Nat → Nat → ℝ) → ℝ → Nat → ℝ)) (freq : Nat → ℝ) (c dt : ℝ) (k b t : Nat) :
    collectEnergyReceiverMono pw R P Bn S false r rc B att g freq c dt k b t = ∑ p ∈ Finset.range P, pw k p b t :=
  Sparrow.collectEnergyReceiverMono_additive pw R P Bn S r rc B att g freq c dt k b t

end Sparrow.Props.C11.MonoGlue

namespace Sparrow.Props.C11.Closed
open Sparrow Sparrow.Generated.LegKernels Sparrow.Generated.PointFactor

/-- receiver leg, all of it translated -/
theorem patch2receiverEnergy_closed (thr : ℝ) (P : Nat) (rec : Nat → ℝ) (pp : Nat → Nat → Nat → ℝ) (vis : Nat → Bool)
    (s0 s1 s2 s3 : Nat) (i : Nat) (hi : i < P) :
    patch2receiverEnergyUniversal (fun p q => ptSolutionReceiver thr p q 4) s0 rec P s1 s2 pp s3 vis i =
      if vis i then ptReceiver thr (Vec3.ofFn rec) (ptsOf (fun v q => pp i v q)) 4 else 0 :=
  Sparrow.patch2receiverEnergy_closed thr P rec pp vis s0 s1 s2 s3 i hi

end Sparrow.Props.C11.Closed

namespace Sparrow.Props.C11.Composed
open Sparrow Sparrow.Generated.LegKernels Sparrow.Generated.PointFactor

/-- **a patch hidden from the receiver, or seen from behind, contributes a factor of exactly zero** -/
theorem patch2receiver_composed_hidden_zero (thr eta : ℝ) (P nvp : Nat) (rec : Nat → ℝ) (pc : Nat → Nat → ℝ)
    (pp : Nat → Nat → Nat → ℝ) (wp : Nat → Nat → Nat → ℝ) (nvw : Nat) (wn : Nat → Nat → ℝ) (nS : Nat)
    (s0 s1 s2 s3 : Nat) (i : Nat) (hi : i < P)
    (hv : visibleThroughAll eta (Vec3.ofFn rec) (Vec3.ofFn (fun q => pc i q)) nS
        (fun s => ptsOf (fun k q => wp s k q)) nvw (fun s => Vec3.ofFn (fun q => wn s q)) = false) :
    patch2receiverEnergyUniversal (fun x pts => ptSolutionReceiver thr x pts nvp) s0 rec P s1 s2 pp s3
        (srcVisT thr eta rec pc wp nvw wn nS) i = 0 :=
  Sparrow.patch2receiver_composed_hidden_zero thr eta P nvp rec pc pp wp nvw wn nS s0 s1 s2 s3 i hi hv

/-- **a visible patch contributes the model's receiver factor `ptReceiver`** (solid angle seen from the receiver / (π · patch area)) -/
theorem patch2receiver_composed_visible (thr eta : ℝ) (P nvp : Nat) (rec : Nat → ℝ) (pc : Nat → Nat → ℝ)
    (pp : Nat → Nat → Nat → ℝ) (wp : Nat → Nat → Nat → ℝ) (nvw : Nat) (wn : Nat → Nat → ℝ) (nS : Nat)
    (s0 s1 s2 s3 : Nat) (i : Nat) (hi : i < P)
    (hv : visibleThroughAll eta (Vec3.ofFn rec) (Vec3.ofFn (fun q => pc i q)) nS
        (fun s => ptsOf (fun k q => wp s k q)) nvw (fun s => Vec3.ofFn (fun q => wn s q)) = true) :
    patch2receiverEnergyUniversal (fun x pts => ptSolutionReceiver thr x pts nvp) s0 rec P s1 s2 pp s3
        (srcVisT thr eta rec pc wp nvw wn nS) i =
      ptReceiver thr (Vec3.ofFn rec) (ptsOf (fun v q => pp i v q)) nvp :=
  Sparrow.patch2receiver_composed_visible thr eta P nvp rec pc pp wp nvw wn nS s0 s1 s2 s3 i hi hv

end Sparrow.Props.C11.Composed
