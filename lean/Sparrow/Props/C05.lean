import Sparrow.Proofs.BakeComposedFF
import Sparrow.Proofs.BakeComposed
import Sparrow.Proofs.UniversalFnEquiv
import Sparrow.Proofs.StokesFnEquiv
import Sparrow.Proofs.StokesLemmas
import Sparrow.Proofs.StokesConstants
/-
  C05 — Form factors obey bounds, reciprocity, closure and similarity invariance.
  Model: Sparrow/Model/Stokes.lean (contour integrator, dispatch, baked matrix),
  Sparrow/Model/Bake.lean (`ffPrime`).

  PROVED here: zeros off the visible list, reciprocity of the factors the exchange uses,
  non-negativity, symmetry of the discrete contour sum (A_i F_ij = A_j F_ji in exact arithmetic),
  translation invariance, invariance under axis permutations and mirrorings.
  NOT proved (measured by the check and reported as measured): F ≤ 1 on the Nusselt branch, the
  2.5 % closure, and rotation/scaling invariance (exact only outside the per-axis 1e-3 cut-off band).
-/
namespace Sparrow.Props.C05
open Sparrow Vec3

/-- pairs that are not listed as visible keep an exact zero -/
theorem ff_zero_invisible (visible : List (Nat × Nat)) (ff : Nat → Nat → ℝ) (i j : Nat)
    (h : (i, j) ∉ visible) : ffMatrix visible ff i j = 0 :=
  Sparrow.ff_zero_invisible visible ff i j h

/-- reciprocity of the form factors the exchange uses: `A_i·F'_ij = A_j·F'_ji` by construction -/
theorem ffPrime_reciprocity (sc : BakeScene ℝ) (i j : Nat) (hi : sc.area i ≠ 0) (hj : sc.area j ≠ 0) (hij : i ≠ j) :
    sc.area i * sc.ffPrime i j = sc.area j * sc.ffPrime j i :=
  Sparrow.ffPrime_reciprocity sc i j hi hj hij


theorem stokes_nonneg (cut : ℝ) (pi pj : Nat → Vec3 ℝ) (ni nj : Nat) (areaI : ℝ) :
    0 ≤ stokesFF cut pi pj ni nj areaI :=
  Sparrow.stokes_nonneg cut pi pj ni nj areaI

/-- **Reciprocity of the discrete contour sum**: integrating either patch of a pair first gives
    the same double sum, so `A_i·F_ij = A_j·F_ji` in exact arithmetic. -/
theorem stokes_outer_symm (cut : ℝ) (pi pj : Nat → Vec3 ℝ) (ni nj : Nat) :
    stokesOuter cut pi pj ni nj = stokesOuter cut pj pi nj ni :=
  Sparrow.stokes_outer_symm cut pi pj ni nj


theorem stokes_reciprocity (cut : ℝ) (pi pj : Nat → Vec3 ℝ) (ni nj : Nat) (ai aj : ℝ) (hi : 0 < ai) (hj : 0 < aj) :
    ai * stokesFF cut pi pj ni nj ai = aj * stokesFF cut pj pi nj ni aj :=
  Sparrow.stokes_reciprocity cut pi pj ni nj ai aj hi hj

/-- translation invariance -/
theorem stokes_translation (cut : ℝ) (pi pj : Nat → Vec3 ℝ) (ni nj : Nat) (areaI : ℝ) (t : Vec3 ℝ) :
    stokesFF cut (fun k => add (pi k) t) (fun k => add (pj k) t) ni nj areaI = stokesFF cut pi pj ni nj areaI :=
  Sparrow.stokes_translation cut pi pj ni nj areaI t

/-- mirroring a coordinate axis (here `x ↦ -x`; the other axes by the permutation lemma) -/
theorem stokes_mirror_x (cut : ℝ) (pi pj : Nat → Vec3 ℝ) (ni nj : Nat) (areaI : ℝ) :
    stokesFF cut (fun k => ⟨-(pi k).x, (pi k).y, (pi k).z⟩) (fun k => ⟨-(pj k).x, (pj k).y, (pj k).z⟩) ni nj areaI =
      stokesFF cut pi pj ni nj areaI :=
  Sparrow.stokes_mirror_x cut pi pj ni nj areaI

/-- permuting the coordinate axes cyclically -/
theorem stokes_axis_cycle (cut : ℝ) (pi pj : Nat → Vec3 ℝ) (ni nj : Nat) (areaI : ℝ) :
    stokesFF cut (fun k => ⟨(pi k).z, (pi k).x, (pi k).y⟩) (fun k => ⟨(pj k).z, (pj k).x, (pj k).y⟩) ni nj areaI =
      stokesFF cut pi pj ni nj areaI :=
  Sparrow.stokes_axis_cycle cut pi pj ni nj areaI

/-- swapping two coordinate axes -/
theorem stokes_axis_swap (cut : ℝ) (pi pj : Nat → Vec3 ℝ) (ni nj : Nat) (areaI : ℝ) :
    stokesFF cut (fun k => ⟨(pi k).y, (pi k).x, (pi k).z⟩) (fun k => ⟨(pj k).y, (pj k).x, (pj k).z⟩) ni nj areaI =
      stokesFF cut pi pj ni nj areaI :=
  Sparrow.stokes_axis_swap cut pi pj ni nj areaI

/-- The integrator constants regenerated from `/repo` are the ones the model's dispatch and
    integrators use (Boole weights, samples per edge, per-axis cut-off, Nusselt sample count,
    vertex-coincidence threshold `1e-6` deciding between the Nusselt and the contour integrator). -/
theorem integrator_constants_as_modelled :
    Generated.booleWeights = [7, 32, 12, 32, 7] ∧ Generated.booleNum = 2 ∧ Generated.booleDen = 45 ∧
    Generated.booleWeights.sum = 90 ∧ Generated.stokesNPoints = 5 ∧ Generated.stokesCutoff = (1, 1000) ∧
    Generated.nusseltSamples = 64 ∧ Generated.coincidenceThreshold = (1, 1000000) :=
  Sparrow.boole_weights_as_modelled

end Sparrow.Props.C05

namespace Sparrow.Props.C05.StokesFn
open Sparrow Sparrow.Generated.StokesFn


theorem newtonCotes4th_eq {α : Type} [Add α] [Sub α] [Mul α] [Div α] [NatCast α] (x y : Nat → α) :
    newtonCotes4th x y = boole x y :=
  Sparrow.newtonCotes4th_eq x y

/-- `load_stokes_entries` -/
theorem loadStokesEntries_eq (ib jb : Nat → Nat → ℝ) (ni nj i j : Nat) (hi : i < ni) (hj : j < nj) :
    loadStokesEntries ib jb ni nj i j =
      Transc.log (Vec3.norm (Vec3.sub (⟨ib i 0, ib i 1, ib i 2⟩ : Vec3 ℝ) ⟨jb j 0, jb j 1, jb j 2⟩)) :=
  Sparrow.loadStokesEntries_eq ib jb ni nj i j hi hj

/-- `_sample_boundary_regular`, the points: row `r < 4n` is the model's boundary sample -/
theorem sampleBoundary_pts (el : Nat → Nat → ℝ) (n : Nat) (jp : Nat → Nat → ℝ) (jc : Nat → Nat → Nat) (r q : Nat)
    (hr : r / 4 < n) :
    (sampleBoundaryRegular el n jp jc).1 r q =
      el (r / 4) q + ((r % 4 : Nat) : ℝ) * (el ((r / 4 + 1) % n) q - el (r / 4) q) / ((4 : Nat) : ℝ) :=
  Sparrow.sampleBoundary_pts el n jp jc r q hr

/-- … and the connectivity rows -/
theorem sampleBoundary_conn (el : Nat → Nat → ℝ) (n : Nat) (jp : Nat → Nat → ℝ) (jc : Nat → Nat → Nat) (a k : Nat)
    (ha : a < n) (hk : k ≤ 4) :
    (sampleBoundaryRegular el n jp jc).2 a k = conn n a k :=
  Sparrow.sampleBoundary_conn el n jp jc a k ha hk

/-- **`stokes_integration` as recognised = the model's `stokesFF`**, for every pair of polygons, every cut-off and area, and
    whatever the `np.empty` buffers of the boundary sampler held -/
theorem stokesIntegration_eq (cut : ℝ) (pI pJ : Nat → Nat → ℝ) (nI nJ : Nat) (area : ℝ)
    (jp1 jp2 : Nat → Nat → ℝ) (jc1 jc2 : Nat → Nat → Nat) :
    stokesIntegration cut pI pJ nI nJ area jp1 jp2 jc1 jc2 = stokesFF cut (ptsOf pI) (ptsOf pJ) nI nJ area :=
  Sparrow.stokesIntegration_eq cut pI pJ nI nJ area jp1 jp2 jc1 jc2

end Sparrow.Props.C05.StokesFn

namespace Sparrow.Props.C05.Universal
open Sparrow Sparrow.Generated.UniversalFn Sparrow.Generated.StokesFn

/-- `_coincidence_check(p0, p1)` (recognised, inner `break`) = "some vertex of one patch lies within `thres` of a vertex of the
    other" — the model's `coincide` with the roles as `universal_form_factor` passes them (`p0` = receiver, `p1` = source) -/
theorem coincidenceCheck_eq (thres : ℝ) (p0 p1 : Nat → Nat → ℝ) (n0 n1 : Nat) :
    coincidenceCheck thres p0 p1 n0 n1 = coincide thres (ptsOf p1) (ptsOf p0) n1 n0 :=
  Sparrow.coincidenceCheck_eq thres p0 p1 n0 n1

/-- the test is symmetric in the two patches -/
theorem coincidenceCheck_symm (thres : ℝ) (p0 p1 : Nat → Nat → ℝ) (n0 n1 : Nat) :
    coincidenceCheck thres p0 p1 n0 n1 = coincidenceCheck thres p1 p0 n1 n0 :=
  Sparrow.coincidenceCheck_symm thres p0 p1 n0 n1

/-- **`universal_form_factor` (recognised) dispatches exactly as the model's `chooseIntegrator`**: patches with a common vertex go
    to the Nusselt integrator with 64 samples, all others to the contour integral, whose regenerated text equals `stokesFF` -/
theorem universalFormFactor_eq (thres cut : ℝ) (nus : (Nat → Nat → ℝ) → (Nat → ℝ) → (Nat → Nat → ℝ) → (Nat → ℝ) → Nat → ℝ)
    (sp : Nat → Nat → ℝ) (ns : Nat) (snrm : Nat → ℝ) (area : ℝ) (rp : Nat → Nat → ℝ) (nr : Nat) (rnrm : Nat → ℝ)
    (jp1 jp2 : Nat → Nat → ℝ) (jc1 jc2 : Nat → Nat → Nat) :
    universalFormFactor thres cut nus sp ns snrm area rp nr rnrm jp1 jp2 jc1 jc2 =
      match chooseIntegrator thres (ptsOf sp) (ptsOf rp) ns nr with
      | .nusselt => nus sp snrm rp rnrm 64
      | .stokes => stokesFF cut (ptsOf sp) (ptsOf rp) ns nr area :=
  Sparrow.universalFormFactor_eq thres cut nus sp ns snrm area rp nr rnrm jp1 jp2 jc1 jc2

/-- the scratch arrays of `stokes_integration` (`np.empty`) never influence the result -/
theorem universalFormFactor_scratch (thres cut : ℝ) (nus : (Nat → Nat → ℝ) → (Nat → ℝ) → (Nat → Nat → ℝ) → (Nat → ℝ) → Nat → ℝ)
    (sp : Nat → Nat → ℝ) (ns : Nat) (snrm : Nat → ℝ) (area : ℝ) (rp : Nat → Nat → ℝ) (nr : Nat) (rnrm : Nat → ℝ)
    (jp1 jp2 jp1' jp2' : Nat → Nat → ℝ) (jc1 jc2 jc1' jc2' : Nat → Nat → Nat) :
    universalFormFactor thres cut nus sp ns snrm area rp nr rnrm jp1 jp2 jc1 jc2 =
      universalFormFactor thres cut nus sp ns snrm area rp nr rnrm jp1' jp2' jc1' jc2' :=
  Sparrow.universalFormFactor_scratch thres cut nus sp ns snrm area rp nr rnrm jp1 jp2 jp1' jp2' jc1 jc2 jc1' jc2'

/-- **`patch2patch_ff_universal` (recognised): a pair that is not listed as visible keeps exactly 0** -/
theorem patch2patchFFUniversal_unlisted (thres cut : ℝ)
    (nus : (Nat → Nat → ℝ) → (Nat → ℝ) → (Nat → Nat → ℝ) → (Nat → ℝ) → Nat → ℝ)
    (pts : Nat → Nat → Nat → ℝ) (nv : Nat) (nrm : Nat → Nat → ℝ) (areas : Nat → ℝ) (nvis : Nat) (vis : Nat → Nat → Nat)
    (jp1 jp2 : Nat → Nat → ℝ) (jc1 jc2 : Nat → Nat → Nat) (a b : Nat)
    (h : ∀ v, v < nvis → ¬ (vis v 0 = a ∧ vis v 1 = b)) :
    patch2patchFFUniversal thres cut nus pts nv nrm areas nvis vis jp1 jp2 jc1 jc2 a b = 0 :=
  Sparrow.patch2patchFFUniversal_unlisted thres cut nus pts nv nrm areas nvis vis jp1 jp2 jc1 jc2 a b h

/-- **a listed pair holds the dispatched form factor of that pair** (whatever else the list contains, duplicates included) -/
theorem patch2patchFFUniversal_listed (thres cut : ℝ)
    (nus : (Nat → Nat → ℝ) → (Nat → ℝ) → (Nat → Nat → ℝ) → (Nat → ℝ) → Nat → ℝ)
    (pts : Nat → Nat → Nat → ℝ) (nv : Nat) (nrm : Nat → Nat → ℝ) (areas : Nat → ℝ) (nvis : Nat) (vis : Nat → Nat → Nat)
    (jp1 jp2 : Nat → Nat → ℝ) (jc1 jc2 : Nat → Nat → Nat) (a b v : Nat) (hv : v < nvis) (ha : vis v 0 = a) (hb : vis v 1 = b) :
    patch2patchFFUniversal thres cut nus pts nv nrm areas nvis vis jp1 jp2 jc1 jc2 a b =
      universalFormFactor thres cut nus (fun k q => pts a k q) nv (fun q => nrm a q) (areas a) (fun k q => pts b k q) nv
        (fun q => nrm b q) jp1 jp2 jc1 jc2 :=
  Sparrow.patch2patchFFUniversal_listed thres cut nus pts nv nrm areas nvis vis jp1 jp2 jc1 jc2 a b v hv ha hb

/-- the matrix written by the regenerated loop is the model's `ffMatrix` over the listed pairs -/
theorem patch2patchFFUniversal_eq_ffMatrix (thres cut : ℝ)
    (nus : (Nat → Nat → ℝ) → (Nat → ℝ) → (Nat → Nat → ℝ) → (Nat → ℝ) → Nat → ℝ)
    (pts : Nat → Nat → Nat → ℝ) (nv : Nat) (nrm : Nat → Nat → ℝ) (areas : Nat → ℝ) (nvis : Nat) (vis : Nat → Nat → Nat)
    (jp1 jp2 : Nat → Nat → ℝ) (jc1 jc2 : Nat → Nat → Nat) (a b : Nat) :
    patch2patchFFUniversal thres cut nus pts nv nrm areas nvis vis jp1 jp2 jc1 jc2 a b =
      ffMatrix ((List.range nvis).map fun v => (vis v 0, vis v 1))
        (fun i j => universalFormFactor thres cut nus (fun k q => pts i k q) nv (fun q => nrm i q) (areas i) (fun k q => pts j k q) nv
          (fun q => nrm j q) jp1 jp2 jc1 jc2) a b :=
  Sparrow.patch2patchFFUniversal_eq_ffMatrix thres cut nus pts nv nrm areas nvis vis jp1 jp2 jc1 jc2 a b

end Sparrow.Props.C05.Universal

namespace Sparrow.Props.C05.Composed
open Sparrow Sparrow.Generated.BakeGlue Sparrow.Generated.BakeKernels Sparrow.Generated.UniversalFn Sparrow.Generated.VisibilityFn

/-- **C05 "vanishes for pairs that cannot see each other", about the composed regenerated text**: a pair whose visibility entry is
    false has a stored form factor of exactly 0 — for every visibility test, every scene -/
theorem bakeGeometry_ff_invisible_zero
    (vis2 : (Nat → Nat → ℝ) → (Nat → Nat → ℝ) → (Nat → Nat → Nat → ℝ) → Nat → Nat → Bool)
    (thres cut : ℝ) (nus : (Nat → Nat → ℝ) → (Nat → ℝ) → (Nat → Nat → ℝ) → (Nat → ℝ) → Nat → ℝ) (nv : Nat)
    (jp1 jp2 : Nat → Nat → ℝ) (jc1 jc2 : Nat → Nat → Nat)
    (P : Nat) (pc pn : Nat → Nat → ℝ) (pp : Nat → Nat → Nat → ℝ) (pa : Nat → ℝ) (ptw : Nat → Nat)
    (hasM : Bool) (W nIn D T : Nat) (dIn dOut : Nat → Nat → Nat → ℝ) (bidx : Nat → Nat) (brdf : Nat → Nat → Nat → Nat → ℝ)
    (fnone : Bool) (B : Nat) (att : Option (Nat → ℝ)) (junk : Nat → Nat → Nat) (a b : Nat)
    (h : vis2 pc pn pp a b = false) :
    (bakeGeometry vis2 (ffuT thres cut nus nv jp1 jp2 jc1 jc2) P pc pn pp pa ptw hasM W nIn D T dIn dOut bidx brdf fnone B att junk).2.2.1 a b
      = 0 :=
  Sparrow.bakeGeometry_ff_invisible_zero vis2 thres cut nus nv jp1 jp2 jc1 jc2 P pc pn pp pa ptw hasM W nIn D T dIn dOut bidx brdf fnone B att junk a b h

/-- a visible pair holds the dispatched form factor of its two patches -/
theorem bakeGeometry_ff_visible
    (vis2 : (Nat → Nat → ℝ) → (Nat → Nat → ℝ) → (Nat → Nat → Nat → ℝ) → Nat → Nat → Bool)
    (thres cut : ℝ) (nus : (Nat → Nat → ℝ) → (Nat → ℝ) → (Nat → Nat → ℝ) → (Nat → ℝ) → Nat → ℝ) (nv : Nat)
    (jp1 jp2 : Nat → Nat → ℝ) (jc1 jc2 : Nat → Nat → Nat)
    (P : Nat) (pc pn : Nat → Nat → ℝ) (pp : Nat → Nat → Nat → ℝ) (pa : Nat → ℝ) (ptw : Nat → Nat)
    (hasM : Bool) (W nIn D T : Nat) (dIn dOut : Nat → Nat → Nat → ℝ) (bidx : Nat → Nat) (brdf : Nat → Nat → Nat → Nat → ℝ)
    (fnone : Bool) (B : Nat) (att : Option (Nat → ℝ)) (junk : Nat → Nat → Nat) (a b : Nat) (ha : a < P) (hb : b < P)
    (h : vis2 pc pn pp a b = true) :
    (bakeGeometry vis2 (ffuT thres cut nus nv jp1 jp2 jc1 jc2) P pc pn pp pa ptw hasM W nIn D T dIn dOut bidx brdf fnone B att junk).2.2.1 a b
      = universalFormFactor thres cut nus (fun k q => pp a k q) nv (fun q => pn a q) (pa a) (fun k q => pp b k q) nv (fun q => pn b q)
          jp1 jp2 jc1 jc2 :=
  Sparrow.bakeGeometry_ff_visible vis2 thres cut nus nv jp1 jp2 jc1 jc2 P pc pn pp pa ptw hasM W nIn D T dIn dOut bidx brdf fnone B att junk a b ha hb h

/-- consequently a pair on or below the diagonal is never listed and its stored form factor is 0 (only `i < j` is computed) -/
theorem bakeGeometry_ff_lower_zero
    (thr eta thres cut : ℝ) (nus : (Nat → Nat → ℝ) → (Nat → ℝ) → (Nat → Nat → ℝ) → (Nat → ℝ) → Nat → ℝ) (nv : Nat)
    (jp1 jp2 : Nat → Nat → ℝ) (jc1 jc2 : Nat → Nat → Nat)
    (P : Nat) (pc pn : Nat → Nat → ℝ) (pp : Nat → Nat → Nat → ℝ) (pa : Nat → ℝ) (ptw : Nat → Nat)
    (hasM : Bool) (W nIn D T : Nat) (dIn dOut : Nat → Nat → Nat → ℝ) (bidx : Nat → Nat) (brdf : Nat → Nat → Nat → Nat → ℝ)
    (fnone : Bool) (B : Nat) (att : Option (Nat → ℝ)) (junk : Nat → Nat → Nat) (a b : Nat) (h : b ≤ a) :
    (bakeGeometry (vis2T thr eta P nv) (ffuT thres cut nus nv jp1 jp2 jc1 jc2) P pc pn pp pa ptw hasM W nIn D T dIn dOut bidx brdf fnone B
      att junk).2.2.1 a b = 0 :=
  Sparrow.bakeGeometry_ff_lower_zero thr eta thres cut nus nv jp1 jp2 jc1 jc2 P pc pn pp pa ptw hasM W nIn D T dIn dOut bidx brdf fnone B att junk a b h

end Sparrow.Props.C05.Composed

namespace Sparrow.Props.C05.ComposedFF
open Sparrow Sparrow.Generated.BakeGlue Sparrow.Generated.BakeKernels Sparrow.Generated.UniversalFn


theorem bakeGeometry_ff_detached_eq_stokes
    (vis2 : (Nat → Nat → ℝ) → (Nat → Nat → ℝ) → (Nat → Nat → Nat → ℝ) → Nat → Nat → Bool)
    (thres cut : ℝ) (nus : (Nat → Nat → ℝ) → (Nat → ℝ) → (Nat → Nat → ℝ) → (Nat → ℝ) → Nat → ℝ) (nv : Nat)
    (jp1 jp2 : Nat → Nat → ℝ) (jc1 jc2 : Nat → Nat → Nat)
    (P : Nat) (pc pn : Nat → Nat → ℝ) (pp : Nat → Nat → Nat → ℝ) (pa : Nat → ℝ) (ptw : Nat → Nat)
    (hasM : Bool) (W nIn D T : Nat) (dIn dOut : Nat → Nat → Nat → ℝ) (bidx : Nat → Nat) (brdf : Nat → Nat → Nat → Nat → ℝ)
    (fnone : Bool) (B : Nat) (att : Option (Nat → ℝ)) (junk : Nat → Nat → Nat) (a b : Nat) (ha : a < P) (hb : b < P)
    (h : vis2 pc pn pp a b = true)
    (hdet : chooseIntegrator thres (ptsOf (fun k q => pp a k q)) (ptsOf (fun k q => pp b k q)) nv nv = Integrator.stokes) :
    (bakeGeometry vis2 (ffuT thres cut nus nv jp1 jp2 jc1 jc2) P pc pn pp pa ptw hasM W nIn D T dIn dOut bidx brdf fnone B att junk).2.2.1 a b
      = stokesFF cut (ptsOf (fun k q => pp a k q)) (ptsOf (fun k q => pp b k q)) nv nv (pa a) :=
  Sparrow.bakeGeometry_ff_detached_eq_stokes vis2 thres cut nus nv jp1 jp2 jc1 jc2 P pc pn pp pa ptw hasM W nIn D T dIn dOut bidx brdf fnone B att junk a b ha hb h hdet

/-- **lower bound of C05 about the composed text**: the stored form factor of any pair that is invisible, or visible and detached, is
    non-negative -/
theorem bakeGeometry_ff_nonneg
    (vis2 : (Nat → Nat → ℝ) → (Nat → Nat → ℝ) → (Nat → Nat → Nat → ℝ) → Nat → Nat → Bool)
    (thres cut : ℝ) (nus : (Nat → Nat → ℝ) → (Nat → ℝ) → (Nat → Nat → ℝ) → (Nat → ℝ) → Nat → ℝ) (nv : Nat)
    (jp1 jp2 : Nat → Nat → ℝ) (jc1 jc2 : Nat → Nat → Nat)
    (P : Nat) (pc pn : Nat → Nat → ℝ) (pp : Nat → Nat → Nat → ℝ) (pa : Nat → ℝ) (ptw : Nat → Nat)
    (hasM : Bool) (W nIn D T : Nat) (dIn dOut : Nat → Nat → Nat → ℝ) (bidx : Nat → Nat) (brdf : Nat → Nat → Nat → Nat → ℝ)
    (fnone : Bool) (B : Nat) (att : Option (Nat → ℝ)) (junk : Nat → Nat → Nat) (a b : Nat) (ha : a < P) (hb : b < P)
    (hdet : vis2 pc pn pp a b = true →
      chooseIntegrator thres (ptsOf (fun k q => pp a k q)) (ptsOf (fun k q => pp b k q)) nv nv = Integrator.stokes) :
    0 ≤ (bakeGeometry vis2 (ffuT thres cut nus nv jp1 jp2 jc1 jc2) P pc pn pp pa ptw hasM W nIn D T dIn dOut bidx brdf fnone B att
      junk).2.2.1 a b :=
  Sparrow.bakeGeometry_ff_nonneg vis2 thres cut nus nv jp1 jp2 jc1 jc2 P pc pn pp pa ptw hasM W nIn D T dIn dOut bidx brdf fnone B att junk a b ha hb hdet

end Sparrow.Props.C05.ComposedFF
