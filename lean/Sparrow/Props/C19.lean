import Sparrow.Proofs.KangAttenuation
import Sparrow.Proofs.KangBandLocal
import Sparrow.Proofs.KangRunText
import Sparrow.Proofs.KangInitRefine
import Sparrow.Proofs.KangRecvRefine
import Sparrow.Proofs.KangRefine
import Sparrow.Proofs.KangFFEquiv
import Sparrow.Proofs.KangRecvEquiv
import Sparrow.Proofs.KangFnEquiv
import Sparrow.Proofs.KangArrayLemmas
import Sparrow.Proofs.KangPipelineLemmas
import Sparrow.Proofs.KangLemmas
import Sparrow.Generated.Constants
import Sparrow.Proofs.RealInst
import Sparrow.Model.Source
import Mathlib.Tactic.Ring
/-
  C19 — Kang engine: exact order recursion, placement invariance, direct-sound law.
  Model: Sparrow/Model/Kang.lean.  The recursion is an instance of the fast engine's exchange
  model (`KangScene.toEx`), so the core refinement theorem applies to it.
-/
namespace Sparrow.Props.C19
open Sparrow Finset


theorem kang_arcs_char (ks : KangScene ℝ) (i j : Nat) :
    (i, j) ∈ ks.toEx.arcs ↔ i < ks.P ∧ j < ks.P ∧ ks.wall i ≠ ks.wall j :=
  Sparrow.kang_arcs_char ks i j


theorem kang_wf (ks : KangScene ℝ) : ks.toEx.WF :=
  Sparrow.kang_wf ks


theorem kang_order_recursion (ks : KangScene ℝ) (k j t : Nat) (hj : j < ks.P) (ht : t < ks.S) :
    orderH ks.toEx (k + 1) j 0 t =
      ∑ i ∈ range ks.P,
        if ks.wall i ≠ ks.wall j ∧ ks.bin i j ≤ t then
          ks.ff i j * ks.refl j * ks.attw i j * orderH ks.toEx k i 0 (t - ks.bin i j)
        else 0 :=
  Sparrow.kang_order_recursion ks k j t hj ht


theorem kang_truncation (ks : KangScene ℝ) (S' : Nat) (hS : S' ≤ ks.S) (k j t : Nat)
    (hj : j < ks.P) (ht : t < S') :
    orderH ({ ks with S := S' } : KangScene ℝ).toEx k j 0 t = orderH ks.toEx k j 0 t :=
  Sparrow.kang_truncation ks S' hS k j t hj ht


theorem kang_monotone_in_k (ks : KangScene ℝ) (he : ∀ j, 0 ≤ ks.e0 j)
    (hf : ∀ i j, 0 ≤ ks.ff i j * ks.refl j * ks.attw i j) (binR : Nat → Nat) (factor : Nat → ℝ)
    (hfac : ∀ j, 0 ≤ factor j) (K t : Nat) :
    kangReceiver ks.toEx K binR factor t ≤ kangReceiver ks.toEx (K + 1) binR factor t :=
  Sparrow.kang_monotone_in_k ks he hf binR factor hfac K t


theorem kangFFOrth_translation (sc rc ns nr t : Vec3 ℝ) (dd thr5 thr12 : ℝ) :
    kangFFOrth (sc.tr t) (rc.tr t) ns nr dd thr5 thr12 = kangFFOrth sc rc ns nr dd thr5 thr12 :=
  Sparrow.kangFFOrth_translation sc rc ns nr t dd thr5 thr12


theorem kangFFPar_translation (sc rc wd t : Vec3 ℝ) (dd thr5 : ℝ) :
    kangFFPar (sc.tr t) (rc.tr t) wd dd thr5 = kangFFPar sc rc wd dd thr5 :=
  Sparrow.kangFFPar_translation sc rc wd t dd thr5


theorem kangInitPatch_translation (normal center size src t : Vec3 ℝ) (power alpha att thr99 thr11 : ℝ) :
    kangInitPatch normal (center.tr t) size (src.tr t) power alpha att thr99 thr11 =
      kangInitPatch normal center size src power alpha att thr99 thr11 :=
  Sparrow.kangInitPatch_translation normal center size src t power alpha att thr99 thr11


theorem kangFFOrth_cyclic (sc rc ns nr : Vec3 ℝ) (dd thr5 thr12 : ℝ)
    (hs : AxisAligned ns thr5) (hr : AxisAligned nr thr5)
    (hdiff : normalAxis ns thr5 ≠ normalAxis nr thr5) :
    kangFFOrth sc.cyc rc.cyc ns.cyc nr.cyc dd thr5 thr12 = kangFFOrth sc rc ns nr dd thr5 thr12 :=
  Sparrow.kangFFOrth_cyclic sc rc ns nr dd thr5 thr12 hs hr hdiff

/-- parallel walls: the wall centres differ along exactly one axis (the common normal) -/
theorem kangFFPar_cyclic (sc rc wd : Vec3 ℝ) (dd thr5 : ℝ)
    (hw : (thr5 < wd.x ∧ ¬ thr5 < wd.y ∧ ¬ thr5 < wd.z) ∨ (¬ thr5 < wd.x ∧ thr5 < wd.y ∧ ¬ thr5 < wd.z) ∨
      (¬ thr5 < wd.x ∧ ¬ thr5 < wd.y ∧ thr5 < wd.z)) :
    kangFFPar sc.cyc rc.cyc wd.cyc dd thr5 = kangFFPar sc rc wd dd thr5 :=
  Sparrow.kangFFPar_cyclic sc rc wd dd thr5 hw


theorem kangInitPatch_cyclic (normal center size src : Vec3 ℝ) (power alpha att thr99 thr11 : ℝ)
    (hn : AxisAligned normal thr99) :
    kangInitPatch normal.cyc center.cyc size.cyc src.cyc power alpha att thr99 thr11 =
      kangInitPatch normal center size src power alpha att thr99 thr11 :=
  Sparrow.kangInitPatch_cyclic normal center size src power alpha att thr99 thr11 hn

/-- The direct sound adds exactly `exp(-m r) / (4π r²)` (in bin `⌊r/c·fs⌋`, when not ignored). -/
theorem kang_direct (r m : ℝ) : directSound r m = Real.exp (-m * r) / (4 * Real.pi * r ^ 2) := by
  unfold directSound
  simp only [transc_exp_real, transc_pi_real]
  ring

/-- The delay helper as the source has it now: `np.roll` followed by zeroing the wrapped head,
    i.e. the truncating shift (tied bit for bit by the correspondence). -/
theorem kang_delay_site : Generated.kangDelayRolls = true ∧ Generated.kangDelayZeroesHead = true := by decide

end Sparrow.Props.C19

namespace Sparrow.Props.C19.Run
open Sparrow Vec3 Finset

/-- **Translating the whole scene — walls, source and receiver — changes nothing**: same patches
    (translated), same form factors, first-order energies and bins, order histograms, receiver
    response and direct sound; and the run is refused for the translated scene iff it is for the
    original.  For every room, patch size, absorptions, attenuations, parameters and vector. -/
theorem runKang_translation (thr5 thr12 thr99 thr11 : ℝ) (room : KRoom ℝ) (par : KPar ℝ)
    (src recv t : Vec3 ℝ) :
    runKang thr5 thr12 thr99 thr11 (room.translate t) par (add src t) (add recv t) =
      runKang thr5 thr12 thr99 thr11 room par src recv :=
  Sparrow.runKang_translation thr5 thr12 thr99 thr11 room par src recv t

/-- **Order recursion of the run** (rooms with at least two walls): order `k+1` on patch `j` is the
    sum over the patches `i` of all other walls of their order-`k` histogram delayed by the
    centre-to-centre bins (what falls off the end is dropped), scaled by the form factor, by
    scattering·(1-absorption) of the RECEIVING wall and by `exp(-m d)` with the receiving wall's `m`. -/
theorem runKang_order_recursion (thr5 thr12 thr99 thr11 : ℝ) (room : KRoom ℝ) (par : KPar ℝ)
    (src recv : Vec3 ℝ) (b : KBaked ℝ) (r : KRun ℝ)
    (hb : kangBake room = some b)
    (hr : runKang thr5 thr12 thr99 thr11 room par src recv = some r)
    (hW : 1 < room.W) (k j t : Nat) (hk : k < par.K) (hj : j < b.P) (ht : t < par.S) :
    r.order (k + 1) j t =
      ∑ i ∈ range b.P,
        if b.wall i ≠ b.wall j ∧
            binKang (Vec3.norm (Vec3.sub (b.cen j) (b.cen i))) par.c par.fs ≤ t then
          lookup2 r.ff i j * (room.scattering (b.wall j) * (1 - room.absorption (b.wall j))) *
            Real.exp (-(room.att (b.wall j)) * Vec3.norm (Vec3.sub (b.cen j) (b.cen i))) *
            r.order k i (t - binKang (Vec3.norm (Vec3.sub (b.cen j) (b.cen i))) par.c par.fs)
        else 0 :=
  Sparrow.runKang_order_recursion thr5 thr12 thr99 thr11 room par src recv b r hb hr hW k j t hk hj ht

/-- **Direct-sound law of the run**: with the direct sound, bin `int(r/c·fs)` of the response is
    increased by exactly `exp(-m r)/(4π r²)` (`m` of the first wall), every other bin is unchanged. -/
theorem runKang_direct (thr5 thr12 thr99 thr11 : ℝ) (room : KRoom ℝ) (par : KPar ℝ)
    (src recv : Vec3 ℝ) (r : KRun ℝ) (f : Array ℝ)
    (hr : runKang thr5 thr12 thr99 thr11 room par src recv = some r) (hf : r.full = some f)
    (t : Nat) (ht : t < par.S) :
    f.getD t 0 = r.response.getD t 0 +
      (if t = binKang (Vec3.norm (Vec3.sub recv src)) par.c par.fs then
        Real.exp (-(room.att 0) * Vec3.norm (Vec3.sub recv src)) /
          (4 * Real.pi * Vec3.norm (Vec3.sub recv src) ^ 2)
       else 0) :=
  Sparrow.runKang_direct thr5 thr12 thr99 thr11 room par src recv r f hr hf t ht

/-- **Monotone in the maximum order**: with non-negative first-order energies and form factors,
    scattering ≥ 0 and absorption ≤ 1, raising the maximum order from `K` to `K+1` does not decrease
    any bin of the receiver response. -/
theorem runKang_monotone (thr5 thr12 thr99 thr11 : ℝ) (room : KRoom ℝ) (par : KPar ℝ)
    (src recv : Vec3 ℝ) (r r' : KRun ℝ)
    (hr : runKang thr5 thr12 thr99 thr11 room par src recv = some r)
    (hr' : runKang thr5 thr12 thr99 thr11 room { par with K := par.K + 1 } src recv = some r')
    (he : ∀ j, 0 ≤ r.e0.getD j 0) (hff : ∀ i j, 0 ≤ lookup2 r.ff i j)
    (hs : ∀ w, 0 ≤ room.scattering w) (ha : ∀ w, room.absorption w ≤ 1)
    (t : Nat) :
    r.response.getD t 0 ≤ r'.response.getD t 0 :=
  Sparrow.runKang_monotone thr5 thr12 thr99 thr11 room par src recv r r' hr hr' he hff hs ha t

end Sparrow.Props.C19.Run

namespace Sparrow.Props.C19.Arrays
open Sparrow Vec3

/-- Orthogonal walls (normals along different axes), source patch with in-plane sizes `dd × dd`:
    the array version is the method version. -/
theorem kangFFArrOrth_eq (sc rc ns nr size : Vec3 ℝ) (dd thr5 thr12 : ℝ)
    (hne : normalAxis ns thr5 ≠ normalAxis nr thr5)
    (hsz : kangSizesOrth (normalAxis ns thr5) size = (dd, dd)) :
    kangFFArrOrth sc rc ns nr size thr5 thr12 = kangFFOrth sc rc ns nr dd thr5 thr12 :=
  Sparrow.kangFFArrOrth_eq sc rc ns nr size dd thr5 thr12 hne hsz

/-- Translating both patches changes no entry of `patch2patch_ff_kang`. -/
theorem kangFFArr_translation (sc rc ns nr size t : Vec3 ℝ) (thr5 thr12 : ℝ) :
    kangFFArr (add sc t) (add rc t) ns nr size thr5 thr12 = kangFFArr sc rc ns nr size thr5 thr12 :=
  Sparrow.kangFFArr_translation sc rc ns nr size t thr5 thr12

/-- The parallel entry is `dd_l · dd_n · (Δm)² / (π d⁴)` with `d` the centre distance: it depends on
    the centres only through their difference and is symmetric in the two patches of equal size. -/
theorem kangFFArrPar_symm (sc rc nr size : Vec3 ℝ) (thr5 : ℝ) :
    kangFFArrPar sc rc nr size thr5 = kangFFArrPar rc sc nr size thr5 :=
  Sparrow.kangFFArrPar_symm sc rc nr size thr5

end Sparrow.Props.C19.Arrays

namespace Sparrow.Props.C19.KangFn
open Sparrow Sparrow.Generated.KangFn

/-- `_init_energy_exchange` (translated) = `kangInit`, band by band -/
theorem initEnergyExchange_eq (thr11 dl dm dn ddl ddm sx sy sz power : ℝ) (absorption : Nat → ℝ) (dist : ℝ)
    (attenuation : Nat → ℝ) (n_bins b : Nat) (hb : b < n_bins) :
    initEnergyExchange thr11 dl dm dn ddl ddm sx sy sz power absorption dist attenuation n_bins b =
      kangInit dl dm dn ddl ddm sx sy sz power (absorption b) dist (attenuation b) thr11 :=
  Sparrow.initEnergyExchange_eq thr11 dl dm dn ddl ddm sx sy sz power absorption dist attenuation n_bins b hb

/-- bands outside `range n_bins` stay zero (`np.zeros(n_bins)`) -/
theorem initEnergyExchange_outside (thr11 dl dm dn ddl ddm sx sy sz power : ℝ) (absorption : Nat → ℝ) (dist : ℝ)
    (attenuation : Nat → ℝ) (n_bins b : Nat) (hb : n_bins ≤ b) :
    initEnergyExchange thr11 dl dm dn ddl ddm sx sy sz power absorption dist attenuation n_bins b = 0 :=
  Sparrow.initEnergyExchange_outside thr11 dl dm dn ddl ddm sx sy sz power absorption dist attenuation n_bins b hb

/-- `_add_delay` (recognised): a shift that DROPS what is delayed beyond the end — never a wrap-around -/
theorem addDelay_eq (ir : Nat → ℝ) (n d : Nat) (hd : d ≤ n) :
    ∃ g, addDelay ir n d = some g ∧ ∀ t, t < n → g t = if t < d then 0 else ir (t - d) :=
  Sparrow.addDelay_eq ir n d hd


theorem addDelay_none (ir : Nat → ℝ) (n d : Nat) (hd : n < d) : addDelay ir n d = none :=
  Sparrow.addDelay_none ir n d hd

/-- nothing of the cells `ir[n-d .. n)` (what would be delayed beyond the end) re-appears anywhere -/
theorem addDelay_ignores_tail (ir ir' : Nat → ℝ) (n d : Nat) (hd : d ≤ n) (h : ∀ t, t + d < n → ir t = ir' t) :
    ∀ g g', addDelay ir n d = some g → addDelay ir' n d = some g' → ∀ t, t < n → g t = g' t :=
  Sparrow.addDelay_ignores_tail ir ir' n d hd h

/-- per-patch body of `PatchesKang.init_energy_exchange` (recognised) = (`binKang`, `kangInitPatch`) -/
theorem initEnergyExchangePatch_eq (thr99 thr11 : ℝ) (src center normal size : Nat → ℝ) (power : ℝ)
    (absorption attenuation : Nat → ℝ) (n_bins : Nat) (c fs : ℝ)
    (hn : AxisAligned (Vec3.ofFn normal) thr99) :
    ∃ E, initEnergyExchangePatch thr99 thr11 src center normal size power absorption attenuation n_bins c fs =
        some (binKang (Vec3.norm (Vec3.sub (Vec3.ofFn center) (Vec3.ofFn src))) c fs, E) ∧
      ∀ b, b < n_bins → E b = kangInitPatch (Vec3.ofFn normal) (Vec3.ofFn center) (Vec3.ofFn size) (Vec3.ofFn src) power
        (absorption b) (attenuation b) thr99 thr11 :=
  Sparrow.initEnergyExchangePatch_eq thr99 thr11 src center normal size power absorption attenuation n_bins c fs hn

/-- a normal with no component above the threshold is refused (AssertionError), not simulated -/
theorem initEnergyExchangePatch_none (thr99 thr11 : ℝ) (src center normal size : Nat → ℝ) (power : ℝ)
    (absorption attenuation : Nat → ℝ) (n_bins : Nat) (c fs : ℝ)
    (h0 : ¬ thr99 < |normal 0|) (h1 : ¬ thr99 < |normal 1|) (h2 : ¬ thr99 < |normal 2|) :
    initEnergyExchangePatch thr99 thr11 src center normal size power absorption attenuation n_bins c fs = none :=
  Sparrow.initEnergyExchangePatch_none thr99 thr11 src center normal size power absorption attenuation n_bins c fs h0 h1 h2

/-- innermost body of `PatchesKang.calculate_energy_exchange` (recognised): the order-(k-1) histogram of the source patch, delayed by
    the centre-to-centre bins with truncation, times form factor × scattering × (1 − absorption) of the RECEIVING wall × exp(−m d) -/
theorem exchangeContribution_eq (receiver source : Nat → ℝ) (c fs : ℝ) (A : Nat → ℝ) (n : Nat) (ff : ℝ)
    (absorption scattering att : Nat → ℝ) (f : Nat)
    (hd : binKang (Vec3.norm (Vec3.sub (Vec3.ofFn receiver) (Vec3.ofFn source))) c fs ≤ n) :
    ∃ g, exchangeContribution receiver source c fs A n ff absorption scattering att f = some g ∧
      ∀ t, t < n → g t =
        if binKang (Vec3.norm (Vec3.sub (Vec3.ofFn receiver) (Vec3.ofFn source))) c fs ≤ t then
          ff * (scattering f * (1 - absorption f)) *
            Real.exp (-(att f) * Vec3.norm (Vec3.sub (Vec3.ofFn receiver) (Vec3.ofFn source))) *
            A (t - binKang (Vec3.norm (Vec3.sub (Vec3.ofFn receiver) (Vec3.ofFn source))) c fs)
        else 0 :=
  Sparrow.exchangeContribution_eq receiver source c fs A n ff absorption scattering att f hd

/-- the loop nest of `calculate_energy_exchange`, cell by cell: previous value plus the sum over the patches of all other walls of
    the delayed, scaled order-(k-1) energies — the right-hand side of `kang_order_recursion` -/
theorem exchangeCell_eq (before : ℝ) (receiver : Nat → ℝ) (c fs : ℝ) (n : Nat)
    (walls : List (List ((Nat → ℝ) × (Nat → ℝ) × ℝ))) (absorption scattering att : Nat → ℝ) (f t : Nat) (ht : t < n)
    (hd : ∀ w ∈ walls, ∀ p ∈ w, binKang (Vec3.norm (Vec3.sub (Vec3.ofFn receiver) (Vec3.ofFn p.1))) c fs ≤ n) :
    exchangeCell before receiver c fs n walls absorption scattering att f t =
      some (before + (walls.flatten.map (kangTerm receiver c fs absorption scattering att f t)).sum) :=
  Sparrow.exchangeCell_eq before receiver c fs n walls absorption scattering att f t ht hd

end Sparrow.Props.C19.KangFn

namespace Sparrow.Props.C19.KangRecv
open Sparrow Sparrow.Generated.KangFn

/-- one patch, one order, one band at the receiver (Kang eq. 20): the patch histogram delayed by the patch-receiver bins with
    truncation, weighted by `cos ξ · exp(-m R) / (π R²)` — the model's `kangRecvFactor` -/
theorem receiverContribution_eq (center recv normal : Nat → ℝ) (c fs : ℝ) (E : Nat → ℝ) (n : Nat) (att : Nat → ℝ) (f : Nat)
    (hd : binKang (Vec3.norm (Vec3.sub (Vec3.ofFn center) (Vec3.ofFn recv))) c fs ≤ n) :
    ∃ g, receiverContribution center recv normal c fs E n att f = some g ∧
      ∀ t, t < n → g t =
        if binKang (Vec3.norm (Vec3.sub (Vec3.ofFn center) (Vec3.ofFn recv))) c fs ≤ t then
          E (t - binKang (Vec3.norm (Vec3.sub (Vec3.ofFn center) (Vec3.ofFn recv))) c fs) *
            kangRecvFactor (Vec3.ofFn normal) (Vec3.ofFn center) (Vec3.ofFn recv) (att f)
        else 0 :=
  Sparrow.receiverContribution_eq center recv normal c fs E n att f hd

/-- **the loops of `PatchesKang.energy_at_receiver`**: the response is additive over patches and orders -/
theorem receiverCell_eq (recv : Nat → ℝ) (c fs : ℝ) (n K : Nat) (patches : List ((Nat → ℝ) × (Nat → ℝ) × (Nat → Nat → ℝ)))
    (att : Nat → ℝ) (f t : Nat) (ht : t < n)
    (hd : ∀ p ∈ patches, binKang (Vec3.norm (Vec3.sub (Vec3.ofFn p.1) (Vec3.ofFn recv))) c fs ≤ n) :
    receiverCell recv c fs n K patches att f t = some ((patches.map (kangRecvTerm recv c fs K att f t)).sum) :=
  Sparrow.receiverCell_eq recv c fs n K patches att f t ht hd

/-- nothing arrives at the receiver before the patch-receiver travel time of the nearest patch -/
theorem receiverCell_silent_before (recv : Nat → ℝ) (c fs : ℝ) (n K : Nat)
    (patches : List ((Nat → ℝ) × (Nat → ℝ) × (Nat → Nat → ℝ))) (att : Nat → ℝ) (f t : Nat) (ht : t < n)
    (hd : ∀ p ∈ patches, binKang (Vec3.norm (Vec3.sub (Vec3.ofFn p.1) (Vec3.ofFn recv))) c fs ≤ n)
    (hearly : ∀ p ∈ patches, t < binKang (Vec3.norm (Vec3.sub (Vec3.ofFn p.1) (Vec3.ofFn recv))) c fs) :
    receiverCell recv c fs n K patches att f t = some 0 :=
  Sparrow.receiverCell_silent_before recv c fs n K patches att f t ht hd hearly

/-- **direct-sound law of the Kang engine** (recognised text): bin `int(r/c·fs)`, value `exp(-m r) / (4 π r²)` per band -/
theorem directSoundKang_eq (recv src : Nat → ℝ) (M : Nat → ℝ) (c fs : ℝ) :
    directSoundKang recv src M c fs =
      (binKang (Vec3.norm (Vec3.sub (Vec3.ofFn recv) (Vec3.ofFn src))) c fs,
       fun b => directSound (Vec3.norm (Vec3.sub (Vec3.ofFn recv) (Vec3.ofFn src))) (M b)) :=
  Sparrow.directSoundKang_eq recv src M c fs


theorem directSoundKang_law (recv src : Nat → ℝ) (M : Nat → ℝ) (c fs : ℝ) (b : Nat) :
    (directSoundKang recv src M c fs).2 b =
      Real.exp (-(M b) * Vec3.norm (Vec3.sub (Vec3.ofFn recv) (Vec3.ofFn src))) /
        (4 * Real.pi * (Vec3.norm (Vec3.sub (Vec3.ofFn recv) (Vec3.ofFn src))) ^ 2) :=
  Sparrow.directSoundKang_law recv src M c fs b

/-- **call schedule of `RadiosityKang.run`**: an exchange of order `k+1` is issued only after every wall's exchange of order `k`
    (for `k ≥ 1`) — the order recursion reads complete order-`k` histograms -/
theorem runSchedule_order (nW K w w' k : Nat) (hw : w < nW) (hw' : w' < nW) (hk : 1 ≤ k) (hk' : k + 1 ≤ K) (h2 : 1 < nW) :
    ∃ i j : Nat, i < j ∧ (runSchedule nW K)[i]? = some (KangCall.exchange w' k) ∧
      (runSchedule nW K)[j]? = some (KangCall.exchange w (k + 1)) :=
  Sparrow.runSchedule_order nW K w w' k hw hw' hk hk' h2

/-- every wall is initialised before any exchange is issued -/
theorem runSchedule_init_first (nW K w w' k : Nat) (hw : w < nW) (hw' : w' < nW) (hk : 1 ≤ k) (hk' : k ≤ K) (h2 : 1 < nW) :
    ∃ i j : Nat, i < j ∧ (runSchedule nW K)[i]? = some (KangCall.init w') ∧
      (runSchedule nW K)[j]? = some (KangCall.exchange w k) :=
  Sparrow.runSchedule_init_first nW K w w' k hw hw' hk hk' h2

/-- each call is issued exactly once -/
theorem runSchedule_nodup (nW K : Nat) : (runSchedule nW K).Nodup :=
  Sparrow.runSchedule_nodup nW K

/-- a single wall: initialisation only (no form factors, no exchange) -/
theorem runSchedule_single (K : Nat) : runSchedule 1 K = [KangCall.init 0] :=
  Sparrow.runSchedule_single K

end Sparrow.Props.C19.KangRecv

namespace Sparrow.Props.C19.KangFF
open Sparrow Sparrow.Generated.KangFF

/-- orthogonal walls (`dot_product == 0`, both normals axis-aligned along DIFFERENT axes): the regenerated text is Kang's eq. 11–15 -/
theorem kangFormFactorPair_orth (thr5 thr12 : ℝ) (wcR wcS nr rc ns sc : Nat → ℝ) (dd : ℝ)
    (hdot : nr 0 * ns 0 + nr 1 * ns 1 + nr 2 * ns 2 = 0)
    (hs : AxisAligned (Vec3.ofFn ns) thr5) (hr : AxisAligned (Vec3.ofFn nr) thr5)
    (hdiff : normalAxis (Vec3.ofFn ns) thr5 ≠ normalAxis (Vec3.ofFn nr) thr5) :
    kangFormFactorPair thr5 thr12 wcR wcS nr rc ns sc dd =
      some (kangFFOrth (Vec3.ofFn sc) (Vec3.ofFn rc) (Vec3.ofFn ns) (Vec3.ofFn nr) dd thr5 thr12) :=
  Sparrow.kangFormFactorPair_orth thr5 thr12 wcR wcS nr rc ns sc dd hdot hs hr hdiff

/-- parallel walls (`dot_product != 0`): eq. 16 with the separating axis read off the wall centres; `none` (AssertionError) exactly
    when the wall centres coincide within `1e-5` on every axis -/
theorem kangFormFactorPair_par (thr5 thr12 : ℝ) (wcR wcS nr rc ns sc : Nat → ℝ) (dd : ℝ)
    (hdot : nr 0 * ns 0 + nr 1 * ns 1 + nr 2 * ns 2 ≠ 0) :
    kangFormFactorPair thr5 thr12 wcR wcS nr rc ns sc dd =
      kangFFPar (Vec3.ofFn sc) (Vec3.ofFn rc) (Vec3.ofFn (fun q => |wcR q - wcS q|)) dd thr5 :=
  Sparrow.kangFormFactorPair_par thr5 thr12 wcR wcS nr rc ns sc dd hdot

/-- a source normal without any component above the threshold is refused (orthogonal branch), not given a form factor -/
theorem kangFormFactorPair_unbound (thr5 thr12 : ℝ) (wcR wcS nr rc ns sc : Nat → ℝ) (dd : ℝ)
    (hdot : nr 0 * ns 0 + nr 1 * ns 1 + nr 2 * ns 2 = 0)
    (h0 : ¬ thr5 < |ns 0|) (h1 : ¬ thr5 < |ns 1|) (h2 : ¬ thr5 < |ns 2|) :
    kangFormFactorPair thr5 thr12 wcR wcS nr rc ns sc dd = none :=
  Sparrow.kangFormFactorPair_unbound thr5 thr12 wcR wcS nr rc ns sc dd hdot h0 h1 h2

/-- the writer's column is the patch index plus the patch counts of the other walls visited before -/
theorem writerColumn_eq (lens : List Nat) (j i : Nat) (hj : j ≤ lens.length) :
    writerColumn lens j i = i + (lens.take j).sum :=
  Sparrow.writerColumn_eq lens j i hj

/-- **the reader finds the column the writer filled**: for the `j`-th of the other walls (ids without repetition) and any patch of it,
    `get_form_factor` reads exactly the column `calculate_form_factor` wrote -/
theorem readerColumn_eq_writerColumn (other lens : List Nat) (j i : Nat) (hlen : lens.length = other.length)
    (hj : j < other.length) (hnd : other.Nodup) :
    readerColumn other lens (other.getD j 0) i = some (writerColumn lens j i) :=
  Sparrow.readerColumn_eq_writerColumn other lens j i hlen hj hnd

/-- a wall that is not among the other walls has no column -/
theorem readerColumn_none (other lens : List Nat) (w i : Nat) (hw : w ∉ other) :
    readerColumn other lens w i = none :=
  Sparrow.readerColumn_none other lens w i hw

/-- distinct (wall, patch) pairs get distinct columns: no form factor is overwritten by another pair's -/
theorem writerColumn_injective (lens : List Nat) (j j' i i' : Nat) (hj : j < lens.length) (hj' : j' < lens.length)
    (hi : i < lens.getD j 0) (hi' : i' < lens.getD j' 0) (h : writerColumn lens j i = writerColumn lens j' i') :
    j = j' ∧ i = i' :=
  Sparrow.writerColumn_injective lens j j' i i' hj hj' hi hi' h

end Sparrow.Props.C19.KangFF

namespace Sparrow.Props.C19.Refine
open Sparrow Sparrow.Generated.KangFn Finset

/-- **refinement**: the regenerated loop nest, started from a zero cell, computes the model's next order -/
theorem exchangeCell_refines_order (g : KangGeom) (f k j t : Nat) (others : List Nat)
    (hj : j < g.P) (ht : t < g.S) (hnd : others.Nodup)
    (hmem : ∀ w, w ∈ others ↔ w < g.W ∧ w ≠ g.wall j) (hwall : ∀ i, i < g.P → g.wall i < g.W)
    (hbins : ∀ i, i < g.P → g.wall i ≠ g.wall j → binKang (g.dist i j) g.c g.fs ≤ g.S) :
    exchangeCell 0 (g.center j) g.c g.fs g.S (g.wallsOf f k j others) (g.absorption (g.wall j)) (g.scattering (g.wall j))
        (g.att (g.wall j)) f t =
      some (orderH (g.scene f).toEx (k + 1) j 0 t) :=
  Sparrow.exchangeCell_refines_order g f k j t others hj ht hnd hmem hwall hbins

/-- the result does not depend on the order in which the other walls are listed -/
theorem exchangeCell_order_of_walls (g : KangGeom) (f k j t : Nat) (others others' : List Nat)
    (hj : j < g.P) (ht : t < g.S) (hnd : others.Nodup) (hnd' : others'.Nodup)
    (hmem : ∀ w, w ∈ others ↔ w < g.W ∧ w ≠ g.wall j) (hmem' : ∀ w, w ∈ others' ↔ w < g.W ∧ w ≠ g.wall j)
    (hwall : ∀ i, i < g.P → g.wall i < g.W)
    (hbins : ∀ i, i < g.P → g.wall i ≠ g.wall j → binKang (g.dist i j) g.c g.fs ≤ g.S) :
    exchangeCell 0 (g.center j) g.c g.fs g.S (g.wallsOf f k j others) (g.absorption (g.wall j)) (g.scattering (g.wall j))
        (g.att (g.wall j)) f t =
      exchangeCell 0 (g.center j) g.c g.fs g.S (g.wallsOf f k j others') (g.absorption (g.wall j)) (g.scattering (g.wall j))
        (g.att (g.wall j)) f t :=
  Sparrow.exchangeCell_order_of_walls g f k j t others others' hj ht hnd hnd' hmem hmem' hwall hbins

end Sparrow.Props.C19.Refine

namespace Sparrow.Props.C19.RecvRefine
open Sparrow Sparrow.Generated.KangFn

/-- **receiver refinement** for arbitrary order histograms `H k j t` -/
theorem receiverCell_refines_receiverOf (P K S : Nat) (center normal : Nat → Nat → ℝ) (H : Nat → Nat → Nat → ℝ)
    (recv : Nat → ℝ) (c fs : ℝ) (att : Nat → ℝ) (f t : Nat) (ht : t < S)
    (hbins : ∀ j, j < P → binKang (Vec3.norm (Vec3.sub (Vec3.ofFn (center j)) (Vec3.ofFn recv))) c fs ≤ S) :
    receiverCell recv c fs S K (recvPatches P center normal H) att f t =
      some (kangReceiverOf P K H
        (fun j => binKang (Vec3.norm (Vec3.sub (Vec3.ofFn (center j)) (Vec3.ofFn recv))) c fs)
        (fun j => kangRecvFactor (Vec3.ofFn (normal j)) (Vec3.ofFn (center j)) (Vec3.ofFn recv) (att f)) t) :=
  Sparrow.receiverCell_refines_receiverOf P K S center normal H recv c fs att f t ht hbins

/-- **the whole chain for one band**: histograms produced by the model recursion of the scene read off the geometry (which the
    regenerated exchange loop nest refines, `exchangeCell_refines_order`), collected by the regenerated receiver loops, give the
    model's `kangReceiver` of that scene -/
theorem receiverCell_refines_kangReceiver (g : KangGeom) (normal : Nat → Nat → ℝ) (K : Nat) (recv : Nat → ℝ) (att : Nat → ℝ)
    (f t : Nat) (ht : t < g.S)
    (hbins : ∀ j, j < g.P → binKang (Vec3.norm (Vec3.sub (Vec3.ofFn (g.center j)) (Vec3.ofFn recv))) g.c g.fs ≤ g.S) :
    receiverCell recv g.c g.fs g.S K
        (recvPatches g.P g.center normal (fun k j t => orderH (g.scene f).toEx k j 0 t)) att f t =
      some (kangReceiver (g.scene f).toEx K
        (fun j => binKang (Vec3.norm (Vec3.sub (Vec3.ofFn (g.center j)) (Vec3.ofFn recv))) g.c g.fs)
        (fun j => kangRecvFactor (Vec3.ofFn (normal j)) (Vec3.ofFn (g.center j)) (Vec3.ofFn recv) (att f)) t) :=
  Sparrow.receiverCell_refines_kangReceiver g normal K recv att f t ht hbins

end Sparrow.Props.C19.RecvRefine

/-! ### The hypotheses of the theorems above are satisfiable (non-vacuity) -/
namespace Sparrow.Props.C19.NonVacuous
open Sparrow Sparrow.Generated.KangFn Sparrow.Generated.KangFF

/-- a wall normal `(0, 0, 1)` is axis aligned for the threshold `0.99` of `init_energy_exchange` -/
example : AxisAligned (Vec3.ofFn (fun q => if q = 2 then (1 : ℝ) else 0)) (99 / 100) := by
  unfold AxisAligned Vec3.ofFn
  right; right
  norm_num

/-- floor and a side wall: axis aligned along different axes, orthogonal (premises of `kangFormFactorPair_orth`) -/
example : normalAxis (Vec3.ofFn (fun q => if q = 2 then (1 : ℝ) else 0)) (1 / 100000) ≠
    normalAxis (Vec3.ofFn (fun q => if q = 0 then (1 : ℝ) else 0)) (1 / 100000) := by
  simp [normalAxis, Vec3.ofFn, Cmp.lt]
  norm_num

/-- a delay within the histogram (premise of `addDelay_eq`, `exchangeContribution_eq`): the helper returns a histogram -/
example : ∃ g, addDelay (fun t => (t : ℝ) + 1) 5 2 = some g ∧ g 0 = 0 ∧ g 1 = 0 ∧ g 2 = 1 ∧ g 4 = 3 := by
  obtain ⟨g, hg, h⟩ := Sparrow.addDelay_eq (fun t => (t : ℝ) + 1) 5 2 (by omega)
  refine ⟨g, hg, ?_, ?_, ?_, ?_⟩
  · rw [h 0 (by omega)]; simp
  · rw [h 1 (by omega)]; simp
  · rw [h 2 (by omega)]; simp
  · rw [h 4 (by omega)]; norm_num

/-- two other walls with 3 and 2 patches: the reader finds column 3 + 1 for patch 1 of the second of them -/
example : readerColumn [4, 7] [3, 2] 7 1 = some (writerColumn [3, 2] 1 1) ∧ writerColumn [3, 2] 1 1 = 4 := by
  constructor
  · exact Sparrow.readerColumn_eq_writerColumn [4, 7] [3, 2] 1 1 rfl (by decide) (by decide)
  · decide

/-- the schedule of a two-wall room with two orders -/
example : runSchedule 2 2 = [.init 0, .init 1, .formFactor 0, .formFactor 1, .exchange 0 1, .exchange 1 1, .exchange 0 2, .exchange 1 2] := by
  decide

end Sparrow.Props.C19.NonVacuous

namespace Sparrow.Props.C19.InitRefine
open Sparrow Sparrow.Generated.KangFn

/-- **first-order refinement** for band `f < n_bins`, patch `j`, bin `t` inside the histogram: with the scene's `e0 j` / `bin0 j`
    being the first-order energy and bin of the geometry, the regenerated text writes exactly the model's order-0 cell -/
theorem initCell_refines_order0 (g : KangGeom) (thr99 thr11 : ℝ) (src normal size : Nat → ℝ) (power : ℝ) (n_bins f j t : Nat)
    (hf : f < n_bins) (hj : j < g.P) (ht : t < g.S) (hn : AxisAligned (Vec3.ofFn normal) thr99)
    (he0 : g.e0 j = kangInitPatch (Vec3.ofFn normal) (Vec3.ofFn (g.center j)) (Vec3.ofFn size) (Vec3.ofFn src) power
      (g.absorption (g.wall j) f) (g.att (g.wall j) f) thr99 thr11)
    (hb0 : g.bin0 j = binKang (Vec3.norm (Vec3.sub (Vec3.ofFn (g.center j)) (Vec3.ofFn src))) g.c g.fs) :
    initCell (initEnergyExchangePatch thr99 thr11 src (g.center j) normal size power (fun b => g.absorption (g.wall j) b)
        (fun b => g.att (g.wall j) b) n_bins g.c g.fs) f t =
      some (orderH (g.scene f).toEx 0 j 0 t) :=
  Sparrow.initCell_refines_order0 g thr99 thr11 src normal size power n_bins f j t hf hj ht hn he0 hb0

end Sparrow.Props.C19.InitRefine

namespace Sparrow.Props.C19.RunText
open Sparrow Sparrow.Generated.KangFn

/-- **the regenerated recursion computes the model's order histograms, all orders** -/
theorem kangText_eq_orderH (g : KangGeom) (d : KangInitData) (others : Nat → List Nat) (f : Nat) (hf : f < d.n_bins)
    (hn : ∀ j, j < g.P → AxisAligned (Vec3.ofFn (d.normal j)) d.thr99)
    (he0 : ∀ j, j < g.P → g.e0 j = kangInitPatch (Vec3.ofFn (d.normal j)) (Vec3.ofFn (g.center j)) (Vec3.ofFn (d.size j))
      (Vec3.ofFn d.src) d.power (g.absorption (g.wall j) f) (g.att (g.wall j) f) d.thr99 d.thr11)
    (hb0 : ∀ j, j < g.P → g.bin0 j = binKang (Vec3.norm (Vec3.sub (Vec3.ofFn (g.center j)) (Vec3.ofFn d.src))) g.c g.fs)
    (hnd : ∀ j, j < g.P → (others j).Nodup)
    (hmem : ∀ j, j < g.P → ∀ w, w ∈ others j ↔ w < g.W ∧ w ≠ g.wall j)
    (hwall : ∀ i, i < g.P → g.wall i < g.W)
    (hbins : ∀ i j, i < g.P → j < g.P → g.wall i ≠ g.wall j → binKang (g.dist i j) g.c g.fs ≤ g.S)
    (k j t : Nat) :
    kangText g d others f k j t = some (orderH (g.scene f).toEx k j 0 t) :=
  Sparrow.kangText_eq_orderH g d others f hf hn he0 hb0 hnd hmem hwall hbins k j t

end Sparrow.Props.C19.RunText

namespace Sparrow.Props.C19.NonVacuous2
open Sparrow

/-- a two-wall, two-patch geometry meeting every hypothesis of `exchangeCell_refines_order` / `kangText_eq_orderH` that concerns the
    geometry (other-wall list, wall range, every delay inside the histogram) -/
noncomputable def g0 : KangGeom :=
  { P := 2, W := 2, S := 3, wall := fun i => i, center := fun _ _ => 0, ff := fun _ _ => 1 / 4,
    absorption := fun _ _ => 1 / 2, scattering := fun _ _ => 1, att := fun _ _ => 0, c := 1, fs := 1, e0 := fun _ => 1, bin0 := fun _ => 0 }

example : (∀ w, w ∈ [1] ↔ w < g0.W ∧ w ≠ g0.wall 0) ∧ (∀ i, i < g0.P → g0.wall i < g0.W) ∧
    (∀ i, i < g0.P → g0.wall i ≠ g0.wall 0 → binKang (g0.dist i 0) g0.c g0.fs ≤ g0.S) := by
  refine ⟨?_, ?_, ?_⟩
  · intro w; simp [g0]; omega
  · intro i hi; simpa [g0] using hi
  · intro i _ _
    simp [g0, KangGeom.dist, Vec3.norm, Vec3.dot, Vec3.sub, Vec3.ofFn, binKang, ToBin.floorNat]

end Sparrow.Props.C19.NonVacuous2

namespace Sparrow.Props.C19.BandLocal
open Sparrow Sparrow.Generated.KangFn


theorem initEnergyExchange_band_local (thr11 dl dm dn ddl ddm sx sy sz power : ℝ) (absorption absorption' : Nat → ℝ) (dist : ℝ)
    (attenuation attenuation' : Nat → ℝ) (n n' b : Nat) (hb : b < n) (hb' : b < n')
    (ha : absorption b = absorption' b) (hm : attenuation b = attenuation' b) :
    initEnergyExchange thr11 dl dm dn ddl ddm sx sy sz power absorption dist attenuation n b =
      initEnergyExchange thr11 dl dm dn ddl ddm sx sy sz power absorption' dist attenuation' n' b :=
  Sparrow.initEnergyExchange_band_local thr11 dl dm dn ddl ddm sx sy sz power absorption absorption' dist attenuation attenuation' n n' b hb hb' ha hm


theorem exchangeContribution_band_local (receiver source : Nat → ℝ) (c fs : ℝ) (A : Nat → ℝ) (n : Nat) (ff : ℝ)
    (absorption absorption' scattering scattering' att att' : Nat → ℝ) (f : Nat)
    (ha : absorption f = absorption' f) (hs : scattering f = scattering' f) (hm : att f = att' f) :
    exchangeContribution receiver source c fs A n ff absorption scattering att f =
      exchangeContribution receiver source c fs A n ff absorption' scattering' att' f :=
  Sparrow.exchangeContribution_band_local receiver source c fs A n ff absorption absorption' scattering scattering' att att' f ha hs hm


theorem receiverContribution_band_local (center recv normal : Nat → ℝ) (c fs : ℝ) (E : Nat → ℝ) (n : Nat) (att att' : Nat → ℝ)
    (f : Nat) (hm : att f = att' f) :
    receiverContribution center recv normal c fs E n att f = receiverContribution center recv normal c fs E n att' f :=
  Sparrow.receiverContribution_band_local center recv normal c fs E n att att' f hm


theorem directSoundKang_band_local (recv src : Nat → ℝ) (M M' : Nat → ℝ) (c fs : ℝ) (b : Nat) (hm : M b = M' b) :
    (directSoundKang recv src M c fs).2 b = (directSoundKang recv src M' c fs).2 b ∧
      (directSoundKang recv src M c fs).1 = (directSoundKang recv src M' c fs).1 :=
  Sparrow.directSoundKang_band_local recv src M M' c fs b hm

end Sparrow.Props.C19.BandLocal

namespace Sparrow.Props.C19.Attenuation
open Sparrow Sparrow.Generated.KangFn

/-- direct sound: `m = 0` gives exactly `1 / (4 π r²)` -/
theorem directSoundKang_m0 (recv src : Nat → ℝ) (M : Nat → ℝ) (c fs : ℝ) (b : Nat) (h0 : M b = 0) :
    (directSoundKang recv src M c fs).2 b =
      1 / (4 * Real.pi * (Vec3.norm (Vec3.sub (Vec3.ofFn recv) (Vec3.ofFn src))) ^ 2) :=
  Sparrow.directSoundKang_m0 recv src M c fs b h0

/-- direct sound: non-increasing in the attenuation coefficient -/
theorem directSoundKang_antitone (recv src : Nat → ℝ) (M M' : Nat → ℝ) (c fs : ℝ) (b : Nat) (h : M b ≤ M' b) :
    (directSoundKang recv src M' c fs).2 b ≤ (directSoundKang recv src M c fs).2 b :=
  Sparrow.directSoundKang_antitone recv src M M' c fs b h

end Sparrow.Props.C19.Attenuation
