import Sparrow.Model.Kang
namespace Sparrow.Props.C19
theorem placeholder : True := trivial
end Sparrow.Props.C19
