import Sparrow.Proofs.PatchAttrsEquiv
import Sparrow.Proofs.PatchKernelCorollaries
import Sparrow.Proofs.PatchKernelEquiv
import Sparrow.Proofs.Relabel
import Sparrow.Proofs.Tiling
/-
  C08 — Patch subdivision is an exact congruent tiling of each wall.
  Model: `Sparrow/Model/Patches.lean` (`_create_patches`, `_total_number_of_patches`,
  `_process_patches`, and the same loop in `PatchesKang.__init__`, tied bit for bit).
-/
namespace Sparrow.Props.C08
open Sparrow

/-- For a rectangular axis-aligned wall and `0 < p ≤` both sides the code computes
    `⌊sx/p⌋ × ⌊sy/p⌋` cells (≥ 1 each) of size `sx/⌊sx/p⌋ × sy/⌊sy/p⌋` anchored at the minimum
    corner along the wall's two in-plane axes. -/
theorem grid_of_rect (w : Quad ℝ) (fl xa ya : Nat) (x0 y0 sx sy z p : ℝ)
    (h : RectWall w fl xa ya x0 y0 sx sy z) (hp : 0 < p) (hpx : p ≤ sx) (hpy : p ≤ sy) :
    ∃ g : Grid ℝ, grid w p = some g ∧ g.nx = ⌊sx / p⌋₊ ∧ g.ny = ⌊sy / p⌋₊ ∧ 1 ≤ g.nx ∧ 1 ≤ g.ny ∧
      g.xIdx = xa ∧ g.yIdx = ya ∧ g.xMin = x0 ∧ g.yMin = y0 ∧
      g.rx = sx / (g.nx : ℝ) ∧ g.ry = sy / (g.ny : ℝ) :=
  Sparrow.grid_of_rect w fl xa ya x0 y0 sx sy z p h hp hpx hpy

/-- Each patch is the rectangle `[x0+ix·rx, x0+(ix+1)·rx] × [y0+iy·ry, y0+(iy+1)·ry]` in the
    wall's plane (hence all patches are congruent: same `rx × ry`). -/
theorem patch_rect (w : Quad ℝ) (g : Grid ℝ) (fl : Nat) (z : ℝ) (ix iy : Nat)
    (hx : g.xIdx ≠ g.yIdx) (hfx : fl ≠ g.xIdx) (hfy : fl ≠ g.yIdx) (hflat : ∀ v, v < 4 → w v fl = z) :
    (patchCoord w g ix iy 0 g.xIdx = g.xMin + ix * g.rx ∧ patchCoord w g ix iy 0 g.yIdx = g.yMin + iy * g.ry) ∧
    (patchCoord w g ix iy 1 g.xIdx = g.xMin + (ix + 1) * g.rx ∧ patchCoord w g ix iy 1 g.yIdx = g.yMin + iy * g.ry) ∧
    (patchCoord w g ix iy 2 g.xIdx = g.xMin + (ix + 1) * g.rx ∧ patchCoord w g ix iy 2 g.yIdx = g.yMin + (iy + 1) * g.ry) ∧
    (patchCoord w g ix iy 3 g.xIdx = g.xMin + ix * g.rx ∧ patchCoord w g ix iy 3 g.yIdx = g.yMin + (iy + 1) * g.ry) ∧
    (∀ v, v < 4 → patchCoord w g ix iy v fl = z) :=
  Sparrow.patch_rect w g fl z ix iy hx hfx hfy hflat

/-- `nx·ny` patches, enumerated cell by cell, each cell exactly once. -/
theorem enumeration (g : Grid ℝ) (hny : 1 ≤ g.ny) :
    (∀ k, k < totalPatches g → k / g.ny < g.nx ∧ k % g.ny < g.ny) ∧
    (∀ ix iy, ix < g.nx → iy < g.ny → ∃ k, k < totalPatches g ∧ k / g.ny = ix ∧ k % g.ny = iy) ∧
    (∀ k k', k < totalPatches g → k' < totalPatches g → k / g.ny = k' / g.ny → k % g.ny = k' % g.ny → k = k') :=
  Sparrow.enumeration g hny

theorem areas_sum (nx ny : Nat) (sx sy : ℝ) (hx : 1 ≤ nx) (hy : 1 ≤ ny) :
    ((nx * ny : Nat) : ℝ) * ((sx / nx) * (sy / ny)) = sx * sy :=
  Sparrow.areas_sum nx ny sx sy hx hy

theorem cells_cover (nx ny : Nat) (x0 y0 sx sy u v : ℝ) (hx : 1 ≤ nx) (hy : 1 ≤ ny)
    (hsx : 0 < sx) (hsy : 0 < sy) (hu : x0 ≤ u ∧ u ≤ x0 + sx) (hv : y0 ≤ v ∧ v ≤ y0 + sy) :
    ∃ ix iy, ix < nx ∧ iy < ny ∧
      x0 + ix * (sx / nx) ≤ u ∧ u ≤ x0 + (ix + 1) * (sx / nx) ∧
      y0 + iy * (sy / ny) ≤ v ∧ v ≤ y0 + (iy + 1) * (sy / ny) :=
  Sparrow.cells_cover nx ny x0 y0 sx sy u v hx hy hsx hsy hu hv

theorem cells_inside (nx ny : Nat) (x0 sx : ℝ) (ix : Nat) (hx : 1 ≤ nx) (hsx : 0 < sx) (hix : ix < nx) :
    x0 ≤ x0 + ix * (sx / nx) ∧ x0 + (ix + 1) * (sx / nx) ≤ x0 + sx :=
  Sparrow.cells_inside nx ny x0 sx ix hx hsx hix

theorem cells_disjoint (nx ny : Nat) (x0 y0 sx sy u v : ℝ) (ix iy ix' iy' : Nat)
    (hx : 1 ≤ nx) (hy : 1 ≤ ny) (hsx : 0 < sx) (hsy : 0 < sy) (hne : (ix, iy) ≠ (ix', iy'))
    (h1 : x0 + ix * (sx / nx) < u ∧ u < x0 + (ix + 1) * (sx / nx) ∧
          y0 + iy * (sy / ny) < v ∧ v < y0 + (iy + 1) * (sy / ny))
    (h2 : x0 + ix' * (sx / nx) < u ∧ u < x0 + (ix' + 1) * (sx / nx) ∧
          y0 + iy' * (sy / ny) < v ∧ v < y0 + (iy' + 1) * (sy / ny)) : False :=
  Sparrow.cells_disjoint nx ny x0 y0 sx sy u v ix iy ix' iy' hx hy hsx hsy hne h1 h2

/-- Vertex-order independence (the 8 orderings of a rectangle keep per-axis min/max). -/
theorem vertex_order_free (w w' : Quad ℝ) (p : ℝ)
    (hmin : ∀ a, a < 3 → minOver (fun v => w v a) 4 = minOver (fun v => w' v a) 4)
    (hmax : ∀ a, a < 3 → maxOver (fun v => w v a) 4 = maxOver (fun v => w' v a) 4) :
    (grid w p).map (fun g => (g.nx, g.ny, g.xIdx, g.yIdx, g.xMin, g.yMin, g.rx, g.ry)) =
      (grid w' p).map (fun g => (g.nx, g.ny, g.xIdx, g.yIdx, g.xMin, g.yMin, g.rx, g.ry)) :=
  Sparrow.vertex_order_free w w' p hmin hmax

/-- Position independence. -/
theorem translation_covariant (w : Quad ℝ) (t : Nat → ℝ) (p : ℝ) (g : Grid ℝ) (hg : grid w p = some g) :
    ∃ g', grid (fun v a => w v a + t a) p = some g' ∧ g'.nx = g.nx ∧ g'.ny = g.ny ∧ g'.xIdx = g.xIdx ∧
      g'.yIdx = g.yIdx ∧ g'.rx = g.rx ∧ g'.ry = g.ry ∧
      ∀ ix iy v a, patchCoord (fun v a => w v a + t a) g' ix iy v a = patchCoord w g ix iy v a + t a :=
  Sparrow.translation_covariant w t p g hg

/-- Attribution of patches to walls by index blocks. -/
theorem wall_attribution (counts : List Nat) (w k : Nat) (hw : w < counts.length)
    (hlo : (counts.take w).sum ≤ k) (hhi : k < (counts.take (w + 1)).sum) :
    wallOfPatch counts k = w :=
  Sparrow.wallOfPatch_block counts w k hw hlo hhi

end Sparrow.Props.C08

namespace Sparrow.Props.C08.Relabel
open Sparrow

/-- … and the receiver curve of the code (receiver data renumbered alike) is unchanged. -/
theorem monoCurveCode_relabel (sc : ExScene ℝ) (hwf : sc.WF) (σ τ : Nat → Nat) (h : IsRelabel sc.P σ τ)
    (K : Nat) (g w : Nat → ℝ) (binR : Nat → Nat) (t : Nat) :
    monoCurveCode (sc.relabel σ τ) K (fun j => g (τ j)) (fun j => w (τ j)) (fun j => binR (τ j)) t =
      monoCurveCode sc K g w binR t :=
  Sparrow.monoCurveCode_relabel sc hwf σ τ h K g w binR t

end Sparrow.Props.C08.Relabel

namespace Sparrow.Props.C08.Translated
open Sparrow Sparrow.Generated.Patches

/-- `_total_number_of_patches` (translated) = number of cells of the model's grid; `none` = the
    UnboundLocalError of the Python text when no extent is smaller than the patch size. -/
theorem totalNumberOfPatches_eq [Cmp α] [Add α] [Sub α] [Mul α] [Div α] [ToBin α] [NatCast α]
    (w : Quad α) (p : α) (junk : Nat → α) :
    totalNumberOfPatches w 4 3 p junk = (grid w p).map totalPatches :=
  Sparrow.totalNumberOfPatches_eq w p junk

/-- `_create_patches` (translated) agrees with the model (`CreatePatchesAgree`): both stop (`none`: no flat axis), or the
    same patch count and, below it, the model's patches vertex by vertex and axis by axis; rows at or beyond the count keep
    the content of the `np.empty` buffer.  For every scalar type (reals and float64 alike) and every buffer content. -/
theorem createPatches_eq [Cmp α] [Add α] [Sub α] [Mul α] [Div α] [ToBin α] [NatCast α]
    (w : Quad α) (p : α) (junk1 : Nat → α) (junk2 : Nat → Nat → Nat → α) :
    CreatePatchesAgree w junk2 (createPatches w 4 3 p junk1 junk2) (grid w p) :=
  Sparrow.createPatches_eq w p junk1 junk2

end Sparrow.Props.C08.Translated

namespace Sparrow.Props.C08.TranslatedTiling
open Sparrow Sparrow.Generated.Patches

/-- **C08 on the translated source text**: for an axis-aligned rectangular wall and `0 < p ≤ sx, sy` the translated
    `_create_patches` returns ⌊sx/p⌋·⌊sy/p⌋ patches (both factors ≥ 1); patch `ix·ny + iy` is the rectangle
    `[x0+ix·rx, x0+(ix+1)·rx] × [y0+iy·ry, y0+(iy+1)·ry]` (vertex order lo-lo, hi-lo, hi-hi, lo-hi) in the wall's plane. -/
theorem createPatches_rect (w : Quad ℝ) (fl xa ya : Nat) (x0 y0 sx sy z p : ℝ)
    (h : RectWall w fl xa ya x0 y0 sx sy z) (hp : 0 < p) (hpx : p ≤ sx) (hpy : p ≤ sy)
    (junk1 : Nat → ℝ) (junk2 : Nat → Nat → Nat → ℝ) :
    ∃ A, createPatches w 4 3 p junk1 junk2 = some (⌊sx / p⌋₊ * ⌊sy / p⌋₊, A) ∧
      1 ≤ ⌊sx / p⌋₊ ∧ 1 ≤ ⌊sy / p⌋₊ ∧
      (∀ ix iy, ix < ⌊sx / p⌋₊ → iy < ⌊sy / p⌋₊ →
        let rx := sx / (⌊sx / p⌋₊ : ℝ)
        let ry := sy / (⌊sy / p⌋₊ : ℝ)
        let q := A (ix * ⌊sy / p⌋₊ + iy)
        (q 0 xa = x0 + ix * rx ∧ q 0 ya = y0 + iy * ry) ∧
        (q 1 xa = x0 + (ix + 1) * rx ∧ q 1 ya = y0 + iy * ry) ∧
        (q 2 xa = x0 + (ix + 1) * rx ∧ q 2 ya = y0 + (iy + 1) * ry) ∧
        (q 3 xa = x0 + ix * rx ∧ q 3 ya = y0 + (iy + 1) * ry) ∧
        (∀ v, v < 4 → q v fl = z)) ∧
      (∀ k, ⌊sx / p⌋₊ * ⌊sy / p⌋₊ ≤ k → A k = junk2 k) :=
  Sparrow.createPatches_rect w fl xa ya x0 y0 sx sy z p h hp hpx hpy junk1 junk2

/-- and `_total_number_of_patches` (translated) returns that count -/
theorem totalNumberOfPatches_rect (w : Quad ℝ) (fl xa ya : Nat) (x0 y0 sx sy z p : ℝ)
    (h : RectWall w fl xa ya x0 y0 sx sy z) (hp : 0 < p) (hpx : p ≤ sx) (hpy : p ≤ sy) (junk : Nat → ℝ) :
    totalNumberOfPatches w 4 3 p junk = some (⌊sx / p⌋₊ * ⌊sy / p⌋₊) :=
  Sparrow.totalNumberOfPatches_rect w fl xa ya x0 y0 sx sy z p h hp hpx hpy junk

end Sparrow.Props.C08.TranslatedTiling

namespace Sparrow.Props.C08.TranslatedKang
open Sparrow Sparrow.Generated.Patches

/-- `PatchesKang.__init__` (translated) agrees with the model grid exactly as `_create_patches` does -/
theorem patchesKangInit_eq [Cmp α] [Add α] [Sub α] [Mul α] [Div α] [ToBin α] [NatCast α]
    (w : Quad α) (p : α) (junk2 : Nat → Nat → Nat → α) :
    CreatePatchesAgree w junk2 (patchesKangInit w 4 3 p junk2) (grid w p) :=
  Sparrow.patchesKangInit_eq w p junk2

/-- **Both engines tile alike**: the translated `_create_patches` and the translated loop of
    `PatchesKang.__init__` return the same count and the same patches, for every wall, patch size, scalar type
    and whatever the buffers held. -/
theorem engines_tile_alike [Cmp α] [Add α] [Sub α] [Mul α] [Div α] [ToBin α] [NatCast α]
    (w : Quad α) (p : α) (junk1 : Nat → α) (junk2 junk3 : Nat → Nat → Nat → α) :
    match createPatches w 4 3 p junk1 junk2, patchesKangInit w 4 3 p junk3 with
    | some (n, A), some (n', A') => n = n' ∧ ∀ k v a, k < n → v < 4 → A k v a = A' k v a
    | none, none => True
    | _, _ => False :=
  Sparrow.engines_tile_alike w p junk1 junk2 junk3

end Sparrow.Props.C08.TranslatedKang

namespace Sparrow.Props.C08.PatchAttrs
open Sparrow Sparrow.Generated.PatchAttrs Sparrow.Generated.PointFactor

/-- centre of a parallelogram patch = corner + half of both edges -/
theorem calculateCenter_para (p u v : Nat → ℝ) (q : Nat) :
    calculateCenter (paraPts p u v) 4 q = p q + (u q + v q) / 2 :=
  Sparrow.calculateCenter_para p u v q

/-- size of a parallelogram patch: `|v - u|` per axis; for edges along two different axes that is `|u| + |v|` per axis -/
theorem calculateSize_para (p u v : Nat → ℝ) (q : Nat) :
    calculateSize (paraPts p u v) q = |v q - u q| :=
  Sparrow.calculateSize_para p u v q

/-- **area of a parallelogram patch = |u × v|** (two triangles of half that area each) -/
theorem calculateArea_para (thr : ℝ) (p u v : Nat → ℝ) :
    calculateArea thr (paraPts p u v) 4 =
      Real.sqrt ((u 1 * v 2 - u 2 * v 1) ^ 2 + (u 2 * v 0 - u 0 * v 2) ^ 2 + (u 0 * v 1 - u 1 * v 0) ^ 2) :=
  Sparrow.calculateArea_para thr p u v

/-- area of an axis-parallel rectangle with edges `a` along axis 0 and `b` along axis 1: `|a| · |b|`; tiles of equal edges have equal
    areas, and `n · m` tiles of edges `a/n`, `b/m` add up to the wall's area -/
theorem calculateArea_rect_xy (thr : ℝ) (p : Nat → ℝ) (a b : ℝ) :
    calculateArea thr (paraPts p (fun q => if q = 0 then a else 0) (fun q => if q = 1 then b else 0)) 4 = |a| * |b| :=
  Sparrow.calculateArea_rect_xy thr p a b


theorem calculateArea_tiles_sum (thr : ℝ) (p : Nat → Nat → Nat → ℝ) (a b : ℝ) (n m : Nat) (hn : 0 < n) (hm : 0 < m) :
    ((List.range n).map fun i => ((List.range m).map fun j =>
        calculateArea thr (paraPts (p i j) (fun q => if q = 0 then a / n else 0) (fun q => if q = 1 then b / m else 0)) 4).sum).sum =
      |a| * |b| :=
  Sparrow.calculateArea_tiles_sum thr p a b n m hn hm

/-- the normal of a parallelogram patch is the unit vector along `u × v`: the same for every tile of a wall (same edge directions) -/
theorem calculateNormals_para (p u v : Nat → ℝ) (q : Nat) (hq : q < 3) :
    calculateNormals (paraPts p u v) q =
      (if q = 0 then u 1 * v 2 - u 2 * v 1 else if q = 1 then u 2 * v 0 - u 0 * v 2 else u 0 * v 1 - u 1 * v 0) /
        Real.sqrt ((u 1 * v 2 - u 2 * v 1) ^ 2 + (u 2 * v 0 - u 0 * v 2) ^ 2 + (u 0 * v 1 - u 1 * v 0) ^ 2) :=
  Sparrow.calculateNormals_para p u v q hq

/-- scaling both edges by positive factors (a tile of the wall) keeps the normal -/
theorem calculateNormals_tile (p p' u v : Nat → ℝ) (s r : ℝ) (hs : 0 < s) (hr : 0 < r) (q : Nat) (hq : q < 3) :
    calculateNormals (paraPts p' (fun k => s * u k) (fun k => r * v k)) q = calculateNormals (paraPts p u v) q :=
  Sparrow.calculateNormals_tile p p' u v s r hs hr q hq

end Sparrow.Props.C08.PatchAttrs
