import Sparrow.Proofs.MonoGlueEquiv
import Sparrow.Proofs.KernelCorollaries
import Sparrow.Proofs.KernelEquiv
import Sparrow.Proofs.PipelineEnergy
import Sparrow.Proofs.Support
import Sparrow.Proofs.CollectLemmas
import Sparrow.Generated.Constants
/-
  C02 — Energy arrives at its time of flight and is never wrapped around the histogram.

  Property theorems only; helper lemmas live in `Sparrow/Proofs`.
  Theorems are about the executable model (`Sparrow/Model`) instantiated at `ℝ`.
-/
namespace Sparrow.Props.C02
open Sparrow

/-- Patch histograms: every non-zero bin of order `k` is the sum of the per-leg travel-time
    bins along a chain source → i₀ → … → i_k = j of visible arcs, and lies inside the
    histogram.  Holds for every scene, delay table, transfer table, length `S` and order. -/
theorem patch_bin_is_sum_of_leg_bins (sc : ExScene ℝ) (k j d t : Nat)
    (h : orderH sc k j d t ≠ 0) : Reach sc k j t ∧ t < sc.S :=
  orderH_ne_zero_reach sc k j d t h

/-- Hence the accumulated histogram shows nothing before the earliest first arrival. -/
theorem nothing_before_first_arrival (sc : ExScene ℝ) (K j d t : Nat)
    (h : etc sc K j d t ≠ 0) : ∃ i, sc.bin0 i ≤ t := by
  rw [etc_eq_sum] at h
  obtain ⟨k, _, hk⟩ := exists_ne_zero_of_sum_ne_zero _ _ h
  exact (orderH_ne_zero_reach sc k j d t hk).1.first_arrival_le

/-- Shortening the histogram to `S' ≤ S` bins changes no bin below `S'`: energy beyond the
    end is dropped and re-appears nowhere. -/
theorem truncation_removes (sc : ExScene ℝ) (hwf : sc.WF) (S' : Nat) (_hS : S' ≤ sc.S)
    (K j d t : Nat) (hj : j < sc.P) (hd : d < sc.D) (ht : t < S') :
    etc { sc with S := S' } K j d t = etc sc K j d t := by
  have hwf' : ExScene.WF { sc with S := S' } := hwf
  rw [etc_eq_coeff _ hwf' K j d t hj hd ht, etc_eq_coeff sc hwf K j d t hj hd (by omega)]
  unfold specEtc
  simp only [specOrder_congr_S]

/-
  Receiver collection — FULL STATEMENT (what the property demands of `_collect_receiver_energy`):

    theorem receiver_no_wrap (S binR w E i t) (ht : t < S)
        (h : collectRollF S binR w E i t ≠ 0) : binR i ≤ t ∧ E i (t - binR i) ≠ 0

  It is FALSE of the code at the pinned commit and of its model (known finding D3: the kernel
  delays with `np.roll`): `receiver_wraps_witness` below is the concrete counterexample,
  replayed on the implementation by the check.  Proved instead: the statement under the
  hypothesis that no energy is delayed past the end of the histogram (`…_partial`).
-/

/-- Receiver collection, partial: as long as the (weighted) patch histogram is zero from bin
    `S - binR i` on, a non-zero output bin `t` of patch `i` comes from input bin `t - binR i`
    of the same patch and nothing is written before `binR i`. -/
theorem receiver_no_wrap_partial (S : Nat) (binR : Nat → Nat) (w : Nat → ℝ) (E : Nat → Nat → ℝ)
    (i t : Nat) (ht : t < S) (hfit : ∀ u, S - binR i ≤ u → u < S → E i u = 0)
    (h : collectRollF S binR w E i t ≠ 0) : binR i ≤ t ∧ E i (t - binR i) ≠ 0 := by
  rw [collectRollF_eq_collectF_of_fits S binR w E i t ht hfit] at h
  unfold collectF at h
  split at h
  · next hle => exact ⟨hle, fun h0 => h (by rw [h0]; ring)⟩
  · exact absurd rfl h

/-- Under the same hypothesis the code's kernel *is* the truncating delay of the scaled
    patch histogram. -/
theorem receiver_is_shiftTrunc_partial (S : Nat) (binR : Nat → Nat) (w : Nat → ℝ)
    (E : Nat → Nat → ℝ) (i t : Nat) (ht : t < S)
    (hfit : ∀ u, S - binR i ≤ u → u < S → E i u = 0) :
    collectRollF S binR w E i t =
      (shiftTrunc (binR i) ((List.range S).map fun u => E i u * w i)).getD t 0 := by
  rw [collectRollF_eq_collectF_of_fits S binR w E i t ht hfit, getD_shiftTrunc]
  unfold collectF
  by_cases hle : binR i ≤ t
  · have : t - binR i < S := by omega
    simp [hle, ht, List.getD_eq_getElem?_getD, this]
  · simp [hle]

/-- The negation of the full statement on a concrete witness (D3): a two-bin histogram with
    energy in its last bin, delayed by one bin, shows that energy in bin 0. -/
theorem receiver_wraps_witness :
    ∃ (S : Nat) (binR : Nat → Nat) (w : Nat → ℝ) (E : Nat → Nat → ℝ) (i t : Nat), t < S ∧
      collectRollF S binR w E i t ≠ 0 ∧ ¬ (binR i ≤ t ∧ E i (t - binR i) ≠ 0) :=
  ⟨2, fun _ => 1, fun _ => 1, fun _ t => if t = 1 then 1 else 0, 0, 0, by decide,
    by rw [collectRollF_wraps.1]; exact one_ne_zero, by simp⟩

/-- Why `np.roll` is not this operator: it is a different function already on two bins. -/
theorem roll_wraps : roll 1 [1, 2] ≠ shiftTrunc 1 ([1, 2] : List Nat) := by decide

/-- The three delay sites of the fast engine, as the source has them now (regenerated from
    `/repo` on every run): floor for source→patch and patch→patch legs, ceil for the
    receiver leg, no `np.roll` in the two exchange kernels, `np.roll` still in the receiver
    kernel (D3), the order-0 store guarded by the histogram length, and the Kang delay helper
    zeroing the wrapped head after its `np.roll` (= `shiftTrunc`, tied bit for bit). -/
theorem delay_sites_as_modelled :
    Generated.initRounding = .floor ∧ Generated.exchangeRounding = .floor ∧
    Generated.collectRounding = .ceil ∧ Generated.initUsesRoll = false ∧
    Generated.exchangeUsesRoll = false ∧ Generated.collectUsesRoll = true ∧
    Generated.initGuarded = true ∧
    Generated.kangDelayRolls = true ∧ Generated.kangDelayZeroesHead = true := by decide

/-- Non-vacuity: a 2-patch, 3-bin scene in which order-1 energy crosses the end of the
    histogram (arrival bin 1 + 2 = 3 ≥ S) and is dropped, while order 0 is present. -/
def demo : ExScene ℝ where
  P := 2
  D := 1
  S := 3
  pairs := [(0, 1)]
  bin0 := fun _ => 1
  bin := fun _ _ => 2
  e0 := fun _ _ => 1
  fft := fun _ _ _ => 1
  dir := fun _ _ => 0

example : demo.WF := by
  intro a ha
  simp [ExScene.arcs, arcsOf, demo] at ha
  rcases ha with rfl | rfl <;> simp [demo]

/-- C02: running with a shorter histogram `S' ≤ S` gives exactly the first `S'` bins of every
    patch histogram of the longer run (nothing is folded back). -/
theorem runPipeline_prefix
    (eta thr : ℝ) (room : Room ℝ) (mat : Materials ℝ) (par : RunPar ℝ) (src recv : Vec3 ℝ)
    (S' : Nat) (hS : S' ≤ par.S) (hD : 0 < mat.nOut)
    (r r' : RunResult ℝ)
    (hr : runPipeline eta thr room mat par src recv = some r)
    (hr' : runPipeline eta thr room mat { par with S := S' } src recv = some r')
    (j d t : Nat) (hj : j < r.P) (hd : d < mat.nOut) (ht : t < S') :
    lookup3 r'.etc j d t = lookup3 r.etc j d t :=
  Sparrow.runPipeline_prefix eta thr room mat par src recv S' hS hD r r' hr hr' j d t hj hd ht

end Sparrow.Props.C02

namespace Sparrow.Props.C02.Kernels
open Sparrow Sparrow.Generated.Kernels

/-- `_energy_exchange_init_energy` as translated = order 0 of the model. -/
theorem energyExchangeInitEnergy_eq (n_samples P D B : Nat) (energy_0 : Nat → Nat → Nat → ℝ)
    (s0 : Nat) (distance_0 : Nat → ℝ) (c dt : ℝ) (j d b t : Nat) (hj : j < P) :
    energyExchangeInitEnergy n_samples P D B energy_0 s0 distance_0 c dt j d b t =
      (if t < n_samples then
        (if t = ToBin.floorNat (distance_0 j / c / dt) then energy_0 j d b else 0) else 0) :=
  Sparrow.energyExchangeInitEnergy_eq n_samples P D B energy_0 s0 distance_0 c dt j d b t hj

/-- `_energy_exchange` as translated = the accumulated histogram `etc` of the model, for every
    order `K`, band `b` and in-range cell.  Hypotheses: the array shapes are consistent (`P` patches
    everywhere) and the index data are in range (what numpy needs not to raise). -/
theorem energyExchange_eq (n_samples P D B : Nat) (energy_0 : Nat → Nat → Nat → ℝ)
    (s0 : Nat) (distance_0 : Nat → ℝ) (s1 s2 : Nat) (distance_ij : Nat → Nat → ℝ)
    (P' : Nat) (fft : Nat → Nat → Nat → Nat → ℝ) (s3 s4 : Nat) (p2o : Nat → Nat → Nat)
    (c dt : ℝ) (K nVis s5 : Nat) (vp : Nat → Nat → Nat) (b : Nat)
    (hwf : (exSceneOfArgs n_samples P D energy_0 distance_0 distance_ij fft p2o c dt nVis vp b).WF)
    (j d t : Nat) (hj : j < P) (hd : d < D) (ht : t < n_samples) :
    energyExchange n_samples P D B energy_0 s0 distance_0 s1 s2 distance_ij P P' D B fft s3 s4 p2o c dt K
        nVis s5 vp j d b t =
      etc (exSceneOfArgs n_samples P D energy_0 distance_0 distance_ij fft p2o c dt nVis vp b) K j d t :=
  Sparrow.energyExchange_eq n_samples P D B energy_0 s0 distance_0 s1 s2 distance_ij P' fft s3 s4 p2o c dt K nVis s5 vp b hwf j d t hj hd ht

/-- `_collect_receiver_energy` as translated = the model's receiver kernel (`np.roll`, D3). -/
theorem collectReceiverEnergy_eq (P B S : Nat) (E : Nat → Nat → Nat → ℝ) (s0 : Nat) (dist : Nat → ℝ)
    (c dt : ℝ) (s1 : Nat) (att : Nat → ℝ) (i b t : Nat) (hi : i < P) (hb : b < B) :
    collectReceiverEnergy P B S E s0 dist c dt s1 att i b t =
      collectRollF S (fun i => ToBin.ceilNat (dist i / c / dt)) (fun i => Real.exp (-(att b) * dist i))
        (fun i t => E i b t) i t :=
  Sparrow.collectReceiverEnergy_eq P B S E s0 dist c dt s1 att i b t hi hb

end Sparrow.Props.C02.Kernels

namespace Sparrow.Props.C02.Translated
open Sparrow Sparrow.Generated.Kernels

/-- C02: a call with a shorter histogram returns the first bins of the longer call (nothing is
    folded back, nothing arrives earlier). -/
theorem energyExchange_prefix (S S' P D B : Nat) (hS : S' ≤ S) (e0 : Nat → Nat → Nat → ℝ)
    (s0 : Nat) (distance_0 : Nat → ℝ) (s1 s2 : Nat) (distance_ij : Nat → Nat → ℝ)
    (P' : Nat) (fft : Nat → Nat → Nat → Nat → ℝ) (s3 s4 : Nat) (p2o : Nat → Nat → Nat)
    (c dt : ℝ) (K nVis s5 : Nat) (vp : Nat → Nat → Nat) (b : Nat)
    (hwf : (exSceneOfArgs S P D e0 distance_0 distance_ij fft p2o c dt nVis vp b).WF)
    (j d t : Nat) (hj : j < P) (hd : d < D) (ht : t < S') :
    energyExchange S' P D B e0 s0 distance_0 s1 s2 distance_ij P P' D B fft s3 s4 p2o c dt K nVis s5 vp j d b t =
      energyExchange S P D B e0 s0 distance_0 s1 s2 distance_ij P P' D B fft s3 s4 p2o c dt K nVis s5 vp j d b t :=
  Sparrow.energyExchange_prefix S S' P D B hS e0 s0 distance_0 s1 s2 distance_ij P' fft s3 s4 p2o c dt K nVis s5 vp b hwf j d t hj hd ht

/-- C02: no bin before the first arrival: with every delay at least `m` bins (source leg) nothing
    is non-zero before bin `m`. -/
theorem energyExchange_nothing_early (S P D B : Nat) (e0 : Nat → Nat → Nat → ℝ)
    (s0 : Nat) (distance_0 : Nat → ℝ) (s1 s2 : Nat) (distance_ij : Nat → Nat → ℝ)
    (P' : Nat) (fft : Nat → Nat → Nat → Nat → ℝ) (s3 s4 : Nat) (p2o : Nat → Nat → Nat)
    (c dt : ℝ) (K nVis s5 : Nat) (vp : Nat → Nat → Nat) (b : Nat)
    (hwf : (exSceneOfArgs S P D e0 distance_0 distance_ij fft p2o c dt nVis vp b).WF)
    (m : Nat) (hm : ∀ i, i < P → m ≤ ToBin.floorNat (distance_0 i / c / dt))
    (j d t : Nat) (hj : j < P) (hd : d < D) (ht : t < S) (htm : t < m) :
    energyExchange S P D B e0 s0 distance_0 s1 s2 distance_ij P P' D B fft s3 s4 p2o c dt K nVis s5 vp j d b t = 0 :=
  Sparrow.energyExchange_nothing_early S P D B e0 s0 distance_0 s1 s2 distance_ij P' fft s3 s4 p2o c dt K nVis s5 vp b hwf m hm j d t hj hd ht htm

end Sparrow.Props.C02.Translated

namespace Sparrow.Props.C02.MonoGlue
open Sparrow Sparrow.Generated.MonoGlue

/-- **`calculate_direct_sound` as translated**: value and bin -/
theorem calculateDirectSound_eq (r : Nat → ℝ) (rc : Nat → Nat → ℝ) (B : Nat) (att : Option (Nat → ℝ))
    (g : Option ((Nat → Nat → ℝ) → ℝ → Nat → ℝ)) (freq : Nat → ℝ) (c dt : ℝ) (k b : Nat) (hb : b < B) :
    (calculateDirectSound r rc B att g freq c dt).1 k b =
        (match att with
          | some m => directSound (r k) (m b)
          | none => 1 / (4 * Real.pi * (r k * r k))) * mgDir g rc freq k b ∧
    (calculateDirectSound r rc B att g freq c dt).2 k = ToBin.floorNat (r k / c / dt) :=
  Sparrow.calculateDirectSound_eq r rc B att g freq c dt k b hb

/-- **`collect_energy_receiver_mono` as translated**: the sum over the patches; the direct sound, when asked for, is
    added in bin `floor(r_k/c/dt)` and nowhere else, and not at all when that bin is beyond the histogram. -/
theorem collectEnergyReceiverMono_eq (pw : Nat → Nat → Nat → Nat → ℝ) (R P Bn S : Nat) (ds : Bool)
    (r : Nat → ℝ) (rc : Nat → Nat → ℝ) (B : Nat) (att : Option (Nat → ℝ))
    (g : Option ((Nat → Nat → ℝ) → ℝ → Nat → ℝ)) (freq : Nat → ℝ) (c dt : ℝ) (k b t : Nat) :
    collectEnergyReceiverMono pw R P Bn S ds r rc B att g freq c dt k b t =
      (∑ p ∈ Finset.range P, pw k p b t) +
        (if ds = true ∧ ToBin.floorNat (r k / c / dt) < S ∧ t = ToBin.floorNat (r k / c / dt)
          then (calculateDirectSound r rc B att g freq c dt).1 k b else 0) :=
  Sparrow.collectEnergyReceiverMono_eq pw R P Bn S ds r rc B att g freq c dt k b t

/-- the direct sound never lands before or after its time of flight, and is dropped beyond the end (C02) -/
theorem collectEnergyReceiverMono_direct_only_at_tof (pw : Nat → Nat → Nat → Nat → ℝ) (R P Bn S : Nat)
    (r : Nat → ℝ) (rc : Nat → Nat → ℝ) (B : Nat) (att : Option (Nat → ℝ))
    (g : Option ((Nat → Nat → ℝ) → ℝ → Nat → ℝ)) (freq : Nat → ℝ) (c dt : ℝ) (k b t : Nat)
    (ht : t ≠ ToBin.floorNat (r k / c / dt) ∨ S ≤ ToBin.floorNat (r k / c / dt)) :
    collectEnergyReceiverMono pw R P Bn S true r rc B att g freq c dt k b t =
      collectEnergyReceiverMono pw R P Bn S false r rc B att g freq c dt k b t :=
  Sparrow.collectEnergyReceiverMono_direct_only_at_tof pw R P Bn S r rc B att g freq c dt k b t ht

end Sparrow.Props.C02.MonoGlue
