import Sparrow.Proofs.LegKernelEquiv
import Sparrow.Proofs.KernelEquiv
import Sparrow.Model.Exchange
import Sparrow.Model.Collect
import Sparrow.Model.Bake
/-
  C12 — Frequency bands are simulated independently.

  The model is band-wise by construction: a multi-band run is the family of single-band
  scenes `band b`.  The theorems below therefore only *guard the model* (they hold for any
  scalar type, hence also for the `Float` instance the correspondence runs); that the CODE
  is band-wise rests on the tie: the correspondence compares every band of multi-band runs of
  the real kernels with the single-band model, with band-dependent materials and with shapes
  chosen so that a transposed or mis-broadcast band axis would still be shape-correct
  (D = B, P = B, S = B), and the oracle compares multi-band runs of the implementation with
  B single-band runs bit for bit at every stage.
-/
namespace Sparrow.Props.C12
open Sparrow

variable {α : Type}

/-- Multi-band exchange data: per band initial energies and transfer factors; geometry and
    delays are shared. -/
structure MBScene (α : Type) where
  P : Nat
  D : Nat
  S : Nat
  B : Nat
  pairs : List (Nat × Nat)
  bin0 : Nat → Nat
  bin : Nat → Nat → Nat
  dir : Nat → Nat → Nat
  e0 : Nat → Nat → Nat → α          -- j d band
  fft : Nat → Nat → Nat → Nat → α   -- i j d band

def MBScene.band (m : MBScene α) (b : Nat) : ExScene α :=
  { P := m.P, D := m.D, S := m.S, pairs := m.pairs, bin0 := m.bin0, bin := m.bin, dir := m.dir
    e0 := fun j d => m.e0 j d b, fft := fun i j d => m.fft i j d b }

/-- The multi-band histogram `ETC[j, d, b, t]`. -/
def MBScene.etc [Add α] [Mul α] [Zero α] (m : MBScene α) (K j d b t : Nat) : α :=
  Sparrow.etc (m.band b) K j d t

/-- Band `b` of a multi-band run depends only on band `b` of the inputs: two runs that agree on
    that band (and on the shared geometry) agree on that band of the result, whatever the other
    bands hold — for any scalar type. -/
theorem band_independent [Add α] [Mul α] [Zero α] (m m' : MBScene α) (b : Nat)
    (hg : m'.P = m.P ∧ m'.D = m.D ∧ m'.S = m.S ∧ m'.pairs = m.pairs ∧ m'.bin0 = m.bin0 ∧
      m'.bin = m.bin ∧ m'.dir = m.dir)
    (he : ∀ j d, m'.e0 j d b = m.e0 j d b) (hf : ∀ i j d, m'.fft i j d b = m.fft i j d b)
    (K j d t : Nat) : m'.etc K j d b t = m.etc K j d b t := by
  obtain ⟨h1, h2, h3, h4, h5, h6, h7⟩ := hg
  have : m'.band b = m.band b := by
    unfold MBScene.band
    congr 1 <;> first | assumption | (funext j d; exact he j d) | (funext i j d; exact hf i j d)
  unfold MBScene.etc
  rw [this]

/-- A multi-band run restricted to one band is the single-band run of that band. -/
theorem band_is_single_band_run [Add α] [Mul α] [Zero α] (m : MBScene α) (b K j d t : Nat) :
    m.etc K j d b t =
      ({ m with B := 1, e0 := fun j d _ => m.e0 j d b, fft := fun i j d _ => m.fft i j d b } :
        MBScene α).etc K j d 0 t := rfl

end Sparrow.Props.C12

namespace Sparrow.Props.C12.Kernels
open Sparrow Sparrow.Generated.Kernels

/-- **Bands are independent in the translated source** (`_energy_exchange`): band `b` of the result
    depends on the initial energies and transfer factors of band `b` only — two calls whose data
    agree in band `b` (and share geometry, delays and index maps) agree in band `b`, for every
    order, histogram length and number of bands. -/
theorem energyExchange_band_local (n_samples P D B : Nat) (e0 e0' : Nat → Nat → Nat → ℝ)
    (s0 : Nat) (distance_0 : Nat → ℝ) (s1 s2 : Nat) (distance_ij : Nat → Nat → ℝ)
    (P' : Nat) (fft fft' : Nat → Nat → Nat → Nat → ℝ) (s3 s4 : Nat) (p2o : Nat → Nat → Nat)
    (c dt : ℝ) (K nVis s5 : Nat) (vp : Nat → Nat → Nat) (b : Nat)
    (he : ∀ j d, e0 j d b = e0' j d b) (hf : ∀ i j d, fft i j d b = fft' i j d b)
    (hwf : (exSceneOfArgs n_samples P D e0 distance_0 distance_ij fft p2o c dt nVis vp b).WF)
    (j d t : Nat) (hj : j < P) (hd : d < D) (ht : t < n_samples) :
    energyExchange n_samples P D B e0 s0 distance_0 s1 s2 distance_ij P P' D B fft s3 s4 p2o c dt K
        nVis s5 vp j d b t =
      energyExchange n_samples P D B e0' s0 distance_0 s1 s2 distance_ij P P' D B fft' s3 s4 p2o c dt K
        nVis s5 vp j d b t :=
  Sparrow.energyExchange_band_local n_samples P D B e0 e0' s0 distance_0 s1 s2 distance_ij P' fft fft' s3 s4 p2o c dt K nVis s5 vp b he hf hwf j d t hj hd ht

/-- … and in the translated receiver kernel: band `b` of the output depends on band `b` of the
    patch histograms and on the attenuation coefficient of band `b` only. -/
theorem collectReceiverEnergy_band_local (P B S : Nat) (E E' : Nat → Nat → Nat → ℝ) (s0 : Nat) (dist : Nat → ℝ)
    (c dt : ℝ) (s1 : Nat) (att att' : Nat → ℝ) (i b t : Nat) (hi : i < P) (hb : b < B)
    (hE : ∀ i t, E i b t = E' i b t) (ha : att b = att' b) :
    collectReceiverEnergy P B S E s0 dist c dt s1 att i b t =
      collectReceiverEnergy P B S E' s0 dist c dt s1 att' i b t :=
  Sparrow.collectReceiverEnergy_band_local P B S E E' s0 dist c dt s1 att att' i b t hi hb hE ha

end Sparrow.Props.C12.Kernels

namespace Sparrow.Props.C12.SourceLeg
open Sparrow Sparrow.Generated.LegKernels

/-- **band independence of the source leg** (C12): band `b` of the output depends on band `b` of the attenuation only -/
theorem source2patch_band_local (pt : (Nat → ℝ) → (Nat → Nat → ℝ) → ℝ) (P B B' : Nat) (src : Nat → ℝ)
    (pc : Nat → Nat → ℝ) (pp : Nat → Nat → Nat → ℝ) (vis : Nat → Bool) (m m' : Nat → ℝ)
    (s0 s1 s2 s3 s4 s4' : Nat) (j b b' : Nat) (hj : j < P) (hb : m b = m' b') :
    (source2patchEnergyUniversal pt 3 src P 3 pc s0 s1 s2 pp s3 vis s4 (some m) B).1 j b =
      (source2patchEnergyUniversal pt 3 src P 3 pc s0 s1 s2 pp s3 vis s4' (some m') B').1 j b' :=
  Sparrow.source2patch_band_local pt P B B' src pc pp vis m m' s0 s1 s2 s3 s4 s4' j b b' hj hb

end Sparrow.Props.C12.SourceLeg
