import Sparrow.Props.C01
import Sparrow.Props.C02
import Sparrow.Props.C03
import Sparrow.Props.C09
import Sparrow.Props.C10
import Sparrow.Props.C11
import Sparrow.Props.C12
