import Sparrow.Proofs.MetricsEquiv
import Sparrow.Proofs.MonoGlueEquiv
import Sparrow.Proofs.SourceGlueEquiv
import Sparrow.Proofs.DirectivityLemmas
/-
  C20 — Source directivity is applied per direction in the source's own frame.
  Model: Sparrow/Model/Directivity.lean.
-/
namespace Sparrow.Props.C20
open Sparrow Vec3

/-- **The looked-up direction is the geometric direction in the source's own frame.**
    The azimuth/elevation route of `_get_metrics` (atan2, asin, then spherical → cartesian)
    yields the unit vector `(⟨d,view⟩, ⟨d,up×view⟩, ⟨d,up⟩)/|d|` for `d = target - position`,
    whenever `d` is not parallel to `up` (where the azimuth is undefined). -/
theorem metrics_frame (pos view up target : Vec3 ℝ) (h : Orthonormal view up)
    (hgen : (metricsLocal pos view up target).x ^ 2 + (metricsLocal pos view up target).z ^ 2 ≠ 0) :
    sphToCart Real.cos Real.sin (metricsAngles pos view up target).1 (metricsAngles pos view up target).2 =
      metricsDir pos view up target :=
  Sparrow.metrics_frame pos view up target h hgen

/-- It is a unit vector. -/
theorem metricsDir_unit (pos view up target : Vec3 ℝ) (h : Orthonormal view up)
    (hd : dot (sub target pos) (sub target pos) ≠ 0) :
    dot (metricsDir pos view up target) (metricsDir pos view up target) = 1 :=
  Sparrow.metricsDir_unit pos view up target h hd

/-- **Rotating source orientation and scene together changes nothing.** For every map `Q` that
    preserves differences, inner products and cross products (a proper rotation about any
    point, or a translation composed with one): same looked-up direction. -/
theorem metrics_rotation_covariant (Q : Vec3 ℝ → Vec3 ℝ) (Ql : Vec3 ℝ → Vec3 ℝ)
    (hsub : ∀ a b, sub (Q a) (Q b) = Ql (sub a b))
    (hdot : ∀ a b, dot (Ql a) (Ql b) = dot a b)
    (hcross : ∀ a b, cross (Ql a) (Ql b) = Ql (cross a b))
    (pos view up target : Vec3 ℝ) :
    metricsDir (Q pos) (Ql view) (Ql up) (Q target) = metricsDir pos view up target :=
  Sparrow.metrics_rotation_covariant Q Ql hsub hdot hcross pos view up target

/-- The factor is the table entry of the nearest measured direction at the nearest measured
    frequency … -/
theorem directivity_lookup (nDir nFreq : Nat) (dirs : Nat → Vec3 ℝ) (freqs : Nat → ℝ)
    (table : Nat → Nat → ℝ) (pos view up target : Vec3 ℝ) (f : ℝ) :
    directivityFactor nDir nFreq dirs freqs table pos view up target f =
      table (nearest dirs nDir (metricsDir pos view up target)) (nearestFreq nFreq freqs f) :=
  Sparrow.directivity_lookup nDir nFreq dirs freqs table pos view up target f

/-- … where "nearest frequency" is the first index minimising `|f_k - f|`. -/
theorem nearestFreq_spec (n : Nat) (freqs : Nat → ℝ) (f : ℝ) (hn : 0 < n) :
    nearestFreq n freqs f < n ∧ ∀ k, k < n → |freqs (nearestFreq n freqs f) - f| ≤ |freqs k - f| :=
  Sparrow.nearestFreq_spec n freqs f hn

/-- The factor multiplies every outgoing slot of the patch. -/
theorem directivity_multiplies (g : Nat → ℝ) (e0 : Nat → Nat → ℝ) (j d : Nat) :
    applyDirectivity (some g) e0 j d = e0 j d * g j :=
  Sparrow.directivity_multiplies g e0 j d

/-- A directivity that is 1 everywhere, or no directivity at all, reproduces the
    omnidirectional result — patch energies and direct sound. -/
theorem unit_directivity_identity (g : Nat → ℝ) (hg : ∀ j, g j = 1) (e0 : Nat → Nat → ℝ) (j d : Nat) (v : ℝ) :
    applyDirectivity (some g) e0 j d = e0 j d ∧ applyDirectivityDirect (some (1 : ℝ)) v = v :=
  Sparrow.unit_directivity_identity g hg e0 j d v


theorem no_directivity_identity (e0 : Nat → Nat → ℝ) (j d : Nat) (v : ℝ) :
    applyDirectivity none e0 j d = e0 j d ∧ applyDirectivityDirect none v = v :=
  Sparrow.no_directivity_identity e0 j d v

end Sparrow.Props.C20

namespace Sparrow.Props.C20.SourceGlue
open Sparrow Sparrow.Generated.SourceGlue Sparrow.Generated.BakeKernels Sparrow.Generated.LegKernels

/-- **directivity** (C20, the glue's part): a `SoundSource` with a directivity stores, for every patch, outgoing
    direction and band, the energy of the same source without directivity times its directivity towards that patch
    at that band's frequency. -/
theorem initSourceEnergy_directivity
    (vis : (Nat → ℝ) → (Nat → Nat → ℝ) → (Nat → Nat → ℝ) → (Nat → Nat → Nat → ℝ) → Nat → Bool)
    (pt : (Nat → ℝ) → (Nat → Nat → ℝ) → ℝ) (g : (Nat → Nat → ℝ) → ℝ → Nat → ℝ)
    (P B W T nIn D : Nat) (src : Nat → ℝ) (wall : Nat → Nat) (dirsIn dirsOut : Nat → Nat → Nat → ℝ)
    (brdf : Nat → Nat → Nat → Nat → ℝ) (bidx : Nat → Nat) (pc : Nat → Nat → ℝ) (wp : Nat → Nat → Nat → ℝ)
    (wn : Nat → Nat → ℝ) (pp : Nat → Nat → Nat → ℝ) (att freq : Nat → ℝ)
    (s0 s1 s2 s3 s4 s5 s6 s7 s8 s9 s10 s11 s12 : Nat)
    (p d b : Nat) (hp : p < P) (hb : b < B) :
    (initSourceEnergy vis pt true (some g) 3 src s0 wall W nIn 3 dirsIn s1 D s2 dirsOut T nIn D B brdf s3 bidx P 3 pc
      s4 s5 s6 wp s7 s8 wn s9 s10 s11 pp s12 att B freq B).2.1 p d b =
    (initSourceEnergy vis pt true none 3 src s0 wall W nIn 3 dirsIn s1 D s2 dirsOut T nIn D B brdf s3 bidx P 3 pc
      s4 s5 s6 wp s7 s8 wn s9 s10 s11 pp s12 att B freq B).2.1 p d b * g pc (freq b) p :=
  Sparrow.initSourceEnergy_directivity vis pt g P B W T nIn D src wall dirsIn dirsOut brdf bidx pc wp wn pp att freq s0 s1 s2 s3 s4 s5 s6 s7 s8 s9 s10 s11 s12 p d b hp hb

end Sparrow.Props.C20.SourceGlue

namespace Sparrow.Props.C20.MonoGlue
open Sparrow Sparrow.Generated.MonoGlue

/-- **`calculate_direct_sound` as translated**: value and bin -/
theorem calculateDirectSound_eq (r : Nat → ℝ) (rc : Nat → Nat → ℝ) (B : Nat) (att : Option (Nat → ℝ))
    (g : Option ((Nat → Nat → ℝ) → ℝ → Nat → ℝ)) (freq : Nat → ℝ) (c dt : ℝ) (k b : Nat) (hb : b < B) :
    (calculateDirectSound r rc B att g freq c dt).1 k b =
        (match att with
          | some m => directSound (r k) (m b)
          | none => 1 / (4 * Real.pi * (r k * r k))) * mgDir g rc freq k b ∧
    (calculateDirectSound r rc B att g freq c dt).2 k = ToBin.floorNat (r k / c / dt) :=
  Sparrow.calculateDirectSound_eq r rc B att g freq c dt k b hb

end Sparrow.Props.C20.MonoGlue

namespace Sparrow.Props.C20.Metrics
open Sparrow Sparrow.Generated.Metrics


theorem getMetrics_eq {α : Type} [Add α] [Sub α] [Mul α] [Div α] [Neg α] [Transc α] [NatCast α]
    (pos view up target : Nat → α) :
    getMetrics pos view up target =
      ((metricsAngles ⟨pos 0, pos 1, pos 2⟩ ⟨view 0, view 1, view 2⟩ ⟨up 0, up 1, up 2⟩ ⟨target 0, target 1, target 2⟩).1
          / Transc.pi * ((180 : Nat) : α),
       (metricsAngles ⟨pos 0, pos 1, pos 2⟩ ⟨view 0, view 1, view 2⟩ ⟨up 0, up 1, up 2⟩ ⟨target 0, target 1, target 2⟩).2
          / Transc.pi * ((180 : Nat) : α)) :=
  Sparrow.getMetrics_eq pos view up target

/-- **`SoundSource.get_directivity` as recognised = the model's `directivityFactor`**: for an orthonormal source frame and a
    target not on the source's up axis, with pyfar's nearest-point query the nearest measured direction: the factor of target
    `p` is the table entry of the measured direction nearest to the direction of the target IN THE SOURCE'S OWN FRAME, at the
    measured frequency nearest to the requested one. -/
theorem soundObjectGetDirectivity_eq (nDir nFreq : Nat) (dirs : Nat → Vec3 ℝ) (freqs : Nat → ℝ) (table : Nat → Nat → ℝ)
    (pos view up : Nat → ℝ) (targets : Nat → Nat → ℝ) (f : ℝ) (p : Nat)
    (h : Orthonormal (⟨view 0, view 1, view 2⟩ : Vec3 ℝ) ⟨up 0, up 1, up 2⟩)
    (hgen : (metricsLocal (⟨pos 0, pos 1, pos 2⟩ : Vec3 ℝ) ⟨view 0, view 1, view 2⟩ ⟨up 0, up 1, up 2⟩
              ⟨targets p 0, targets p 1, targets p 2⟩).x ^ 2 +
            (metricsLocal (⟨pos 0, pos 1, pos 2⟩ : Vec3 ℝ) ⟨view 0, view 1, view 2⟩ ⟨up 0, up 1, up 2⟩
              ⟨targets p 0, targets p 1, targets p 2⟩).z ^ 2 ≠ 0) :
    soundObjectGetDirectivity Real.cos Real.sin (fun v => nearest dirs nDir ⟨v.1, v.2.1, v.2.2⟩) table nFreq freqs
        pos view up targets f p =
      directivityFactor nDir nFreq dirs freqs table ⟨pos 0, pos 1, pos 2⟩ ⟨view 0, view 1, view 2⟩ ⟨up 0, up 1, up 2⟩
        ⟨targets p 0, targets p 1, targets p 2⟩ f :=
  Sparrow.soundObjectGetDirectivity_eq nDir nFreq dirs freqs table pos view up targets f p h hgen

end Sparrow.Props.C20.Metrics
