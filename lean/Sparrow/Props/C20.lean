import Sparrow.Model.Directivity
namespace Sparrow.Props.C20
theorem placeholder : True := trivial
end Sparrow.Props.C20
