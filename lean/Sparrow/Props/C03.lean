import Sparrow.Proofs.ExchangeGlueEquiv
import Sparrow.Proofs.BakeKernelEquiv
import Sparrow.Proofs.KernelCorollaries
import Sparrow.Proofs.KernelEquiv
import Sparrow.Proofs.PipelineEnergy
import Sparrow.Proofs.Mono
import Sparrow.Proofs.BakeLemmas
import Sparrow.Generated.Constants
/-
  C03 — Patch histograms equal an independent solution of the radiosity recursion.
  The independent solver is `Sparrow/Spec/Poly.lean` (`specOrder`, `specEtc`): a recursion
  over polynomials that mentions no arrays, buffers, slices or truncation.
-/
namespace Sparrow.Props.C03
open Sparrow Polynomial

/-- Every bin, of every direction slot, of every order: model histogram = coefficient of the
    spec recursion. -/
theorem order_eq_spec (sc : ExScene ℝ) (hwf : sc.WF) (k j d t : Nat)
    (hj : j < sc.P) (hd : d < sc.D) (ht : t < sc.S) :
    orderH sc k j d t = (specOrder sc k j d).coeff t :=
  orderH_eq_coeff sc hwf k j d t hj hd ht

/-- The accumulated histogram for maximum order `K`, bin for bin and slot for slot. -/
theorem etc_eq_spec (sc : ExScene ℝ) (hwf : sc.WF) (K j d t : Nat)
    (hj : j < sc.P) (hd : d < sc.D) (ht : t < sc.S) :
    etc sc K j d t = (specEtc sc K j d).coeff t :=
  etc_eq_coeff sc hwf K j d t hj hd ht

/-- The spec's transfer factor is the scene quantity the property names: form factor ×
    attenuation over the centre distance × (π·BRDF, stored as `table`) of the receiving wall at
    the nearest incoming sample and each outgoing sample `d`. -/
theorem transfer_factor_is_scene_quantity (sc : BakeScene ℝ) (i j d : Nat)
    (hv : sc.visSym i j = true) (ht : sc.hasTable = true) (m : ℝ) (ha : sc.att = some m) :
    sc.fft i j d = sc.ffPrime i j * Real.exp (-m * sc.dist i j) *
      sc.table (sc.tableIdx (sc.wall j)) (sc.inIdx i j) d :=
  sc.fft_eq i j d hv ht m ha

/-- … and pairs that do not see each other exchange nothing. -/
theorem transfer_factor_invisible (sc : BakeScene ℝ) (i j d : Nat)
    (hv : sc.visSym i j = false) : sc.fft i j d = 0 :=
  sc.fft_invisible i j d hv

/-- Order `K+1` is order `K` plus one more reflection order … -/
theorem etc_order_succ (sc : ExScene ℝ) (K j d t : Nat)
    (hj : j < sc.P) (hd : d < sc.D) (ht : t < sc.S) :
    etc sc (K + 1) j d t = etc sc K j d t + orderH sc (K + 1) j d t := by
  rw [etc_succ, if_pos ⟨hj, hd, ht⟩]

/-- … which is non-negative when the inputs are. -/
theorem order_contribution_nonneg (sc : ExScene ℝ) (he : ∀ j d, 0 ≤ sc.e0 j d)
    (hf : ∀ i j d, 0 ≤ sc.fft i j d) (k j d t : Nat) : 0 ≤ orderH sc k j d t :=
  orderH_nonneg sc he hf k j d t

theorem etc_nonneg (sc : ExScene ℝ) (he : ∀ j d, 0 ≤ sc.e0 j d)
    (hf : ∀ i j d, 0 ≤ sc.fft i j d) (K j d t : Nat) : 0 ≤ etc sc K j d t :=
  Sparrow.etc_nonneg sc he hf K j d t

/-- Lambertian walls: if initial energies and transfer factors do not depend on the outgoing
    slot, every slot of a `D`-slot run carries exactly the one-slot histogram, whatever the
    direction maps are. -/
theorem diffuse_direction_free (sc : ExScene ℝ) (hwf : sc.WF)
    (he : ∀ j d d', sc.e0 j d = sc.e0 j d') (hf : ∀ i j d d', sc.fft i j d = sc.fft i j d')
    (k j d t : Nat) (hd : d < sc.D) :
    orderH sc k j d t = orderH { sc with D := 1, dir := fun _ _ => 0 } k j 0 t :=
  Sparrow.diffuse_direction_free sc hwf he hf k j d t hd

/-- Non-vacuity: a 2-patch scene; order 1 of patch 1 at bin 3 is `e0·fft = 2·3`. -/
def demo : ExScene ℝ where
  P := 2
  D := 1
  S := 5
  pairs := [(0, 1)]
  bin0 := fun _ => 1
  bin := fun _ _ => 2
  e0 := fun _ _ => 2
  fft := fun _ _ _ => 3
  dir := fun _ _ => 0

example : orderH demo 1 1 0 3 = 6 := by
  rw [orderH_succ, stepF_eq_sum]
  simp [demo, ExScene.arcs, arcsOf, term, orderH_zero, initF]
  norm_num

/-- C03: with non-negative tables, form factors and point-to-patch factors, every bin of every
    patch histogram and of the mono curve is non-negative. -/
theorem runPipeline_nonneg
    (eta thr : ℝ) (room : Room ℝ) (mat : Materials ℝ) (par : RunPar ℝ) (src recv : Vec3 ℝ)
    (bk : Baked ℝ) (r : RunResult ℝ)
    (hb : bakeRoom eta room mat = some bk)
    (hr : runPipeline eta thr room mat par src recv = some r)
    (hT : ∀ a i o, 0 ≤ mat.table a i o)
    (hF : ∀ i j, 0 ≤ lookup2 bk.F i j)
    (hA : ∀ k, k < bk.P → 0 < bk.scene.area k)
    (hsrc : ∀ k, k < bk.P → 0 ≤ ptSource thr src (fun v => (bk.patch k).pt v) 4)
    (hrcv : ∀ k, k < bk.P → 0 ≤ ptReceiver thr recv (fun v => (bk.patch k).pt v) 4) :
    (∀ j d t, 0 ≤ lookup3 r.etc j d t) ∧ (∀ t, 0 ≤ r.mono.getD t 0) :=
  Sparrow.runPipeline_nonneg eta thr room mat par src recv bk r hb hr hT hF hA hsrc hrcv

end Sparrow.Props.C03

namespace Sparrow.Props.C03.Kernels
open Sparrow Sparrow.Generated.Kernels

/-- `_energy_exchange_init_energy` as translated = order 0 of the model. -/
theorem energyExchangeInitEnergy_eq (n_samples P D B : Nat) (energy_0 : Nat → Nat → Nat → ℝ)
    (s0 : Nat) (distance_0 : Nat → ℝ) (c dt : ℝ) (j d b t : Nat) (hj : j < P) :
    energyExchangeInitEnergy n_samples P D B energy_0 s0 distance_0 c dt j d b t =
      (if t < n_samples then
        (if t = ToBin.floorNat (distance_0 j / c / dt) then energy_0 j d b else 0) else 0) :=
  Sparrow.energyExchangeInitEnergy_eq n_samples P D B energy_0 s0 distance_0 c dt j d b t hj

/-- `_energy_exchange` as translated = the accumulated histogram `etc` of the model, for every
    order `K`, band `b` and in-range cell.  Hypotheses: the array shapes are consistent (`P` patches
    everywhere) and the index data are in range (what numpy needs not to raise). -/
theorem energyExchange_eq (n_samples P D B : Nat) (energy_0 : Nat → Nat → Nat → ℝ)
    (s0 : Nat) (distance_0 : Nat → ℝ) (s1 s2 : Nat) (distance_ij : Nat → Nat → ℝ)
    (P' : Nat) (fft : Nat → Nat → Nat → Nat → ℝ) (s3 s4 : Nat) (p2o : Nat → Nat → Nat)
    (c dt : ℝ) (K nVis s5 : Nat) (vp : Nat → Nat → Nat) (b : Nat)
    (hwf : (exSceneOfArgs n_samples P D energy_0 distance_0 distance_ij fft p2o c dt nVis vp b).WF)
    (j d t : Nat) (hj : j < P) (hd : d < D) (ht : t < n_samples) :
    energyExchange n_samples P D B energy_0 s0 distance_0 s1 s2 distance_ij P P' D B fft s3 s4 p2o c dt K
        nVis s5 vp j d b t =
      etc (exSceneOfArgs n_samples P D energy_0 distance_0 distance_ij fft p2o c dt nVis vp b) K j d t :=
  Sparrow.energyExchange_eq n_samples P D B energy_0 s0 distance_0 s1 s2 distance_ij P' fft s3 s4 p2o c dt K nVis s5 vp b hwf j d t hj hd ht

/-- `_collect_receiver_energy` as translated = the model's receiver kernel (`np.roll`, D3). -/
theorem collectReceiverEnergy_eq (P B S : Nat) (E : Nat → Nat → Nat → ℝ) (s0 : Nat) (dist : Nat → ℝ)
    (c dt : ℝ) (s1 : Nat) (att : Nat → ℝ) (i b t : Nat) (hi : i < P) (hb : b < B) :
    collectReceiverEnergy P B S E s0 dist c dt s1 att i b t =
      collectRollF S (fun i => ToBin.ceilNat (dist i / c / dt)) (fun i => Real.exp (-(att b) * dist i))
        (fun i t => E i b t) i t :=
  Sparrow.collectReceiverEnergy_eq P B S E s0 dist c dt s1 att i b t hi hb

end Sparrow.Props.C03.Kernels

namespace Sparrow.Props.C03.Translated
open Sparrow Sparrow.Generated.Kernels

/-- C03: with non-negative initial energies and transfer factors every bin is non-negative, and
    one more order never lowers a bin. -/
theorem energyExchange_nonneg_mono (S P D B : Nat) (e0 : Nat → Nat → Nat → ℝ)
    (s0 : Nat) (distance_0 : Nat → ℝ) (s1 s2 : Nat) (distance_ij : Nat → Nat → ℝ)
    (P' : Nat) (fft : Nat → Nat → Nat → Nat → ℝ) (s3 s4 : Nat) (p2o : Nat → Nat → Nat)
    (c dt : ℝ) (K nVis s5 : Nat) (vp : Nat → Nat → Nat) (b : Nat)
    (hwf : (exSceneOfArgs S P D e0 distance_0 distance_ij fft p2o c dt nVis vp b).WF)
    (he : ∀ j d, 0 ≤ e0 j d b) (hf : ∀ i j d, 0 ≤ fft i j d b)
    (j d t : Nat) (hj : j < P) (hd : d < D) (ht : t < S) :
    0 ≤ energyExchange S P D B e0 s0 distance_0 s1 s2 distance_ij P P' D B fft s3 s4 p2o c dt K nVis s5 vp j d b t ∧
    energyExchange S P D B e0 s0 distance_0 s1 s2 distance_ij P P' D B fft s3 s4 p2o c dt K nVis s5 vp j d b t ≤
      energyExchange S P D B e0 s0 distance_0 s1 s2 distance_ij P P' D B fft s3 s4 p2o c dt (K + 1) nVis s5 vp j d b t :=
  Sparrow.energyExchange_nonneg_mono S P D B e0 s0 distance_0 s1 s2 distance_ij P' fft s3 s4 p2o c dt K nVis s5 vp b hwf he hf j d t hj hd ht

end Sparrow.Props.C03.Translated

namespace Sparrow.Props.C03.BakeKernels
open Sparrow Sparrow.Generated.BakeKernels

/-- `_form_factors_with_directivity_dim` as translated = `BakeScene.fft` of the scene read off its
    arguments: form factor from the upper triangle by reciprocity, `exp(-m·d)` over the centre
    distance taken BEFORE normalising, and the table of the RECEIVING patch's wall at the incoming
    sample nearest to the direction towards the sender. -/
theorem formFactorsWithDirectivityDim_eq (P D nIn B W T : Nat) (vis : Nat → Nat → Bool) (F : Nat → Nat → ℝ)
    (pc : Nat → Nat → ℝ) (area : Nat → ℝ) (att : Option (Nat → ℝ)) (wall : Nat → Nat)
    (scat : Option (Nat → Nat → Nat → Nat → ℝ)) (sidx : Nat → Nat)
    (sources receivers : Nat → Nat → Nat → ℝ) (recvOpt : Option (Nat → Nat → Nat → ℝ))
    (s0 s1 s2 s3 s4 s5 s6 s7 s8 s9 : Nat)
    (i j d b : Nat) (hi : i < P) (hj : j < P) :
    formFactorsWithDirectivityDim s0 s1 vis s2 s3 F B P 3 pc s4 area s5 att s6 wall T nIn D B scat s7 sidx
        W nIn 3 sources s8 D s9 recvOpt i j d b =
      (bakeSceneOfArgs P D nIn vis F pc area att wall scat sidx sources receivers b).fft i j d :=
  Sparrow.formFactorsWithDirectivityDim_eq P D nIn B W T vis F pc area att wall scat sidx sources receivers recvOpt s0 s1 s2 s3 s4 s5 s6 s7 s8 s9 i j d b hi hj

/-- `_add_directional` as translated = `BakeScene.addDirectional`: the initial energy of patch `i`
    times the table of ITS wall at the incoming sample nearest to the direction towards the source. -/
theorem addDirectional_eq (P D nIn B W T : Nat) (energy_0 : Nat → Nat → ℝ) (src : Nat → ℝ)
    (pc : Nat → Nat → ℝ) (wall : Nat → Nat) (sources receivers : Nat → Nat → Nat → ℝ)
    (scat : Nat → Nat → Nat → Nat → ℝ) (sidx : Nat → Nat)
    (vis : Nat → Nat → Bool) (F : Nat → Nat → ℝ) (area : Nat → ℝ) (att : Option (Nat → ℝ))
    (s0 s1 s2 s3 s4 s5 : Nat)
    (i d b : Nat) (hi : i < P) :
    addDirectional s0 s1 energy_0 3 src P 3 pc B s2 wall W nIn 3 sources s3 D s4 receivers T nIn D B scat s5 sidx i d b =
      (bakeSceneOfArgs P D nIn vis F pc area att wall (some scat) sidx sources receivers b).addDirectional
        ⟨src 0, src 1, src 2⟩ (fun k => energy_0 k b) i d :=
  Sparrow.addDirectional_eq P D nIn B W T energy_0 src pc wall sources receivers scat sidx vis F area att s0 s1 s2 s3 s4 s5 i d b hi

end Sparrow.Props.C03.BakeKernels

namespace Sparrow.Props.C03.ExchangeGlue
open Sparrow Sparrow.Generated.ExchangeGlue Sparrow.Generated.Kernels

/-- the new histogram is the model's `etc` (order `K ≥ 1`) of the scene read off the stored state and THIS call's
    speed of sound, resolution and duration, with the patch distances the centre distances -/
theorem calculateEnergyExchange_etc (P D B nVis : Nat) (pc : Nat → Nat → ℝ) (d0 : Nat → ℝ) (e0 : Nat → Nat → Nat → ℝ)
    (fft : Nat → Nat → Nat → Nat → ℝ) (p2o : Nat → Nat → Nat) (vp : Nat → Nat → Nat)
    (etc0 : Option (Nat → Nat → Nat → Nat → ℝ)) (dt0 c0 dur0 : Option ℝ) (c dt dur : ℝ) (K : Int) (recalc : Bool)
    (s0 s3 s4 s7 : Nat) (junk : Nat → Nat → ℝ) (h : etc0.isNone = true ∨ recalc = true) (hK : 1 ≤ K) :
    ∃ Dm : Nat → Nat → ℝ, (∀ i j, i < P → j < P → Dm i j = exDist pc i j) ∧ ∃ E,
      (calculateEnergyExchange P 3 pc s0 d0 P D B e0 P P D B fft s3 s4 p2o nVis s7 vp P etc0 dt0 c0 dur0 c dt dur K recalc junk).1 = some E ∧
      ∀ b j d t, (exSceneOfArgs (ToBin.floorNat (dur / dt)) P D e0 d0 Dm fft p2o c dt nVis vp b).WF →
        j < P → d < D → t < ToBin.floorNat (dur / dt) →
        E j d b t = etc (exSceneOfArgs (ToBin.floorNat (dur / dt)) P D e0 d0 Dm fft p2o c dt nVis vp b) K.toNat j d t :=
  Sparrow.calculateEnergyExchange_etc P D B nVis pc d0 e0 fft p2o vp etc0 dt0 c0 dur0 c dt dur K recalc s0 s3 s4 s7 junk h hK

end Sparrow.Props.C03.ExchangeGlue
