import Sparrow.Proofs.BakeComposedVis
import Sparrow.Proofs.PolygonFnEquiv
import Sparrow.Proofs.VisibilityFnEquiv
import Sparrow.Proofs.BakeGlueEquiv
import Sparrow.Proofs.PointInRect
import Sparrow.Proofs.VisibilityLemmas
/-
  C07 — Visibility is geometric line of sight.
  Model: Sparrow/Model/Visibility.lean (`_rotation_matrix`, `_project_to_plane`,
  `_point_in_polygon`, `_basic_visibility`, the two scans).

  PROVED here: the case analysis of `_basic_visibility` over an arbitrary membership test
  (blocked / seen from behind / coplanar), symmetry in the two points, the scans as conjunction
  over all surfaces, the projection point (on the line, in the plane, independent of direction,
  translation covariant), `_rotation_matrix` orthogonal and mapping the normal to +z.
  NOT proved: that the winding-number membership test `_point_in_polygon` is exact for every
  convex polygon and winding — tied by correspondence and checked against an independent
  segment/polygon oracle on the sampled configurations (reported as measured).
-/
namespace Sparrow.Props.C07
open Sparrow Vec3

/-- **Case analysis of `_basic_visibility`** over an arbitrary membership test: the surface hides
    the two points from each other exactly when
    * neither lies in the surface and the connecting line meets the plane (not parallel) in a point
      of the surface lying strictly between them (`(pt-a)·(pt-b) < 0`), or
    * exactly one lies in the surface and the other is strictly behind it, or
    * one lies in the surface and both lie in its plane (coplanar). -/
theorem basic_visibility_cases (eta : ℝ) (inSurf : Vec3 ℝ → Bool) (a b p0 n : Vec3 ℝ) :
    basicVisibilityWith eta inSurf a b p0 n = false ↔
      (inSurf a = false ∧ inSurf b = false ∧
        ∃ pt, projectToPlane eta a b p0 n = some pt ∧ inSurf pt = true ∧ dot (sub pt a) (sub pt b) < 0) ∨
      (inSurf a = true ∧ inSurf b = false ∧ dot n (sub b a) < 0) ∨
      (inSurf a = false ∧ inSurf b = true ∧ dot n (sub a b) < 0) ∨
      ((inSurf a = true ∨ inSurf b = true) ∧ ¬ (inSurf a = false ∧ inSurf b = false) ∧
        ¬ (inSurf a = true ∧ inSurf b = false ∧ dot n (sub b a) < 0) ∧
        ¬ (inSurf a = false ∧ inSurf b = true ∧ dot n (sub a b) < 0) ∧
        |dot (sub a p0) n| < eta ∧ |dot (sub b p0) n| < eta) :=
  Sparrow.basic_visibility_cases eta inSurf a b p0 n

/-- **Symmetry**: the relation does not depend on which of the two points is the viewer. -/
theorem basic_visibility_symm (eta : ℝ) (heta : 0 ≤ eta) (inSurf : Vec3 ℝ → Bool) (a b p0 n : Vec3 ℝ) :
    basicVisibilityWith eta inSurf a b p0 n = basicVisibilityWith eta inSurf b a p0 n :=
  Sparrow.basic_visibility_symm eta heta inSurf a b p0 n


theorem basicVisibility_symm (eta : ℝ) (heta : 0 ≤ eta) (a b : Vec3 ℝ) (poly : Nat → Vec3 ℝ) (m : Nat) (n : Vec3 ℝ) :
    basicVisibility eta a b poly m n = basicVisibility eta b a poly m n :=
  Sparrow.basicVisibility_symm eta heta a b poly m n

/-- The scans report a pair visible exactly when no surface of the scene hides it, and the
    result is symmetric in the two points. -/
theorem scan_all_surfaces (eta : ℝ) (a b : Vec3 ℝ) (nSurf : Nat) (surf : Nat → Nat → Vec3 ℝ) (nPts : Nat)
    (normals : Nat → Vec3 ℝ) :
    visibleThroughAll eta a b nSurf surf nPts normals = true ↔
      ∀ s, s < nSurf → basicVisibility eta a b (surf s) nPts (normals s) = true :=
  Sparrow.scan_all_surfaces eta a b nSurf surf nPts normals


theorem scan_symm (eta : ℝ) (heta : 0 ≤ eta) (a b : Vec3 ℝ) (nSurf : Nat) (surf : Nat → Nat → Vec3 ℝ) (nPts : Nat)
    (normals : Nat → Vec3 ℝ) :
    visibleThroughAll eta a b nSurf surf nPts normals = visibleThroughAll eta b a nSurf surf nPts normals :=
  Sparrow.scan_symm eta heta a b nSurf surf nPts normals

/-- The point where the line through `a` and `b` meets the plane is the same whichever end one
    starts from. -/
theorem projectToPlane_symm (eps : ℝ) (heps : 0 ≤ eps) (a b p0 n : Vec3 ℝ) :
    projectToPlane eps a b p0 n = projectToPlane eps b a p0 n :=
  Sparrow.projectToPlane_symm eps heps a b p0 n

/-- … it lies on the line and in the plane. -/
theorem projectToPlane_spec (eps : ℝ) (heps : 0 ≤ eps) (a b p0 n pt : Vec3 ℝ)
    (h : projectToPlane eps a b p0 n = some pt) :
    dot (sub pt p0) n = 0 ∧ ∃ t : ℝ, pt = add b (smul t (sub b a)) :=
  Sparrow.projectToPlane_spec eps heps a b p0 n pt h

/-- Translation invariance of the plane part: translating both points and the plane point by `t`
    translates the projection point. -/
theorem projectToPlane_translation (eps : ℝ) (a b p0 n t : Vec3 ℝ) :
    projectToPlane eps (add a t) (add b t) (add p0 t) n = (projectToPlane eps a b p0 n).map (fun p => add p t) :=
  Sparrow.projectToPlane_translation eps a b p0 n t

/-- `_rotation_matrix` is orthogonal and takes the (normalised) input to `+z`, for every input
    that is not anti-parallel to `+z` and not the zero vector. -/
theorem rotationToZ_maps (n : Vec3 ℝ) (hn : dot n n ≠ 0) (hanti : ¬ (n.x = 0 ∧ n.y = 0 ∧ n.z < 0)) :
    (rotationToZ n).mulVec (normalize n) = ⟨0, 0, 1⟩ :=
  Sparrow.rotationToZ_maps n hn hanti


theorem rotationToZ_orthogonal (n : Vec3 ℝ) (hn : dot n n ≠ 0) (v w : Vec3 ℝ) :
    dot ((rotationToZ n).mulVec v) ((rotationToZ n).mulVec w) = dot v w :=
  Sparrow.rotationToZ_orthogonal n hn v w

/-- counter-clockwise rectangle, any starting corner `s` -/
theorem windingCount_rect_ccw (eta x0 x1 y0 y1 : ℝ) (h0 : 0 ≤ eta) (h1 : eta < 1)
    (hx : x0 < x1) (hy : y0 < y1) (pt : Vec2 ℝ) (s : Nat) :
    windingCount eta pt (fun i => rectCCW x0 x1 y0 y1 (s + i)) 4 ≠ 0 ↔
      (x0 ≤ pt.x ∧ pt.x < x1 ∧ y0 - eta / 2 ≤ pt.y ∧ pt.y ≤ y1 + eta / 2) :=
  Sparrow.windingCount_rect_ccw eta x0 x1 y0 y1 h0 h1 hx hy pt s

/-- clockwise rectangle (`s + 3 i` walks the corners backwards), any starting corner -/
theorem windingCount_rect_cw (eta x0 x1 y0 y1 : ℝ) (h0 : 0 ≤ eta) (h1 : eta < 1)
    (hx : x0 < x1) (hy : y0 < y1) (pt : Vec2 ℝ) (s : Nat) :
    windingCount eta pt (fun i => rectCCW x0 x1 y0 y1 (s + 3 * i)) 4 ≠ 0 ↔
      (x0 ≤ pt.x ∧ pt.x < x1 ∧ y0 - eta / 2 ≤ pt.y ∧ pt.y ≤ y1 + eta / 2) :=
  Sparrow.windingCount_rect_cw eta x0 x1 y0 y1 h0 h1 hx hy pt s

/-- 3-D, accepted: points of the slab strictly inside the rectangle. -/
theorem pointInPolygon_axis_rect_inside (eta : ℝ) (h0 : 0 ≤ eta) (h1 : eta < 1)
    (k : Nat) (hk : k < 3) (neg : Bool) (c u0 u1 v0 v1 : ℝ) (hu : u0 < u1) (hv : v0 < v1)
    (s : Nat) (rev : Bool) (p : Vec3 ℝ)
    (hslab : |coord p k - c| ≤ eta)
    (hin : u0 < coord p ((k + 1) % 3) ∧ coord p ((k + 1) % 3) < u1 ∧
           v0 < coord p ((k + 2) % 3) ∧ coord p ((k + 2) % 3) < v1) :
    pointInPolygon eta p (rect3 k c u0 u1 v0 v1 s rev) 4 (axisNormal k neg) = true :=
  Sparrow.pointInPolygon_axis_rect_inside eta h0 h1 k hk neg c u0 u1 v0 v1 hu hv s rev p hslab hin

/-- 3-D, rejected: points off the plane by more than `η`, or outside the rectangle by more than
    `η` along one of its axes. -/
theorem pointInPolygon_axis_rect_outside (eta : ℝ) (h0 : 0 ≤ eta) (h1 : eta < 1)
    (k : Nat) (hk : k < 3) (neg : Bool) (c u0 u1 v0 v1 : ℝ) (hu : u0 < u1) (hv : v0 < v1)
    (s : Nat) (rev : Bool) (p : Vec3 ℝ)
    (hout : eta < |coord p k - c| ∨
            coord p ((k + 1) % 3) < u0 - eta ∨ u1 + eta < coord p ((k + 1) % 3) ∨
            coord p ((k + 2) % 3) < v0 - eta ∨ v1 + eta < coord p ((k + 2) % 3)) :
    pointInPolygon eta p (rect3 k c u0 u1 v0 v1 s rev) 4 (axisNormal k neg) = false :=
  Sparrow.pointInPolygon_axis_rect_outside eta h0 h1 k hk neg c u0 u1 v0 v1 hu hv s rev p hout

end Sparrow.Props.C07

namespace Sparrow.Props.C07.BakeGlue
open Sparrow Sparrow.Generated.BakeGlue Sparrow.Generated.BakeKernels

/-- the visibility matrix stored is the opaque test's result -/
theorem bakeGeometry_visibility
    (vis2 : (Nat → Nat → ℝ) → (Nat → Nat → ℝ) → (Nat → Nat → Nat → ℝ) → Nat → Nat → Bool)
    (ffu : (Nat → Nat → Nat → ℝ) → (Nat → Nat → ℝ) → (Nat → ℝ) → Nat → (Nat → Nat → Nat) → Nat → Nat → ℝ)
    (P : Nat) (pc pn : Nat → Nat → ℝ) (pp : Nat → Nat → Nat → ℝ) (pa : Nat → ℝ) (ptw : Nat → Nat)
    (hasM : Bool) (W nIn D T : Nat) (dIn dOut : Nat → Nat → Nat → ℝ) (bidx : Nat → Nat) (brdf : Nat → Nat → Nat → Nat → ℝ)
    (fnone : Bool) (B : Nat) (att : Option (Nat → ℝ)) (junk : Nat → Nat → Nat) :
    (bakeGeometry vis2 ffu P pc pn pp pa ptw hasM W nIn D T dIn dOut bidx brdf fnone B att junk).1 = vis2 pc pn pp :=
  Sparrow.bakeGeometry_visibility vis2 ffu P pc pn pp pa ptw hasM W nIn D T dIn dOut bidx brdf fnone B att junk

/-- **the visible pairs**: as many rows as cells of the visibility matrix hold (the buffer is filled exactly), and row
    `k` is the `k`-th such cell in row-major order -/
theorem bakeGeometry_pairs
    (vis2 : (Nat → Nat → ℝ) → (Nat → Nat → ℝ) → (Nat → Nat → Nat → ℝ) → Nat → Nat → Bool)
    (ffu : (Nat → Nat → Nat → ℝ) → (Nat → Nat → ℝ) → (Nat → ℝ) → Nat → (Nat → Nat → Nat) → Nat → Nat → ℝ)
    (P : Nat) (pc pn : Nat → Nat → ℝ) (pp : Nat → Nat → Nat → ℝ) (pa : Nat → ℝ) (ptw : Nat → Nat)
    (hasM : Bool) (W nIn D T : Nat) (dIn dOut : Nat → Nat → Nat → ℝ) (bidx : Nat → Nat) (brdf : Nat → Nat → Nat → Nat → ℝ)
    (fnone : Bool) (B : Nat) (att : Option (Nat → ℝ)) (junk : Nat → Nat → Nat) :
    (bakeGeometry vis2 ffu P pc pn pp pa ptw hasM W nIn D T dIn dOut bidx brdf fnone B att junk).2.1.1 =
      (visPairs P (vis2 pc pn pp)).length ∧
    ∀ k (h : k < (visPairs P (vis2 pc pn pp)).length),
      ((bakeGeometry vis2 ffu P pc pn pp pa ptw hasM W nIn D T dIn dOut bidx brdf fnone B att junk).2.1.2 k 0,
       (bakeGeometry vis2 ffu P pc pn pp pa ptw hasM W nIn D T dIn dOut bidx brdf fnone B att junk).2.1.2 k 1) =
        (visPairs P (vis2 pc pn pp))[k] :=
  Sparrow.bakeGeometry_pairs vis2 ffu P pc pn pp pa ptw hasM W nIn D T dIn dOut bidx brdf fnone B att junk

/-- the form factors are the opaque integrator's result for exactly these pairs -/
theorem bakeGeometry_form_factors
    (vis2 : (Nat → Nat → ℝ) → (Nat → Nat → ℝ) → (Nat → Nat → Nat → ℝ) → Nat → Nat → Bool)
    (ffu : (Nat → Nat → Nat → ℝ) → (Nat → Nat → ℝ) → (Nat → ℝ) → Nat → (Nat → Nat → Nat) → Nat → Nat → ℝ)
    (P : Nat) (pc pn : Nat → Nat → ℝ) (pp : Nat → Nat → Nat → ℝ) (pa : Nat → ℝ) (ptw : Nat → Nat)
    (hasM : Bool) (W nIn D T : Nat) (dIn dOut : Nat → Nat → Nat → ℝ) (bidx : Nat → Nat) (brdf : Nat → Nat → Nat → Nat → ℝ)
    (fnone : Bool) (B : Nat) (att : Option (Nat → ℝ)) (junk : Nat → Nat → Nat) :
    (bakeGeometry vis2 ffu P pc pn pp pa ptw hasM W nIn D T dIn dOut bidx brdf fnone B att junk).2.2.1 =
      ffu pp pn pa (visPairs P (vis2 pc pn pp)).length
        (bakeGeometry vis2 ffu P pc pn pp pa ptw hasM W nIn D T dIn dOut bidx brdf fnone B att junk).2.1.2 :=
  Sparrow.bakeGeometry_form_factors vis2 ffu P pc pn pp pa ptw hasM W nIn D T dIn dOut bidx brdf fnone B att junk

end Sparrow.Props.C07.BakeGlue

namespace Sparrow.Props.C07.VisibilityFn
open Sparrow Sparrow.Generated.VisibilityFn


theorem projectToPlaneT_eq (thr eps : ℝ) (o p pp n : Nat → ℝ) :
    (projectToPlaneT thr o p pp n eps).map Vec3.ofFn =
      projectToPlane eps (Vec3.ofFn o) (Vec3.ofFn p) (Vec3.ofFn pp) (Vec3.ofFn n) :=
  Sparrow.projectToPlaneT_eq thr eps o p pp n

/-- **`_basic_visibility` as translated = the model's decision table**, for a membership test that reads the three
    coordinates of its point -/
theorem basicVisibilityT_eq (thr eta : ℝ) (pip : (Nat → ℝ) → Bool) (a b : Nat → ℝ) (sp : Nat → Nat → ℝ) (nsp : Nat)
    (normal : Nat → ℝ) (hpip : ∀ f g : Nat → ℝ, f 0 = g 0 → f 1 = g 1 → f 2 = g 2 → pip f = pip g) :
    basicVisibilityT thr pip a b sp nsp normal eta eta =
      basicVisibilityWith eta (fun v => pip (fun q => Vec3.get v q)) (Vec3.ofFn a) (Vec3.ofFn b)
        (Vec3.ofFn (fun q => sp 0 q)) (Vec3.ofFn normal) :=
  Sparrow.basicVisibilityT_eq thr eta pip a b sp nsp normal hpip

/-- **the point-to-patches scan** (`_check_point2patch_visibility`, recognised, over the translated `_basic_visibility`):
    patch `i` is visible from the point iff no surface of the scene hides it — the model's conjunction over all surfaces -/
theorem checkPoint2PatchVisibility_eq (thr eta : ℝ) (pip : Nat → (Nat → ℝ) → Bool) (x : Nat → ℝ) (pc : Nat → Nat → ℝ)
    (sp : Nat → Nat → Nat → ℝ) (nsp : Nat) (normals : Nat → Nat → ℝ) (nS i : Nat)
    (hpip : ∀ s (f g : Nat → ℝ), f 0 = g 0 → f 1 = g 1 → f 2 = g 2 → pip s f = pip s g) :
    checkPoint2PatchVisibility (fun a b s => basicVisibilityT thr (pip s) a b (fun k q => sp s k q) nsp (fun q => normals s q) eta eta)
        x pc nS i =
      (List.range nS).all fun s =>
        basicVisibilityWith eta (fun v => pip s (fun q => Vec3.get v q)) (Vec3.ofFn x) (Vec3.ofFn (fun q => pc i q))
          (Vec3.ofFn (fun q => sp s 0 q)) (Vec3.ofFn (fun q => normals s q)) :=
  Sparrow.checkPoint2PatchVisibility_eq thr eta pip x pc sp nsp normals nS i hpip

/-- **the patch-to-patch scan** (`_check_patch2patch_visibility`): the upper triangle of the matrix, same conjunction -/
theorem checkPatch2PatchVisibility_eq (thr eta : ℝ) (pip : Nat → (Nat → ℝ) → Bool) (pc : Nat → Nat → ℝ)
    (sp : Nat → Nat → Nat → ℝ) (nsp : Nat) (normals : Nat → Nat → ℝ) (nS i j : Nat)
    (hpip : ∀ s (f g : Nat → ℝ), f 0 = g 0 → f 1 = g 1 → f 2 = g 2 → pip s f = pip s g) :
    checkPatch2PatchVisibility (fun a b s => basicVisibilityT thr (pip s) a b (fun k q => sp s k q) nsp (fun q => normals s q) eta eta)
        pc nS i j =
      (decide (i < j) && (List.range nS).all fun s =>
        basicVisibilityWith eta (fun v => pip s (fun q => Vec3.get v q)) (Vec3.ofFn (fun q => pc i q)) (Vec3.ofFn (fun q => pc j q))
          (Vec3.ofFn (fun q => sp s 0 q)) (Vec3.ofFn (fun q => normals s q))) :=
  Sparrow.checkPatch2PatchVisibility_eq thr eta pip pc sp nsp normals nS i j hpip

end Sparrow.Props.C07.VisibilityFn

namespace Sparrow.Props.C07.PolygonFn
open Sparrow Sparrow.Generated.PolygonFn Sparrow.Generated.VisibilityFn

/-- `_rotation_matrix(n_in)` (recognised) = `rotationToZ`, entry by entry -/
theorem rotationMatrixT_eq (n : Nat → ℝ) (r c : Nat) (hr : r < 3) (hc : c < 3) :
    rotationMatrixT n r c = (rotationToZ (Vec3.ofFn n)).entry r c :=
  Sparrow.rotationMatrixT_eq n r c hr hc

/-- `_matrix_vector_product(_rotation_matrix(n), v)` = `(rotationToZ n).mulVec v` -/
theorem matrixVectorProduct_eq (n v : Nat → ℝ) :
    Vec3.ofFn (matrixVectorProduct (rotationMatrixT n) v) = (rotationToZ (Vec3.ofFn n)).mulVec (Vec3.ofFn v) :=
  Sparrow.matrixVectorProduct_eq n v

/-- **`_point_in_polygon` (recognised) = the model's winding-number test** -/
theorem pointInPolygonT_eq (thr eta : ℝ) (p : Nat → ℝ) (poly : Nat → Nat → ℝ) (n : Nat) (normal : Nat → ℝ) :
    pointInPolygonT thr p poly n normal eta eta =
      pointInPolygon eta (Vec3.ofFn p) (ptsOf poly) n (Vec3.ofFn normal) :=
  Sparrow.pointInPolygonT_eq thr eta p poly n normal

/-- the regenerated membership test reads only the three coordinates of its point -/
theorem pointInPolygonT_ext (thr eta : ℝ) (poly : Nat → Nat → ℝ) (n : Nat) (normal f g : Nat → ℝ)
    (h0 : f 0 = g 0) (h1 : f 1 = g 1) (h2 : f 2 = g 2) :
    pointInPolygonT thr f poly n normal eta eta = pointInPolygonT thr g poly n normal eta eta :=
  Sparrow.pointInPolygonT_ext thr eta poly n normal f g h0 h1 h2

/-- **`_basic_visibility` with the regenerated membership test = the model's `basicVisibility`** -/
theorem basicVisibilityT_full_eq (thr eta : ℝ) (a b : Nat → ℝ) (sp : Nat → Nat → ℝ) (nsp : Nat) (normal : Nat → ℝ) :
    basicVisibilityT thr (fun x => pointInPolygonT thr x sp nsp normal eta eta) a b sp nsp normal eta eta =
      basicVisibility eta (Vec3.ofFn a) (Vec3.ofFn b) (ptsOf sp) nsp (Vec3.ofFn normal) :=
  Sparrow.basicVisibilityT_full_eq thr eta a b sp nsp normal

/-- **the whole patch-to-patch scan, regenerated down to the arithmetic, = the model's `visibleThroughAll`** on the upper triangle -/
theorem checkPatch2PatchVisibility_full_eq (thr eta : ℝ) (pc : Nat → Nat → ℝ) (sp : Nat → Nat → Nat → ℝ) (nsp : Nat)
    (normals : Nat → Nat → ℝ) (nS i j : Nat) :
    checkPatch2PatchVisibility (fun a b s => basicVisibilityT thr (fun x => pointInPolygonT thr x (fun k q => sp s k q) nsp
        (fun q => normals s q) eta eta) a b (fun k q => sp s k q) nsp (fun q => normals s q) eta eta) pc nS i j =
      (decide (i < j) && visibleThroughAll eta (Vec3.ofFn (fun q => pc i q)) (Vec3.ofFn (fun q => pc j q)) nS
        (fun s => ptsOf (fun k q => sp s k q)) nsp (fun s => Vec3.ofFn (fun q => normals s q))) :=
  Sparrow.checkPatch2PatchVisibility_full_eq thr eta pc sp nsp normals nS i j

/-- **the whole point-to-patches scan = `visibleThroughAll`** -/
theorem checkPoint2PatchVisibility_full_eq (thr eta : ℝ) (x : Nat → ℝ) (pc : Nat → Nat → ℝ) (sp : Nat → Nat → Nat → ℝ) (nsp : Nat)
    (normals : Nat → Nat → ℝ) (nS i : Nat) :
    checkPoint2PatchVisibility (fun a b s => basicVisibilityT thr (fun x => pointInPolygonT thr x (fun k q => sp s k q) nsp
        (fun q => normals s q) eta eta) a b (fun k q => sp s k q) nsp (fun q => normals s q) eta eta) x pc nS i =
      visibleThroughAll eta (Vec3.ofFn x) (Vec3.ofFn (fun q => pc i q)) nS
        (fun s => ptsOf (fun k q => sp s k q)) nsp (fun s => Vec3.ofFn (fun q => normals s q)) :=
  Sparrow.checkPoint2PatchVisibility_full_eq thr eta x pc sp nsp normals nS i

end Sparrow.Props.C07.PolygonFn

namespace Sparrow.Props.C07.Composed
open Sparrow Sparrow.Generated.BakeGlue Sparrow.Generated.BakeKernels Sparrow.Generated.VisibilityFn

/-- **the stored visibility matrix of the composed text is the model's line of sight**: entry `(i, j)` holds iff `i < j` and no patch
    of the scene hides the two centroids from each other (`visibleThroughAll`) -/
theorem bakeGeometry_visibility_composed
    (ffu : (Nat → Nat → Nat → ℝ) → (Nat → Nat → ℝ) → (Nat → ℝ) → Nat → (Nat → Nat → Nat) → Nat → Nat → ℝ)
    (thr eta : ℝ) (nv : Nat)
    (P : Nat) (pc pn : Nat → Nat → ℝ) (pp : Nat → Nat → Nat → ℝ) (pa : Nat → ℝ) (ptw : Nat → Nat)
    (hasM : Bool) (W nIn D T : Nat) (dIn dOut : Nat → Nat → Nat → ℝ) (bidx : Nat → Nat) (brdf : Nat → Nat → Nat → Nat → ℝ)
    (fnone : Bool) (B : Nat) (att : Option (Nat → ℝ)) (junk : Nat → Nat → Nat) (i j : Nat) :
    (bakeGeometry (vis2T thr eta P nv) ffu P pc pn pp pa ptw hasM W nIn D T dIn dOut bidx brdf fnone B att junk).1 i j =
      (decide (i < j) && visibleThroughAll eta (Vec3.ofFn (fun q => pc i q)) (Vec3.ofFn (fun q => pc j q)) P
        (fun s => ptsOf (fun k q => pp s k q)) nv (fun s => Vec3.ofFn (fun q => pn s q))) :=
  Sparrow.bakeGeometry_visibility_composed ffu thr eta nv P pc pn pp pa ptw hasM W nIn D T dIn dOut bidx brdf fnone B att junk i j

end Sparrow.Props.C07.Composed
