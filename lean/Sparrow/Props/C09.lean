import Sparrow.Proofs.TranslatedTail
import Sparrow.Proofs.PipelineReciprocity
import Sparrow.Proofs.Batch2
/-
  C09 — Exchanging source and receiver leaves the energy-time curve unchanged.
-/
namespace Sparrow.Props.C09
open Sparrow

/-- Reciprocity of the discrete model with the truncating receiver kernel: equal in every
    bin, for every order and every histogram length.  Hypotheses are the structural facts of a
    diffuse run: symmetric bins, transfer factors of the radiosity form
    `κ_ij / area_i · ρ_j` with `κ` symmetric (`area_i F'_ij = area_j F'_ji`, C05), initial energy
    and receiver weight built from the same point-to-patch factor, and matching floor/ceil
    bins (`⌈x⌉ = ⌊x⌋ + 1` for non-integer delays). -/
theorem reciprocity
    (scA scB : ExScene ℝ)
    (hP : scB.P = scA.P) (hS : scB.S = scA.S) (hDA : scA.D = 1) (hDB : scB.D = 1)
    (hpairs : scB.pairs = scA.pairs) (hbin : scB.bin = scA.bin) (hfft : scB.fft = scA.fft)
    (hdirA : ∀ i j, scA.dir i j = 0) (hdirB : ∀ i j, scB.dir i j = 0)
    (hnodup : scA.pairs.Nodup) (hlt : ∀ p ∈ scA.pairs, p.1 < p.2 ∧ p.2 < scA.P)
    (hbinsym : ∀ i j, scA.bin i j = scA.bin j i)
    (κ : Nat → Nat → ℝ) (area ρ : Nat → ℝ) (hκ : ∀ i j, κ i j = κ j i) (harea : ∀ i, area i ≠ 0)
    (hform : ∀ i j, scA.fft i j 0 = κ i j / area i * ρ j)
    (uA uB : Nat → ℝ) (c₁ c₂ : ℝ)
    (he0A : ∀ j, scA.e0 j 0 = c₁ * uA j * ρ j) (he0B : ∀ j, scB.e0 j 0 = c₁ * uB j * ρ j)
    (gA wA gB wB : Nat → ℝ)
    (hrA : ∀ j, gA j * wA j = c₂ * uA j / area j) (hrB : ∀ j, gB j * wB j = c₂ * uB j / area j)
    (binRA binRB : Nat → Nat)
    (hbins : ∀ i j, scA.bin0 i + binRB j = scB.bin0 j + binRA i)
    (K t : Nat) (ht : t < scA.S) :
    monoCurve scA K gB wB binRB t = monoCurve scB K gA wA binRA t :=
  Sparrow.reciprocity scA scB hP hS hDA hDB hpairs hbin hfft hdirA hdirB hnodup hlt hbinsym κ area ρ
    hκ harea hform uA uB c₁ c₂ he0A he0B gA wA gB wB hrA hrB binRA binRB hbins K t ht

/-- The same with the bin hypothesis required only where both point-to-patch factors are
    non-zero — the form the whole run needs, because the code stores a zero source distance for
    patches the source cannot see (their bins are then unrelated, and their terms vanish). -/
theorem reciprocity_cond
    (scA scB : ExScene ℝ)
    (hP : scB.P = scA.P) (hS : scB.S = scA.S) (hDA : scA.D = 1) (hDB : scB.D = 1)
    (hpairs : scB.pairs = scA.pairs) (hbin : scB.bin = scA.bin) (hfft : scB.fft = scA.fft)
    (hdirA : ∀ i j, scA.dir i j = 0) (hdirB : ∀ i j, scB.dir i j = 0)
    (hnodup : scA.pairs.Nodup) (hlt : ∀ p ∈ scA.pairs, p.1 < p.2 ∧ p.2 < scA.P)
    (hbinsym : ∀ i j, scA.bin i j = scA.bin j i)
    (κ : Nat → Nat → ℝ) (area ρ : Nat → ℝ) (hκ : ∀ i j, κ i j = κ j i) (harea : ∀ i, area i ≠ 0)
    (hform : ∀ i j, scA.fft i j 0 = κ i j / area i * ρ j)
    (uA uB : Nat → ℝ) (c₁ c₂ : ℝ)
    (he0A : ∀ j, scA.e0 j 0 = c₁ * uA j * ρ j) (he0B : ∀ j, scB.e0 j 0 = c₁ * uB j * ρ j)
    (gA wA gB wB : Nat → ℝ)
    (hrA : ∀ j, gA j * wA j = c₂ * uA j / area j) (hrB : ∀ j, gB j * wB j = c₂ * uB j / area j)
    (binRA binRB : Nat → Nat)
    (hbins : ∀ i j, uA i ≠ 0 → uB j ≠ 0 → scA.bin0 i + binRB j = scB.bin0 j + binRA i)
    (K t : Nat) (ht : t < scA.S) :
    monoCurve scA K gB wB binRB t = monoCurve scB K gA wA binRA t :=
  Sparrow.reciprocity_cond scA scB hP hS hDA hDB hpairs hbin hfft hdirA hdirB hnodup hlt hbinsym κ area ρ
    hκ harea hform uA uB c₁ c₂ he0A he0B gA wA gB wB hrA hrB binRA binRB hbins K t ht

/-- Reciprocity of the model of the code as it is (`np.roll` in the receiver kernel, D3): holds
    whenever the histogram is long enough that the receiver kernel wraps nothing — the setting
    the property quantifies over (rooms, positions, absorptions, attenuation, orders). -/
theorem reciprocity_code
    (scA scB : ExScene ℝ)
    (hP : scB.P = scA.P) (hS : scB.S = scA.S) (hDA : scA.D = 1) (hDB : scB.D = 1)
    (hpairs : scB.pairs = scA.pairs) (hbin : scB.bin = scA.bin) (hfft : scB.fft = scA.fft)
    (hdirA : ∀ i j, scA.dir i j = 0) (hdirB : ∀ i j, scB.dir i j = 0)
    (hnodup : scA.pairs.Nodup) (hlt : ∀ p ∈ scA.pairs, p.1 < p.2 ∧ p.2 < scA.P)
    (hbinsym : ∀ i j, scA.bin i j = scA.bin j i)
    (κ : Nat → Nat → ℝ) (area ρ : Nat → ℝ) (hκ : ∀ i j, κ i j = κ j i) (harea : ∀ i, area i ≠ 0)
    (hform : ∀ i j, scA.fft i j 0 = κ i j / area i * ρ j)
    (uA uB : Nat → ℝ) (c₁ c₂ : ℝ)
    (he0A : ∀ j, scA.e0 j 0 = c₁ * uA j * ρ j) (he0B : ∀ j, scB.e0 j 0 = c₁ * uB j * ρ j)
    (gA wA gB wB : Nat → ℝ)
    (hrA : ∀ j, gA j * wA j = c₂ * uA j / area j) (hrB : ∀ j, gB j * wB j = c₂ * uB j / area j)
    (binRA binRB : Nat → Nat)
    (hbins : ∀ i j, scA.bin0 i + binRB j = scB.bin0 j + binRA i)
    (K t : Nat) (ht : t < scA.S)
    (hfitA : ∀ j u, scA.S - binRB j ≤ u → u < scA.S → etc scA K j 0 u * gB j = 0)
    (hfitB : ∀ j u, scB.S - binRA j ≤ u → u < scB.S → etc scB K j 0 u * gA j = 0) :
    monoCurveCode scA K gB wB binRB t = monoCurveCode scB K gA wA binRA t :=
  Sparrow.reciprocity_code scA scB hP hS hDA hDB hpairs hbin hfft hdirA hdirB hnodup hlt hbinsym κ area
    ρ hκ harea hform uA uB c₁ c₂ he0A he0B gA wA gB wB hrA hrB binRA binRB hbins K t ht hfitA hfitB

/-- The radiosity form of the baked factors that `reciprocity` needs: with
    `κ i j = area_i · F'_ij · exp(-m d_ij)` (symmetric by reciprocity of `F'`, C05, and symmetry
    of the distance) and `ρ_j` the reflectance of the receiving wall, `fft i j = κ i j / area_i · ρ_j`. -/
theorem baked_factor_radiosity_form (sc : BakeScene ℝ) (i j : Nat) (hv : sc.visSym i j = true)
    (ht : sc.hasTable = true) (m : ℝ) (ha : sc.att = some m) (hA : sc.area i ≠ 0) :
    sc.fft i j 0 =
      (sc.area i * sc.ffPrime i j * Real.exp (-m * sc.dist i j)) / sc.area i *
        sc.table (sc.tableIdx (sc.wall j)) (sc.inIdx i j) 0 := by
  rw [sc.fft_eq i j 0 hv ht m ha]
  field_simp

/-- Generic floor/ceil fact behind the bin hypothesis: for a non-integer `x ≥ 0`,
    `⌈x⌉ = ⌊x⌋ + 1`, so `⌊x⌋ + ⌈y⌉ = ⌊y⌋ + ⌈x⌉` whenever neither delay is an exact integer. -/
theorem floor_ceil_generic (x y : ℝ) (hx : (⌊x⌋₊ : ℝ) ≠ x) (hy : (⌊y⌋₊ : ℝ) ≠ y)
    (hx0 : 0 ≤ x) (hy0 : 0 ≤ y) : ⌊x⌋₊ + ⌈y⌉₊ = ⌊y⌋₊ + ⌈x⌉₊ := by
  have h1 : ⌈x⌉₊ = ⌊x⌋₊ + 1 := by
    have hlt : (⌊x⌋₊ : ℝ) < x := lt_of_le_of_ne (Nat.floor_le hx0) hx
    apply le_antisymm
    · exact Nat.ceil_le.mpr (by push_cast; exact (Nat.lt_floor_add_one x).le)
    · exact Nat.succ_le_of_lt (Nat.lt_ceil.mpr hlt)
  have h2 : ⌈y⌉₊ = ⌊y⌋₊ + 1 := by
    have hlt : (⌊y⌋₊ : ℝ) < y := lt_of_le_of_ne (Nat.floor_le hy0) hy
    apply le_antisymm
    · exact Nat.ceil_le.mpr (by push_cast; exact (Nat.lt_floor_add_one y).le)
    · exact Nat.succ_le_of_lt (Nat.lt_ceil.mpr hlt)
  omega

/-- **Reciprocity of the whole modelled run** (`runPipeline`: from_polygon → set_wall_brdf →
    set_air_attenuation → bake_geometry → init_source_energy → calculate_energy_exchange →
    collect_energy_receiver_mono).  For a diffuse room (one incoming and one outgoing direction),
    every reflection order and histogram length, with or without air attenuation: the mono curve
    with the source at `a` and the receiver at `b` equals, bin by bin, the curve with source and
    receiver exchanged.  Hypotheses are facts of the concrete run: non-degenerate patches; generic
    positions (no source/receiver-to-patch delay is an exact number of samples, so `⌈x⌉ = ⌊x⌋ + 1`:
    the code floors the source leg and ceils the receiver leg); the receiver kernel wraps nothing
    (known finding D3). -/
theorem runPipeline_reciprocity
    (eta thr : ℝ) (room : Room ℝ) (mat : Materials ℝ) (par : RunPar ℝ) (a b : Vec3 ℝ)
    (bk : Baked ℝ) (rA rB : RunResult ℝ)
    (hb : bakeRoom eta room mat = some bk)
    (hA : runPipeline eta thr room mat par a b = some rA)
    (hB : runPipeline eta thr room mat par b a = some rB)
    (hnIn : mat.nIn = 1) (hnOut : mat.nOut = 1)
    (harea : ∀ k, k < bk.P → bk.scene.area k ≠ 0)
    (hgenA : ∀ k, k < bk.P →
      binCeil (Vec3.norm (Vec3.sub (bk.scene.center k) a)) par.c par.dt =
        binFloor (Vec3.norm (Vec3.sub a (bk.scene.center k))) par.c par.dt + 1)
    (hgenB : ∀ k, k < bk.P →
      binCeil (Vec3.norm (Vec3.sub (bk.scene.center k) b)) par.c par.dt =
        binFloor (Vec3.norm (Vec3.sub b (bk.scene.center k))) par.c par.dt + 1)
    (hfitA : ∀ j u, j < bk.P →
      par.S - binCeil (Vec3.norm (Vec3.sub (bk.scene.center j) b)) par.c par.dt ≤ u → u < par.S →
      lookup3 rA.etc j 0 u = 0)
    (hfitB : ∀ j u, j < bk.P →
      par.S - binCeil (Vec3.norm (Vec3.sub (bk.scene.center j) a)) par.c par.dt ≤ u → u < par.S →
      lookup3 rB.etc j 0 u = 0)
    (t : Nat) (ht : t < par.S) :
    rA.mono.getD t 0 = rB.mono.getD t 0 :=
  Sparrow.runPipeline_reciprocity eta thr room mat par a b bk rA rB hb hA hB hnIn hnOut harea hgenA hgenB hfitA hfitB t ht

end Sparrow.Props.C09

namespace Sparrow.Props.C09.TranslatedTail
open Sparrow Sparrow.Generated.Glue Sparrow.Generated.MonoGlue


theorem translated_mono_eq
    (vis : (Nat → ℝ) → (Nat → Nat → ℝ) → (Nat → Nat → ℝ) → (Nat → Nat → Nat → ℝ) → Nat → Bool)
    (pt : (Nat → ℝ) → (Nat → Nat → ℝ) → ℝ) (R P B S W D : Nat) (rpos : Nat → Nat → ℝ) (att : Nat → ℝ)
    (pp : Nat → Nat → Nat → ℝ) (pc : Nat → Nat → ℝ) (etcA : Nat → Nat → Nat → Nat → ℝ)
    (wp : Nat → Nat → Nat → ℝ) (wn : Nat → Nat → ℝ) (dirs : Nat → Nat → Nat → ℝ) (wall : Nat → Nat)
    (c dt : ℝ) (s0 s1 s2 s3 s4 s5 s6 s7 s8 s9 s10 s11 : Nat)
    (j1 : Nat → Nat → Nat → ℝ) (j2 : Nat → Nat → Nat → ℝ) (j3 : Nat → Nat → Nat → Nat → ℝ) (j4 : Nat → Nat → Bool)
    (Bn : Nat) (r : Nat → ℝ) (rc : Nat → Nat → ℝ) (B' : Nat) (att' : Option (Nat → ℝ))
    (gd : Option ((Nat → Nat → ℝ) → ℝ → Nat → ℝ)) (freq : Nat → ℝ) (c' dt' : ℝ)
    (i b t : Nat) (hi : i < R) (hb : b < B) :
    collectEnergyReceiverMono
        (collectEnergyPatches vis pt R 3 rpos s0 att P s1 s2 pp P 3 pc s3 s4 s5 S etcA s6 s7 s8 wp s9 s10 wn W D 3 dirs s11 wall
          P B c dt true j1 j2 j3 j4)
        R P Bn S false r rc B' att' gd freq c' dt' i b t =
      monoF P (patchwiseCodeF S (fun k d t => etcA k d b t)
        (fun k => nearest (fun q => ⟨dirs (wall k) q 0, dirs (wall k) q 1, dirs (wall k) q 2⟩) D
          (Vec3.normalize (Vec3.sub ⟨rpos i 0, rpos i 1, rpos i 2⟩ ⟨pc k 0, pc k 1, pc k 2⟩)))
        (fun k => if vis (fun q => rpos i q) pc wn wp k then pt (fun q => rpos i q) (fun v q => pp k v q) else 0)
        (fun k => ToBin.ceilNat (Vec3.norm (Vec3.sub ⟨pc k 0, pc k 1, pc k 2⟩ ⟨rpos i 0, rpos i 1, rpos i 2⟩) / c / dt))
        (fun k => Real.exp (-(att b) * Vec3.norm (Vec3.sub ⟨pc k 0, pc k 1, pc k 2⟩ ⟨rpos i 0, rpos i 1, rpos i 2⟩)))) t :=
  Sparrow.translated_mono_eq vis pt R P B S W D rpos att pp pc etcA wp wn dirs wall c dt s0 s1 s2 s3 s4 s5 s6 s7 s8 s9 s10 s11 j1 j2 j3 j4 Bn r rc B' att' gd freq c' dt' i b t hi hb

end Sparrow.Props.C09.TranslatedTail
