import Sparrow.Proofs.MonoGlueEquiv
import Sparrow.Proofs.LegKernelEquiv
import Sparrow.Proofs.BakeKernelEquiv
import Sparrow.Proofs.PipelineEnergy
import Sparrow.Proofs.Batch2
import Sparrow.Generated.Constants
/-
  C10 — Air attenuation follows exp(-m·d) on every propagation leg.
-/
namespace Sparrow.Props.C10
open Sparrow

/-- Patch→patch leg: the baked factor with attenuation `m` is the unattenuated factor times
    `exp(-m · |c_i - c_j|)` — the (un-normalised) centre distance. -/
theorem att_patch_leg (sc : BakeScene ℝ) (i j d : Nat) (m : ℝ) (hv : sc.visSym i j = true) :
    (sc.withAtt (some m)).fft i j d = (sc.withAtt none).fft i j d * Real.exp (-m * sc.dist i j) := by
  rw [BakeScene.fft_att, if_pos hv]

/-- Source→patch leg. -/
theorem att_source_leg (d m pt : ℝ) :
    sourceEnergy true d (some m) pt = Real.exp (-m * d) * sourceEnergy true d none pt := by
  simp [sourceEnergy]

/-- Patch→receiver leg. -/
theorem att_receiver_leg (m d : ℝ) : receiverWeight m d = Real.exp (-m * d) := rfl

/-- Direct sound. -/
theorem att_direct (r m : ℝ) : directSound r m = directSound r 0 * Real.exp (-m * r) := by
  unfold directSound
  simp only [transc_exp_real]
  rw [neg_zero, zero_mul, Real.exp_zero, mul_one]

/-- `m = 0` reproduces the unattenuated result on every leg. -/
theorem att_zero_identity (sc : BakeScene ℝ) (i j d : Nat) (dd pt r : ℝ) (vis : Bool) :
    (sc.withAtt (some 0)).fft i j d = (sc.withAtt none).fft i j d ∧
    sourceEnergy vis dd (some 0) pt = sourceEnergy vis dd none pt ∧
    receiverWeight 0 dd = 1 ∧ directSound r 0 = 1 / (4 * Real.pi * r ^ 2) := by
  refine ⟨?_, ?_, ?_, ?_⟩
  · rw [BakeScene.fft_att]; split <;> simp
  · cases vis <;> simp [sourceEnergy]
  · simp [receiverWeight]
  · unfold directSound; simp only [transc_exp_real, transc_pi_real]; rw [neg_zero, zero_mul, Real.exp_zero]; ring

/-- Longer legs are attenuated more; larger coefficients attenuate more. -/
theorem att_longer_leg (m d d' : ℝ) (hm : 0 ≤ m) (hd : d ≤ d') :
    Real.exp (-m * d') ≤ Real.exp (-m * d) := by
  apply Real.exp_le_exp.mpr; nlinarith

theorem att_larger_coefficient (m m' d : ℝ) (hd : 0 ≤ d) (hm : m ≤ m') :
    Real.exp (-m' * d) ≤ Real.exp (-m * d) := by
  apply Real.exp_le_exp.mpr; nlinarith

/-- Baked factors are non-increasing in `m` … -/
theorem att_antitone_factors (sc : BakeScene ℝ) (hF : ∀ i j, 0 ≤ sc.F i j)
    (hA : ∀ i, 0 < sc.area i) (hT : ∀ a b c, 0 ≤ sc.table a b c)
    (m m' : ℝ) (h0 : 0 ≤ m) (hm : m ≤ m') (i j d : Nat) :
    0 ≤ (sc.withAtt (some m')).fft i j d ∧
      (sc.withAtt (some m')).fft i j d ≤ (sc.withAtt (some m)).fft i j d :=
  sc.fft_antitone hF hA hT m m' h0 hm i j d

/-- … and so is every bin of the patch histograms, at every order and histogram length. -/
theorem att_antitone (sc : BakeScene ℝ) (hF : ∀ i j, 0 ≤ sc.F i j)
    (hA : ∀ i, 0 < sc.area i) (hT : ∀ a b c, 0 ≤ sc.table a b c)
    (m m' : ℝ) (h0 : 0 ≤ m) (hm : m ≤ m')
    (S : Nat) (pairs : List (Nat × Nat)) (bin0 : Nat → Nat) (bin : Nat → Nat → Nat)
    (e0 e0' : Nat → Nat → ℝ) (he0 : ∀ j d, 0 ≤ e0' j d) (he : ∀ j d, e0' j d ≤ e0 j d)
    (K j d t : Nat) :
    etc ((sc.withAtt (some m')).toEx S pairs bin0 bin e0') K j d t ≤
      etc ((sc.withAtt (some m)).toEx S pairs bin0 bin e0) K j d t :=
  att_antitone_etc sc hF hA hT m m' h0 hm S pairs bin0 bin e0 e0' he0 he K j d t

/-- The source regenerated from `/repo`: distance taken before the difference is normalised. -/
theorem distance_site_as_modelled : Generated.bakeDistanceBeforeNormalise = true := by decide

/-- C10: raising the attenuation coefficient from `m` to `m' ≥ m ≥ 0` does not increase any bin of
    any patch histogram nor of the mono curve, for every room, order and histogram length. -/
theorem runPipeline_att_antitone
    (eta thr : ℝ) (room : Room ℝ) (mat : Materials ℝ) (par : RunPar ℝ) (src recv : Vec3 ℝ)
    (m m' : ℝ) (h0 : 0 ≤ m) (hm : m ≤ m')
    (bk : Baked ℝ) (r r' : RunResult ℝ)
    (hb : bakeRoom eta room { mat with att := some m } = some bk)
    (hr : runPipeline eta thr room { mat with att := some m } par src recv = some r)
    (hr' : runPipeline eta thr room { mat with att := some m' } par src recv = some r')
    (hT : ∀ a i o, 0 ≤ mat.table a i o)
    (hF : ∀ i j, 0 ≤ lookup2 bk.F i j)
    (hA : ∀ k, k < bk.P → 0 < bk.scene.area k)
    (hsrc : ∀ k, k < bk.P → 0 ≤ ptSource thr src (fun v => (bk.patch k).pt v) 4)
    (hrcv : ∀ k, k < bk.P → 0 ≤ ptReceiver thr recv (fun v => (bk.patch k).pt v) 4) :
    (∀ j d t, lookup3 r'.etc j d t ≤ lookup3 r.etc j d t) ∧
      (∀ t, r'.mono.getD t 0 ≤ r.mono.getD t 0) :=
  Sparrow.runPipeline_att_antitone eta thr room mat par src recv m m' h0 hm bk r r' hb hr hr' hT hF hA hsrc hrcv

end Sparrow.Props.C10

namespace Sparrow.Props.C10.BakeKernels
open Sparrow Sparrow.Generated.BakeKernels

/-- `_form_factors_with_directivity_dim` as translated = `BakeScene.fft` of the scene read off its
    arguments: form factor from the upper triangle by reciprocity, `exp(-m·d)` over the centre
    distance taken BEFORE normalising, and the table of the RECEIVING patch's wall at the incoming
    sample nearest to the direction towards the sender. -/
theorem formFactorsWithDirectivityDim_eq (P D nIn B W T : Nat) (vis : Nat → Nat → Bool) (F : Nat → Nat → ℝ)
    (pc : Nat → Nat → ℝ) (area : Nat → ℝ) (att : Option (Nat → ℝ)) (wall : Nat → Nat)
    (scat : Option (Nat → Nat → Nat → Nat → ℝ)) (sidx : Nat → Nat)
    (sources receivers : Nat → Nat → Nat → ℝ) (recvOpt : Option (Nat → Nat → Nat → ℝ))
    (s0 s1 s2 s3 s4 s5 s6 s7 s8 s9 : Nat)
    (i j d b : Nat) (hi : i < P) (hj : j < P) :
    formFactorsWithDirectivityDim s0 s1 vis s2 s3 F B P 3 pc s4 area s5 att s6 wall T nIn D B scat s7 sidx
        W nIn 3 sources s8 D s9 recvOpt i j d b =
      (bakeSceneOfArgs P D nIn vis F pc area att wall scat sidx sources receivers b).fft i j d :=
  Sparrow.formFactorsWithDirectivityDim_eq P D nIn B W T vis F pc area att wall scat sidx sources receivers recvOpt s0 s1 s2 s3 s4 s5 s6 s7 s8 s9 i j d b hi hj

/-- `_add_directional` as translated = `BakeScene.addDirectional`: the initial energy of patch `i`
    times the table of ITS wall at the incoming sample nearest to the direction towards the source. -/
theorem addDirectional_eq (P D nIn B W T : Nat) (energy_0 : Nat → Nat → ℝ) (src : Nat → ℝ)
    (pc : Nat → Nat → ℝ) (wall : Nat → Nat) (sources receivers : Nat → Nat → Nat → ℝ)
    (scat : Nat → Nat → Nat → Nat → ℝ) (sidx : Nat → Nat)
    (vis : Nat → Nat → Bool) (F : Nat → Nat → ℝ) (area : Nat → ℝ) (att : Option (Nat → ℝ))
    (s0 s1 s2 s3 s4 s5 : Nat)
    (i d b : Nat) (hi : i < P) :
    addDirectional s0 s1 energy_0 3 src P 3 pc B s2 wall W nIn 3 sources s3 D s4 receivers T nIn D B scat s5 sidx i d b =
      (bakeSceneOfArgs P D nIn vis F pc area att wall (some scat) sidx sources receivers b).addDirectional
        ⟨src 0, src 1, src 2⟩ (fun k => energy_0 k b) i d :=
  Sparrow.addDirectional_eq P D nIn B W T energy_0 src pc wall sources receivers scat sidx vis F area att s0 s1 s2 s3 s4 s5 i d b hi

end Sparrow.Props.C10.BakeKernels

namespace Sparrow.Props.C10.SourceLeg
open Sparrow Sparrow.Generated.LegKernels

/-- **air attenuation on the source leg** (C10): with attenuation `m` the energy of every patch and band is
    `exp(-m_b · d_j)` times the energy without attenuation, `d_j` being the distance the kernel itself returns. -/
theorem source2patch_attenuation (pt : (Nat → ℝ) → (Nat → Nat → ℝ) → ℝ) (P B : Nat) (src : Nat → ℝ)
    (pc : Nat → Nat → ℝ) (pp : Nat → Nat → Nat → ℝ) (vis : Nat → Bool) (m : Nat → ℝ)
    (s0 s1 s2 s3 s4 : Nat) (j b : Nat) (hj : j < P) :
    (source2patchEnergyUniversal pt 3 src P 3 pc s0 s1 s2 pp s3 vis s4 (some m) B).1 j b =
      Real.exp (-(m b) * (source2patchEnergyUniversal pt 3 src P 3 pc s0 s1 s2 pp s3 vis s4 (some m) B).2 j) *
        (source2patchEnergyUniversal pt 3 src P 3 pc s0 s1 s2 pp s3 vis s4 none B).1 j b :=
  Sparrow.source2patch_attenuation pt P B src pc pp vis m s0 s1 s2 s3 s4 j b hj

/-- the attenuated energy never exceeds the unattenuated one when `m ≥ 0` and the point factor is non-negative -/
theorem source2patch_att_le (pt : (Nat → ℝ) → (Nat → Nat → ℝ) → ℝ) (P B : Nat) (src : Nat → ℝ)
    (pc : Nat → Nat → ℝ) (pp : Nat → Nat → Nat → ℝ) (vis : Nat → Bool) (m : Nat → ℝ)
    (s0 s1 s2 s3 s4 : Nat) (j b : Nat) (hj : j < P) (hm : 0 ≤ m b) (hpt : 0 ≤ pt src (fun v q => pp j v q)) :
    (source2patchEnergyUniversal pt 3 src P 3 pc s0 s1 s2 pp s3 vis s4 (some m) B).1 j b ≤
      (source2patchEnergyUniversal pt 3 src P 3 pc s0 s1 s2 pp s3 vis s4 none B).1 j b :=
  Sparrow.source2patch_att_le pt P B src pc pp vis m s0 s1 s2 s3 s4 j b hj hm hpt

end Sparrow.Props.C10.SourceLeg

namespace Sparrow.Props.C10.MonoGlue
open Sparrow Sparrow.Generated.MonoGlue

/-- **`calculate_direct_sound` as translated**: value and bin -/
theorem calculateDirectSound_eq (r : Nat → ℝ) (rc : Nat → Nat → ℝ) (B : Nat) (att : Option (Nat → ℝ))
    (g : Option ((Nat → Nat → ℝ) → ℝ → Nat → ℝ)) (freq : Nat → ℝ) (c dt : ℝ) (k b : Nat) (hb : b < B) :
    (calculateDirectSound r rc B att g freq c dt).1 k b =
        (match att with
          | some m => directSound (r k) (m b)
          | none => 1 / (4 * Real.pi * (r k * r k))) * mgDir g rc freq k b ∧
    (calculateDirectSound r rc B att g freq c dt).2 k = ToBin.floorNat (r k / c / dt) :=
  Sparrow.calculateDirectSound_eq r rc B att g freq c dt k b hb

end Sparrow.Props.C10.MonoGlue
