import Sparrow.Proofs.ExchangeGlueEquiv
import Sparrow.Proofs.ShapeLemmas
import Sparrow.Proofs.LifeLemmas
import Sparrow.Generated.Lifecycle
import Sparrow.Generated.Constants
/-
  C15 — Saving and restoring a simulation at any stage is lossless.

  Life-cycle model: `Sparrow/Model/Lifecycle.lean` (terms: which kernel produced an attribute
  from which inputs).  `Generated/Lifecycle.lean` is re-extracted from the class on every run.
-/
namespace Sparrow.Props.C15
open Sparrow.Life Sparrow.Generated

/-- The serialisation round trip covers the constructor: `to_dict` lists exactly the
    constructor's parameters, each taken from the attribute of the same name; `None` is encoded
    and decoded on both paths; `__eq__` compares the `to_dict` images. -/
theorem roundtrip_covers_constructor :
    toDictKeys.map (·.1) = initParams ∧ (toDictKeys.all fun p => p.2 == "_" ++ p.1) = true ∧
    toDictEncodesNone = true ∧ toDictEncodesArrays = true ∧ fromDictDecodesNone = true ∧
    fromReadDecodesNone = true ∧ eqComparesToDict = true := by decide

/-- Every attribute that a pipeline method reads is serialised — except `_source`. -/
theorem serialized_covers_reads_partial :
    ((["set_wall_brdf", "set_air_attenuation", "bake_geometry", "init_source_energy",
        "calculate_energy_exchange", "collect_energy_receiver_patchwise", "collect_energy_receiver_mono",
        "calculate_direct_sound"].flatMap reads).filter
      fun a => !((toDictKeys.map (·.2)).contains a)).eraseDups = ["_source"] := by decide

/-- … and `_source` is read only on the direct-sound path. -/
theorem source_read_only_by_direct_sound :
    (["set_wall_brdf", "set_air_attenuation", "bake_geometry", "init_source_energy",
      "calculate_energy_exchange", "collect_energy_receiver_patchwise"].all
        fun m => !((reads m).contains "_source")) = true := by decide

/-
  FULL STATEMENT: for every reachable state `s` and every continuation `ops`,
  `run (saveRestore s) ops = run s ops` and every observation (collection and direct sound) is
  identical.  FALSE at the pinned commit for the direct sound (known finding D8: `_source` is
  not serialised): `direct_sound_lost_on_restore` is the kernel-checked witness, replayed on the
  implementation by the check.  Proved: everything else.
-/

/-- Whatever follows a save/restore — setting materials again, baking, initialising sources,
    exchanging, further save/restores — the restored object and the original differ at most in
    the unsaved `_source`. -/
theorem restored_continues_partial (s : St) (ops : List Op) :
    agreeModSource (run s ops) (run (saveRestore s) ops) :=
  restored_continues s ops

/-- Not even there once a source has been initialised after the restore. -/
theorem restored_identical_after_init (s : St) (ops : List Op) (h : ∃ src, Op.init src ∈ ops) :
    run s ops = run (saveRestore s) ops :=
  restored_continues_after_init s ops h

/-- Receiver collection (patch-wise and mono without direct sound) is identical in any case. -/
theorem restored_collect_identical (s : St) (ops : List Op) (recv : String) :
    obsCollect (run s ops) recv = obsCollect (run (saveRestore s) ops) recv :=
  restored_collect_same s ops recv

/-- D8 witness: the direct sound is available on the original and not on the restored object. -/
theorem direct_sound_lost_on_restore :
    ∃ (s : St) (recv : String), (obsDirect s recv).isSome = true ∧ (obsDirect (saveRestore s) recv).isSome = false :=
  Sparrow.Life.direct_sound_lost_on_restore

/-- … and identical again after the next source initialisation. -/
theorem direct_sound_after_reinit (s : St) (ops : List Op) (recv : String) (h : ∃ src, Op.init src ∈ ops) :
    obsDirect (run s ops) recv = obsDirect (run (saveRestore s) ops) recv :=
  Sparrow.Life.direct_sound_after_reinit s ops recv h

/-- The model's write footprint per operation is the one extracted from the source. -/
theorem write_footprints_as_modelled :
    writes "set_wall_brdf" = ["_brdf", "_brdf_incoming_directions", "_brdf_index", "_brdf_outgoing_directions", "_frequencies"] ∧
    writes "set_air_attenuation" = ["_air_attenuation", "_frequencies"] ∧
    writes "bake_geometry" = ["_form_factors", "_form_factors_tilde", "_patch_2_brdf_outgoing_index", "_visibility_matrix", "_visible_patches"] ∧
    writes "init_source_energy" = ["_air_attenuation", "_brdf", "_brdf_incoming_directions", "_brdf_index", "_brdf_outgoing_directions",
      "_distance_patches_to_source", "_energy_init_source", "_frequencies", "_source", "_source_visibility"] ∧
    writes "calculate_energy_exchange" = ["_energy_exchange_etc", "_etc_duration", "_etc_time_resolution", "_speed_of_sound"] ∧
    writes "collect_energy_receiver_mono" = [] ∧ writes "collect_energy_receiver_patchwise" = [] ∧
    writes "calculate_direct_sound" = [] ∧ writes "to_dict" = [] ∧ writes "__eq__" = [] ∧ writes "check" = [] := by decide

/-- The source regenerated from `/repo`: `calculate_energy_exchange` stores speed of sound,
    resolution and duration exactly where it stores the histogram (inside
    `if self._energy_exchange_etc is None or recalculate`), as `Life.exchange` does. -/
theorem exchange_params_site_as_modelled : Generated.exchangeParamsStoredWithEtc = true := by decide

/-- In every history — setters, bake, init, exchange with or without recalculation, save/restore
    in any order — the stored parameters are those the stored histogram was computed with, which
    is what `check()` demands when the saved state is restored (D14, repaired). -/
theorem params_describe_etc (s : St) (h : ParamsDescribeEtc s) (ops : List Op) :
    ParamsDescribeEtc (run s ops) :=
  Sparrow.Life.params_describe_etc s h ops

end Sparrow.Props.C15

namespace Sparrow.Props.C15.Shape
open Sparrow.Shape Sparrow Sparrow.Generated

/-- Consequently a history that ends with a save/restore is refused exactly in those situations. -/
theorem restore_refused_iff (W nv P : Nat) (ids : List Int) (hg : GeomOK W P ids)
    (ops : List Op) (s : St) (h : run (fresh W nv P ids) ops = some s) :
    run (fresh W nv P ids) (ops ++ [Op.saveRestore]) = none ↔ ¬ (DirsComplete s ∧ Fresh s) :=
  Sparrow.Shape.restore_refused_iff W nv P ids hg ops s h

/-- D13 witness: two walls, material on wall 0 only — reachable, and refused on restore. -/
theorem partial_walls_rejected :
    ∃ s, run (fresh 2 4 2 [0, 1]) [Op.setBrdf [0] 1 1 ⟨1, 1⟩] = some s ∧ accepted s = false :=
  Sparrow.Shape.partial_walls_rejected 

/-- D15 witness: bake, then an attenuation with three bands — reachable, and refused on restore
    until the geometry is baked again. -/
theorem stale_factors_rejected :
    (∃ s, run (fresh 2 4 2 [0, 1]) [Op.bake 1, Op.setAtt ⟨3, 1⟩] = some s ∧ accepted s = false) ∧
    (∃ s, run (fresh 2 4 2 [0, 1]) [Op.bake 1, Op.setAtt ⟨3, 1⟩, Op.bake 1] = some s ∧ accepted s = true) :=
  Sparrow.Shape.stale_factors_rejected 

end Sparrow.Props.C15.Shape

namespace Sparrow.Props.C15.ExchangeGlue
open Sparrow Sparrow.Generated.ExchangeGlue Sparrow.Generated.Kernels

/-- a stored histogram is kept, with the parameters that describe it, when `recalculate` is off -/
theorem calculateEnergyExchange_kept (P D B nVis : Nat) (pc : Nat → Nat → ℝ) (d0 : Nat → ℝ) (e0 : Nat → Nat → Nat → ℝ)
    (fft : Nat → Nat → Nat → Nat → ℝ) (p2o : Nat → Nat → Nat) (vp : Nat → Nat → Nat)
    (E : Nat → Nat → Nat → Nat → ℝ) (dt0 c0 dur0 : Option ℝ) (c dt dur : ℝ) (K : Int)
    (s0 s1 s2 s3 s4 s5 s6 s7 : Nat) (junk : Nat → Nat → ℝ) :
    calculateEnergyExchange P 3 pc s0 d0 P D B e0 s1 s2 s3 s4 fft s5 s6 p2o nVis s7 vp P (some E) dt0 c0 dur0 c dt dur K false junk =
      (some E, dt0, c0, dur0) :=
  Sparrow.calculateEnergyExchange_kept P D B nVis pc d0 e0 fft p2o vp E dt0 c0 dur0 c dt dur K s0 s1 s2 s3 s4 s5 s6 s7 junk

/-- … and otherwise the stored parameters are exactly the arguments the new histogram was computed with -/
theorem calculateEnergyExchange_params (P D B nVis : Nat) (pc : Nat → Nat → ℝ) (d0 : Nat → ℝ) (e0 : Nat → Nat → Nat → ℝ)
    (fft : Nat → Nat → Nat → Nat → ℝ) (p2o : Nat → Nat → Nat) (vp : Nat → Nat → Nat)
    (etc0 : Option (Nat → Nat → Nat → Nat → ℝ)) (dt0 c0 dur0 : Option ℝ) (c dt dur : ℝ) (K : Int) (recalc : Bool)
    (s0 s1 s2 s3 s4 s5 s6 s7 : Nat) (junk : Nat → Nat → ℝ) (h : etc0.isNone = true ∨ recalc = true) :
    let r := calculateEnergyExchange P 3 pc s0 d0 P D B e0 s1 s2 s3 s4 fft s5 s6 p2o nVis s7 vp P etc0 dt0 c0 dur0 c dt dur K recalc junk
    r.1.isSome = true ∧ r.2.1 = some dt ∧ r.2.2.1 = some c ∧ r.2.2.2 = some dur :=
  Sparrow.calculateEnergyExchange_params P D B nVis pc d0 e0 fft p2o vp etc0 dt0 c0 dur0 c dt dur K recalc s0 s1 s2 s3 s4 s5 s6 s7 junk h

end Sparrow.Props.C15.ExchangeGlue
