import Sparrow.Model.Lifecycle
namespace Sparrow.Props.C15
theorem placeholder : True := trivial
end Sparrow.Props.C15
