import Sparrow.Proofs.BakeGlueEquiv
import Sparrow.Proofs.BakeKernelEquiv
import Sparrow.Proofs.FrameLemmas
/-
  C14 — BRDF directions follow the wall frame; lookups use the nearest sample.
  Models: Sparrow/Model/Frame.lean (`_rotate_coords_to_normal`), Sparrow/Model/Vec.lean (`nearest`),
  Sparrow/Model/Bake.lean (the four lookups).
-/
namespace Sparrow.Props.C14
open Sparrow Vec3

/-- The wall frame maps `+z` to the wall normal … -/
theorem wallFrame_ez (n u : Vec3 ℝ) (h : Orthonormal n u) : wallFrame n u ⟨0, 0, 1⟩ = n :=
  Sparrow.wallFrame_ez n u h

/-- … and `+x` to the wall's up vector. -/
theorem wallFrame_ex (n u : Vec3 ℝ) (h : Orthonormal n u) : wallFrame n u ⟨1, 0, 0⟩ = u :=
  Sparrow.wallFrame_ex n u h

/-- It is a rigid rotation: inner products (hence lengths and angles) are preserved. -/
theorem wallFrame_isometry (n u v v' : Vec3 ℝ) (h : Orthonormal n u) :
    dot (wallFrame n u v) (wallFrame n u v') = dot v v' :=
  Sparrow.wallFrame_isometry n u v v' h

/-- The component along the wall normal is the reference `z` component: directions with
    `z ≥ 0` stay in the wall's outer half space. -/
theorem wallFrame_normal_component (n u v : Vec3 ℝ) (h : Orthonormal n u) :
    dot (wallFrame n u v) n = v.z :=
  Sparrow.wallFrame_normal_component n u v h

/-- Orientation is preserved (a rotation, not a reflection): `R e_x × R e_y = R e_z`. -/
theorem wallFrame_orientation (n u : Vec3 ℝ) (h : Orthonormal n u) :
    cross (wallFrame n u ⟨1, 0, 0⟩) (wallFrame n u ⟨0, 1, 0⟩) = wallFrame n u ⟨0, 0, 1⟩ :=
  Sparrow.wallFrame_orientation n u h

/-- Positive rescaling of the wall normal or up vector changes nothing. -/
theorem wallFrame_scale_free (n u v : Vec3 ℝ) (a b : ℝ) (ha : 0 < a) (hb : 0 < b) :
    wallFrame (smul a n) (smul b u) v = wallFrame n u v :=
  Sparrow.wallFrame_scale_free n u v a b ha hb

/-- Rotated directions are unit vectors in the outer half space. -/
theorem rotateToWall_unit (n u v : Vec3 ℝ) (h : Orthonormal n u) (hv : dot v v ≠ 0) :
    dot (rotateToWall n u v) (rotateToWall n u v) = 1 :=
  Sparrow.rotateToWall_unit n u v h hv


theorem rotateToWall_halfspace (n u v : Vec3 ℝ) (h : Orthonormal n u) (hz : 0 ≤ v.z) :
    0 ≤ dot (rotateToWall n u v) n :=
  Sparrow.rotateToWall_halfspace n u v h hz

/-- **Nearest sample = smallest angle.** For unit sample vectors and a unit direction `u` the
    sample chosen by `argmin |s_k - u|²` is the first one of maximal cosine `⟨s_k, u⟩`. -/
theorem nearest_is_argmax_cos (samples : Nat → Vec3 ℝ) (n : Nat) (u : Vec3 ℝ) (hn : 0 < n)
    (hs : ∀ k, k < n → dot (samples k) (samples k) = 1) (hu : dot u u = 1) :
    nearest samples n u < n ∧ (∀ j, j < n → dot (samples j) u ≤ dot (samples (nearest samples n u)) u) ∧
      (∀ j, j < nearest samples n u → dot (samples j) u < dot (samples (nearest samples n u)) u) :=
  Sparrow.nearest_is_argmax_cos samples n u hn hs hu

/-- The four lookups of the fast engine, as the model has them (each is `nearest` applied to the
    normalised geometric direction, in the direction set of the wall of the patch looked up). -/
theorem lookup_pair_out (sc : BakeScene ℝ) (i j : Nat) (ht : sc.hasTable = true)
    (hv : sc.visSym i j = true) (hij : i ≠ j) :
    sc.outIdx i j =
      nearest (sc.outDirs (sc.wall i)) sc.D (normalize (sub (sc.center j) (sc.center i))) :=
  Sparrow.lookup_pair_out sc i j ht hv hij


theorem lookup_pair_in (sc : BakeScene ℝ) (i j : Nat) :
    sc.inIdx i j =
      nearest (sc.inDirs (sc.wall j)) sc.nIn (normalize (sub (sc.center i) (sc.center j))) :=
  Sparrow.lookup_pair_in sc i j


theorem lookup_source (sc : BakeScene ℝ) (src : Vec3 ℝ) (e0 : Nat → ℝ) (i d : Nat) :
    sc.addDirectional src e0 i d =
      e0 i * sc.table (sc.tableIdx (sc.wall i))
        (nearest (sc.inDirs (sc.wall i)) sc.nIn (normalize (sub src (sc.center i)))) d :=
  Sparrow.lookup_source sc src e0 i d


theorem lookup_receiver (sc : BakeScene ℝ) (r : Vec3 ℝ) (j : Nat) :
    sc.receiverIdx r j =
      nearest (sc.outDirs (sc.wall j)) sc.D (normalize (sub r (sc.center j))) :=
  Sparrow.lookup_receiver sc r j

end Sparrow.Props.C14

namespace Sparrow.Props.C14.BakeKernels
open Sparrow Sparrow.Generated.BakeKernels

/-- `_form_factors_with_directivity_dim` as translated = `BakeScene.fft` of the scene read off its
    arguments: form factor from the upper triangle by reciprocity, `exp(-m·d)` over the centre
    distance taken BEFORE normalising, and the table of the RECEIVING patch's wall at the incoming
    sample nearest to the direction towards the sender. -/
theorem formFactorsWithDirectivityDim_eq (P D nIn B W T : Nat) (vis : Nat → Nat → Bool) (F : Nat → Nat → ℝ)
    (pc : Nat → Nat → ℝ) (area : Nat → ℝ) (att : Option (Nat → ℝ)) (wall : Nat → Nat)
    (scat : Option (Nat → Nat → Nat → Nat → ℝ)) (sidx : Nat → Nat)
    (sources receivers : Nat → Nat → Nat → ℝ) (recvOpt : Option (Nat → Nat → Nat → ℝ))
    (s0 s1 s2 s3 s4 s5 s6 s7 s8 s9 : Nat)
    (i j d b : Nat) (hi : i < P) (hj : j < P) :
    formFactorsWithDirectivityDim s0 s1 vis s2 s3 F B P 3 pc s4 area s5 att s6 wall T nIn D B scat s7 sidx
        W nIn 3 sources s8 D s9 recvOpt i j d b =
      (bakeSceneOfArgs P D nIn vis F pc area att wall scat sidx sources receivers b).fft i j d :=
  Sparrow.formFactorsWithDirectivityDim_eq P D nIn B W T vis F pc area att wall scat sidx sources receivers recvOpt s0 s1 s2 s3 s4 s5 s6 s7 s8 s9 i j d b hi hj

/-- `_add_directional` as translated = `BakeScene.addDirectional`: the initial energy of patch `i`
    times the table of ITS wall at the incoming sample nearest to the direction towards the source. -/
theorem addDirectional_eq (P D nIn B W T : Nat) (energy_0 : Nat → Nat → ℝ) (src : Nat → ℝ)
    (pc : Nat → Nat → ℝ) (wall : Nat → Nat) (sources receivers : Nat → Nat → Nat → ℝ)
    (scat : Nat → Nat → Nat → Nat → ℝ) (sidx : Nat → Nat)
    (vis : Nat → Nat → Bool) (F : Nat → Nat → ℝ) (area : Nat → ℝ) (att : Option (Nat → ℝ))
    (s0 s1 s2 s3 s4 s5 : Nat)
    (i d b : Nat) (hi : i < P) :
    addDirectional s0 s1 energy_0 3 src P 3 pc B s2 wall W nIn 3 sources s3 D s4 receivers T nIn D B scat s5 sidx i d b =
      (bakeSceneOfArgs P D nIn vis F pc area att wall (some scat) sidx sources receivers b).addDirectional
        ⟨src 0, src 1, src 2⟩ (fun k => energy_0 k b) i d :=
  Sparrow.addDirectional_eq P D nIn B W T energy_0 src pc wall sources receivers scat sidx vis F area att s0 s1 s2 s3 s4 s5 i d b hi

end Sparrow.Props.C14.BakeKernels

namespace Sparrow.Props.C14.ReceiverIndex
open Sparrow Sparrow.Generated.BakeKernels

/-- `get_scattering_data_receiver_index` as translated: for every patch `i` the outgoing sample of
    ITS wall nearest to the direction from its centre to the point `pt` (used for the
    patch-to-patch slot in `bake_geometry` and for the slot towards a receiver). -/
theorem getScatteringDataReceiverIndex_eq (P W D : Nat) (pc : Nat → Nat → ℝ) (pt : Nat → ℝ)
    (receivers : Nat → Nat → Nat → ℝ) (wall : Nat → Nat) (s0 : Nat) (i : Nat) (hi : i < P) :
    getScatteringDataReceiverIndex P 3 pc 3 pt W D 3 receivers s0 wall i =
      nearest (fun k => ⟨receivers (wall i) k 0, receivers (wall i) k 1, receivers (wall i) k 2⟩) D
        (Vec3.normalize (Vec3.sub ⟨pt 0, pt 1, pt 2⟩ ⟨pc i 0, pc i 1, pc i 2⟩)) :=
  Sparrow.getScatteringDataReceiverIndex_eq P W D pc pt receivers wall s0 i hi

end Sparrow.Props.C14.ReceiverIndex

namespace Sparrow.Props.C14.BakeGlue
open Sparrow Sparrow.Generated.BakeGlue Sparrow.Generated.BakeKernels

/-- **patch → outgoing slot**: for a pair visible in either direction, the slot of the FIRST patch's wall nearest to the
    direction from its centre to the second patch's centre; the invalid slot `D` for other pairs; `0` without materials -/
theorem bakeGeometry_out_index
    (vis2 : (Nat → Nat → ℝ) → (Nat → Nat → ℝ) → (Nat → Nat → Nat → ℝ) → Nat → Nat → Bool)
    (ffu : (Nat → Nat → Nat → ℝ) → (Nat → Nat → ℝ) → (Nat → ℝ) → Nat → (Nat → Nat → Nat) → Nat → Nat → ℝ)
    (P : Nat) (pc pn : Nat → Nat → ℝ) (pp : Nat → Nat → Nat → ℝ) (pa : Nat → ℝ) (ptw : Nat → Nat)
    (hasM : Bool) (W nIn D T : Nat) (dIn dOut : Nat → Nat → Nat → ℝ) (bidx : Nat → Nat) (brdf : Nat → Nat → Nat → Nat → ℝ)
    (fnone : Bool) (B : Nat) (att : Option (Nat → ℝ)) (junk : Nat → Nat → Nat)
    (i j : Nat) (hi : i < P) (hj : j < P) :
    (bakeGeometry vis2 ffu P pc pn pp pa ptw hasM W nIn D T dIn dOut bidx brdf fnone B att junk).2.2.2.1 i j =
      if hasM = true then
        (if (vis2 pc pn pp i j || vis2 pc pn pp j i) = true then
          nearest (fun q => ⟨dOut (ptw i) q 0, dOut (ptw i) q 1, dOut (ptw i) q 2⟩) D
            (Vec3.normalize (Vec3.sub ⟨pc j 0, pc j 1, pc j 2⟩ ⟨pc i 0, pc i 1, pc i 2⟩))
        else D)
      else 0 :=
  Sparrow.bakeGeometry_out_index vis2 ffu P pc pn pp pa ptw hasM W nIn D T dIn dOut bidx brdf fnone B att junk i j hi hj

end Sparrow.Props.C14.BakeGlue
