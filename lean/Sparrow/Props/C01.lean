import Sparrow.Proofs.SetterGlueEquiv
import Sparrow.Proofs.BakeGlueEquiv
import Sparrow.Proofs.BakeKernelEquiv
import Sparrow.Proofs.KernelCorollaries
import Sparrow.Proofs.PipelineEnergy
import Sparrow.Proofs.Energy
import Sparrow.Proofs.Mono
import Sparrow.Proofs.BakeLemmas
import Sparrow.Proofs.Support
import Sparrow.Proofs.Batch2
import Sparrow.Generated.Constants
/-
  C01 — Energy exchange never creates energy; the receiving wall's reflectance governs.
  Property theorems only (helper lemmas: Sparrow/Proofs).  Model at `ℝ`.
-/
namespace Sparrow.Props.C01
open Sparrow Finset

/-- The baked transfer factor from `i` to `j` is the form factor times the attenuation over
    the centre distance times the table of the wall of the **receiving** patch `j`, looked up at
    the incoming sample nearest to the direction from `j` towards `i`. -/
theorem bake_receiving_wall (sc : BakeScene ℝ) (i j d : Nat) (hv : sc.visSym i j = true)
    (ht : sc.hasTable = true) (m : ℝ) (ha : sc.att = some m) :
    sc.fft i j d = sc.ffPrime i j * Real.exp (-m * sc.dist i j) *
      sc.table (sc.tableIdx (sc.wall j)) (sc.inIdx i j) d :=
  sc.fft_eq i j d hv ht m ha

/-- The source (regenerated from `/repo` on every run) uses the receiver's wall id for that
    lookup and takes the distance before normalising the difference vector. -/
theorem bake_site_as_modelled :
    Generated.bakeWallOf = .receiver ∧ Generated.bakeDistanceBeforeNormalise = true := by decide

/-- Exact energy step (no hypothesis on the histogram length): the order-(k+1) energy of
    patch `j` is, arc by arc, the transfer factor times the part of the sender's order-`k`
    histogram that still fits after the delay. -/
theorem energy_step (sc : ExScene ℝ) (k j d : Nat) (hj : j < sc.P) (hd : d < sc.D) :
    energyOf sc (k + 1) j d =
      ((arcsTo sc j).map fun a =>
        sc.fft a.1 a.2 d *
          ∑ u ∈ range (sc.S - sc.bin a.1 a.2), orderH sc k a.1 (sc.dir a.1 a.2) u).sum :=
  Sparrow.energy_step sc k j d hj hd

/-- With a histogram long enough to hold every arrival, order `k+1` is order `k`
    redistributed by the transfer factors (form factor × attenuation × receiving wall). -/
theorem energy_step_long (sc : ExScene ℝ) (k j d : Nat) (hj : j < sc.P) (hd : d < sc.D)
    (hlong : ∀ a ∈ arcsTo sc j, ∀ u, sc.S - sc.bin a.1 a.2 ≤ u →
      orderH sc k a.1 (sc.dir a.1 a.2) u = 0) :
    energyOf sc (k + 1) j d =
      ((arcsTo sc j).map fun a =>
        sc.fft a.1 a.2 d * energyOf sc k a.1 (sc.dir a.1 a.2)).sum :=
  Sparrow.energy_step_long sc k j d hj hd hlong

/-- Energy is never created: total order-(k+1) energy ≤ (1+ε) × total order-`k` energy when
    every patch hands on at most `1+ε` (form-factor closure error, reflectance ≤ 1,
    attenuation ≤ 1) — for every histogram length. -/
theorem energy_not_created (sc : ExScene ℝ) (hwf : sc.WF) (hD : sc.D = 1)
    (he : ∀ j d, 0 ≤ sc.e0 j d) (hf : ∀ i j d, 0 ≤ sc.fft i j d) (ε : ℝ)
    (hrow : ∀ i, ((sc.arcs.filter fun a => a.1 == i).map fun a => sc.fft a.1 a.2 0).sum ≤ 1 + ε)
    (k : Nat) :
    ∑ j ∈ range sc.P, energyOf sc (k + 1) j 0 ≤ (1 + ε) * ∑ i ∈ range sc.P, energyOf sc k i 0 :=
  Sparrow.energy_not_created sc hwf hD he hf ε hrow k

/-- Uniform walls: with every transfer factor `ρ · g i j`, rows of `g` summing to 1 within `ε`
    and a histogram long enough for all order-(k+1) arrivals, the total order-(k+1) energy is
    `ρ = 1 - absorption` times the total order-`k` energy, up to the closure error. -/
theorem energy_uniform (sc : ExScene ℝ) (hwf : sc.WF) (hD : sc.D = 1)
    (he : ∀ j d, 0 ≤ sc.e0 j d) (ρ : ℝ) (hρ : 0 ≤ ρ) (g : Nat → Nat → ℝ) (hg : ∀ i j, 0 ≤ g i j)
    (hf : ∀ i j d, sc.fft i j d = ρ * g i j) (ε : ℝ)
    (hrow : ∀ i, i < sc.P →
      |((sc.arcs.filter fun a => a.1 == i).map fun a => g a.1 a.2).sum - 1| ≤ ε)
    (k : Nat)
    (hlong : ∀ a ∈ sc.arcs, ∀ u, sc.S - sc.bin a.1 a.2 ≤ u → orderH sc k a.1 0 u = 0) :
    |∑ j ∈ range sc.P, energyOf sc (k + 1) j 0 - ρ * ∑ i ∈ range sc.P, energyOf sc k i 0|
      ≤ ρ * ε * ∑ i ∈ range sc.P, energyOf sc k i 0 :=
  Sparrow.energy_uniform sc hwf hD he ρ hρ g hg hf ε hrow k hlong

/-- A patch whose wall reflects nothing (its table is zero, so its initial energy and every
    transfer factor into it vanish) carries no energy at any order, in any bin. -/
theorem absorbing_wall_dark (sc : ExScene ℝ) (j : Nat)
    (h0 : ∀ d, sc.e0 j d = 0) (hf : ∀ i d, sc.fft i j d = 0) (k d t : Nat) :
    orderH sc k j d t = 0 := by
  cases k with
  | zero =>
    rw [orderH_zero]; split
    · unfold initF; split
      · exact h0 d
      · rfl
    · rfl
  | succ k =>
    rw [orderH_succ]; split
    · rw [stepF_eq_sum]
      apply List.sum_eq_zero
      intro x hx
      obtain ⟨a, ha, rfl⟩ := List.mem_map.mp hx
      have hj : a.2 = j := by simpa using (List.mem_filter.mp ha).2
      unfold term
      split
      · rw [hj, hf]; ring
      · rfl
    · rfl

/-- … and the bake produces exactly such factors for a wall whose table is zero. -/
theorem absorbing_table_gives_zero_factors (sc : BakeScene ℝ) (i j d : Nat)
    (ht : sc.hasTable = true) (hz : ∀ a, sc.table (sc.tableIdx (sc.wall j)) a d = 0) :
    sc.fft i j d = 0 := by
  unfold BakeScene.fft
  simp [ht, hz]

/-- Shortening the histogram removes energy and adds none: below the new length nothing
    changes (see also C02), so with non-negative inputs every cumulative energy can only drop. -/
theorem truncation_only_removes (sc : ExScene ℝ) (hwf : sc.WF) (S' : Nat) (hS : S' ≤ sc.S)
    (he : ∀ j d, 0 ≤ sc.e0 j d) (hf : ∀ i j d, 0 ≤ sc.fft i j d)
    (K j d : Nat) (hj : j < sc.P) (hd : d < sc.D) :
    ∑ t ∈ range S', etc { sc with S := S' } K j d t ≤ ∑ t ∈ range sc.S, etc sc K j d t := by
  have hwf' : ExScene.WF { sc with S := S' } := hwf
  have h1 : ∑ t ∈ range S', etc { sc with S := S' } K j d t = ∑ t ∈ range S', etc sc K j d t := by
    apply Finset.sum_congr rfl
    intro t ht
    have ht' : t < S' := Finset.mem_range.mp ht
    rw [etc_eq_coeff _ hwf' K j d t hj hd ht', etc_eq_coeff sc hwf K j d t hj hd (by omega)]
    unfold specEtc
    simp only [specOrder_congr_S]
  rw [h1]
  apply Finset.sum_le_sum_of_subset_of_nonneg
  · intro x hx; simp at hx ⊢; omega
  · intro t _ _; exact etc_nonneg sc he hf K j d t

/-- C01: if the BRDF table of wall `w` is identically zero (fully absorbing), no patch of wall
    `w` carries energy in any direction or bin, whatever the order, the room, the source. -/
theorem runPipeline_absorbing_wall_dark
    (eta thr : ℝ) (room : Room ℝ) (mat : Materials ℝ) (par : RunPar ℝ) (src recv : Vec3 ℝ)
    (bk : Baked ℝ) (r : RunResult ℝ)
    (hb : bakeRoom eta room mat = some bk)
    (hr : runPipeline eta thr room mat par src recv = some r)
    (w : Nat) (hz : ∀ i o, mat.table (mat.tableIdx w) i o = 0)
    (k : Nat) (hk : (bk.patch k).wall = w) (d t : Nat) :
    lookup3 r.etc k d t = 0 :=
  Sparrow.runPipeline_absorbing_wall_dark eta thr room mat par src recv bk r hb hr w hz k hk d t

end Sparrow.Props.C01

namespace Sparrow.Props.C01.Translated
open Sparrow Sparrow.Generated.Kernels

/-- C01: a patch whose initial energy and incoming transfer factors vanish in band `b` (fully
    absorbing wall) stays dark in band `b`, at every order and bin. -/
theorem energyExchange_absorbing_dark (S P D B : Nat) (e0 : Nat → Nat → Nat → ℝ)
    (s0 : Nat) (distance_0 : Nat → ℝ) (s1 s2 : Nat) (distance_ij : Nat → Nat → ℝ)
    (P' : Nat) (fft : Nat → Nat → Nat → Nat → ℝ) (s3 s4 : Nat) (p2o : Nat → Nat → Nat)
    (c dt : ℝ) (K nVis s5 : Nat) (vp : Nat → Nat → Nat) (b : Nat)
    (hwf : (exSceneOfArgs S P D e0 distance_0 distance_ij fft p2o c dt nVis vp b).WF)
    (j : Nat) (hj : j < P) (h0 : ∀ d, e0 j d b = 0) (hf : ∀ i d, fft i j d b = 0)
    (d t : Nat) (hd : d < D) (ht : t < S) :
    energyExchange S P D B e0 s0 distance_0 s1 s2 distance_ij P P' D B fft s3 s4 p2o c dt K nVis s5 vp j d b t = 0 :=
  Sparrow.energyExchange_absorbing_dark S P D B e0 s0 distance_0 s1 s2 distance_ij P' fft s3 s4 p2o c dt K nVis s5 vp b hwf j hj h0 hf d t hd ht

end Sparrow.Props.C01.Translated

namespace Sparrow.Props.C01.BakeKernels
open Sparrow Sparrow.Generated.BakeKernels

/-- `_form_factors_with_directivity_dim` as translated = `BakeScene.fft` of the scene read off its
    arguments: form factor from the upper triangle by reciprocity, `exp(-m·d)` over the centre
    distance taken BEFORE normalising, and the table of the RECEIVING patch's wall at the incoming
    sample nearest to the direction towards the sender. -/
theorem formFactorsWithDirectivityDim_eq (P D nIn B W T : Nat) (vis : Nat → Nat → Bool) (F : Nat → Nat → ℝ)
    (pc : Nat → Nat → ℝ) (area : Nat → ℝ) (att : Option (Nat → ℝ)) (wall : Nat → Nat)
    (scat : Option (Nat → Nat → Nat → Nat → ℝ)) (sidx : Nat → Nat)
    (sources receivers : Nat → Nat → Nat → ℝ) (recvOpt : Option (Nat → Nat → Nat → ℝ))
    (s0 s1 s2 s3 s4 s5 s6 s7 s8 s9 : Nat)
    (i j d b : Nat) (hi : i < P) (hj : j < P) :
    formFactorsWithDirectivityDim s0 s1 vis s2 s3 F B P 3 pc s4 area s5 att s6 wall T nIn D B scat s7 sidx
        W nIn 3 sources s8 D s9 recvOpt i j d b =
      (bakeSceneOfArgs P D nIn vis F pc area att wall scat sidx sources receivers b).fft i j d :=
  Sparrow.formFactorsWithDirectivityDim_eq P D nIn B W T vis F pc area att wall scat sidx sources receivers recvOpt s0 s1 s2 s3 s4 s5 s6 s7 s8 s9 i j d b hi hj

/-- `_add_directional` as translated = `BakeScene.addDirectional`: the initial energy of patch `i`
    times the table of ITS wall at the incoming sample nearest to the direction towards the source. -/
theorem addDirectional_eq (P D nIn B W T : Nat) (energy_0 : Nat → Nat → ℝ) (src : Nat → ℝ)
    (pc : Nat → Nat → ℝ) (wall : Nat → Nat) (sources receivers : Nat → Nat → Nat → ℝ)
    (scat : Nat → Nat → Nat → Nat → ℝ) (sidx : Nat → Nat)
    (vis : Nat → Nat → Bool) (F : Nat → Nat → ℝ) (area : Nat → ℝ) (att : Option (Nat → ℝ))
    (s0 s1 s2 s3 s4 s5 : Nat)
    (i d b : Nat) (hi : i < P) :
    addDirectional s0 s1 energy_0 3 src P 3 pc B s2 wall W nIn 3 sources s3 D s4 receivers T nIn D B scat s5 sidx i d b =
      (bakeSceneOfArgs P D nIn vis F pc area att wall (some scat) sidx sources receivers b).addDirectional
        ⟨src 0, src 1, src 2⟩ (fun k => energy_0 k b) i d :=
  Sparrow.addDirectional_eq P D nIn B W T energy_0 src pc wall sources receivers scat sidx vis F area att s0 s1 s2 s3 s4 s5 i d b hi

end Sparrow.Props.C01.BakeKernels

namespace Sparrow.Props.C01.BakeGlue
open Sparrow Sparrow.Generated.BakeGlue Sparrow.Generated.BakeKernels

/-- **the baked factors** are the model's `fft` of the scene read off the stored state: visibility matrix and form factors
    as stored by this very call, materials as installed (none: the Lambertian default), attenuation as set -/
theorem bakeGeometry_fft
    (vis2 : (Nat → Nat → ℝ) → (Nat → Nat → ℝ) → (Nat → Nat → Nat → ℝ) → Nat → Nat → Bool)
    (ffu : (Nat → Nat → Nat → ℝ) → (Nat → Nat → ℝ) → (Nat → ℝ) → Nat → (Nat → Nat → Nat) → Nat → Nat → ℝ)
    (P : Nat) (pc pn : Nat → Nat → ℝ) (pp : Nat → Nat → Nat → ℝ) (pa : Nat → ℝ) (ptw : Nat → Nat)
    (hasM : Bool) (W nIn D T : Nat) (dIn dOut : Nat → Nat → Nat → ℝ) (bidx : Nat → Nat) (brdf : Nat → Nat → Nat → Nat → ℝ)
    (fnone : Bool) (B : Nat) (att : Option (Nat → ℝ)) (junk : Nat → Nat → Nat)
    (i j d b : Nat) (hi : i < P) (hj : j < P) :
    (bakeGeometry vis2 ffu P pc pn pp pa ptw hasM W nIn D T dIn dOut bidx brdf fnone B att junk).2.2.2.2 i j d b =
      (bakeSceneOfArgs P D nIn (vis2 pc pn pp)
        (bakeGeometry vis2 ffu P pc pn pp pa ptw hasM W nIn D T dIn dOut bidx brdf fnone B att junk).2.2.1
        pc pa att ptw (if hasM = true then some brdf else none) bidx dIn dOut b).fft i j d :=
  Sparrow.bakeGeometry_fft vis2 ffu P pc pn pp pa ptw hasM W nIn D T dIn dOut bidx brdf fnone B att junk i j d b hi hj

end Sparrow.Props.C01.BakeGlue

namespace Sparrow.Props.C01.SetterGlue
open Sparrow Sparrow.Generated.SetterGlue

/-- **in force on the listed walls**: after a successful call, every wall in `wall_indexes` carries the given table × π -/
theorem setWallBrdf_in_force (rotate : (Nat → ℝ) → (Nat → ℝ) → C → C → C × C) (n : Nat) (wn wu : Nat → Nat → ℝ)
    (st st' : MatState ℝ C) (ws : List Nat) (fq : Nat × (Nat → ℝ)) (T : Nat → Nat → Nat → ℝ) (inc out : C)
    (ok1 ok2 : Bool) (e : Nat → Nat → Nat → Nat → ℝ)
    (h : setWallBrdf rotate n wn wu st ws fq T inc out ok1 ok2 e = some st') (w : Nat) (hw : w ∈ ws) :
    tableOf st' w = some (fun a b c => T a b c * Real.pi) :=
  Sparrow.setWallBrdf_in_force rotate n wn wu st st' ws fq T inc out ok1 ok2 e h w hw

/-- **every other wall keeps the material in force** (tables are appended, never overwritten; other indices untouched),
    for an object whose direction arrays exist already and whose indices point into the list -/
theorem setWallBrdf_others_keep (rotate : (Nat → ℝ) → (Nat → ℝ) → C → C → C × C) (n : Nat) (wn wu : Nat → Nat → ℝ)
    (st st' : MatState ℝ C) (ws : List Nat) (fq : Nat × (Nat → ℝ)) (T : Nat → Nat → Nat → ℝ) (inc out : C)
    (ok1 ok2 : Bool) (e : Nat → Nat → Nat → Nat → ℝ)
    (h : setWallBrdf rotate n wn wu st ws fq T inc out ok1 ok2 e = some st')
    (hinit : st.dirsIn.isNone = false) (hwf : matWF st) (w : Nat) (hw : w ∉ ws) :
    tableOf st' w = tableOf st w :=
  Sparrow.setWallBrdf_others_keep rotate n wn wu st st' ws fq T inc out ok1 ok2 e h hinit hwf w hw

/-- the well-formedness the previous theorem asks for is established by the first call and kept by every later one -/
theorem setWallBrdf_wf (rotate : (Nat → ℝ) → (Nat → ℝ) → C → C → C × C) (n : Nat) (wn wu : Nat → Nat → ℝ)
    (st st' : MatState ℝ C) (ws : List Nat) (fq : Nat × (Nat → ℝ)) (T : Nat → Nat → Nat → ℝ) (inc out : C)
    (ok1 ok2 : Bool) (e : Nat → Nat → Nat → Nat → ℝ)
    (h : setWallBrdf rotate n wn wu st ws fq T inc out ok1 ok2 e = some st')
    (hwf : st.dirsIn.isNone = true ∨ matWF st) : matWF st' :=
  Sparrow.setWallBrdf_wf rotate n wn wu st st' ws fq T inc out ok1 ok2 e h hwf

end Sparrow.Props.C01.SetterGlue
