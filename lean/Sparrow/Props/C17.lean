import Sparrow.Proofs.PatchAttrsEquiv
import Sparrow.Proofs.LegKernelEquiv
import Sparrow.Proofs.Relabel
import Sparrow.Proofs.PipelineTranslation
import Sparrow.Proofs.PointPatchLemmas
import Sparrow.Proofs.StokesLemmas
import Sparrow.Proofs.NusseltLemmas
import Sparrow.Proofs.Tiling
import Sparrow.Proofs.FrameLemmas
import Sparrow.Proofs.VisibilityLemmas
/-
  C17 — Simulation results do not depend on where or how the room is placed.

  PROVED here (kernel level, exact over the reals): the invariances of every geometric kernel the
  pipeline is made of.  NOT a single theorem: the lifting to the whole pipeline (patch renumbering
  under mirrorings and axis permutations, 0.5 % bound for permutations) — that part is measured by
  the check on the implementation and reported as measured.
-/
namespace Sparrow.Props.C17
open Sparrow Vec3

/-- **Translating the whole scene — room, source and receiver — changes nothing**: the same
    patches are created (translated), the same pairs are visible, and form factors, baked
    factors, index maps, initial energies, source distances, patch histograms and the receiver
    curve are identical.  For every room of axis-aligned rectangular walls, patch size,
    materials, attenuation, run parameters, source, receiver and translation vector. -/
theorem runPipeline_translation (eta thr : ℝ) (room : Room ℝ) (mat : Materials ℝ) (par : RunPar ℝ)
    (src recv t : Vec3 ℝ) :
    (runPipeline eta thr (room.translate t) mat par (add src t) (add recv t)).map RunResult.observed =
      (runPipeline eta thr room mat par src recv).map RunResult.observed :=
  Sparrow.runPipeline_translation eta thr room mat par src recv t

/-- translating point and patch together changes nothing -/
theorem pt_translation (thr : ℝ) (x t : Vec3 ℝ) (pts : Nat → Vec3 ℝ) (n : Nat) :
    ptSource thr (add x t) (fun i => add (pts i) t) n = ptSource thr x pts n :=
  Sparrow.pt_translation thr x t pts n

/-- invariance under every linear isometry (rotations and reflections) -/
theorem pt_isometry (thr : ℝ) (Q : Vec3 ℝ → Vec3 ℝ) (hQ : LinIso Q) (x : Vec3 ℝ) (pts : Nat → Vec3 ℝ) (n : Nat) :
    ptSource thr (Q x) (fun i => Q (pts i)) n = ptSource thr x pts n :=
  Sparrow.pt_isometry thr Q hQ x pts n

/-- scaling the patch about the point by any `s > 0` changes nothing: the share depends only
    on the directions from the point to the vertices -/
theorem pt_scaling (thr : ℝ) (x : Vec3 ℝ) (pts : Nat → Vec3 ℝ) (n : Nat) (s : ℝ) (hs : 0 < s) :
    ptSource thr x (fun i => add x (smul s (sub (pts i) x))) n = ptSource thr x pts n :=
  Sparrow.pt_scaling thr x pts n s hs

/-- translation invariance -/
theorem stokes_translation (cut : ℝ) (pi pj : Nat → Vec3 ℝ) (ni nj : Nat) (areaI : ℝ) (t : Vec3 ℝ) :
    stokesFF cut (fun k => add (pi k) t) (fun k => add (pj k) t) ni nj areaI = stokesFF cut pi pj ni nj areaI :=
  Sparrow.stokes_translation cut pi pj ni nj areaI t

/-- mirroring a coordinate axis (here `x ↦ -x`; the other axes by the permutation lemma) -/
theorem stokes_mirror_x (cut : ℝ) (pi pj : Nat → Vec3 ℝ) (ni nj : Nat) (areaI : ℝ) :
    stokesFF cut (fun k => ⟨-(pi k).x, (pi k).y, (pi k).z⟩) (fun k => ⟨-(pj k).x, (pj k).y, (pj k).z⟩) ni nj areaI =
      stokesFF cut pi pj ni nj areaI :=
  Sparrow.stokes_mirror_x cut pi pj ni nj areaI

/-- permuting the coordinate axes cyclically -/
theorem stokes_axis_cycle (cut : ℝ) (pi pj : Nat → Vec3 ℝ) (ni nj : Nat) (areaI : ℝ) :
    stokesFF cut (fun k => ⟨(pi k).z, (pi k).x, (pi k).y⟩) (fun k => ⟨(pj k).z, (pj k).x, (pj k).y⟩) ni nj areaI =
      stokesFF cut pi pj ni nj areaI :=
  Sparrow.stokes_axis_cycle cut pi pj ni nj areaI

/-- swapping two coordinate axes -/
theorem stokes_axis_swap (cut : ℝ) (pi pj : Nat → Vec3 ℝ) (ni nj : Nat) (areaI : ℝ) :
    stokesFF cut (fun k => ⟨(pi k).y, (pi k).x, (pi k).z⟩) (fun k => ⟨(pj k).y, (pj k).x, (pj k).z⟩) ni nj areaI =
      stokesFF cut pi pj ni nj areaI :=
  Sparrow.stokes_axis_swap cut pi pj ni nj areaI

/-- The Nusselt analogue depends only on the directions from the evaluation point to the patch:
    translating point and patch together changes nothing … -/
theorem nusseltAnalog_translation (origin sn pn t : Vec3 ℝ) (pts : Nat → Vec3 ℝ) (n : Nat) :
    nusseltAnalog (add origin t) sn (fun k => add (pts k) t) n pn = nusseltAnalog origin sn pts n pn :=
  Sparrow.nusseltAnalog_translation origin sn pn t pts n

/-- … and so does scaling the patch about the evaluation point by `s > 0`. -/
theorem nusseltAnalog_scaling (origin sn pn : Vec3 ℝ) (pts : Nat → Vec3 ℝ) (n : Nat) (s : ℝ) (hs : 0 < s) :
    nusseltAnalog origin sn (fun k => add origin (smul s (sub (pts k) origin))) n pn =
      nusseltAnalog origin sn pts n pn :=
  Sparrow.nusseltAnalog_scaling origin sn pn pts n s hs

/-- hence the form factor that `bake_geometry` stores is translation invariant, whichever
    integrator is chosen -/
theorem universalFF_translation (pi pj : Nat → Vec3 ℝ) (ni nj : Nat) (nrmI nrmJ t : Vec3 ℝ) (areaI : ℝ) :
    universalFF (fun k => add (pi k) t) ni nrmI areaI (fun k => add (pj k) t) nj nrmJ =
      universalFF pi ni nrmI areaI pj nj nrmJ :=
  Sparrow.universalFF_translation pi pj ni nj nrmI nrmJ t areaI

/-- Translation covariance: translating the wall by `t` translates every patch by `t`
    (same cell counts and sizes, anchor shifted). -/
theorem translation_covariant (w : Quad ℝ) (t : Nat → ℝ) (p : ℝ) (g : Grid ℝ) (hg : grid w p = some g) :
    ∃ g', grid (fun v a => w v a + t a) p = some g' ∧ g'.nx = g.nx ∧ g'.ny = g.ny ∧ g'.xIdx = g.xIdx ∧
      g'.yIdx = g.yIdx ∧ g'.rx = g.rx ∧ g'.ry = g.ry ∧
      ∀ ix iy v a, patchCoord (fun v a => w v a + t a) g' ix iy v a = patchCoord w g ix iy v a + t a :=
  Sparrow.translation_covariant w t p g hg

/-- The tiling depends on the wall only through its per-axis minima and maxima and its flat
    coordinates: re-ordering the vertices of a rectangle (any of the 8 orderings) changes nothing. -/
theorem vertex_order_free (w w' : Quad ℝ) (p : ℝ)
    (hmin : ∀ a, a < 3 → minOver (fun v => w v a) 4 = minOver (fun v => w' v a) 4)
    (hmax : ∀ a, a < 3 → maxOver (fun v => w v a) 4 = maxOver (fun v => w' v a) 4) :
    (grid w p).map (fun g => (g.nx, g.ny, g.xIdx, g.yIdx, g.xMin, g.yMin, g.rx, g.ry)) =
      (grid w' p).map (fun g => (g.nx, g.ny, g.xIdx, g.yIdx, g.xMin, g.yMin, g.rx, g.ry)) :=
  Sparrow.vertex_order_free w w' p hmin hmax

/-- Positive rescaling of the wall normal or up vector changes nothing. -/
theorem wallFrame_scale_free (n u v : Vec3 ℝ) (a b : ℝ) (ha : 0 < a) (hb : 0 < b) :
    wallFrame (smul a n) (smul b u) v = wallFrame n u v :=
  Sparrow.wallFrame_scale_free n u v a b ha hb

/-- It is a rigid rotation: inner products (hence lengths and angles) are preserved. -/
theorem wallFrame_isometry (n u v v' : Vec3 ℝ) (h : Orthonormal n u) :
    dot (wallFrame n u v) (wallFrame n u v') = dot v v' :=
  Sparrow.wallFrame_isometry n u v v' h

/-- Translation invariance of the plane part: translating both points and the plane point by `t`
    translates the projection point. -/
theorem projectToPlane_translation (eps : ℝ) (a b p0 n t : Vec3 ℝ) :
    projectToPlane eps (add a t) (add b t) (add p0 t) n = (projectToPlane eps a b p0 n).map (fun p => add p t) :=
  Sparrow.projectToPlane_translation eps a b p0 n t


theorem rotationToZ_orthogonal (n : Vec3 ℝ) (hn : dot n n ≠ 0) (v w : Vec3 ℝ) :
    dot ((rotationToZ n).mulVec v) ((rotationToZ n).mulVec w) = dot v w :=
  Sparrow.rotationToZ_orthogonal n hn v w


theorem basicVisibility_symm (eta : ℝ) (heta : 0 ≤ eta) (a b : Vec3 ℝ) (poly : Nat → Vec3 ℝ) (m : Nat) (n : Vec3 ℝ) :
    basicVisibility eta a b poly m n = basicVisibility eta b a poly m n :=
  Sparrow.basicVisibility_symm eta heta a b poly m n

end Sparrow.Props.C17

namespace Sparrow.Props.C17.Relabel
open Sparrow

/-- every order histogram is renumbered, nothing else changes -/
theorem orderH_relabel (sc : ExScene ℝ) (hwf : sc.WF) (σ τ : Nat → Nat) (h : IsRelabel sc.P σ τ)
    (k j d t : Nat) (hj : j < sc.P) :
    orderH (sc.relabel σ τ) k (σ j) d t = orderH sc k j d t :=
  Sparrow.orderH_relabel sc hwf σ τ h k j d t hj

/-- … hence the accumulated histograms -/
theorem etc_relabel (sc : ExScene ℝ) (hwf : sc.WF) (σ τ : Nat → Nat) (h : IsRelabel sc.P σ τ)
    (K j d t : Nat) (hj : j < sc.P) :
    etc (sc.relabel σ τ) K (σ j) d t = etc sc K j d t :=
  Sparrow.etc_relabel sc hwf σ τ h K j d t hj

/-- … and the receiver curve of the code (receiver data renumbered alike) is unchanged. -/
theorem monoCurveCode_relabel (sc : ExScene ℝ) (hwf : sc.WF) (σ τ : Nat → Nat) (h : IsRelabel sc.P σ τ)
    (K : Nat) (g w : Nat → ℝ) (binR : Nat → Nat) (t : Nat) :
    monoCurveCode (sc.relabel σ τ) K (fun j => g (τ j)) (fun j => w (τ j)) (fun j => binR (τ j)) t =
      monoCurveCode sc K g w binR t :=
  Sparrow.monoCurveCode_relabel sc hwf σ τ h K g w binR t

end Sparrow.Props.C17.Relabel

namespace Sparrow.Props.C17.SourceLeg
open Sparrow Sparrow.Generated.LegKernels

/-- **placement** (C17): moving source and room by one vector leaves the distances the translated source-leg kernel returns
    unchanged, patch by patch (whatever the point factor and the visibility vector) -/
theorem source2patchDistance_translation (pt pt' : (Nat → ℝ) → (Nat → Nat → ℝ) → ℝ) (P B : Nat) (src : Nat → ℝ)
    (pc : Nat → Nat → ℝ) (pp pp' : Nat → Nat → Nat → ℝ) (vis : Nat → Bool) (att : Option (Nat → ℝ)) (t : Nat → ℝ)
    (s0 s1 s2 s3 s4 : Nat) (j : Nat) (hj : j < P) :
    (source2patchEnergyUniversal pt' 3 (fun q => src q + t q) P 3 (fun k q => pc k q + t q) s0 s1 s2 pp' s3 vis s4 att B).2 j =
      (source2patchEnergyUniversal pt 3 src P 3 pc s0 s1 s2 pp s3 vis s4 att B).2 j :=
  Sparrow.source2patchDistance_translation pt pt' P B src pc pp pp' vis att t s0 s1 s2 s3 s4 j hj

end Sparrow.Props.C17.SourceLeg

namespace Sparrow.Props.C17.PatchAttrs
open Sparrow Sparrow.Generated.PatchAttrs Sparrow.Generated.PointFactor

/-- the centre follows a translation of the vertices (any polygon with at least one vertex) -/
theorem calculateCenter_translate (pts : Nat → Nat → ℝ) (n : Nat) (hn : 0 < n) (t : Nat → ℝ) (q : Nat) :
    calculateCenter (fun k q => pts k q + t q) n q = calculateCenter pts n q + t q :=
  Sparrow.calculateCenter_translate pts n hn t q

/-- size, area and normal do not change under a translation -/
theorem calculateSize_translate (pts : Nat → Nat → ℝ) (t : Nat → ℝ) (q : Nat) :
    calculateSize (fun k q => pts k q + t q) q = calculateSize pts q :=
  Sparrow.calculateSize_translate pts t q


theorem calculateNormals_translate (pts : Nat → Nat → ℝ) (t : Nat → ℝ) (q : Nat) :
    calculateNormals (fun k q => pts k q + t q) q = calculateNormals pts q :=
  Sparrow.calculateNormals_translate pts t q


theorem calculateArea_translate (thr : ℝ) (pts : Nat → Nat → ℝ) (n : Nat) (t : Nat → ℝ) :
    calculateArea thr (fun k q => pts k q + t q) n = calculateArea thr pts n :=
  Sparrow.calculateArea_translate thr pts n t

end Sparrow.Props.C17.PatchAttrs
