import Sparrow.Proofs.SourceLegComposed
import Sparrow.Proofs.SourceLegClosed
import Sparrow.Proofs.PointFactorEquiv
import Sparrow.Proofs.SourceGlueEquiv
import Sparrow.Proofs.LegKernelEquiv
import Sparrow.Proofs.PointPatchLemmas
/-
  C04 — Initial source energy is the solid-angle share of each patch.
  Model: Sparrow/Model/PointPatch.lean (`pt_solution`), Sparrow/Model/Source.lean (the gate).

  PROVED here: the factor depends only on the directions from the point to the vertices.
  NOT proved (measured by the check, reported as measured): that the spherical excess is the
  solid angle (Girard's theorem), hence the range [0, 1/2), the sum-to-one law over a closed
  room and the independence of the subdivision.
-/
namespace Sparrow.Props.C04
open Sparrow Vec3

/-- translating point and patch together changes nothing -/
theorem pt_translation (thr : ℝ) (x t : Vec3 ℝ) (pts : Nat → Vec3 ℝ) (n : Nat) :
    ptSource thr (add x t) (fun i => add (pts i) t) n = ptSource thr x pts n :=
  Sparrow.pt_translation thr x t pts n

/-- scaling the patch about the point by any `s > 0` changes nothing: the share depends only
    on the directions from the point to the vertices -/
theorem pt_scaling (thr : ℝ) (x : Vec3 ℝ) (pts : Nat → Vec3 ℝ) (n : Nat) (s : ℝ) (hs : 0 < s) :
    ptSource thr x (fun i => add x (smul s (sub (pts i) x))) n = ptSource thr x pts n :=
  Sparrow.pt_scaling thr x pts n s hs

/-- invariance under every linear isometry (rotations and reflections) -/
theorem pt_isometry (thr : ℝ) (Q : Vec3 ℝ → Vec3 ℝ) (hQ : LinIso Q) (x : Vec3 ℝ) (pts : Nat → Vec3 ℝ) (n : Nat) :
    ptSource thr (Q x) (fun i => Q (pts i)) n = ptSource thr x pts n :=
  Sparrow.pt_isometry thr Q hQ x pts n

/-- reversing the vertex order (the other winding) changes nothing -/
theorem pt_vertex_reverse (thr : ℝ) (x : Vec3 ℝ) (pts : Nat → Vec3 ℝ) (n : Nat) (hn : 0 < n) :
    ptSource thr x (fun i => pts (n - 1 - i % n)) n = ptSource thr x pts n :=
  Sparrow.pt_vertex_reverse thr x pts n hn

/-- starting the vertex list at another vertex changes nothing -/
theorem pt_vertex_rotate (thr : ℝ) (x : Vec3 ℝ) (pts : Nat → Vec3 ℝ) (n k : Nat) (hn : 0 < n) :
    ptSource thr x (fun i => pts ((i + k) % n)) n = ptSource thr x pts n :=
  Sparrow.pt_vertex_rotate thr x pts n k hn

/-- patches that the source cannot see get exactly zero energy and zero distance -/
theorem source_gate_zero (d pt : ℝ) (att : Option ℝ) :
    sourceEnergy false d att pt = 0 ∧ sourceDistance false d = 0 :=
  Sparrow.source_gate_zero d pt att

/-- visible patches: the solid-angle share times the attenuation over the centre distance -/
theorem source_visible (d m pt : ℝ) :
    sourceEnergy true d (some m) pt = Real.exp (-m * d) * pt ∧ sourceEnergy true d none pt = pt ∧
      sourceDistance true d = d :=
  Sparrow.source_visible d m pt

end Sparrow.Props.C04

namespace Sparrow.Props.C04.SourceLeg
open Sparrow Sparrow.Generated.LegKernels

/-- `_source2patch_energy_universal` (translated), energy of patch `j` in band `b`: exactly `0` for a
    patch the source does not see, else `exp(-m_b · d_j) · pt_j` (no attenuation: `pt_j`), `d_j` the
    distance from the source to the patch centre. -/
theorem source2patchEnergy_eq (pt : (Nat → ℝ) → (Nat → Nat → ℝ) → ℝ) (P B : Nat) (src : Nat → ℝ)
    (pc : Nat → Nat → ℝ) (pp : Nat → Nat → Nat → ℝ) (vis : Nat → Bool) (att : Option (Nat → ℝ))
    (s0 s1 s2 s3 s4 : Nat) (j b : Nat) (hj : j < P) :
    (source2patchEnergyUniversal pt 3 src P 3 pc s0 s1 s2 pp s3 vis s4 att B).1 j b =
      sourceEnergy (vis j) (Vec3.norm (Vec3.sub ⟨src 0, src 1, src 2⟩ ⟨pc j 0, pc j 1, pc j 2⟩))
        (att.map fun a => a b) (pt src (fun v q => pp j v q)) :=
  Sparrow.source2patchEnergy_eq pt P B src pc pp vis att s0 s1 s2 s3 s4 j b hj

/-- … and its distance output: `0` for a hidden patch, else the source–centre distance. -/
theorem source2patchDistance_eq (pt : (Nat → ℝ) → (Nat → Nat → ℝ) → ℝ) (P B : Nat) (src : Nat → ℝ)
    (pc : Nat → Nat → ℝ) (pp : Nat → Nat → Nat → ℝ) (vis : Nat → Bool) (att : Option (Nat → ℝ))
    (s0 s1 s2 s3 s4 : Nat) (j : Nat) (hj : j < P) :
    (source2patchEnergyUniversal pt 3 src P 3 pc s0 s1 s2 pp s3 vis s4 att B).2 j =
      sourceDistance (vis j) (Vec3.norm (Vec3.sub ⟨src 0, src 1, src 2⟩ ⟨pc j 0, pc j 1, pc j 2⟩)) :=
  Sparrow.source2patchDistance_eq pt P B src pc pp vis att s0 s1 s2 s3 s4 j hj

/-- a patch the source does not see gets exactly nothing, in every band, and distance `0` -/
theorem source2patch_hidden_zero (pt : (Nat → ℝ) → (Nat → Nat → ℝ) → ℝ) (P B : Nat) (src : Nat → ℝ)
    (pc : Nat → Nat → ℝ) (pp : Nat → Nat → Nat → ℝ) (vis : Nat → Bool) (att : Option (Nat → ℝ))
    (s0 s1 s2 s3 s4 : Nat) (j b : Nat) (hj : j < P) (hv : vis j = false) :
    (source2patchEnergyUniversal pt 3 src P 3 pc s0 s1 s2 pp s3 vis s4 att B).1 j b = 0 ∧
    (source2patchEnergyUniversal pt 3 src P 3 pc s0 s1 s2 pp s3 vis s4 att B).2 j = 0 :=
  Sparrow.source2patch_hidden_zero pt P B src pc pp vis att s0 s1 s2 s3 s4 j b hj hv

end Sparrow.Props.C04.SourceLeg

namespace Sparrow.Props.C04.SourceGlue
open Sparrow Sparrow.Generated.SourceGlue Sparrow.Generated.BakeKernels Sparrow.Generated.LegKernels


theorem initSourceEnergy_visibility
    (vis : (Nat → ℝ) → (Nat → Nat → ℝ) → (Nat → Nat → ℝ) → (Nat → Nat → Nat → ℝ) → Nat → Bool)
    (pt : (Nat → ℝ) → (Nat → Nat → ℝ) → ℝ) (isSS : Bool) (g : Option ((Nat → Nat → ℝ) → ℝ → Nat → ℝ))
    (P B W T nIn D : Nat) (src : Nat → ℝ) (wall : Nat → Nat) (dirsIn dirsOut : Nat → Nat → Nat → ℝ)
    (brdf : Nat → Nat → Nat → Nat → ℝ) (bidx : Nat → Nat) (pc : Nat → Nat → ℝ) (wp : Nat → Nat → Nat → ℝ)
    (wn : Nat → Nat → ℝ) (pp : Nat → Nat → Nat → ℝ) (att freq : Nat → ℝ)
    (s0 s1 s2 s3 s4 s5 s6 s7 s8 s9 s10 s11 s12 : Nat) (p : Nat) :
    (initSourceEnergy vis pt isSS g 3 src s0 wall W nIn 3 dirsIn s1 D s2 dirsOut T nIn D B brdf s3 bidx P 3 pc
      s4 s5 s6 wp s7 s8 wn s9 s10 s11 pp s12 att B freq B).1 p = vis src pc wn wp p :=
  Sparrow.initSourceEnergy_visibility vis pt isSS g P B W T nIn D src wall dirsIn dirsOut brdf bidx pc wp wn pp att freq s0 s1 s2 s3 s4 s5 s6 s7 s8 s9 s10 s11 s12 p

/-- the stored distances -/
theorem initSourceEnergy_distance
    (vis : (Nat → ℝ) → (Nat → Nat → ℝ) → (Nat → Nat → ℝ) → (Nat → Nat → Nat → ℝ) → Nat → Bool)
    (pt : (Nat → ℝ) → (Nat → Nat → ℝ) → ℝ) (isSS : Bool) (g : Option ((Nat → Nat → ℝ) → ℝ → Nat → ℝ))
    (P B W T nIn D : Nat) (src : Nat → ℝ) (wall : Nat → Nat) (dirsIn dirsOut : Nat → Nat → Nat → ℝ)
    (brdf : Nat → Nat → Nat → Nat → ℝ) (bidx : Nat → Nat) (pc : Nat → Nat → ℝ) (wp : Nat → Nat → Nat → ℝ)
    (wn : Nat → Nat → ℝ) (pp : Nat → Nat → Nat → ℝ) (att freq : Nat → ℝ)
    (s0 s1 s2 s3 s4 s5 s6 s7 s8 s9 s10 s11 s12 : Nat) (p : Nat) (hp : p < P) :
    (initSourceEnergy vis pt isSS g 3 src s0 wall W nIn 3 dirsIn s1 D s2 dirsOut T nIn D B brdf s3 bidx P 3 pc
      s4 s5 s6 wp s7 s8 wn s9 s10 s11 pp s12 att B freq B).2.2 p =
      sourceDistance (vis src pc wn wp p) (Vec3.norm (Vec3.sub ⟨src 0, src 1, src 2⟩ ⟨pc p 0, pc p 1, pc p 2⟩)) :=
  Sparrow.initSourceEnergy_distance vis pt isSS g P B W T nIn D src wall dirsIn dirsOut brdf bidx pc wp wn pp att freq s0 s1 s2 s3 s4 s5 s6 s7 s8 s9 s10 s11 s12 p hp

/-- **the stored initial energy**, patch `p`, outgoing direction `d`, band `b` -/
theorem initSourceEnergy_energy
    (vis : (Nat → ℝ) → (Nat → Nat → ℝ) → (Nat → Nat → ℝ) → (Nat → Nat → Nat → ℝ) → Nat → Bool)
    (pt : (Nat → ℝ) → (Nat → Nat → ℝ) → ℝ) (isSS : Bool) (g : Option ((Nat → Nat → ℝ) → ℝ → Nat → ℝ))
    (P B W T nIn D : Nat) (src : Nat → ℝ) (wall : Nat → Nat) (dirsIn dirsOut : Nat → Nat → Nat → ℝ)
    (brdf : Nat → Nat → Nat → Nat → ℝ) (bidx : Nat → Nat) (pc : Nat → Nat → ℝ) (wp : Nat → Nat → Nat → ℝ)
    (wn : Nat → Nat → ℝ) (pp : Nat → Nat → Nat → ℝ) (att freq : Nat → ℝ)
    (s0 s1 s2 s3 s4 s5 s6 s7 s8 s9 s10 s11 s12 : Nat)
    (visM : Nat → Nat → Bool) (F : Nat → Nat → ℝ) (area : Nat → ℝ) (attM : Option (Nat → ℝ))
    (p d b : Nat) (hp : p < P) (hb : b < B) :
    (initSourceEnergy vis pt isSS g 3 src s0 wall W nIn 3 dirsIn s1 D s2 dirsOut T nIn D B brdf s3 bidx P 3 pc
      s4 s5 s6 wp s7 s8 wn s9 s10 s11 pp s12 att B freq B).2.1 p d b =
      (bakeSceneOfArgs P D nIn visM F pc area attM wall (some brdf) bidx dirsIn dirsOut b).addDirectional
          ⟨src 0, src 1, src 2⟩
          (fun k => sourceEnergy (vis src pc wn wp k)
            (Vec3.norm (Vec3.sub ⟨src 0, src 1, src 2⟩ ⟨pc k 0, pc k 1, pc k 2⟩)) (some (att b)) (pt src (fun v q => pp k v q))) p d
        * glueDirFactor isSS g pc freq p b :=
  Sparrow.initSourceEnergy_energy vis pt isSS g P B W T nIn D src wall dirsIn dirsOut brdf bidx pc wp wn pp att freq s0 s1 s2 s3 s4 s5 s6 s7 s8 s9 s10 s11 s12 visM F area attM p d b hp hb

/-- a patch the source does not see is initialised with exactly nothing, in every direction and band -/
theorem initSourceEnergy_hidden_zero
    (vis : (Nat → ℝ) → (Nat → Nat → ℝ) → (Nat → Nat → ℝ) → (Nat → Nat → Nat → ℝ) → Nat → Bool)
    (pt : (Nat → ℝ) → (Nat → Nat → ℝ) → ℝ) (isSS : Bool) (g : Option ((Nat → Nat → ℝ) → ℝ → Nat → ℝ))
    (P B W T nIn D : Nat) (src : Nat → ℝ) (wall : Nat → Nat) (dirsIn dirsOut : Nat → Nat → Nat → ℝ)
    (brdf : Nat → Nat → Nat → Nat → ℝ) (bidx : Nat → Nat) (pc : Nat → Nat → ℝ) (wp : Nat → Nat → Nat → ℝ)
    (wn : Nat → Nat → ℝ) (pp : Nat → Nat → Nat → ℝ) (att freq : Nat → ℝ)
    (s0 s1 s2 s3 s4 s5 s6 s7 s8 s9 s10 s11 s12 : Nat)
    (p d b : Nat) (hp : p < P) (hb : b < B) (hv : vis src pc wn wp p = false) :
    (initSourceEnergy vis pt isSS g 3 src s0 wall W nIn 3 dirsIn s1 D s2 dirsOut T nIn D B brdf s3 bidx P 3 pc
      s4 s5 s6 wp s7 s8 wn s9 s10 s11 pp s12 att B freq B).2.1 p d b = 0 :=
  Sparrow.initSourceEnergy_hidden_zero vis pt isSS g P B W T nIn D src wall dirsIn dirsOut brdf bidx pc wp wn pp att freq s0 s1 s2 s3 s4 s5 s6 s7 s8 s9 s10 s11 s12 p d b hp hb hv

end Sparrow.Props.C04.SourceGlue

namespace Sparrow.Props.C04.PointFactor
open Sparrow Sparrow.Generated.PointFactor


theorem sphereTangentVector_eq {α : Type} [Add α] [Sub α] [Mul α] [Div α] [Neg α] [Zero α] [Cmp α] [Transc α] [NatCast α]
    (thr : α) (v0 v1 : Nat → α) :
    Vec3.ofFn (sphereTangentVector thr v0 v1) = sphereTangent thr (Vec3.ofFn v0) (Vec3.ofFn v1) :=
  Sparrow.sphereTangentVector_eq thr v0 v1


theorem polygonAreaT_eq (thr : ℝ) (pts : Nat → Nat → ℝ) (n : Nat) :
    polygonAreaT thr pts n = polygonArea (ptsOf pts) n :=
  Sparrow.polygonAreaT_eq thr pts n

/-- **`pt_solution(point, patch, mode="source")` as translated = the model's `ptSource`** (spherical excess of the patch seen
    from the point, divided by `4π`) -/
theorem ptSolutionSource_eq (thr : ℝ) (x : Nat → ℝ) (pts : Nat → Nat → ℝ) (n : Nat) :
    ptSolutionSource thr x pts n = ptSource thr (Vec3.ofFn x) (ptsOf pts) n :=
  Sparrow.ptSolutionSource_eq thr x pts n

/-- **`pt_solution(point, patch, mode="receiver")` as translated = the model's `ptReceiver`** (… divided by `π · area`) -/
theorem ptSolutionReceiver_eq (thr : ℝ) (x : Nat → ℝ) (pts : Nat → Nat → ℝ) (n : Nat) :
    ptSolutionReceiver thr x pts n = ptReceiver thr (Vec3.ofFn x) (ptsOf pts) n :=
  Sparrow.ptSolutionReceiver_eq thr x pts n

end Sparrow.Props.C04.PointFactor

namespace Sparrow.Props.C04.Closed
open Sparrow Sparrow.Generated.LegKernels Sparrow.Generated.PointFactor

/-- source leg, all of it translated: energy of patch `j` (a quadrilateral), band `b` -/
theorem source2patchEnergy_closed (thr : ℝ) (P B : Nat) (src : Nat → ℝ) (pc : Nat → Nat → ℝ) (pp : Nat → Nat → Nat → ℝ)
    (vis : Nat → Bool) (att : Option (Nat → ℝ)) (s0 s1 s2 s3 s4 : Nat) (j b : Nat) (hj : j < P) :
    (source2patchEnergyUniversal (fun p q => ptSolutionSource thr p q 4) 3 src P 3 pc s0 s1 s2 pp s3 vis s4 att B).1 j b =
      sourceEnergy (vis j) (Vec3.norm (Vec3.sub ⟨src 0, src 1, src 2⟩ ⟨pc j 0, pc j 1, pc j 2⟩)) (att.map fun a => a b)
        (ptSource thr (Vec3.ofFn src) (ptsOf (fun v q => pp j v q)) 4) :=
  Sparrow.source2patchEnergy_closed thr P B src pc pp vis att s0 s1 s2 s3 s4 j b hj

end Sparrow.Props.C04.Closed

namespace Sparrow.Props.C04.Composed
open Sparrow Sparrow.Generated.LegKernels Sparrow.Generated.PointFactor Sparrow.Generated.VisibilityFn Sparrow.Generated.PolygonFn


theorem srcVisT_eq (thr eta : ℝ) (src : Nat → ℝ) (pc : Nat → Nat → ℝ) (wp : Nat → Nat → Nat → ℝ) (nvw : Nat)
    (wn : Nat → Nat → ℝ) (nS j : Nat) :
    srcVisT thr eta src pc wp nvw wn nS j =
      visibleThroughAll eta (Vec3.ofFn src) (Vec3.ofFn (fun q => pc j q)) nS
        (fun s => ptsOf (fun k q => wp s k q)) nvw (fun s => Vec3.ofFn (fun q => wn s q)) :=
  Sparrow.srcVisT_eq thr eta src pc wp nvw wn nS j

/-- **a patch hidden from the source (or seen from behind, or coplanar) receives exactly zero** — the composed regenerated text,
    every scene, every band, with or without attenuation -/
theorem source2patch_composed_hidden_zero (thr eta : ℝ) (P B nvp : Nat) (src : Nat → ℝ) (pc : Nat → Nat → ℝ)
    (pp : Nat → Nat → Nat → ℝ) (wp : Nat → Nat → Nat → ℝ) (nvw : Nat) (wn : Nat → Nat → ℝ) (nS : Nat) (att : Option (Nat → ℝ))
    (s0 s1 s2 s3 s4 : Nat) (j b : Nat) (hj : j < P)
    (hv : visibleThroughAll eta (Vec3.ofFn src) (Vec3.ofFn (fun q => pc j q)) nS
        (fun s => ptsOf (fun k q => wp s k q)) nvw (fun s => Vec3.ofFn (fun q => wn s q)) = false) :
    (source2patchEnergyUniversal (fun x pts => ptSolutionSource thr x pts nvp) 3 src P 3 pc s0 s1 s2 pp s3
        (srcVisT thr eta src pc wp nvw wn nS) s4 att B).1 j b = 0 :=
  Sparrow.source2patch_composed_hidden_zero thr eta P B nvp src pc pp wp nvw wn nS att s0 s1 s2 s3 s4 j b hj hv

/-- **a visible patch receives the solid-angle share of the model (`ptSource`), times `exp(-m d)` if there is attenuation** -/
theorem source2patch_composed_visible (thr eta : ℝ) (P B nvp : Nat) (src : Nat → ℝ) (pc : Nat → Nat → ℝ)
    (pp : Nat → Nat → Nat → ℝ) (wp : Nat → Nat → Nat → ℝ) (nvw : Nat) (wn : Nat → Nat → ℝ) (nS : Nat) (att : Option (Nat → ℝ))
    (s0 s1 s2 s3 s4 : Nat) (j b : Nat) (hj : j < P)
    (hv : visibleThroughAll eta (Vec3.ofFn src) (Vec3.ofFn (fun q => pc j q)) nS
        (fun s => ptsOf (fun k q => wp s k q)) nvw (fun s => Vec3.ofFn (fun q => wn s q)) = true) :
    (source2patchEnergyUniversal (fun x pts => ptSolutionSource thr x pts nvp) 3 src P 3 pc s0 s1 s2 pp s3
        (srcVisT thr eta src pc wp nvw wn nS) s4 att B).1 j b =
      sourceEnergy true (Vec3.norm (Vec3.sub ⟨src 0, src 1, src 2⟩ ⟨pc j 0, pc j 1, pc j 2⟩)) (att.map fun a => a b)
        (ptSource thr (Vec3.ofFn src) (ptsOf (fun v q => pp j v q)) nvp) :=
  Sparrow.source2patch_composed_visible thr eta P B nvp src pc pp wp nvw wn nS att s0 s1 s2 s3 s4 j b hj hv

end Sparrow.Props.C04.Composed
