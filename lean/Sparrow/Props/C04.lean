import Sparrow.Proofs.PointPatchLemmas
/-
  C04 — Initial source energy is the solid-angle share of each patch.
  Model: Sparrow/Model/PointPatch.lean (`pt_solution`), Sparrow/Model/Source.lean (the gate).

  PROVED here: the factor depends only on the directions from the point to the vertices.
  NOT proved (measured by the check, reported as measured): that the spherical excess is the
  solid angle (Girard's theorem), hence the range [0, 1/2), the sum-to-one law over a closed
  room and the independence of the subdivision.
-/
namespace Sparrow.Props.C04
open Sparrow Vec3

/-- translating point and patch together changes nothing -/
theorem pt_translation (thr : ℝ) (x t : Vec3 ℝ) (pts : Nat → Vec3 ℝ) (n : Nat) :
    ptSource thr (add x t) (fun i => add (pts i) t) n = ptSource thr x pts n :=
  Sparrow.pt_translation thr x t pts n

/-- scaling the patch about the point by any `s > 0` changes nothing: the share depends only
    on the directions from the point to the vertices -/
theorem pt_scaling (thr : ℝ) (x : Vec3 ℝ) (pts : Nat → Vec3 ℝ) (n : Nat) (s : ℝ) (hs : 0 < s) :
    ptSource thr x (fun i => add x (smul s (sub (pts i) x))) n = ptSource thr x pts n :=
  Sparrow.pt_scaling thr x pts n s hs

/-- invariance under every linear isometry (rotations and reflections) -/
theorem pt_isometry (thr : ℝ) (Q : Vec3 ℝ → Vec3 ℝ) (hQ : LinIso Q) (x : Vec3 ℝ) (pts : Nat → Vec3 ℝ) (n : Nat) :
    ptSource thr (Q x) (fun i => Q (pts i)) n = ptSource thr x pts n :=
  Sparrow.pt_isometry thr Q hQ x pts n

/-- reversing the vertex order (the other winding) changes nothing -/
theorem pt_vertex_reverse (thr : ℝ) (x : Vec3 ℝ) (pts : Nat → Vec3 ℝ) (n : Nat) (hn : 0 < n) :
    ptSource thr x (fun i => pts (n - 1 - i % n)) n = ptSource thr x pts n :=
  Sparrow.pt_vertex_reverse thr x pts n hn

/-- starting the vertex list at another vertex changes nothing -/
theorem pt_vertex_rotate (thr : ℝ) (x : Vec3 ℝ) (pts : Nat → Vec3 ℝ) (n k : Nat) (hn : 0 < n) :
    ptSource thr x (fun i => pts ((i + k) % n)) n = ptSource thr x pts n :=
  Sparrow.pt_vertex_rotate thr x pts n k hn

/-- patches that the source cannot see get exactly zero energy and zero distance -/
theorem source_gate_zero (d pt : ℝ) (att : Option ℝ) :
    sourceEnergy false d att pt = 0 ∧ sourceDistance false d = 0 :=
  Sparrow.source_gate_zero d pt att

/-- visible patches: the solid-angle share times the attenuation over the centre distance -/
theorem source_visible (d m pt : ℝ) :
    sourceEnergy true d (some m) pt = Real.exp (-m * d) * pt ∧ sourceEnergy true d none pt = pt ∧
      sourceDistance true d = d :=
  Sparrow.source_visible d m pt

end Sparrow.Props.C04
