import Sparrow.Proofs.SetterGlueEquiv
import Sparrow.Proofs.ShapeLemmas
import Sparrow.Proofs.CheckSound
/-
  C18 — Inconsistent simulation states are rejected, not simulated.

  `Generated.checkGen`, `Generated.convert`, `Generated.Cfg` are regenerated from
  `DirectionalRadiosityFast.__init__` / `check()` on every run (symbolic execution of the
  method body); `Valid` is written by hand from the constructor docstring.
-/
namespace Sparrow.Props.C18
open Sparrow Sparrow.Generated

/-- Whatever the constructor accepts (after its `atleast_nd` conversions) satisfies every
    documented constraint — for all ranks, lengths, id lists and scalars. -/
theorem check_sound (raw : Cfg) (h : checkGen (convert raw) = .ok ()) : Valid (convert raw) :=
  Sparrow.check_sound (convert raw) h

/-- A rejection is a `ValueError`, never another exception kind. -/
theorem rejects_with_value_error (raw : Cfg) (h : checkGen (convert raw) ≠ .ok ()) :
    checkGen (convert raw) = .error .valueError :=
  Sparrow.check_rejects_with_valueError (convert raw) h

/-- Valid states are always accepted (every wall owning a patch, as every constructed or
    restored object has). -/
theorem valid_accepted (c : Cfg) (hv : Valid c)
    (hown : ∀ w : Nat, (w : Int) < c.walls_points.getD 0 0 → (w : Int) ∈ c.patch_to_wall_ids) :
    checkGen c = .ok () :=
  Sparrow.valid_accepted c hv hown

/-- A concrete saved state after the energy exchange (6 walls, 10 patches, 2 bands, 1
    direction, 30 samples): accepted — the premises of `check_sound` are satisfiable. -/
def demo : Cfg where
  walls_points := [6, 4, 3]
  walls_normal := [6, 3]
  walls_up_vector := [6, 3]
  patches_points := [10, 4, 3]
  n_patches := 10
  patch_to_wall_ids_shape := [10]
  patch_to_wall_ids := [0, 0, 1, 1, 2, 2, 3, 3, 4, 5]
  visibility_matrix := some [10, 10]
  visible_patches := some [37, 2]
  form_factors := some [10, 10]
  form_factors_tilde := some [10, 10, 1, 2]
  frequencies := some [2]
  brdf := some 1
  brdf_index := some [6]
  brdf_incoming_directions := some (List.replicate 6 (true, 1))
  brdf_outgoing_directions := some (List.replicate 6 (true, 1))
  patch_2_brdf_outgoing_index := some [10, 10]
  air_attenuation := some [2]
  speed_of_sound := some 343
  etc_time_resolution := some (1 / 500)
  etc_duration := some (3 / 50)
  distance_patches_to_source := some [10]
  energy_init_source := some [10, 1, 2]
  energy_exchange_etc := some [10, 1, 2, 30]

def isOk : Except Err Unit → Bool
  | .ok _ => true
  | .error _ => false

def isValueError : Except Err Unit → Bool
  | .error .valueError => true
  | _ => false

example : isOk (checkGen (convert demo)) = true := by decide +kernel

/-- Catalogue corruptions of that state are rejected with ValueError (kernel-evaluated). -/
example : isValueError (checkGen (convert { demo with walls_points := [6, 4, 3, 1] })) = true := by decide +kernel
example : isValueError (checkGen (convert { demo with patch_to_wall_ids := [0, 0, 1, 1, 2, 2, 3, 3, 4, 6] })) = true := by decide +kernel
example : isValueError (checkGen (convert { demo with etc_duration := none })) = true := by decide +kernel
example : isValueError (checkGen (convert { demo with speed_of_sound := some 0 })) = true := by decide +kernel
example : isValueError (checkGen (convert { demo with energy_exchange_etc := some [10, 1, 2, 29] })) = true := by decide +kernel

end Sparrow.Props.C18

namespace Sparrow.Props.C18.Shape
open Sparrow.Shape Sparrow Sparrow.Generated

/-- **Main theorem.** For every state reachable from `from_polygon` by any history of successful
    calls: saving and restoring is accepted by the generated `check()` iff the state is neither
    partially set (D13) nor stale (D15). -/
theorem reachable_accepted_iff (W nv P : Nat) (ids : List Int) (hg : GeomOK W P ids)
    (ops : List Op) (s : St) (h : run (fresh W nv P ids) ops = some s) :
    accepted s = true ↔ (DirsComplete s ∧ Fresh s) :=
  Sparrow.Shape.reachable_accepted_iff W nv P ids hg ops s h

/-- The regular pipeline — materials on all walls, attenuation, bake, source, exchange — can be
    saved and restored after each of its stages, whatever the sizes and parameters. -/
theorem regular_pipeline_accepted (W nv P : Nat) (ids : List Int) (hg : GeomOK W P ids) (hW : 0 < W)
    (nIn nOut : Nat) (f : Freq) (nVis : Nat) (c dt dur : Rat) (hc : 0 < c) (hdt : 0 < dt) (hdur : 0 < dur)
    (order : Int) (k : Nat) :
    ∃ s, run (fresh W nv P ids)
        ([Op.setBrdf (List.range W) nIn nOut f, Op.setAtt f, Op.bake nVis, Op.init,
          Op.exchange c dt dur order true].take k) = some s ∧ accepted s = true :=
  Sparrow.Shape.regular_pipeline_accepted W nv P ids hg hW nIn nOut f nVis c dt dur hc hdt hdur order k

/-- The same without any material: the defaults installed by `init_source_energy` are consistent. -/
theorem default_pipeline_accepted (W nv P : Nat) (ids : List Int) (hg : GeomOK W P ids) (hW : 0 < W)
    (nVis : Nat) (c dt dur : Rat) (hc : 0 < c) (hdt : 0 < dt) (hdur : 0 < dur) (order : Int) (k : Nat) :
    ∃ s, run (fresh W nv P ids)
        ([Op.bake nVis, Op.init, Op.exchange c dt dur order true].take k) = some s ∧ accepted s = true :=
  Sparrow.Shape.default_pipeline_accepted W nv P ids hg hW nVis c dt dur hc hdt hdur order k

/-- A save/restore never changes what is stored. -/
theorem saveRestore_id (s t : St) (h : step s Op.saveRestore = some t) : t = s :=
  Sparrow.Shape.saveRestore_id s t h

end Sparrow.Props.C18.Shape

namespace Sparrow.Props.C18.SetterGlue
open Sparrow Sparrow.Generated.SetterGlue

/-- a frequency vector that does not match the object's refuses the call (nothing is returned, nothing changes) -/
theorem setWallBrdf_refuses_mismatch (rotate : (Nat → ℝ) → (Nat → ℝ) → C → C → C × C) (n : Nat) (wn wu : Nat → Nat → ℝ)
    (st : MatState ℝ C) (ws : List Nat) (fq f0 : Nat × (Nat → ℝ)) (T : Nat → Nat → Nat → ℝ) (inc out : C)
    (ok1 ok2 : Bool) (e : Nat → Nat → Nat → Nat → ℝ) (hf : st.frequencies = some f0)
    (hne : f0.1 ≠ fq.1 ∨ ∃ k, k < f0.1 ∧ f0.2 k ≠ fq.2 k) :
    setWallBrdf rotate n wn wu st ws fq T inc out ok1 ok2 e = none :=
  Sparrow.setWallBrdf_refuses_mismatch rotate n wn wu st ws fq f0 T inc out ok1 ok2 e hf hne

end Sparrow.Props.C18.SetterGlue
