import Sparrow.Model.Lifecycle
namespace Sparrow.Props.C16
theorem placeholder : True := trivial
end Sparrow.Props.C16
