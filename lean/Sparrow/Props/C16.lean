import Sparrow.Proofs.SetterGlueEquiv
import Sparrow.Proofs.ExchangeGlueEquiv
import Sparrow.Proofs.LifeLemmas
import Sparrow.Generated.Lifecycle
/-
  C16 — A baked object can be reused: results depend only on the final configuration.
-/
namespace Sparrow.Props.C16
open Sparrow.Life Sparrow.Generated

/-- For every history of the grammar `setters* ; bake+ ; (init+ ; exchange(recalculate)+)*` the
    whole state — hence every histogram and every receiver curve — equals that of a fresh object
    configured the same way (same setters, one bake, the last source, the last parameters). -/
theorem config_determines (W : Nat) (g : String) (h : Hist)
    (hset : ∀ o ∈ h.setters, o.isSetter = true) :
    run (fresh W g) h.ops = run (fresh W g) h.canonical :=
  Sparrow.Life.config_determines W g h hset

/-- Repeating a stage with the same arguments changes nothing. -/
theorem stage_idempotent (s : St) (op : Op)
    (h : op = .bake ∨ (∃ src, op = .init src) ∨ (∃ p z r, op = .exchange p z r) ∨ (∃ a, op = .setAtt a) ∨
      op = .saveRestore) :
    step (step s op) op = step s op :=
  Sparrow.Life.stage_idempotent s op h

/-- The order of the setters does not matter: attenuation and wall BRDF commute exactly … -/
theorem setAtt_setBrdf_comm (s : St) (a : String) (walls : List Nat) (m : String) :
    setAtt (setBrdf s walls m) a = setBrdf (setAtt s a) walls m :=
  Sparrow.Life.setAtt_setBrdf_comm s a walls m

/-- … two wall-BRDF calls on disjoint wall sets commute up to the private numbering of the
    tables, provided every wall ends up with a table (the proof forces this: a wall without a
    table reads `_brdf[-1]`, the table set *last* — `setBrdf_comm_counterexample`; the real code
    cannot bake such a state at all, its direction list holds `None` for that wall) … -/
theorem setBrdf_comm (s : St) (w1 w2 : List Nat) (m1 m2 : String)
    (hdisj : ∀ w, w ∈ w1 → w ∉ w2)
    (hcover : ∀ w, w < s.W → w ∈ w1 ∨ w ∈ w2 ∨
      (s.dirsIn.isSome = true ∧ ∃ ix, s.index = some ix ∧ 0 ≤ ix.getD w (-1) ∧ ix.length = s.W))
    (hlen : s.dirsIn.isSome = true → (s.dirsIn.getD []).length = s.W ∧ (s.dirsOut.getD []).length = s.W ∧
      s.dirsOut.isSome = true ∧ ∀ ix, s.index = some ix → ∀ w, w < s.W → ix.getD w (-1) < s.brdf.length)
    (hixlen : s.dirsIn.isSome = true → ∀ ix, s.index = some ix → s.W ≤ ix.length) :
    matEq (setBrdf (setBrdf s w1 m1) w2 m2) (setBrdf (setBrdf s w2 m2) w1 m1) :=
  Sparrow.Life.setBrdf_comm s w1 w2 m1 m2 hdisj hcover hlen hixlen

/-- … and everything downstream reads the materials only through the per-wall effective
    tables, so objects with the same materials stay indistinguishable. -/
theorem same_materials_same_results (a b : St) (h : matEq a b) (op : Op) (hop : op.isSetter = false) :
    matEq (step a op) (step b op) :=
  Sparrow.Life.matEq_step a b h op hop

/-- No method of the class stores into, augments or calls a mutating method on one of its
    parameters (list of such sites extracted from the source: empty). -/
theorem inputs_untouched : paramMutationSites = [] := by decide

/-- The read footprints that make the above true of the code: the energy exchange reads only
    what init and bake wrote (plus geometry); init reads geometry and materials only. -/
theorem read_footprints_as_modelled :
    reads "calculate_energy_exchange" = ["_distance_patches_to_source", "_energy_exchange_etc", "_energy_init_source",
      "_form_factors_tilde", "_n_patches", "_patch_2_brdf_outgoing_index", "_patches_points", "_visible_patches"] ∧
    reads "init_source_energy" = ["_air_attenuation", "_brdf", "_brdf_incoming_directions", "_brdf_index",
      "_brdf_outgoing_directions", "_frequencies", "_patch_to_wall_ids", "_patches_points", "_walls_normal",
      "_walls_points", "_walls_up_vector"] ∧
    ((reads "bake_geometry").all fun a => !(["_energy_init_source", "_energy_exchange_etc", "_distance_patches_to_source",
      "_source", "_speed_of_sound", "_etc_duration", "_etc_time_resolution"].contains a)) = true := by decide

/-- The energy exchange stores only its histogram and the three run parameters: it does not
    write (assign, element-assign or mutate through a local alias) anything it or a later stage
    reads — in particular not the initial energies or the baked factors. -/
theorem exchange_writes_only_its_outputs :
    writes "calculate_energy_exchange" = ["_energy_exchange_etc", "_etc_duration", "_etc_time_resolution", "_speed_of_sound"] ∧
    writes "collect_energy_receiver_mono" = [] ∧ writes "collect_energy_receiver_patchwise" = [] ∧
    writes "calculate_direct_sound" = [] ∧
    writes "bake_geometry" = ["_form_factors", "_form_factors_tilde", "_patch_2_brdf_outgoing_index", "_visibility_matrix", "_visible_patches"] := by decide

/-- Non-vacuity: a history with two bakes, two cycles, repeated inits and exchanges. -/
example : run (fresh 6 "G")
    (Hist.ops { setters := [.setBrdf [0, 1, 2, 3, 4, 5] "m", .setAtt "a"], extraBakes := 1,
                cycles := [{ src := "s1", extraInits := 1, exchanges := [("p0", false)], lastPar := "p1", lastZero := true }],
                last := { src := "s2", extraInits := 0, exchanges := [], lastPar := "p2", lastZero := false } }) =
  run (fresh 6 "G") [.setBrdf [0, 1, 2, 3, 4, 5] "m", .setAtt "a", .bake, .init "s2", .exchange "p2" false true] :=
  config_determines 6 "G" _ (by decide)

end Sparrow.Props.C16

namespace Sparrow.Props.C16.ExchangeGlue
open Sparrow Sparrow.Generated.ExchangeGlue Sparrow.Generated.Kernels

/-- **`calculate_energy_exchange` as translated.**  There is a distance matrix `Dm`, equal to the centre distances
    on all patch pairs, such that: if a histogram is stored and `recalculate` is off, NOTHING changes; otherwise the
    histogram becomes the kernel's result for the arguments of this call (order < 1: the initial energy only) and
    the three stored parameters become the arguments of this call — all four together. -/
theorem calculateEnergyExchange_eq (P D B nVis : Nat) (pc : Nat → Nat → ℝ) (d0 : Nat → ℝ) (e0 : Nat → Nat → Nat → ℝ)
    (fft : Nat → Nat → Nat → Nat → ℝ) (p2o : Nat → Nat → Nat) (vp : Nat → Nat → Nat)
    (etc0 : Option (Nat → Nat → Nat → Nat → ℝ)) (dt0 c0 dur0 : Option ℝ) (c dt dur : ℝ) (K : Int) (recalc : Bool)
    (s0 s1 s2 s3 s4 s5 s6 s7 : Nat) (junk : Nat → Nat → ℝ) :
    ∃ Dm : Nat → Nat → ℝ, (∀ i j, i < P → j < P → Dm i j = exDist pc i j) ∧
      calculateEnergyExchange P 3 pc s0 d0 P D B e0 s1 s2 s3 s4 fft s5 s6 p2o nVis s7 vp P etc0 dt0 c0 dur0 c dt dur K recalc junk =
        if etc0.isNone = true ∨ recalc = true then
          (some (if K < 1 then energyExchangeInitEnergy (ToBin.floorNat (dur / dt)) P D B e0 s0 d0 c dt
                 else energyExchange (ToBin.floorNat (dur / dt)) P D B e0 s0 d0 P P Dm s1 s2 s3 s4 fft s5 s6 p2o c dt K.toNat nVis s7 vp),
           some dt, some c, some dur)
        else (etc0, dt0, c0, dur0) :=
  Sparrow.calculateEnergyExchange_eq P D B nVis pc d0 e0 fft p2o vp etc0 dt0 c0 dur0 c dt dur K recalc s0 s1 s2 s3 s4 s5 s6 s7 junk

end Sparrow.Props.C16.ExchangeGlue

namespace Sparrow.Props.C16.SetterGlue
open Sparrow Sparrow.Generated.SetterGlue

/-- what a successful `set_wall_brdf` returns, field by field -/
theorem setWallBrdf_some (rotate : (Nat → ℝ) → (Nat → ℝ) → C → C → C × C) (n : Nat) (wn wu : Nat → Nat → ℝ)
    (st st' : MatState ℝ C) (ws : List Nat) (fq : Nat × (Nat → ℝ)) (T : Nat → Nat → Nat → ℝ) (inc out : C)
    (ok1 ok2 : Bool) (e : Nat → Nat → Nat → Nat → ℝ)
    (h : setWallBrdf rotate n wn wu st ws fq T inc out ok1 ok2 e = some st') :
    ∃ len tabs idx,
      (if st.dirsIn.isNone = true then (some (0, e), some (fun _ => (-1 : Int))) else (st.brdf, st.index)) =
        (some (len, tabs), some idx) ∧
      st'.brdf = some (len + 1, fun k a b c => if k = len then T a b c * Real.pi else tabs k a b c) ∧
      st'.index = some (fun w => if w ∈ ws then ((len + 1 : Nat) : Int) - 1 else idx w) ∧
      checkSetFrequency st.frequencies fq = some st'.frequencies ∧ st'.att = st.att :=
  Sparrow.setWallBrdf_some rotate n wn wu st st' ws fq T inc out ok1 ok2 e h

/-- `set_air_attenuation` touches the attenuation (and fixes the frequencies on first use), nothing else -/
theorem setAirAttenuation_some (st st' : MatState ℝ C) (fq : Nat × (Nat → ℝ)) (a : Nat → ℝ)
    (h : setAirAttenuation st fq a = some st') :
    st'.att = some a ∧ st'.brdf = st.brdf ∧ st'.index = st.index ∧ st'.dirsIn = st.dirsIn ∧ st'.dirsOut = st.dirsOut ∧
      checkSetFrequency st.frequencies fq = some st'.frequencies :=
  Sparrow.setAirAttenuation_some st st' fq a h

end Sparrow.Props.C16.SetterGlue
