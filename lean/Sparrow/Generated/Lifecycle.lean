/- GENERATED placeholder -/
namespace Sparrow.Generated
end Sparrow.Generated
