import Sparrow.Model.Basic
import Sparrow.Model.Hist
import Sparrow.Model.Exchange
import Sparrow.Model.Collect
import Sparrow.Model.Vec
import Sparrow.Model.Bake
import Sparrow.Model.Source
