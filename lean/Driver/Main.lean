import Sparrow.Model.Collect
import Driver.Parse
open Sparrow Driver

def flat3 (P D S : Nat) (T : Tab3 Float) : Array Float := Id.run do
  let mut out := Array.mkEmpty (P * D * S)
  for j in [0:P] do
    for d in [0:D] do
      for t in [0:S] do
        out := out.push (lookup3 T j d t)
  pure out

/-- `exchange P D S K c dt npairs (a b)* dist0[P] distij[P*P] e0[P*D] fft[P*P*D] dir[P*P]` -/
def cmdExchange : P String := do
  let p ← nat; let d ← nat; let s ← nat; let k ← nat
  let c ← flt; let dt ← flt
  let np ← nat
  let pr ← nats (2 * np)
  let dist0 ← flts p
  let distij ← flts (p * p)
  let e0 ← flts (p * d)
  let fft ← flts (p * p * d)
  let dir ← nats (p * p)
  let pairs := (List.range np).map fun i => (pr[2 * i]!, pr[2 * i + 1]!)
  let sc : ExScene Float := {
    P := p, D := d, S := s, pairs := pairs
    bin0 := fun j => binFloor (dist0.getD j 0) c dt
    bin := fun i j => binFloor (distij.getD (i * p + j) 0) c dt
    e0 := fun j dd => e0.getD (j * d + dd) 0
    fft := fun i j dd => fft.getD ((i * p + j) * d + dd) 0
    dir := fun i j => dir.getD (i * p + j) 0 }
  if k ≥ 1 ∧ !sc.wf then return "err index_error"
  let T := if k = 0 then orderTab sc 0 else etcTab sc k
  return "ok " ++ fmtFloats (flat3 p d s T)

/-- `collect P S c dt att dist[P] E[P*S]` (one band) -/
def cmdCollect : P String := do
  let p ← nat; let s ← nat
  let c ← flt; let dt ← flt; let att ← flt
  let dist ← flts p
  let e ← flts (p * s)
  let f := collectF (fun i => binCeil (dist.getD i 0) c dt)
    (fun i => Float.exp (-att * dist.getD i 0))
    (fun i t => if t < s then e.getD (i * s + t) 0 else 0)
  let mut out := Array.mkEmpty (p * s)
  for i in [0:p] do
    for t in [0:s] do
      out := out.push (f i t)
  return "ok " ++ fmtFloats out

/-- `shift n S h[S]` / `roll n S h[S]` -/
def cmdShift (useRoll : Bool) : P String := do
  let n ← nat; let s ← nat
  let h ← flts s
  let r := if useRoll then roll n h.toList else shiftTrunc n h.toList
  return "ok " ++ fmtFloats r.toArray

def dispatch (cmd : String) : P String :=
  match cmd with
  | "exchange" => cmdExchange
  | "collect" => cmdCollect
  | "shift" => cmdShift false
  | "roll" => cmdShift true
  | "ping" => pure "ok pong"
  | _ => throw s!"unknown:{cmd}"

def runLine (line : String) : String :=
  let toks := (line.trimAscii.toString.splitOn " ").filter (· ≠ "") |>.toArray
  if toks.size = 0 then "err empty" else
  match (dispatch toks[0]!).run { toks := toks, pos := 1 } with
  | .ok (s, _) => s
  | .error e => "err parse " ++ e

partial def loop (hin : IO.FS.Stream) (hout : IO.FS.Stream) : IO Unit := do
  let line ← hin.getLine
  if line.isEmpty then return ()
  hout.putStrLn (runLine line)
  loop hin hout

def main : IO Unit := do
  let hin ← IO.getStdin
  let hout ← IO.getStdout
  loop hin hout
  hout.flush
