import Sparrow.Model.Collect
import Sparrow.Model.Bake
import Sparrow.Model.Source
import Driver.Parse
import Sparrow.Model.Lifecycle
import Sparrow.Model.Patches
import Sparrow.Model.Brdf
import Sparrow.Model.Frame
import Sparrow.Model.Kang
import Sparrow.Model.Directivity
import Sparrow.Model.PointPatch
import Sparrow.Model.Stokes
import Sparrow.Model.Visibility
import Sparrow.Model.Nusselt
import Sparrow.Model.Pipeline
import Sparrow.Generated.CheckParse
import Sparrow.Model.ShapeLife
import Sparrow.Model.KangPipeline
open Sparrow Driver

def flat3 (P D S : Nat) (T : Tab3 Float) : Array Float := Id.run do
  let mut out := Array.mkEmpty (P * D * S)
  for j in [0:P] do
    for d in [0:D] do
      for t in [0:S] do
        out := out.push (lookup3 T j d t)
  pure out

/-- `exchange P D S K c dt npairs (a b)* dist0[P] distij[P*P] e0[P*D] fft[P*P*D] dir[P*P]` -/
def cmdExchange : P String := do
  let p ← nat; let d ← nat; let s ← nat; let k ← nat
  let c ← flt; let dt ← flt
  let np ← nat
  let pr ← nats (2 * np)
  let dist0 ← flts p
  let distij ← flts (p * p)
  let e0 ← flts (p * d)
  let fft ← flts (p * p * d)
  let dir ← nats (p * p)
  let pairs := (List.range np).map fun i => (pr[2 * i]!, pr[2 * i + 1]!)
  let sc : ExScene Float := {
    P := p, D := d, S := s, pairs := pairs
    bin0 := fun j => binFloor (dist0.getD j 0) c dt
    bin := fun i j => binFloor (distij.getD (i * p + j) 0) c dt
    e0 := fun j dd => e0.getD (j * d + dd) 0
    fft := fun i j dd => fft.getD ((i * p + j) * d + dd) 0
    dir := fun i j => dir.getD (i * p + j) 0 }
  if k ≥ 1 ∧ !sc.wf then return "err index_error"
  let T := if k = 0 then orderTab sc 0 else etcTab sc k
  return "ok " ++ fmtFloats (flat3 p d s T)

/-- `collect P S c dt att dist[P] E[P*S]` (one band) -/
def cmdCollect : P String := do
  let p ← nat; let s ← nat
  let c ← flt; let dt ← flt; let att ← flt
  let dist ← flts p
  let e ← flts (p * s)
  let f := collectRollF s (fun i => binCeil (dist.getD i 0) c dt)
    (fun i => receiverWeight att (dist.getD i 0))
    (fun i t => if t < s then e.getD (i * s + t) 0 else 0)
  let mut out := Array.mkEmpty (p * s)
  for i in [0:p] do
    for t in [0:s] do
      out := out.push (f i t)
  return "ok " ++ fmtFloats out

/-- `shift n S h[S]` / `roll n S h[S]` -/
def cmdShift (useRoll : Bool) : P String := do
  let n ← nat; let s ← nat
  let h ← flts s
  let r := if useRoll then roll n h.toList else shiftTrunc n h.toList
  return "ok " ++ fmtFloats r.toArray


def vec3At (a : Array Float) (k : Nat) : Vec3 Float :=
  ⟨a.getD (3 * k) 0, a.getD (3 * k + 1) 0, a.getD (3 * k + 2) 0⟩

/-- gap between the smallest and the second smallest of `f 0 … f (n-1)` (∞ for n ≤ 1):
    the margin of a nearest-sample decision, reported so that the harness can set aside
    near-ties (GUARDED class). -/
def argminMargin (n : Nat) (f : Nat → Float) : Float := Id.run do
  let inf : Float := 1.0 / 0.0
  let mut best := inf
  let mut second := inf
  for k in [0:n] do
    let v := f k
    if v < best then
      second := best
      best := v
    else if v < second then
      second := v
  pure (second - best)

structure Geo where
  p : Nat
  d : Nat
  nIn : Nat
  w : Nat
  centers : Array Float
  wall : Array Nat
  tableIdx : Array Nat
  inDirs : Array Float
  outDirs : Array Float
  table : Array Float
  nT : Nat

/-- `P D nIn W nT centers[3P] wall[P] tableIdx[W] inDirs[W*nIn*3] outDirs[W*D*3] table[nT*nIn*D]` -/
def parseGeo : P Geo := do
  let p ← nat; let d ← nat; let nIn ← nat; let w ← nat; let nT ← nat
  let centers ← flts (3 * p)
  let wall ← nats p
  let tableIdx ← nats w
  let inDirs ← flts (w * nIn * 3)
  let outDirs ← flts (w * d * 3)
  let table ← flts (nT * nIn * d)
  pure { p, d, nIn, w, centers, wall, tableIdx, inDirs, outDirs, table, nT }

def Geo.scene (g : Geo) (area : Array Float) (f : Array Float) (vis : Array Nat)
    (hasTable : Bool) (att : Option Float) : BakeScene Float :=
  { P := g.p, D := g.d, nIn := g.nIn
    center := fun i => vec3At g.centers i
    area := fun i => area.getD i 0
    F := fun i j => f.getD (i * g.p + j) 0
    vis := fun i j => vis.getD (i * g.p + j) 0 != 0
    wall := fun i => g.wall.getD i 0
    tableIdx := fun w => g.tableIdx.getD w 0
    inDirs := fun w k => vec3At g.inDirs (w * g.nIn + k)
    outDirs := fun w k => vec3At g.outDirs (w * g.d + k)
    table := fun ti a b => g.table.getD ((ti * g.nIn + a) * g.d + b) 0
    hasTable := hasTable
    att := att }

/-- `bake <geo> hasTable hasAtt att area[P] F[P*P] vis[P*P]`
    → `ok fft[P*P*D] | outIdx[P*P] | marginIn[P*P] | marginOut[P*P]` -/
def cmdBake : P String := do
  let g ← parseGeo
  let hasTable ← nat; let hasAtt ← nat; let att ← flt
  let area ← flts g.p
  let f ← flts (g.p * g.p)
  let vis ← nats (g.p * g.p)
  let sc := g.scene area f vis (hasTable != 0) (if hasAtt != 0 then some att else none)
  let dOut := if hasTable != 0 then g.d else 1
  let mut fft := Array.mkEmpty (g.p * g.p * dOut)
  let mut oi := Array.mkEmpty (g.p * g.p)
  let mut mi := Array.mkEmpty (g.p * g.p)
  let mut mo := Array.mkEmpty (g.p * g.p)
  for i in [0:g.p] do
    for j in [0:g.p] do
      for dd in [0:dOut] do
        fft := fft.push (sc.fft i j dd)
      oi := oi.push (sc.outIdx i j)
      if sc.visSym i j && hasTable != 0 then
        let u := Vec3.normalize (Vec3.sub (sc.center i) (sc.center j))
        mi := mi.push (argminMargin g.nIn fun k => Vec3.sqDist (sc.inDirs (sc.wall j) k) u)
        let v := Vec3.normalize (Vec3.sub (sc.center j) (sc.center i))
        mo := mo.push (argminMargin g.d fun k => Vec3.sqDist (sc.outDirs (sc.wall i) k) v)
      else
        mi := mi.push (1.0 / 0.0)
        mo := mo.push (1.0 / 0.0)
  return "ok " ++ fmtFloats fft ++ " | " ++ fmtNats oi ++ " | " ++ fmtFloats mi ++ " | " ++ fmtFloats mo

/-- `adddir <geo> src[3] energy0[P]` → `ok e0dir[P*D] | margin[P]` -/
def cmdAddDir : P String := do
  let g ← parseGeo
  let src ← flts 3
  let e0 ← flts g.p
  let sc := g.scene #[] #[] #[] true none
  let s := vec3At src 0
  let mut out := Array.mkEmpty (g.p * g.d)
  let mut mg := Array.mkEmpty g.p
  for i in [0:g.p] do
    for dd in [0:g.d] do
      out := out.push (sc.addDirectional s (fun k => e0.getD k 0) i dd)
    let u := Vec3.normalize (Vec3.sub s (sc.center i))
    mg := mg.push (argminMargin g.nIn fun k => Vec3.sqDist (sc.inDirs (sc.wall i) k) u)
  return "ok " ++ fmtFloats out ++ " | " ++ fmtFloats mg

/-- `ridx <geo> r[3]` → `ok idx[P] | margin[P]` -/
def cmdRidx : P String := do
  let g ← parseGeo
  let r ← flts 3
  let sc := g.scene #[] #[] #[] true none
  let rv := vec3At r 0
  let mut out := Array.mkEmpty g.p
  let mut mg := Array.mkEmpty g.p
  for i in [0:g.p] do
    out := out.push (sc.receiverIdx rv i)
    let u := Vec3.normalize (Vec3.sub rv (sc.center i))
    mg := mg.push (argminMargin g.d fun k => Vec3.sqDist (sc.outDirs (sc.wall i) k) u)
  return "ok " ++ fmtNats out ++ " | " ++ fmtFloats mg

/-- `patchwise P D S c dt att dist[P] g[P] ridx[P] etc[P*D*S]` → `ok out[P*S]` (one band) -/
def cmdPatchwise : P String := do
  let p ← nat; let d ← nat; let s ← nat
  let c ← flt; let dt ← flt; let att ← flt
  let dist ← flts p
  let gw ← flts p
  let ridx ← nats p
  let e ← flts (p * d * s)
  let f := patchwiseCodeF s
    (fun j dd t => if dd < d ∧ t < s then e.getD ((j * d + dd) * s + t) 0 else 0)
    (fun j => ridx.getD j 0) (fun j => gw.getD j 0)
    (fun i => binCeil (dist.getD i 0) c dt)
    (fun i => receiverWeight att (dist.getD i 0))
  let mut out := Array.mkEmpty (p * s)
  for i in [0:p] do
    for t in [0:s] do
      out := out.push (f i t)
  return "ok " ++ fmtFloats out

/-- `direct r m c dt` → `ok value | bin` -/
def cmdDirect : P String := do
  let r ← flt; let m ← flt; let c ← flt; let dt ← flt
  return "ok " ++ hexOfFloat (directSound r m) ++ " | " ++ toString (binFloor r c dt)

/-- `srcenergy vis d hasAtt m pt` → `ok energy distance` -/
def cmdSrcEnergy : P String := do
  let vis ← nat; let d ← flt; let hasAtt ← nat; let m ← flt; let pt ← flt
  let att := if hasAtt != 0 then some m else none
  return "ok " ++ hexOfFloat (sourceEnergy (vis != 0) d att pt) ++ " " ++
    hexOfFloat (sourceDistance (vis != 0) d)

/-- `checkcfg <cfg tokens>`: model of `DirectionalRadiosityFast(**dict)`: conversions then `check()`. -/
def cmdCheckCfg : P String := do
  let c ← Sparrow.Generated.parseCfg
  match Sparrow.Generated.checkGen (Sparrow.Generated.convert c) with
  | .ok () => return "ok accepted"
  | .error e => return "err " ++ e.toString

open Sparrow.Life

partial def termStr : Term → String
  | .none => "~"
  | .inp s => s
  | .app f args => f ++ "(" ++ ",".intercalate (args.map termStr) ++ ")"

def stStr (s : St) : String :=
  let l (xs : Option (List Term)) : String := match xs with
    | none => "~"
    | some ts => "[" ++ "/".intercalate (ts.map termStr) ++ "]"
  let ix : String := match s.index with
    | none => "~"
    | some is => "[" ++ "/".intercalate (is.map toString) ++ "]"
  ";".intercalate [
    "freq=" ++ termStr s.freq, "brdf=[" ++ "/".intercalate (s.brdf.map termStr) ++ "]", "index=" ++ ix,
    "dirsIn=" ++ l s.dirsIn, "dirsOut=" ++ l s.dirsOut, "att=" ++ termStr s.att,
    "vis=" ++ termStr s.vis, "visible=" ++ termStr s.visible, "ff=" ++ termStr s.ff,
    "fft=" ++ termStr s.fft, "p2o=" ++ termStr s.p2o, "c=" ++ termStr s.c, "dt=" ++ termStr s.dt,
    "dur=" ++ termStr s.dur, "d0=" ++ termStr s.d0, "e0=" ++ termStr s.e0, "etc=" ++ termStr s.etc,
    "source=" ++ termStr s.source,
    "eff=[" ++ "/".intercalate ((effAll s).map termStr) ++ "]" ]

/-- `life W g nops (op…)*` with ops `B` | `I src` | `X par z r` | `S n w… mat` | `A a` | `R`
    → `ok state0 | state1 | …` (the state after construction and after every op). -/
def cmdLife : P String := do
  let w ← nat
  let g ← tok
  let n ← nat
  let mut s := fresh w g
  let mut out := #[stStr s]
  for _ in [0:n] do
    let k ← tok
    let op ← match k with
      | "B" => pure Op.bake
      | "I" => do let src ← tok; pure (Op.init src)
      | "X" => do
          let par ← tok; let z ← nat; let r ← nat
          pure (Op.exchange par (z != 0) (r != 0))
      | "S" => do
          let m ← nat
          let ws ← nats m
          let mat ← tok
          pure (Op.setBrdf ws.toList mat)
      | "A" => do let a ← tok; pure (Op.setAtt a)
      | "R" => pure Op.saveRestore
      | _ => throw s!"op:{k}"
    s := step s op
    out := out.push (stStr s)
  return "ok " ++ " | ".intercalate out.toList

/-- `shapelife W nv P nIds ids… nOps ops…` → per step the abstract saved dictionary (`printCfg`)
    and whether the restore is accepted, or `fail` (the history ends there).
    ops: `S m w… nIn nOut fn ftag | A fn ftag | B nVisible | I | X c(num den) dt(num den) dur(num den) order recalc | R` -/
def cmdShapeLife : P String := do
  let w ← nat; let nv ← nat; let p ← nat
  let nIds ← nat
  let ids ← many nIds int
  let n ← nat
  let mut s := Sparrow.Shape.fresh w nv p ids.toList
  let show1 := fun (t : Sparrow.Shape.St) =>
    Sparrow.Generated.printCfg (Sparrow.Shape.toCfg t) ++ " # " ++ (if Sparrow.Shape.accepted t then "1" else "0")
  let mut out := #[show1 s]
  let mut dead := false
  for _ in [0:n] do
    let k ← tok
    let op ← match k with
      | "B" => do let nvis ← nat; pure (Sparrow.Shape.Op.bake nvis)
      | "I" => pure Sparrow.Shape.Op.init
      | "X" => do
          let c ← Sparrow.Generated.pRat; let dt ← Sparrow.Generated.pRat; let dur ← Sparrow.Generated.pRat
          let k ← int; let r ← nat
          pure (Sparrow.Shape.Op.exchange c dt dur k (r != 0))
      | "S" => do
          let m ← nat
          let ws ← nats m
          let nIn ← nat; let nOut ← nat; let fn ← nat; let ft ← nat
          pure (Sparrow.Shape.Op.setBrdf ws.toList nIn nOut ⟨fn, ft⟩)
      | "A" => do let fn ← nat; let ft ← nat; pure (Sparrow.Shape.Op.setAtt ⟨fn, ft⟩)
      | "R" => pure Sparrow.Shape.Op.saveRestore
      | _ => throw s!"op:{k}"
    if !dead then
      match Sparrow.Shape.step s op with
      | some t => s := t; out := out.push (show1 t)
      | none => dead := true; out := out.push "fail"
  return "ok " ++ " | ".intercalate out.toList

instance : NatCast Float := ⟨Float.ofNat⟩

/-- `patches p wall[12]` → `ok nx ny xIdx yIdx | coords[nx*ny*12]` or `err other` -/
def cmdPatches : P String := do
  let p ← flt
  let wl ← flts 12
  let w : Quad Float := fun v a => wl.getD (3 * v + a) 0
  match grid w p with
  | none => return "err other"
  | some g =>
    let n := totalPatches g
    let mut out := Array.mkEmpty (n * 12)
    for k in [0:n] do
      let q := patchOf w g k
      for v in [0:4] do
        for a in [0:3] do
          out := out.push (q v a)
    return s!"ok {g.nx} {g.ny} {g.xIdx} {g.yIdx} | " ++ fmtFloats out

/-- `wallof ncounts counts… k` → `ok wall` -/
def cmdWallOf : P String := do
  let n ← nat
  let cs ← nats n
  let k ← nat
  return s!"ok {wallOfPatch cs.toList k}"

/-- `brdfscat n s a cos[n] w[n] mir[n]` → `ok brdf[n*n]` -/
def cmdBrdfScat : P String := do
  let n ← nat; let s ← flt; let a ← flt
  let cs ← flts n; let w ← flts n; let mir ← nats n
  let mut out := Array.mkEmpty (n * n)
  for i in [0:n] do
    for o in [0:n] do
      out := out.push (brdfScattering n (fun k => cs.getD k 0) (fun k => w.getD k 0) (fun k => mir.getD k 0) s a i o)
  return "ok " ++ fmtFloats out

/-- `brdfdir n a cos[n] w[n] sd[n*n]` → `ok brdf[n*n]` -/
def cmdBrdfDir : P String := do
  let n ← nat; let a ← flt
  let cs ← flts n; let w ← flts n; let sd ← flts (n * n)
  let mut out := Array.mkEmpty (n * n)
  for i in [0:n] do
    for o in [0:n] do
      out := out.push (brdfDirectional n (fun k => cs.getD k 0) (fun k => w.getD k 0) (fun i o => sd.getD (i * n + o) 0) a i o)
  return "ok " ++ fmtFloats out

/-- `nearestidx n m dirs[n*3] queries[m*3]` → `ok idx[m] | margin[m]` (first minimum of the squared distance) -/
def cmdNearest : P String := do
  let n ← nat; let m ← nat
  let ds ← flts (3 * n); let qs ← flts (3 * m)
  let mut out := Array.mkEmpty m
  let mut mg := Array.mkEmpty m
  for k in [0:m] do
    let q := vec3At qs k
    out := out.push (nearest (fun j => vec3At ds j) n q)
    mg := mg.push (argminMargin n fun j => Vec3.sqDist (vec3At ds j) q)
  return "ok " ++ fmtNats out ++ " | " ++ fmtFloats mg

/-- `frame n[3] u[3] m dirs[m*3]` → `ok rotated[m*3]` -/
def cmdFrame : P String := do
  let nv ← flts 3; let uv ← flts 3
  let m ← nat
  let ds ← flts (3 * m)
  let mut out := Array.mkEmpty (3 * m)
  for k in [0:m] do
    let r := rotateToWall (vec3At nv 0) (vec3At uv 0) (vec3At ds k)
    out := out.push r.x |>.push r.y |>.push r.z
  return "ok " ++ fmtFloats out

/-- `kangff orth sc[3] rc[3] ns[3] nr[3] dd` | `kangff par sc[3] rc[3] wd[3] dd` → `ok value` -/
def cmdKangFF : P String := do
  let kind ← tok
  if kind == "orth" then
    let sc ← flts 3; let rc ← flts 3; let ns ← flts 3; let nr ← flts 3; let dd ← flt
    return "ok " ++ hexOfFloat (kangFFOrth (vec3At sc 0) (vec3At rc 0) (vec3At ns 0) (vec3At nr 0) dd 1e-5 1e-12)
  else
    let sc ← flts 3; let rc ← flts 3; let wd ← flts 3; let dd ← flt
    match kangFFPar (vec3At sc 0) (vec3At rc 0) (vec3At wd 0) dd 1e-5 with
    | some v => return "ok " ++ hexOfFloat v
    | none => return "err assertion"

/-- `kanginit dl dm dn ddl ddm sx sy sz power alpha dist att` → `ok value` -/
def cmdKangInit : P String := do
  let a ← flts 12
  let g := fun i => a.getD i 0
  return "ok " ++ hexOfFloat (kangInit (g 0) (g 1) (g 2) (g 3) (g 4) (g 5) (g 6) (g 7) (g 8) (g 9) (g 10) (g 11) 1e-11)

/-- `kanginitp normal[3] center[3] size[3] src[3] power alpha att` → `ok value` -/
def cmdKangInitP : P String := do
  let n ← flts 3; let c ← flts 3; let sz ← flts 3; let sr ← flts 3
  let power ← flt; let alpha ← flt; let att ← flt
  return "ok " ++ hexOfFloat (kangInitPatch (vec3At n 0) (vec3At c 0) (vec3At sz 0) (vec3At sr 0) power alpha att 0.99 1e-11)

/-- `kangrun P S K c fs m wall[P] dist0[P] e0[P] dist[P*P] ff[P*P] refl[P]`
    → `ok H[(K+1)*P*S]` (order-major) -/
def cmdKangRun : P String := do
  let p ← nat; let s ← nat; let k ← nat
  let c ← flt; let fs ← flt; let m ← flt
  let wall ← nats p
  let dist0 ← flts p; let e0 ← flts p
  let dist ← flts (p * p); let ff ← flts (p * p); let refl ← flts p
  let ks : KangScene Float := {
    P := p, S := s, wall := fun i => wall.getD i 0
    bin0 := fun j => binKang (dist0.getD j 0) c fs
    bin := fun i j => binKang (dist.getD (i * p + j) 0) c fs
    e0 := fun j => e0.getD j 0
    ff := fun i j => ff.getD (i * p + j) 0
    refl := fun j => refl.getD j 0
    attw := fun i j => Float.exp (-m * dist.getD (i * p + j) 0) }
  let sc := ks.toEx
  let mut out := Array.mkEmpty ((k + 1) * p * s)
  for kk in [0:k+1] do
    let T := orderTab sc kk
    for j in [0:p] do
      for t in [0:s] do
        out := out.push (lookup3 T j 0 t)
  return "ok " ++ fmtFloats out

/-- `kangrecv P S K c fs m recv[3] centers[3P] normals[3P] H[(K+1)*P*S]` → `ok response[S]` -/
def cmdKangRecv : P String := do
  let p ← nat; let s ← nat; let k ← nat
  let c ← flt; let fs ← flt; let m ← flt
  let rv ← flts 3
  let cs ← flts (3 * p); let ns ← flts (3 * p)
  let h ← flts ((k + 1) * p * s)
  let r := vec3At rv 0
  let f := kangReceiverOf p k (fun kk j t => if t < s then h.getD ((kk * p + j) * s + t) 0 else 0)
    (fun j => binKang (Vec3.norm (Vec3.sub (vec3At cs j) r)) c fs)
    (fun j => kangRecvFactor (vec3At ns j) (vec3At cs j) r m)
  let mut out := Array.mkEmpty s
  for t in [0:s] do
    out := out.push (f t)
  return "ok " ++ fmtFloats out

/-- `metrics pos[3] view[3] up[3] target[3]` → `ok az el | dir[3] | cart_from_angles[3]` -/
def cmdMetrics : P String := do
  let a ← flts 12
  let pos := vec3At a 0; let view := vec3At a 1; let up := vec3At a 2; let tg := vec3At a 3
  let (az, el) := metricsAngles pos view up tg
  let d := metricsDir pos view up tg
  let c := sphToCart Float.cos Float.sin az el
  return "ok " ++ fmtFloats #[az, el] ++ " | " ++ fmtFloats #[d.x, d.y, d.z] ++ " | " ++ fmtFloats #[c.x, c.y, c.z]

/-- `dirfactor nDir nFreq dirs[3*nDir] freqs[nFreq] table[nDir*nFreq] pos view up target f`
    → `ok value | dirIndex freqIndex | margin` -/
def cmdDirFactor : P String := do
  let nd ← nat; let nf ← nat
  let ds ← flts (3 * nd); let fr ← flts nf; let tb ← flts (nd * nf)
  let a ← flts 12; let f ← flt
  let pos := vec3At a 0; let view := vec3At a 1; let up := vec3At a 2; let tg := vec3At a 3
  let u := metricsDir pos view up tg
  let di := nearest (fun k => vec3At ds k) nd u
  let fi := nearestFreq nf (fun k => fr.getD k 0) f
  let v := directivityFactor nd nf (fun k => vec3At ds k) (fun k => fr.getD k 0) (fun i j => tb.getD (i * nf + j) 0) pos view up tg f
  let mg := argminMargin nd fun k => Vec3.sqDist (vec3At ds k) u
  return "ok " ++ hexOfFloat v ++ s!" | {di} {fi} | " ++ hexOfFloat mg

/-- `ptsol mode n point[3] pts[3n]` (mode 0 = source, 1 = receiver) → `ok value | minimal |1-|cos|| of the angles` -/
def cmdPtSol : P String := do
  let mode ← nat; let n ← nat
  let x ← flts 3; let ps ← flts (3 * n)
  let pts := fun i => vec3At ps i
  let v := if mode = 0 then ptSource 1e-10 (vec3At x 0) pts n else ptReceiver 1e-10 (vec3At x 0) pts n
  -- conditioning of arccos: distance of each cosine from ±1
  let mut mg : Float := 1.0
  for i in [0:n] do
    let s := onSphere (vec3At x 0) pts
    let v0 := sphereTangent 1e-10 (s i) (s ((i + n - 1) % n))
    let v1 := sphereTangent 1e-10 (s i) (s ((i + 1) % n))
    let c := Float.abs (Vec3.dot v0 v1)
    if 1.0 - c < mg then mg := 1.0 - c
  return "ok " ++ hexOfFloat v ++ " | " ++ hexOfFloat mg

/-- `stokes ni nj area pi[3ni] pj[3nj]` → `ok value | integrator(0 nusselt,1 stokes) | min margin of the extent cut-off` -/
def cmdStokes : P String := do
  let ni ← nat; let nj ← nat; let area ← flt
  let a ← flts (3 * ni); let b ← flts (3 * nj)
  let pi := fun i => vec3At a i
  let pj := fun j => vec3At b j
  let v := stokesFF 1e-3 pi pj ni nj area
  let integ := if chooseIntegrator 1e-6 pi pj ni nj == Integrator.nusselt then 0 else 1
  -- margin: how close any edge extent is to the 1e-3 cut-off
  let mut mg : Float := 1.0
  for dim in [0:3] do
    for e in [0:ni] do
      let d := Float.abs (Float.abs (bcoord pi ni (conn ni e 4) dim - bcoord pi ni (conn ni e 0) dim) - 1e-3)
      if d < mg then mg := d
    for e in [0:nj] do
      let d := Float.abs (Float.abs (bcoord pj nj (conn nj e 4) dim - bcoord pj nj (conn nj e 0) dim) - 1e-3)
      if d < mg then mg := d
  return "ok " ++ hexOfFloat v ++ s!" | {integ} | " ++ hexOfFloat mg

/-- `boole x[5] y[5]` → `ok value` -/
def cmdBoole : P String := do
  let x ← flts 5; let y ← flts 5
  return "ok " ++ hexOfFloat (boole (fun k => x.getD k 0) (fun k => y.getD k 0))

/-- `bsample n el[3n]` → `ok pts[4n*3] | conn[n*5]` -/
def cmdBSample : P String := do
  let n ← nat
  let a ← flts (3 * n)
  let el := fun i => vec3At a i
  let mut out := Array.mkEmpty (12 * n)
  for k in [0:4*n] do
    let p := bpoint el n k
    out := out.push p.x |>.push p.y |>.push p.z
  let mut cn := Array.mkEmpty (5 * n)
  for e in [0:n] do
    for k in [0:5] do
      cn := cn.push (conn n e k)
  return "ok " ++ fmtFloats out ++ " | " ++ fmtNats cn

/-- `basicvis a[3] b[3] n normal[3] pts[3n]` → `ok flag aIn bIn` -/
def cmdBasicVis : P String := do
  let a ← flts 3; let b ← flts 3
  let n ← nat
  let nv ← flts 3
  let ps ← flts (3 * n)
  let poly := fun i => vec3At ps i
  let f := basicVisibility 1e-6 (vec3At a 0) (vec3At b 0) poly n (vec3At nv 0)
  let ai := pointInPolygon 1e-6 (vec3At a 0) poly n (vec3At nv 0)
  let bi := pointInPolygon 1e-6 (vec3At b 0) poly n (vec3At nv 0)
  return s!"ok {if f then 1 else 0} {if ai then 1 else 0} {if bi then 1 else 0}"

/-- `visscan a[3] b[3] nSurf nPts normals[3*nSurf] pts[3*nSurf*nPts]` → `ok flag` -/
def cmdVisScan : P String := do
  let a ← flts 3; let b ← flts 3
  let ns ← nat; let np ← nat
  let nv ← flts (3 * ns)
  let ps ← flts (3 * ns * np)
  let f := visibleThroughAll 1e-6 (vec3At a 0) (vec3At b 0) ns (fun s i => vec3At ps (s * np + i)) np (fun s => vec3At nv s)
  return s!"ok {if f then 1 else 0}"

/-- `rotmat n[3]` → `ok m[9]` -/
def cmdRotMat : P String := do
  let nv ← flts 3
  let m := rotationToZ (vec3At nv 0)
  return "ok " ++ fmtFloats #[m.r0.x, m.r0.y, m.r0.z, m.r1.x, m.r1.y, m.r1.z, m.r2.x, m.r2.y, m.r2.z]

/-- `polyinfo n pts[3n]` → `ok area | center[3]` -/
def cmdPolyInfo : P String := do
  let n ← nat
  let ps ← flts (3 * n)
  let pts := fun i => vec3At ps i
  let c := polygonCenter pts n
  return "ok " ++ hexOfFloat (polygonArea pts n) ++ " | " ++ fmtFloats #[c.x, c.y, c.z]

/-- `universal ni nj area nrmI[3] nrmJ[3] pi[3ni] pj[3nj]` → `ok value | integrator` -/
def cmdUniversal : P String := do
  let ni ← nat; let nj ← nat; let area ← flt
  let a ← flts 3; let b ← flts 3
  let pa ← flts (3 * ni); let pb ← flts (3 * nj)
  let pi := fun i => vec3At pa i
  let pj := fun j => vec3At pb j
  let v := universalFF pi ni (vec3At a 0) area pj nj (vec3At b 0)
  let integ := if chooseIntegrator (1e-6 : Float) pi pj ni nj == Integrator.nusselt then 0 else 1
  return "ok " ++ hexOfFloat v ++ s!" | {integ}"

/-- `nanalog n origin[3] sn[3] pn[3] pts[3n]` → `ok value` -/
def cmdNAnalog : P String := do
  let n ← nat
  let o ← flts 3; let sn ← flts 3; let pn ← flts 3
  let ps ← flts (3 * n)
  return "ok " ++ hexOfFloat (nusseltAnalog (vec3At o 0) (vec3At sn 0) (fun i => vec3At ps i) n (vec3At pn 0))

/-- `surfsamples nv npoints el[3nv]` → `ok count | pts[3*count]` -/
def cmdSurfSamples : P String := do
  let nv ← nat; let np ← nat
  let ps ← flts (3 * nv)
  let l := surfSamples (fun i => vec3At ps i) nv np
  let mut out := Array.mkEmpty (3 * l.length)
  for p in l do
    out := out.push p.x |>.push p.y |>.push p.z
  return s!"ok {l.length} | " ++ fmtFloats out

/-- `pipeline W patchSize wallPts[W*12] normals[W*3] ups[W*3] nIn nOut nT refIn[3nIn] refOut[3nOut]
     tableIdx[W] table[nT*nIn*nOut] att c dt S K src[3] recv[3]`
    → `ok P D | pairs… | mono[S] | e0[P*D] | F[P*P] | etc[P*D*S]`  (one band, materials and attenuation set) -/
def cmdPipeline : P String := do
  let w ← nat
  let ps ← flt
  let wp ← flts (w * 12); let wn ← flts (w * 3); let wu ← flts (w * 3)
  let nIn ← nat; let nOut ← nat; let nT ← nat
  let ri ← flts (3 * nIn); let ro ← flts (3 * nOut)
  let ti ← nats w
  let tb ← flts (nT * nIn * nOut)
  let att ← flt; let c ← flt; let dt ← flt
  let sN ← nat; let k ← nat
  let sv ← flts 3; let rv ← flts 3
  let room : Room Float := { W := w, wallPts := fun a v => vec3At wp (a * 4 + v), wallNormal := fun a => vec3At wn a,
                             wallUp := fun a => vec3At wu a, patchSize := ps }
  let mat : Materials Float := { nIn := nIn, nOut := nOut, refIn := fun i => vec3At ri i, refOut := fun i => vec3At ro i,
                                 tableIdx := fun a => ti.getD a 0,
                                 table := fun t a b => tb.getD ((t * nIn + a) * nOut + b) 0, att := some att }
  match runPipeline (1e-6 : Float) 1e-10 room mat { c := c, dt := dt, S := sN, K := k } (vec3At sv 0) (vec3At rv 0) with
  | none => return "err other"
  | some r =>
    let pr := " ".intercalate (r.pairs.map fun p => s!"{p.1} {p.2}")
    let mut e0 := Array.mkEmpty (r.P * r.D)
    for j in [0:r.P] do
      for d in [0:r.D] do
        e0 := e0.push (lookup2 r.e0 j d)
    let mut ff := Array.mkEmpty (r.P * r.P)
    for i in [0:r.P] do
      for j in [0:r.P] do
        ff := ff.push (lookup2 r.F i j)
    return s!"ok {r.P} {r.D} | " ++ pr ++ " | " ++ fmtFloats r.mono ++ " | " ++ fmtFloats e0 ++ " | " ++
      fmtFloats ff ++ " | " ++ fmtFloats (flat3 r.P r.D sN r.etc)

/-- `kangpipe W patch wallPts[12W] wallNormals[3W] absorption[W] scattering[W] att[W] c fs S K power src[3] recv[3]`
    → `ok P | ff[P*P] | e0[P] | bin0[P] | orders[(K+1)*P*S] | response[S] | directBin directVal | full[S] or -`
    or `err other` where the implementation raises -/
def cmdKangPipe : P String := do
  let w ← nat
  let ps ← flt
  let wp ← flts (w * 12); let wn ← flts (w * 3)
  let ab ← flts w; let sca ← flts w; let atn ← flts w
  let c ← flt; let fs ← flt
  let sN ← nat; let k ← nat
  let power ← flt
  let sv ← flts 3; let rv ← flts 3
  let room : KRoom Float := { W := w, wallPts := fun a v => vec3At wp (a * 4 + v), wallNormal := fun a => vec3At wn a,
                              patchSize := ps, absorption := fun a => ab.getD a 0, scattering := fun a => sca.getD a 0,
                              att := fun a => atn.getD a 0 }
  match runKang (1e-5 : Float) 1e-12 0.99 1e-11 room { c := c, fs := fs, S := sN, K := k, power := power } (vec3At sv 0) (vec3At rv 0) with
  | none => return "err other"
  | some r =>
    let mut ff := Array.mkEmpty (r.P * r.P)
    for i in [0:r.P] do
      for j in [0:r.P] do
        ff := ff.push (lookup2 r.ff i j)
    let mut od := Array.mkEmpty ((k + 1) * r.P * sN)
    for kk in [0:k+1] do
      let T := r.orders.getD kk (tabulate3 0 0 0 fun _ _ _ => 0)
      for j in [0:r.P] do
        for t in [0:sN] do
          od := od.push (lookup3 T j 0 t)
    let full := match r.full with
      | some a => fmtFloats a
      | none => "-"
    return s!"ok {r.P} | " ++ fmtFloats ff ++ " | " ++ fmtFloats r.e0 ++ " | " ++ fmtNats r.bin0 ++ " | " ++
      fmtFloats od ++ " | " ++ fmtFloats r.response ++ s!" | {r.directBin} " ++ hexOfFloat r.directVal ++ " | " ++ full

/-- `kangffarr sc[3] rc[3] ns[3] nr[3] size[3]` → `ok value` (one entry of `patch2patch_ff_kang`) -/
def cmdKangFFArr : P String := do
  let a ← flts 15
  return "ok " ++ hexOfFloat (kangFFArr (vec3At a 0) (vec3At a 1) (vec3At a 2) (vec3At a 3) (vec3At a 4) 1e-5 1e-12)

/-- `kangrecvf normal[3] center[3] recv[3] m` → `ok value` (equation 20 weight) -/
def cmdKangRecvF : P String := do
  let a ← flts 9; let m ← flt
  return "ok " ++ hexOfFloat (kangRecvFactor (vec3At a 0) (vec3At a 1) (vec3At a 2) m)

def dispatch (cmd : String) : P String :=
  match cmd with
  | "exchange" => cmdExchange
  | "collect" => cmdCollect
  | "bake" => cmdBake
  | "adddir" => cmdAddDir
  | "ridx" => cmdRidx
  | "patchwise" => cmdPatchwise
  | "direct" => cmdDirect
  | "checkcfg" => cmdCheckCfg
  | "life" => cmdLife
  | "shapelife" => cmdShapeLife
  | "patches" => cmdPatches
  | "brdfscat" => cmdBrdfScat
  | "frame" => cmdFrame
  | "kangff" => cmdKangFF
  | "kangffarr" => cmdKangFFArr
  | "kangrecvf" => cmdKangRecvF
  | "metrics" => cmdMetrics
  | "ptsol" => cmdPtSol
  | "polyinfo" => cmdPolyInfo
  | "stokes" => cmdStokes
  | "universal" => cmdUniversal
  | "pipeline" => cmdPipeline
  | "kangpipe" => cmdKangPipe
  | "nanalog" => cmdNAnalog
  | "surfsamples" => cmdSurfSamples
  | "basicvis" => cmdBasicVis
  | "visscan" => cmdVisScan
  | "rotmat" => cmdRotMat
  | "boole" => cmdBoole
  | "bsample" => cmdBSample
  | "dirfactor" => cmdDirFactor
  | "kanginit" => cmdKangInit
  | "kangrun" => cmdKangRun
  | "kanginitp" => cmdKangInitP
  | "kangrecv" => cmdKangRecv
  | "brdfdir" => cmdBrdfDir
  | "nearestidx" => cmdNearest
  | "wallof" => cmdWallOf
  | "srcenergy" => cmdSrcEnergy
  | "shift" => cmdShift false
  | "roll" => cmdShift true
  | "ping" => pure "ok pong"
  | _ => throw s!"unknown:{cmd}"

def runLine (line : String) : String :=
  let toks := (line.trimAscii.toString.splitOn " ").filter (· ≠ "") |>.toArray
  if toks.size = 0 then "err empty" else
  match (dispatch toks[0]!).run { toks := toks, pos := 1 } with
  | .ok (s, _) => s
  | .error e => "err parse " ++ e

partial def loop (hin : IO.FS.Stream) (hout : IO.FS.Stream) : IO Unit := do
  let line ← hin.getLine
  if line.isEmpty then return ()
  hout.putStrLn (runLine line)
  loop hin hout

def main : IO Unit := do
  let hin ← IO.getStdin
  let hout ← IO.getStdout
  loop hin hout
  hout.flush
