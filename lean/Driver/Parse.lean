/-
  Line protocol helpers (no Mathlib): tokens are separated by single blanks;
  integers are decimal, floats are the 16-hex-digit bit pattern of the IEEE double.
-/
namespace Driver

def hexVal (c : Char) : Option Nat :=
  if '0' ≤ c ∧ c ≤ '9' then some (c.toNat - '0'.toNat)
  else if 'a' ≤ c ∧ c ≤ 'f' then some (c.toNat - 'a'.toNat + 10)
  else if 'A' ≤ c ∧ c ≤ 'F' then some (c.toNat - 'A'.toNat + 10)
  else none

def parseHex (s : String) : Option Nat :=
  s.foldl (fun acc c => match acc, hexVal c with
    | some a, some v => some (a * 16 + v)
    | _, _ => none) (some 0)

def floatOfHex (s : String) : Option Float :=
  if s.length ≠ 16 then none else (parseHex s).map fun n => Float.ofBits n.toUInt64

def hexDigit (n : Nat) : Char :=
  if n < 10 then Char.ofNat ('0'.toNat + n) else Char.ofNat ('a'.toNat + n - 10)

def hexOfFloat (x : Float) : String :=
  let n := x.toBits.toNat
  String.ofList ((List.range 16).map fun i => hexDigit ((n / 16 ^ (15 - i)) % 16))

structure Cur where
  toks : Array String
  pos : Nat := 0

abbrev P := StateT Cur (Except String)

def tok : P String := do
  let c ← get
  if h : c.pos < c.toks.size then
    set { c with pos := c.pos + 1 }
    pure c.toks[c.pos]
  else throw "eof"

def nat : P Nat := do
  let t ← tok
  match t.toNat? with
  | some n => pure n
  | none => throw s!"nat:{t}"

def int : P Int := do
  let t ← tok
  match t.toInt? with
  | some n => pure n
  | none => throw s!"int:{t}"

def flt : P Float := do
  let t ← tok
  match floatOfHex t with
  | some x => pure x
  | none => throw s!"float:{t}"

def many {β : Type} (n : Nat) (p : P β) : P (Array β) := do
  let mut out := Array.mkEmpty n
  for _ in [0:n] do
    out := out.push (← p)
  pure out

def flts (n : Nat) : P (Array Float) := many n flt
def nats (n : Nat) : P (Array Nat) := many n nat

def atEnd : P Bool := do
  let c ← get
  pure (c.pos ≥ c.toks.size)

def fmtFloats (xs : Array Float) : String :=
  " ".intercalate (xs.toList.map hexOfFloat)

def fmtNats (xs : Array Nat) : String :=
  " ".intercalate (xs.toList.map toString)

end Driver
